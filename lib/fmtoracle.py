"""Oracles for the output forms of a message (C13 / C14), evaluated on the implementation's
`json` / `text` / `bin` lines with Python's own json, ipaddress and datetime — nothing here comes
from the Lean formatter model."""
import json, ipaddress, datetime, re


def unhex(h):
    return b"" if h == "-" else bytes.fromhex(h)


def forms(block):
    """[(json bytes, valid flag, text bytes, bin bytes, split flag)] per message of the block"""
    out, cur = [], {}
    for l in block:
        ws = l.split(" ")
        if ws[0] == "json":
            cur = {"json": unhex(ws[1]), "valid": ws[2]}
        elif ws[0] == "text":
            cur["text"] = unhex(ws[1])
        elif ws[0] == "bin":
            cur["bin"] = unhex(ws[1])
            cur["split"] = ws[2]
        elif ws[0] == "key":
            cur["key"] = unhex(ws[1])
            out.append(cur)
            cur = {}
        elif ws[0] == "fmt-error":
            out.append({"error": l})
    return out


def pairs(js):
    """ordered (key, value) pairs of a JSON object; None when Python's parser rejects it"""
    try:
        return json.loads(js.decode("utf-8", errors="surrogateescape").encode("utf-8", errors="replace").decode("utf-8", errors="replace"),
                          object_pairs_hook=lambda ps: ps)
    except Exception:
        return None


def varint(b, i):
    v, sh = 0, 0
    while True:
        x = b[i]
        i += 1
        v |= (x & 0x7F) << sh
        sh += 7
        if x < 0x80:
            return v, i


def pbfields(frame):
    """strip the length prefix, return [(num, wiretype, value)]"""
    n, i = varint(frame, 0)
    body = frame[i:i + n]
    out, i = [], 0
    while i < len(body):
        tag, i = varint(body, i)
        num, wt = tag >> 3, tag & 7
        if wt == 0:
            v, i = varint(body, i)
        elif wt == 2:
            ln, i = varint(body, i)
            v = body[i:i + ln]
            i += ln
        elif wt == 1:
            v = body[i:i + 8]
            i += 8
        elif wt == 5:
            v = body[i:i + 4]
            i += 4
        else:
            raise ValueError("wire type %d" % wt)
        out.append((num, wt, v))
    return out


def squash(s):
    return re.sub("�+", "�", s)


def textval(v):
    if isinstance(v, str):
        return v
    if isinstance(v, bool):
        return "true" if v else "false"
    if isinstance(v, list):
        return "[" + ",".join(textval(x) for x in v) + "]"
    return str(v)


def check(ws, block):
    fs = forms(block)
    if ws[0] == "@fmt":
        if not fs and any(l.startswith("msg") for l in block):
            return "no output forms reported"
        for i, f in enumerate(fs):
            if "error" in f:
                return "message %d: a Marshal method returned an error: %s" % (i, f["error"])
            if f.get("valid") != "valid=1":
                return "message %d: the JSON form is not valid JSON: %r" % (i, f["json"][:300])
            ps = pairs(f["json"])
            if ps is None or not isinstance(ps, list):
                return "message %d: the JSON form is not one JSON object: %r" % (i, f["json"][:300])
            if f.get("split") != "split=ok":
                return "message %d: a stream of two binary frames does not read back as two equal messages" % i
        return None
    if not fs:
        return None if ws[0] == "@agree" and not any(l.startswith("msg") for l in block) else "no output forms reported"
    f = fs[0]
    ps = pairs(f.get("json", b""))
    if ps is None:
        return "the JSON form is not valid JSON: %r" % f.get("json", b"")[:300]
    if ws[0] == "@jsonkeys":
        want = [unhex(k).decode() for k in ws[1].split(",")] if len(ws) > 1 and ws[1] else []
        got = [k for k, _ in ps]
        return None if got == want else "JSON keys %s, configured fields carried by this flow %s" % (got, want)
    d = dict(ps)
    if ws[0] == "@pbnum":
        pb = pbfields(f["bin"])
        for item in ws[1:]:
            kh, num, mode = item.split(":")
            k, num = unhex(kh).decode(), int(num)
            if k not in d:
                return "JSON has no key %s" % k
            vals = [(wt, v) for (n, wt, v) in pb if n == num]
            if mode == "s":
                want = vals[-1][1] if vals else 0
            elif mode == "a":
                want = [v for _, v in vals]
            else:
                want = []
                for wt, v in vals:
                    if wt == 2:
                        i = 0
                        while i < len(v):
                            x, i = varint(v, i)
                            want.append(x)
                    else:
                        want.append(v)
            if d[k] != want:
                return "key %s: JSON says %r, protobuf field %d says %r" % (k, d[k], num, want)
        return None
    if ws[0] == "@render":
        for item in ws[1:]:
            kh, spec = item.split("=", 1)
            k = unhex(kh).decode()
            kind, raw = spec.split(":", 1)
            if k not in d:
                return "JSON has no key %s" % k
            got = d[k]
            if kind == "ip":
                b = unhex(raw)
                if len(b) not in (4, 16):
                    want = [""]
                else:
                    a = ipaddress.ip_address(b)
                    want = [str(a)]
                    if len(b) == 16 and a.ipv4_mapped is not None:
                        want.append("::ffff:" + str(a.ipv4_mapped))
                if got not in want:
                    return "key %s: address %s rendered as %r, expected %s" % (k, raw, got, want[-1])
            elif kind == "mac":
                n = int(raw) & (2 ** 48 - 1)
                want = ":".join("%02x" % ((n >> (8 * (5 - i))) & 0xFF) for i in range(6))
                if got != want:
                    return "key %s: MAC %s rendered as %r, expected %s" % (k, raw, got, want)
            elif kind in ("dt", "dtn"):
                n = int(raw)
                sec, ns = (n, 0) if kind == "dt" else (n // 10 ** 9, n % 10 ** 9)
                if n >= 2 ** 63 or sec > 253402300799:
                    continue
                t = datetime.datetime(1970, 1, 1) + datetime.timedelta(seconds=sec)
                want = t.strftime("%Y-%m-%dT%H:%M:%S")
                if ns:
                    want += "." + ("%09d" % ns).rstrip("0")
                want += "Z"
                if got != want:
                    return "key %s: time %s rendered as %r, expected %s" % (k, raw, got, want)
        return None
    if ws[0] == "@agree":
        for i, f in enumerate(fs):
            ps = pairs(f.get("json", b""))
            if ps is None:
                return "message %d: the JSON form is not valid JSON" % i
            want = " ".join(k + "=" + textval(v) for k, v in ps)
            got = f["text"].decode("utf-8", errors="replace")
            if squash(want) != squash(got):
                return "message %d: text form %r and JSON form %r carry different values" % (i, got[:300], want[:300])
        return None
    return "unknown oracle " + ws[0]
