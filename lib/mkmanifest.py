#!/usr/bin/env python3
"""writes /verif/MANIFEST.json from lib/props.py (claimed checks) and properties.jsonl (the rest -> not_applicable)"""
import json, os, sys, subprocess
HERE = os.path.dirname(os.path.abspath(__file__))
VERIF = os.path.dirname(HERE)
sys.path.insert(0, HERE)
import props

ids = [json.loads(l)["id"] for l in open(os.path.join(VERIF, "properties.jsonl")) if l.strip()]
hooks_commits = []
try:
    out = subprocess.run(["git", "-C", "/repo", "log", "--format=%h %s"], stdout=subprocess.PIPE, text=True).stdout
    hooks_commits = [l.split()[0] for l in out.splitlines() if l.split(" ", 1)[1].startswith("verif:")]
except Exception:
    pass
baseline = json.load(open("/root/.vp/BASELINE.json"))["cmd"]
checks, na = [], []
for i in ids:
    p = props.PROPS.get(i)
    if p is None or p.get("unclaimed"):
        na.append(dict(property_id=i, reason=(p or {}).get("unclaimed", "not built yet: no Lean model/theorems for this property in this commit (see DESIGN.md §7)")))
        continue
    checks.append(dict(
        property_id=i,
        quick_cmd="./check %s --tier quick" % i,
        thorough_cmd="./check %s --tier thorough" % i,
        evidence_file="evidence/%s.json" % i,
        replay_cmd_template="./check --replay {path}",
        engine="lean4-proof+correspondence",
        level_claimed=dict(category="proof", text=p.get("level_text", ""), design_ref="DESIGN.md §7 " + i),
        level_note=p.get("level_note", "Lean 4 kernel; axioms ⊆ {propext, Classical.choice, Quot.sound}; hand-written model tied to /repo by differential execution and regenerated facts; see DESIGN.md §10"),
        technique=p.get("technique", "Lean 4 theorems about an executable model + differential correspondence with the Go code"),
    ))
m = dict(
    version=1,
    setup_cmd="./setup",
    hooks=dict(guard="verif (Go build tag)", enable="go build -tags verif (the harness in /verif/harness is built with it against /repo's working tree)",
               baseline_off_cmd=baseline, source_commits=hooks_commits, add_only=True),
    engines=[dict(name="lean4-proof+correspondence", path="lean/ (model, spec, proofs), harness/ (Go executor), extract/ (fact extractor), check (driver)",
                  serves_properties=[c["property_id"] for c in checks],
                  kind_free_text="machine-checked proof in Lean 4 about a hand-written executable model; model tied to the Go source by differential execution on generated op files and by facts regenerated from the source on every run")],
    checks=checks,
    notes="Single entry point ./check <id> --tier quick|thorough; VERIF_SEED / VERIF_TIER / VERIF_REPO honoured. known_findings.json lists repaired defects (fix: commits in /repo) and recorded findings.",
    not_applicable=na,
)
json.dump(m, open(os.path.join(VERIF, "MANIFEST.json"), "w"), indent=1)
print("claimed:", [c["property_id"] for c in checks], "not claimed:", [n["property_id"] for n in na])
