"""
runner.py — orchestration of one property check (DESIGN.md §3 steps 1-6, §5).
"""
import os, sys, json, time, subprocess, hashlib, re, shutil, fcntl, resource, argparse, glob

VERIF = os.path.dirname(os.path.dirname(os.path.abspath(__file__)))
LEAN = os.path.join(VERIF, "lean")
BUILD = os.path.join(VERIF, "build")
BIN = os.path.join(BUILD, "bin")
REPLAYS = os.path.join(VERIF, "replays")
EVIDENCE = os.path.join(VERIF, "evidence")
CORPUS = os.path.join(VERIF, "corpus")
REPO = os.environ.get("VERIF_REPO", "/repo")
if REPO != "/repo":
    # runs against a scratch tree (seeded changes, mutants) leave the committed evidence alone
    EVIDENCE = os.path.join(VERIF, "build", "evidence-scratch")
MODEL = os.path.join(LEAN, ".lake", "build", "bin", "goflow-model")

ALLOWED_AXIOMS = {"propext", "Classical.choice", "Quot.sound"}
BANNED = re.compile(r"\bsorry\b|\badmit\b|^axiom |native_decide|bv_decide|implemented_by|\bunsafe |maxHeartbeats 0")

GOENV = dict(os.environ, GOFLAGS="-mod=mod", GOPROXY="off", GOSUMDB="off", GOTOOLCHAIN="local",
             CGO_ENABLED=os.environ.get("CGO_ENABLED", "1"))

TRUSTED_BASE = [
    "Lean 4.33.0 kernel (lake build; thorough tier re-checks with leanchecker)",
    "axioms allowed in property theorems: propext, Classical.choice, Quot.sound (checked with #print axioms on every run); no native_decide, bv_decide, sorry, own axioms",
    "the statements in lean/Proofs/Cxx.lean and the specification side lean/Goflow/Spec/*",
    "hand-written model lean/Goflow/** tied to /repo by (a) differential execution of the compiled model and the real Go packages on the same generated op file, (b) facts regenerated from the Go source by /verif/extract into lean/Goflow/Generated/*.lean and compared by decide-theorems",
    "Go harness /verif/harness (canonical dump by reflection), generators lean/Goflow/Gen/*, this driver",
]


def log(*a):
    print(*a, file=sys.stderr, flush=True)


def sh(cmd, cwd=None, env=None, timeout=None, stdin=None):
    p = subprocess.run(cmd, cwd=cwd, env=env, timeout=timeout, input=stdin,
                       stdout=subprocess.PIPE, stderr=subprocess.STDOUT, text=True)
    return p.returncode, p.stdout


class Lock:
    def __init__(self, name):
        os.makedirs(BUILD, exist_ok=True)
        self.path = os.path.join(BUILD, name)

    def __enter__(self):
        self.f = open(self.path, "w")
        fcntl.flock(self.f, fcntl.LOCK_EX)
        return self

    def __exit__(self, *a):
        fcntl.flock(self.f, fcntl.LOCK_UN)
        self.f.close()


# ---------------------------------------------------------------------------
# build steps
# ---------------------------------------------------------------------------

def build_extract():
    os.makedirs(BIN, exist_ok=True)
    rc, out = sh(["go", "build", "-o", os.path.join(BIN, "extract"), "."], cwd=os.path.join(VERIF, "extract"), env=GOENV)
    if rc != 0:
        raise RuntimeError("extractor does not build:\n" + out)


def run_extract():
    env = dict(os.environ, VERIF_REPO=REPO, VERIF_GEN_OUT=os.path.join(LEAN, "Goflow", "Generated"))
    rc, out = sh([os.path.join(BIN, "extract")], env=env)
    problems = [l for l in out.splitlines() if l.startswith("EXTRACT-PROBLEM:")]
    if rc != 0:
        problems.append("EXTRACT-PROBLEM: extractor exited with %d: %s" % (rc, out[-500:]))
    return problems


def generated_imports(modules):
    """names X of the modules Goflow.Generated.X reachable through imports from the given Lean modules"""
    seen, todo, gen = set(), list(modules), set()
    while todo:
        m = todo.pop()
        if m in seen:
            continue
        seen.add(m)
        if m.startswith("Goflow.Generated."):
            gen.add(m.split(".")[-1])
        path = os.path.join(LEAN, *m.split(".")) + ".lean"
        try:
            for l in open(path):
                if l.startswith("import "):
                    dep = l.split()[1]
                    if dep.startswith("Goflow") or dep.startswith("Proofs"):
                        todo.append(dep)
        except OSError:
            pass
    return gen


def lake_build(targets):
    rc, out = sh(["lake", "build"] + targets, cwd=LEAN)
    return rc, out


def harness_dir():
    tag = hashlib.sha1(REPO.encode()).hexdigest()[:8]
    return os.path.join(BUILD, "harness-" + tag)


def build_harness(cmds, race=False):
    """copy /verif/harness to build/, point it at REPO, build the requested commands with -tags verif"""
    hd = harness_dir()
    os.makedirs(hd, exist_ok=True)
    rc, out = sh(["rsync", "-a", "--delete", "--exclude", "go.mod", "--exclude", "go.sum",
                  os.path.join(VERIF, "harness") + "/", hd + "/"])
    if rc != 0:
        raise RuntimeError("rsync harness: " + out)
    gomod = open(os.path.join(VERIF, "harness", "go.mod.in")).read().replace("@REPO@", REPO)
    # carry over the requirements of the repo's own go.mod so that -mod=mod resolves offline
    reqs = []
    inreq = False
    for l in open(os.path.join(REPO, "go.mod")):
        ls = l.strip()
        if ls.startswith("require ("):
            inreq = True
            continue
        if inreq:
            if ls == ")":
                inreq = False
            elif ls:
                reqs.append("\t" + ls)
    gomod += "\nrequire (\n" + "\n".join(reqs) + "\n)\n"
    extra = os.path.join(VERIF, "harness", "go.mod.extra")
    if os.path.exists(extra):
        gomod += open(extra).read()
    p = os.path.join(hd, "go.mod")
    if not os.path.exists(p) or open(p).read() != gomod:
        open(p, "w").write(gomod)
    sums = open(os.path.join(REPO, "go.sum")).read()
    extra_sum = os.path.join(VERIF, "harness", "go.sum.extra")
    if os.path.exists(extra_sum):
        sums += open(extra_sum).read()
    ps = os.path.join(hd, "go.sum")
    if not os.path.exists(ps) or open(ps).read() != sums:
        open(ps, "w").write(sums)
    outs = {}
    for c in cmds:
        name = c + ("-race" if race else "") + "-" + os.path.basename(hd)[8:]
        target = os.path.join(BIN, name)
        args = ["go", "build", "-tags", "verif"]
        if race:
            args.append("-race")
        args += ["-o", target, "./cmd/" + c]
        rc, out = sh(args, cwd=hd, env=GOENV)
        if rc != 0:
            raise BuildError("harness %s does not build against %s:\n%s" % (c, REPO, out))
        outs[c] = target
    return outs


class BuildError(Exception):
    pass


RACE_REPORTS = []


# ---------------------------------------------------------------------------
# op files and blocks
# ---------------------------------------------------------------------------

class Op:
    __slots__ = ("line", "expect", "idx", "tag")

    def __init__(self, line, idx):
        self.line = line
        self.expect = []
        self.idx = idx
        self.tag = ""


def parse_ops(lines):
    ops = []
    tag = ""
    for l in lines:
        l = l.rstrip("\n")
        if not l:
            continue
        if l.startswith("#"):
            tag = l[1:].strip()
            continue
        if l.startswith("expect "):
            if ops:
                ops[-1].expect.append(l[len("expect "):])
            continue
        op = Op(l, len(ops))
        op.tag = tag
        ops.append(op)
    return ops


def parse_blocks(text):
    blocks, cur = [], []
    for l in text.splitlines():
        if l == "end":
            blocks.append(cur)
            cur = []
        else:
            cur.append(l)
    return blocks, cur


def limit_child():
    # 6 GiB address space: an unbounded allocation dies as OOM instead of taking the sandbox down
    try:
        resource.setrlimit(resource.RLIMIT_AS, (24 << 30, 24 << 30))
    except Exception:
        pass


def run_model(ops):
    data = "\n".join(o.line for o in ops) + "\n"
    p = subprocess.run([MODEL, "run"], input=data, stdout=subprocess.PIPE, stderr=subprocess.PIPE, text=True)
    blocks, rest = parse_blocks(p.stdout)
    if p.returncode != 0 or len(blocks) != len(ops):
        raise RuntimeError("model driver failed: rc=%d blocks=%d ops=%d stderr=%s" % (p.returncode, len(blocks), len(ops), p.stderr[-2000:]))
    return blocks


def run_impl(binary, ops, watchdog_ms=5000, memlimit="4GiB"):
    """run the Go executor; restart after a timeout / crash; returns one block per op"""
    results = [None] * len(ops)
    start = 0
    env = dict(os.environ, VERIF_WATCHDOG_MS=str(watchdog_ms), GOMEMLIMIT=memlimit, GOTRACEBACK="single",
               GORACE="halt_on_error=1 exitcode=66")
    has_reset = any(o.line.startswith("reset") for o in ops)
    stderr_tail = ""
    while start < len(ops):
        # configuration ops seen before `start` are replayed so that a restart keeps them
        prefix = [o for o in ops[:start] if o.line.startswith("cfg ")] if start > 0 else []
        sub = prefix + ops[start:]
        data = "\n".join(o.line for o in sub) + "\n"
        p = subprocess.run([binary], input=data, stdout=subprocess.PIPE, stderr=subprocess.PIPE, text=True,
                           env=env, preexec_fn=limit_child)
        stderr_tail = p.stderr[-3000:]
        blocks, rest = parse_blocks(p.stdout)
        blocks = blocks[len(prefix):]
        for i, b in enumerate(blocks):
            results[start + i] = b
        done = start + len(blocks)
        if done >= len(ops) and p.returncode == 0:
            break
        if p.returncode == 0:
            raise RuntimeError("impl produced %d blocks for %d ops" % (len(blocks), len(sub)))
        # crashed or timed out
        if p.returncode == 3 and blocks and blocks[-1][:1] == ["res timeout"]:
            last = done - 1
        else:
            # crash while executing op `done`
            last = done
            if last >= len(ops):
                break
            kind = "res oom" if ("out of memory" in p.stderr or "cannot allocate" in p.stderr) else "res crash"
            if "DATA RACE" in p.stderr:
                kind = "res race"
                i0 = p.stderr.index("DATA RACE")
                RACE_REPORTS.append(p.stderr[max(0, i0 - 40):i0 + 2500])
            results[last] = [kind]
            log("impl crashed on op %d (%s): %s" % (last, kind, p.stderr[-800:]))
        # skip to the next history
        nxt = last + 1
        if has_reset:
            while nxt < len(ops) and not ops[nxt].line.startswith("reset"):
                results[nxt] = ["skipped"]
                nxt += 1
        start = nxt
    for i, r in enumerate(results):
        if r is None:
            results[i] = ["missing"]
    return results, stderr_tail


# ---------------------------------------------------------------------------
# audit of the Lean side
# ---------------------------------------------------------------------------

def audit(prop, spec):
    """returns (obligations, discharged, problems) — obligations are the property's theorem names"""
    problems = []
    names = spec["theorems"]
    os.makedirs(os.path.join(BUILD, "audit"), exist_ok=True)
    src = "".join("import %s\n" % m for m in spec["modules"])
    for n in names:
        src += "#print axioms %s\n" % n
    path = os.path.join(BUILD, "audit", prop + ".lean")
    open(path, "w").write(src)
    rc, out = sh(["lake", "env", "lean", path], cwd=LEAN)
    discharged = 0
    # parse "'name' depends on axioms: [a, b]" / "'name' does not depend on any axioms"
    found = {}
    for m in re.finditer(r"'([^']+)' depends on axioms: \[([^\]]*)\]", out.replace("\n", " ")):
        found[m.group(1)] = set(x.strip() for x in m.group(2).split(",") if x.strip())
    for m in re.finditer(r"'([^']+)' does not depend on any axioms", out):
        found[m.group(1)] = set()
    for n in names:
        if n not in found:
            problems.append("theorem %s does not check (missing from the built proof module)" % n)
            continue
        bad = found[n] - ALLOWED_AXIOMS
        if bad:
            problems.append("theorem %s depends on disallowed axioms %s" % (n, sorted(bad)))
            continue
        discharged += 1
    # banned words in the sources of the modules involved (comments stripped)
    files = glob.glob(os.path.join(LEAN, "Goflow", "**", "*.lean"), recursive=True) + \
        glob.glob(os.path.join(LEAN, "Proofs", "**", "*.lean"), recursive=True)
    for f in files:
        txt = open(f).read()
        txt = re.sub(r"/-.*?-/", "", txt, flags=re.S)
        for ln in txt.splitlines():
            code = ln.split("--")[0]
            if BANNED.search(code):
                problems.append("banned construct in %s: %s" % (os.path.relpath(f, LEAN), code.strip()[:120]))
    global LAST_AXIOMS
    LAST_AXIOMS = {n: sorted(found[n]) for n in names if n in found}
    return len(names), discharged, problems


LAST_AXIOMS = {}


# ---------------------------------------------------------------------------
# known findings
# ---------------------------------------------------------------------------

def load_known():
    p = os.path.join(VERIF, "known_findings.json")
    if not os.path.exists(p):
        return []
    return json.load(open(p)).get("entries", [])


def match_known(prop, failure, known):
    """a failure is {kind, op, tag, detail}; a finding entry matches on property and on a regex over tag / op"""
    for e in known:
        if e.get("status") != "finding" or e.get("property") != prop:
            continue
        m = e.get("match", {})
        ok = True
        if "tag_regex" in m and not re.search(m["tag_regex"], failure.get("tag", "")):
            ok = False
        if "op_regex" in m and not re.search(m["op_regex"], failure.get("op", "")):
            ok = False
        if "detail_regex" in m and not re.search(m["detail_regex"], failure.get("detail", "")):
            ok = False
        if "kind" in m and m["kind"] != failure.get("kind"):
            ok = False
        if ok:
            return e
    return None


# ---------------------------------------------------------------------------
# comparison
# ---------------------------------------------------------------------------

def res_class(block):
    for l in block:
        if l.startswith("res "):
            return l[4:].split()[0]
    return block[0] if block else "empty"


def history_of(ops, i):
    """ops of the history that op i belongs to: from the last reset (and all cfg ops before it) up to i"""
    j = i
    while j > 0 and not ops[j].line.startswith("reset"):
        j -= 1
    if not ops[j].line.startswith("reset"):
        # stateless file: the op alone, plus cfg ops
        return [o for o in ops[:i] if o.line.startswith("cfg ")] + [ops[i]]
    return [o for o in ops[:j] if o.line.startswith("cfg ")] + ops[j:i + 1]


def compare(prop, spec, ops, impl, model):
    """returns list of failures: dict(kind=oracle|safety|correspondence, idx, op, tag, detail)"""
    failures = []
    safety_ok = spec.get("safety_classes", {"ok", "err", "err:template-not-found"})
    skip_until_reset = False
    for o in ops:
        i = o.idx
        ib, mb = impl[i], model[i]
        if ib == ["skipped"]:
            continue
        ic = res_class(ib)
        if ic not in safety_ok and ic not in ("bad-op",):
            failures.append(dict(kind="safety", idx=i, op=o.line, tag=o.tag,
                                 detail="implementation outcome `%s` (model says `%s`)" % (ic, res_class(mb))))
            continue
        if ic == "bad-op" or res_class(mb) == "bad-op":
            failures.append(dict(kind="harness", idx=i, op=o.line, tag=o.tag, detail="bad-op: impl=%s model=%s" % (ib[:1], mb[:1])))
            continue
        exact = [e for e in o.expect if not e.startswith("@")]
        special = [e for e in o.expect if e.startswith("@")]
        bad = None
        # records handed out for the previous datagram changed while this one was processed (aliasing of a pooled buffer)
        hc = [l for l in ib if l.startswith("held-changed ")]
        if hc:
            failures.append(dict(kind="oracle", idx=i, op=o.line, tag=o.tag,
                                 detail="%s byte slice(s) of the records formatted for the previous datagram (JSON / text / binary / key, as a transport holds them) changed while this datagram was processed" % hc[0].split()[1]))
            continue
        cd = [l for l in ib if l.startswith("concurrent-differs ")]
        if cd:
            failures.append(dict(kind="oracle", idx=i, op=o.line, tag=o.tag,
                                 detail="%s of the outputs produced by several goroutines at once differ from the output of the same call made alone" % cd[0].split()[1]))
            continue
        ic2 = [l for l in ib if l.startswith("input-changed ")]
        if ic2:
            failures.append(dict(kind="oracle", idx=i, op=o.line, tag=o.tag,
                                 detail="the bytes of %s earlier datagram(s) (the receive buffers, still owned by the receiver) were changed while this datagram was processed" % ic2[0].split()[1]))
            continue
        # C02: measured allocation (impl: `alloc <bytes> <len>`) and modelled cost (model: `cost <bytes> <widest>`)
        if o.line.startswith("allocpkt "):
            al = [l for l in ib if l.startswith("alloc ")]
            co = [l for l in mb if l.startswith("cost ")]
            ib = [l for l in ib if not l.startswith("alloc ")]
            mb = [l for l in mb if not l.startswith("cost ")]
            if al and co:
                alloc, dlen = int(al[0].split()[1]), int(al[0].split()[2])
                cost, widest = int(co[0].split()[1]), int(co[0].split()[2])
                budget = 16 * 2 ** 20 + 256 * dlen * (1 + widest)
                if alloc > budget:
                    failures.append(dict(kind="oracle", idx=i, op=o.line, tag=o.tag,
                                         detail="allocation %d of this %d-byte datagram exceeds 16 MiB + 256 x length x (1 + %d fields of the widest template it references) = %d" % (alloc, dlen, widest, budget)))
                    continue
                if dlen <= 16000 and cost > budget:
                    failures.append(dict(kind="harness", idx=i, op=o.line, tag=o.tag, detail="modelled cost %d above the budget %d: contradicts cost_within_budget" % (cost, budget)))
                    continue
                if alloc > 2 * cost + 65536:
                    failures.append(dict(kind="correspondence", idx=i, op=o.line, tag=o.tag,
                                         detail="measured allocation %d is not covered by the cost model (%d): an allocation site is missing from Goflow/Cost.lean or allocates more than modelled" % (alloc, cost)))
                    continue
        if o.line.startswith("allocpkt ") and ib and " budget=" in ib[0] and not ib[0].endswith("budget=ok"):
            failures.append(dict(kind="oracle", idx=i, op=o.line, tag=o.tag,
                                 detail="allocation of this datagram exceeds 16 MiB + 256 x length x (1 + widest template): %s" % ib[0].split(" budget=")[1]))
            continue
        for e in special:
            bad = check_special(e, ib)
            if bad:
                break
        if bad:
            failures.append(dict(kind="oracle", idx=i, op=o.line, tag=o.tag, detail=bad))
            continue
        if exact:
            if ib != exact:
                d = first_diff(exact, ib)
                failures.append(dict(kind="oracle", idx=i, op=o.line, tag=o.tag,
                                     detail="specification expects %s, implementation gives %s" % d))
                continue
        if ib != mb:
            d = first_diff(mb, ib)
            failures.append(dict(kind="correspondence", idx=i, op=o.line, tag=o.tag,
                                 detail="model gives %s, implementation gives %s" % d))
    return failures


def parse_msg(line):
    d = {}
    for tok in line.split(" ")[1:]:
        if "=" in tok:
            k, v = tok.split("=", 1)
            d[k] = v
    return d


def list_items(v):
    v = v.strip()
    if v.startswith("[") and v.endswith("]"):
        inner = v[1:-1]
        return inner.split(",") if inner else []
    return [v]


def check_special(e, block):
    """oracle lines of the form `@msg <i> Col=val Col?=v1|v2 Col^=[list] Col~`:
       `=`  the i-th msg line must carry exactly this value (absent when the value is the zero value),
       `?=` absent or one of the listed values, `^=` absent or a prefix of the list, `~` unconstrained;
       every column not mentioned must be absent."""
    ws = e.split(" ")
    if ws[0] == "@head":
        # the first line of the block; further lines are compared with the model only
        want = e[len("@head "):]
        got = block[0] if block else "<nothing>"
        return None if got == want else "specification expects `%s`, implementation gives `%s`" % (want, got)
    if ws[0] == "@count":
        want = int(ws[1])
        got = len([l for l in block if l.startswith("msg")])
        return None if got == want else "specification expects %d messages, implementation emits %d" % (want, got)
    if ws[0] == "@maxcount":
        want = int(ws[1])
        got = len([l for l in block if l.startswith("msg")])
        return None if got <= want else "specification allows at most %d messages, implementation emits %d" % (want, got)
    if ws[0] == "@res":
        got = res_class(block)
        return None if got in ws[1].split("|") else "specification expects outcome %s, implementation gives %s" % (ws[1], got)
    if ws[0] in ("@keyeq", "@keyne"):
        ks = [l.split(" ")[1] for l in block if l.startswith("key ")]
        if len(ks) != 2:
            return "two keys expected, %d reported" % len(ks)
        if ws[0] == "@keyeq" and ks[0] != ks[1]:
            return "messages that agree on every key field get different keys %s / %s" % (ks[0], ks[1])
        if ws[0] == "@keyne" and ks[0] == ks[1]:
            return "messages that differ in a key field get the same key %s" % ks[0]
        return None
    if ws[0] in ("@fmt", "@jsonkeys", "@pbnum", "@render", "@agree"):
        import fmtoracle
        return fmtoracle.check(ws, block)
    if ws[0] == "@col":
        msgs = [l for l in block if l.startswith("msg")]
        sel = range(len(msgs)) if ws[1] == "*" else [int(ws[1])]
        for i in sel:
            if i >= len(msgs):
                return "specification expects a message #%d, implementation emits %d" % (i, len(msgs))
            got = parse_msg(msgs[i])
            for item in ws[2:]:
                k, v = item.split("=", 1)
                g = got.get(k, "0")
                if g != v:
                    return "message %d column %s: specification expects %s, implementation reports %s" % (i, k, v, g)
        return None
    if ws[0] != "@msg":
        return "unknown oracle line " + e[:60]
    idx = int(ws[1])
    msgs = [l for l in block if l.startswith("msg")]
    if idx >= len(msgs):
        return "specification expects a message #%d, implementation gives outcome `%s` with %d messages" % (idx, res_class(block), len(msgs))
    got = parse_msg(msgs[idx])
    seen = set()
    zero = ("0", "-", "[]", "")
    for item in ws[2:]:
        if not item:
            continue
        if item.endswith("~"):
            seen.add(item[:-1])
            continue
        if "?=" in item:
            k, v = item.split("?=", 1)
            seen.add(k)
            if k in got and got[k] not in v.split("|"):
                return "column %s: implementation reports %s, true value(s) of the frame %s (or unset)" % (k, got[k], v)
        elif "%=" in item:
            # layer sizes: one per reported layer, equal to the true sizes; only the last one may be smaller
            # (a label stack cut in the middle reports the labels captured)
            k, v = item.split("%=", 1)
            seen.add(k)
            a, b = (list_items(got[k]) if k in got else []), list_items(v)
            stack = list_items(got["LayerStack"]) if "LayerStack" in got else []
            if len(a) != len(stack):
                return "column %s: %d sizes reported for %d layers (%s / %s)" % (k, len(a), len(stack), got.get(k, "[]"), got.get("LayerStack", "[]"))
            if len(a) > len(b) or a[:-1] != b[:max(len(a) - 1, 0)] or (a and int(a[-1]) > int(b[len(a) - 1])):
                return "column %s: implementation reports %s, true sizes %s" % (k, got.get(k, "[]"), v)
        elif "^=" in item:
            k, v = item.split("^=", 1)
            seen.add(k)
            if k in got:
                a, b = list_items(got[k]), list_items(v)
                if a != b[:len(a)]:
                    return "column %s: implementation reports %s, not a prefix of the true list %s" % (k, got[k], v)
        elif "=" in item:
            k, v = item.split("=", 1)
            seen.add(k)
            if v in zero:
                if k in got:
                    return "column %s: implementation reports %s, true value is the zero value" % (k, got[k])
            elif got.get(k) != v:
                return "column %s: specification expects %s, implementation reports %s" % (k, v, got.get(k, "<unset>"))
    for k in got:
        if k not in seen:
            return "column %s=%s reported, but no header of the frame defines it" % (k, got[k][:60])
    return None


def first_diff(a, b):
    for k in range(max(len(a), len(b))):
        x = a[k] if k < len(a) else "<nothing>"
        y = b[k] if k < len(b) else "<nothing>"
        if x != y:
            # narrow to the first differing token
            xs, ys = x.split(" "), y.split(" ")
            for t in range(max(len(xs), len(ys))):
                xt = xs[t] if t < len(xs) else "<nothing>"
                yt = ys[t] if t < len(ys) else "<nothing>"
                if xt != yt:
                    return ("line %d token %d `%s`" % (k, t, xt[:200]), "`%s`" % yt[:200])
    return ("<equal>", "<equal>")


def write_replay(prop, seed, failure, ops, extra=None):
    os.makedirs(REPLAYS, exist_ok=True)
    name = "%s-seed%s-op%s-%s.ops" % (prop, seed, failure.get("idx", "x"), failure["kind"])
    path = os.path.join(REPLAYS, name)
    with open(path, "w") as f:
        f.write("# replay for property %s (seed %s)\n" % (prop, seed))
        f.write("# kind: %s\n# generator tag: %s\n# what fails: %s\n" % (failure["kind"], failure.get("tag", ""), failure["detail"]))
        if extra:
            for l in extra:
                f.write("# " + l + "\n")
        if ops is not None and "idx" in failure:
            for o in history_of(ops, failure["idx"]):
                f.write(o.line + "\n")
                for e in o.expect:
                    f.write("expect " + e + "\n")
    return path


# ---------------------------------------------------------------------------
# main flow
# ---------------------------------------------------------------------------

def gen_ops(prop, spec, tier, seed):
    lines = []
    cdir = os.path.join(CORPUS, prop)
    if os.path.isdir(cdir):
        for f in sorted(glob.glob(os.path.join(cdir, "*.ops"))):
            lines += open(f).read().splitlines()
    for g in spec.get("generators", []):
        n = g["thorough"] if tier == "thorough" else g["quick"]
        subseeds = g.get("subseeds", 8) if tier == "thorough" else 1
        per = max(1, n // subseeds)
        procs = []
        for s in range(subseeds):
            sd = seed * 1000 + s
            procs.append((sd, subprocess.Popen([MODEL, "gen", g["name"], str(sd), str(per)], stdout=subprocess.PIPE, text=True)))
        for sd, p in procs:
            out, _ = p.communicate()
            if p.returncode != 0:
                raise RuntimeError("generator %s failed" % g["name"])
            lines.append("# gen=%s seed=%d" % (g["name"], sd))
            lines += out.splitlines()
    return lines


def confirm_alone(binary, ops, impl, failures, limit=6):
    """History independence (C12): for a stateless datagram (NetFlow v5, sFlow) whose output in the
    history differs from the model's, process it alone in a fresh process (same configuration and
    pipes, nothing else before it). If the implementation itself gives a different output alone than
    after the history, that history is a concrete failing input of the property."""
    done = 0
    out = []
    for f in failures:
        if f["kind"] != "correspondence" or "idx" not in f or done >= limit:
            out.append(f)
            continue
        o = next((x for x in ops if x.idx == f["idx"]), None)
        ws = o.line.split(" ") if o else []
        if not ws or ws[0] not in ("pkt", "pktf") or len(ws) < 6:
            out.append(f)
            continue
        payload = ws[5]
        stateless = payload.startswith("0005") or payload.startswith("00000005")
        if not stateless:
            out.append(f)
            continue
        done += 1
        setup = [x for x in ops if x.idx < o.idx and x.line.split(" ")[0] in ("cfg", "reset", "pipe")]
        alone_ops = parse_ops([x.line for x in setup] + [o.line])
        alone, _ = run_impl(binary, alone_ops, watchdog_ms=5000)
        got_alone = alone[alone_ops[-1].idx]
        got_hist = impl[o.idx]
        if got_alone != got_hist:
            a, b = first_diff(got_alone, got_hist)
            g = dict(f)
            g["kind"] = "oracle"
            g["detail"] = "the datagram processed alone in a fresh process gives %s, after this history %s" % (a, b)
            g["replay_lines"] = ["alone: " + " ; ".join(x.line[:120] for x in alone_ops[-3:])]
            out.append(g)
        else:
            out.append(f)
    return out


def run_property(prop, tier, seed):
    import props
    t0 = time.time()
    spec = props.PROPS[prop]
    os.makedirs(EVIDENCE, exist_ok=True)
    broken = []       # proof obligations / facts / correspondence that no longer check
    failures = []
    known = load_known()
    notes = []

    with Lock("build.lock"):
        build_extract()
        # a problem of the extractor concerns a property only if one of its proof modules (or the model driver)
        # imports, directly or not, the generated file the extractor was writing
        relevant = generated_imports(list(spec["modules"]) + ["Driver"])
        for pr in run_extract():
            m = re.match(r"EXTRACT-PROBLEM: \[([A-Za-z]*)\]", pr)
            if m is None or m.group(1) == "" or m.group(1) in relevant:
                broken.append(pr)
        targets = list(spec["modules"]) + ["goflow-model"]
        rc, out = lake_build(targets)
        lake_failed = rc != 0
        if lake_failed:
            errs = [l for l in out.splitlines() if "error" in l][:12]
            broken.append("lake build %s failed: %s" % (" ".join(targets), " | ".join(errs)))
            # the model driver may still be buildable on its own (proof modules broke, model did not)
            rc2, out2 = lake_build(["goflow-model"])
            if rc2 != 0:
                broken.append("model driver does not build")
        nobl, ndis, aprob = audit(prop, spec)
        broken += aprob
        if tier == "thorough" and not lake_failed:
            for m in spec["modules"]:
                rc, out = sh(["lake", "env", "leanchecker", m], cwd=LEAN)
                if rc != 0:
                    broken.append("leanchecker %s failed: %s" % (m, out[-300:]))
        try:
            bins = build_harness(spec.get("harness", ["impl"]), race=False)
            if spec.get("race"):
                bins_race = build_harness(spec.get("race"), race=True)
                bins.update({k + "-race": v for k, v in bins_race.items()})
        except BuildError as e:
            # the tree does not compile with the harness: nothing can be checked
            broken.append(str(e)[:600])
            bins = {}

    coverage = dict(obligations=nobl, discharged=ndis,
                    checker_cmd="cd /verif/lean && lake build %s && lake env lean ../build/audit/%s.lean   (#print axioms)" % (" ".join(spec["modules"]), prop),
                    trusted_base=TRUSTED_BASE + spec.get("trusted_extra", []),
                    theorems=spec["theorems"], axioms=dict(LAST_AXIOMS))
    evaluations = 0
    distinct = set()
    samples = []
    dist = {}
    ops = None

    implname = spec.get("impl_bin", "impl")
    if os.path.exists(MODEL) and implname in bins and spec.get("generators") is not None:
        lines = gen_ops(prop, spec, tier, seed)
        ops = parse_ops(lines)
        if ops:
            model = run_model(ops)
            impl, _ = run_impl(bins[implname], ops, watchdog_ms=spec.get("watchdog_ms", 5000 if tier == "quick" else 10000))
            fl = compare(prop, spec, ops, impl, model)
            if spec.get("confirm_alone"):
                fl = confirm_alone(bins[implname], ops, impl, fl)
            failures += fl
            evaluations += len(ops)
            for o in ops:
                b = impl[o.idx]
                rc_ = res_class(b)
                dist[rc_] = dist.get(rc_, 0) + 1
                if len(b) > 1 or rc_ not in ("ok",) or spec.get("count_all"):
                    distinct.add(hashlib.sha1(o.line.encode()).hexdigest())
            step = max(1, len(ops) // 3)
            for o in ops[::step][:3]:
                samples.append(dict(op=o.line[:400], impl=[l[:300] for l in impl[o.idx][:3]], tag=o.tag))

    # search for a failing input: a proof obligation, a regenerated fact or the correspondence broke, and the quick
    # generators found no input on which an oracle or the safety class fails — look further (other seeds, the sizes of
    # the thorough tier), time-boxed, before the violation is reported as no-failing-input-found
    hard = [f for f in failures if f["kind"] in ("oracle", "safety")]
    soft = [f for f in failures if f["kind"] == "correspondence"]
    if tier == "quick" and (broken or soft) and not hard and os.path.exists(MODEL) and implname in bins and spec.get("generators") is not None:
        t_search = time.time()
        budget_s = float(os.environ.get("VERIF_SEARCH_SECONDS", "90"))
        for extra_seed in (seed + 1, seed + 2, seed + 3, seed + 4):
            if time.time() - t_search > budget_s:
                break
            small = dict(spec, generators=[dict(g, thorough=min(g.get("thorough", g["quick"]), g["quick"] * 6), subseeds=min(g.get("subseeds", 8), 4)) for g in spec["generators"]])
            lines2 = gen_ops(prop, small, "thorough", extra_seed)
            ops2 = parse_ops(lines2)
            if not ops2:
                continue
            model2 = run_model(ops2)
            impl2, _ = run_impl(bins[implname], ops2, watchdog_ms=spec.get("watchdog_ms", 5000))
            fl2 = [f for f in compare(prop, spec, ops2, impl2, model2) if f["kind"] in ("oracle", "safety")]
            evaluations += len(ops2)
            if fl2:
                log("  search: failing input found with seed %d (%d ops)" % (extra_seed, len(ops2)))
                for f in fl2:
                    f["search_seed"] = extra_seed
                failures += fl2[:50]
                ops, seed_for_replay = ops2, extra_seed
                break
        else:
            log("  search: no failing input in %.0f s beyond the quick tier" % (time.time() - t_search))

    # extra, property-specific executors (concurrency harnesses etc.)
    for ex in spec.get("extra", []):
        r = ex(dict(prop=prop, tier=tier, seed=seed, bins=bins, repo=REPO, build=BUILD, verif=VERIF, model=MODEL))
        failures += r.get("failures", [])
        evaluations += r.get("evaluations", 0)
        for d in r.get("distinct", []):
            distinct.add(d)
        samples += r.get("samples", [])[:3]
        for k, v in r.get("coverage", {}).items():
            coverage[k] = v
        broken += r.get("broken", [])

    if failures:
        cats = {}
        for f in failures:
            key = f["kind"] + ": " + re.sub(r"[0-9a-f]{6,}", "H", re.sub(r"\d+", "N", f["detail"]))[:160]
            cats.setdefault(key, []).append(f.get("idx"))
        for k, v in sorted(cats.items(), key=lambda kv: -len(kv[1]))[:12]:
            log("  %5d × %s   (e.g. op %s)" % (len(v), k, v[0]))

    # ---- decide -------------------------------------------------------------
    violations = []
    known_hits = {}
    for f in failures:
        if f["kind"] == "harness":
            broken.append("harness: " + f["detail"])
            continue
        e = match_known(prop, f, known)
        if e is not None:
            known_hits.setdefault(e["id"], (e, f))
        else:
            violations.append(f)
    for eid, (e, f) in known_hits.items():
        print("KNOWN-FINDING: property=%s %s" % (prop, e["what"]))

    rc = 0
    if violations:
        # report the first of each kind, oracle/safety first (those are failing inputs against the real code)
        order = {"safety": 0, "oracle": 1, "correspondence": 2}
        violations.sort(key=lambda f: (order.get(f["kind"], 3), f.get("idx", 0)))
        f = violations[0]
        extra = ["%d further failing ops in this run" % (len(violations) - 1)] + ["also broken: " + b for b in broken[:5]]
        if f["kind"] == "correspondence":
            # model and code disagree but no oracle failed on this input: the property is no longer shown to hold
            path = write_replay(prop, seed, f, ops, extra + ["correspondence between lean/Goflow model and the implementation no longer holds on this input"])
            print("VIOLATION property=%s replay=%s no-failing-input-found" % (prop, path))
        else:
            path = write_replay(prop, seed, f, ops if "idx" in f else None, extra + f.get("replay_lines", []) +
                                [l for r in RACE_REPORTS[:1] for l in r.splitlines()])
            print("VIOLATION property=%s replay=%s" % (prop, path))
        rc = 1
    elif broken:
        f = dict(kind="obligation", detail="; ".join(broken)[:2000], tag="")
        path = write_replay(prop, seed, f, None, ["no failing input found by the generators of this tier (%d ops, all oracles held)" % evaluations] + broken)
        print("VIOLATION property=%s replay=%s no-failing-input-found" % (prop, path))
        rc = 1

    coverage.update(dict(evaluations=evaluations, distinct_nontrivial=len(distinct),
                         rule=spec.get("rule", "ops generated by lean/Goflow/Gen from the specification side (well-formed + mutated); distinct by SHA-1 of the op line; non-trivial = the implementation produced output beyond `res ok` or a non-ok outcome"),
                         samples=samples if samples else [dict(theorem=t) for t in spec["theorems"][:3]],
                         outcome_distribution=dist, broken=broken, known_findings_hit=sorted(known_hits.keys())))
    ev = dict(property_id=prop, tier=tier, seed=seed, level=spec.get("level", "proof"), coverage=coverage,
              assumptions=spec.get("assumptions", []), wall_s=round(time.time() - t0, 2), violations=len(violations) + (1 if (broken and not violations) else 0))
    json.dump(ev, open(os.path.join(EVIDENCE, prop + ".json"), "w"), indent=1)
    log("%s tier=%s seed=%d obligations=%d/%d ops=%d distinct=%d failures=%d broken=%d wall=%.1fs" % (
        prop, tier, seed, ndis, nobl, evaluations, len(distinct), len(violations), len(broken), time.time() - t0))
    return rc


def replay(path):
    import props
    m = re.match(r"(C\d+)-", os.path.basename(path)) or re.search(r"/(C\d+)/[^/]+$", os.path.abspath(path))
    if not m:
        log("cannot tell the property from the file name")
        return 2
    prop = m.group(1)
    spec = props.PROPS[prop]
    txt = open(path).read()
    print(txt if len(txt) < 4000 else txt[:4000] + "…")
    ops = parse_ops(txt.splitlines())
    if not ops:
        print("replay names an obligation, not an input; re-run ./check %s to see whether it still breaks" % prop)
        return run_property(prop, "quick", int(os.environ.get("VERIF_SEED", "1")))
    with Lock("build.lock"):
        build_extract()
        run_extract()
        lake_build(["goflow-model"])
        bins = build_harness(["impl"])
    model = run_model(ops)
    impl, err = run_impl(bins["impl"], ops)
    for o in ops:
        print("op    ", o.line[:300])
        print(" impl ", impl[o.idx][:4])
        print(" model", model[o.idx][:4])
        if o.expect:
            print(" spec ", o.expect[:4])
    fl = compare(prop, spec, ops, impl, model)
    for f in fl:
        print("FAIL", f["kind"], f["detail"])
    return 1 if fl else 0


def main(argv):
    ap = argparse.ArgumentParser()
    ap.add_argument("prop", nargs="?")
    ap.add_argument("--tier", default=os.environ.get("VERIF_TIER", "quick"))
    ap.add_argument("--seed", type=int, default=int(os.environ.get("VERIF_SEED", "1") or 1))
    ap.add_argument("--replay")
    a = ap.parse_args(argv)
    if a.replay:
        return replay(a.replay)
    if not a.prop:
        ap.print_usage()
        return 2
    if a.tier not in ("quick", "thorough"):
        a.tier = "quick"
    try:
        return run_property(a.prop, a.tier, a.seed)
    except Exception as e:
        import traceback
        traceback.print_exc()
        # an internal failure of the machinery is reported as such, not as a pass
        os.makedirs(REPLAYS, exist_ok=True)
        p = os.path.join(REPLAYS, "%s-internal-error.txt" % a.prop)
        open(p, "w").write("internal error of the check: %r\n" % (e,))
        print("VIOLATION property=%s replay=%s no-failing-input-found" % (a.prop, p))
        return 1
