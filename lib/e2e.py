"""End-to-end runs of the real goflow2 binary (built from the tree under test): SIGTERM with a backlog
in the receiver queue (C18). The expectation comes from the property (every datagram taken in before
the signal is written out, exit status 0) and from Proofs/C18.lean (`shutdown_order`: receivers are
stopped, i.e. drained, before producer and transport are closed)."""
import hashlib, os, signal, socket, struct, subprocess, time, json

GOENV = dict(os.environ, GOFLAGS="-mod=mod", GOPROXY="off", GOSUMDB="off", GOTOOLCHAIN="local")


def build_binary(ctx):
    tag = hashlib.sha1(ctx["repo"].encode()).hexdigest()[:8]
    out = os.path.join(ctx["build"], "bin", "goflow2-" + tag)
    p = subprocess.run(["go", "build", "-o", out, "./cmd/goflow2"], cwd=ctx["repo"], env=GOENV,
                       stdout=subprocess.PIPE, stderr=subprocess.STDOUT, text=True)
    if p.returncode != 0:
        return None, p.stdout[-600:]
    return out, ""


def free_port():
    s = socket.socket(socket.AF_INET, socket.SOCK_DGRAM)
    s.bind(("127.0.0.1", 0))
    port = s.getsockname()[1]
    s.close()
    return port


def v5_datagram(i):
    # header (24 bytes) + one record (48 bytes); dOctets (record offset 20) = i + 1 identifies the datagram
    hdr = struct.pack(">HHIIIIBBH", 5, 1, 1000, 1700000000, 0, i, 0, 0, 0)
    rec = bytearray(48)
    rec[0:4] = bytes([10, 0, 0, 1])
    rec[4:8] = bytes([10, 0, 0, 2])
    rec[16:20] = struct.pack(">I", 1)
    rec[20:24] = struct.pack(">I", i + 1)
    return hdr + bytes(rec)


def bound(port):
    want = "%04X" % port
    try:
        for l in open("/proc/net/udp").read().splitlines()[1:]:
            if l.split()[1].endswith(":" + want):
                return True
    except OSError:
        return True
    return False


def sigterm_once(binary, workdir, n):
    fifo = os.path.join(workdir, "out.fifo")
    if os.path.exists(fifo):
        os.unlink(fifo)
    os.mkfifo(fifo)
    rd = os.open(fifo, os.O_RDONLY | os.O_NONBLOCK)      # lets the collector open the pipe; nothing is read yet
    port = free_port()
    log = open(os.path.join(workdir, "goflow2.log"), "w")
    p = subprocess.Popen([binary, "-listen", "netflow://127.0.0.1:%d" % port, "-format", "json", "-transport", "file",
                          "-transport.file", fifo, "-addr", "", "-loglevel", "error"], stdout=log, stderr=log)
    try:
        for _ in range(200):
            if bound(port) or p.poll() is not None:
                break
            time.sleep(0.02)
        time.sleep(0.1)
        if p.poll() is not None:
            return dict(ok=False, why="collector exited at start with status %s" % p.returncode)
        s = socket.socket(socket.AF_INET, socket.SOCK_DGRAM)
        for i in range(n):
            s.sendto(v5_datagram(i), ("127.0.0.1", port))
            if i % 10 == 9:
                time.sleep(0.002)
        s.close()
        time.sleep(1.2)                                   # the output pipe is full by now: a backlog sits in the queue
        p.send_signal(signal.SIGTERM)
        time.sleep(0.4)
        os.set_blocking(rd, True)
        data = b""
        deadline = time.time() + 25
        while time.time() < deadline:
            chunk = os.read(rd, 1 << 16)
            if not chunk:
                break
            data += chunk
        try:
            rc = p.wait(timeout=max(1, deadline - time.time()))
        except subprocess.TimeoutExpired:
            p.kill()
            return dict(ok=False, why="collector did not exit within 25 s after SIGTERM (%d bytes of output read)" % len(data))
    finally:
        if p.poll() is None:
            p.kill()
        os.close(rd)
        log.close()
    seen = set()
    bad = 0
    for line in data.split(b"\n"):
        if not line.strip():
            continue
        try:
            seen.add(json.loads(line)["bytes"])
        except Exception:
            bad += 1
    ok = len(seen) == n and bad == 0 and rc == 0
    return dict(ok=ok, why="sent %d datagrams before SIGTERM, output has %d distinct records (%d unparsable lines), exit status %s" % (n, len(seen), bad, rc))


def sigterm_backlog(ctx):
    """extra executor for C18"""
    binary, err = build_binary(ctx)
    if binary is None:
        return dict(broken=["cmd/goflow2 does not build: " + err])
    workdir = os.path.join(ctx["build"], "e2e-" + os.path.basename(binary))
    os.makedirs(workdir, exist_ok=True)
    n = 600 if ctx["tier"] == "quick" else 1500
    runs = []
    # a scheduling hiccup of the sandbox must not raise an alarm: the run is repeated, and only a
    # behaviour that shows every time is reported
    for attempt in range(3):
        r = sigterm_once(binary, workdir, n)
        runs.append(r)
        if r["ok"]:
            break
    res = dict(evaluations=len(runs), distinct=["e2e-sigterm-%d" % n],
               samples=[dict(op="e2e sigterm backlog n=%d" % n, impl=[runs[-1]["why"]], tag="e2e")],
               coverage=dict(e2e="goflow2 binary, NetFlow v5 over UDP, output to a named pipe that is not read until after SIGTERM; %d datagrams" % n))
    if not runs[-1]["ok"]:
        replay = ["# e2e: build cmd/goflow2, start it with -transport.file <fifo> (fifo opened but not read), send %d NetFlow v5 datagrams" % n,
                  "# (1 record each, dOctets = i+1), wait 1.2 s, SIGTERM, then read the fifo to EOF",
                  "# lib/e2e.py sigterm_once() is the executable form of this replay"] + ["# attempt: " + r["why"] for r in runs]
        res["failures"] = [dict(kind="oracle", detail="SIGTERM with a backlog: " + runs[-1]["why"], tag="e2e", replay_lines=replay)]
    try:
        os.unlink(binary)
    except OSError:
        pass
    return res
