"""
props.py — per-property configuration of the check driver: proof modules, theorem names
(the obligations counted in the evidence), generators with quick/thorough sizes, harness commands.
"""

PROPS = {}

PROPS["C05"] = dict(
    modules=["Proofs.C05"],
    theorems=["Goflow.C05.header_roundtrip", "Goflow.C05.record_roundtrip", "Goflow.C05.roundtrip",
              "Goflow.C05.truncation", "Goflow.C05.records_le_present", "Goflow.C05.layout_matches"],
    generators=[dict(name="C05", quick=3000, thorough=200000)],
    harness=["impl"],
    assumptions=["Go int is 64 bit; datagrams are at most 9000 bytes"],
    level_text="Theorems for all headers, all record lists and all truncations/counts (unbounded): decode∘encode = id, exactly min(count, complete records) records, never more records than 48-byte units present; the model is tied to decoders/netflowlegacy by the regenerated read-order fact and by differential execution (spec-generated datagrams and truncations).",
)

PROPS["C03"] = dict(
    modules=["Proofs.C03"],
    theorems=[],
    generators=[dict(name="C03", quick=1500, thorough=100000)],
    harness=["impl"],
)

PROPS["C04"] = dict(
    modules=["Proofs.C04"],
    theorems=[],
    generators=[dict(name="C04", quick=2000, thorough=150000)],
    harness=["impl"],
)

PROPS["C07"] = dict(
    modules=["Proofs.C07"],
    theorems=[],
    generators=[dict(name="C07", quick=60, thorough=4000)],
    harness=["impl"],
)

PROPS["C10"] = dict(
    modules=["Proofs.C10"],
    theorems=[],
    generators=[dict(name="C10", quick=150, thorough=10000)],
    harness=["impl"],
)

PROPS["C06"] = dict(
    modules=["Proofs.C06"],
    theorems=[],
    generators=[dict(name="C06", quick=40, thorough=3000)],
    harness=["impl"],
)

PROPS["C08"] = dict(
    modules=["Proofs.C08"],
    theorems=[],
    generators=[dict(name="C08", quick=400, thorough=40000)],
    harness=["impl"],
)

PROPS["C09"] = dict(
    modules=["Proofs.C09"],
    theorems=[],
    generators=[dict(name="C09", quick=400, thorough=40000)],
    harness=["impl"],
)

PROPS["C11"] = dict(
    modules=["Proofs.C11"],
    theorems=[],
    generators=[dict(name="C11", quick=40, thorough=3000)],
    harness=["impl"],
)
