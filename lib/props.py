"""
props.py — per-property configuration of the check driver: proof modules, theorem names
(the obligations counted in the evidence), generators with quick/thorough sizes, harness commands.
"""

PROPS = {}

PROPS["C05"] = dict(
    modules=["Proofs.C05", "Proofs.C05Trans", "Proofs.RawJson"],
    theorems=["Goflow.RawJson.raw_json_member_names", "Goflow.RawJson.raw_json_marshalers", "Goflow.C05Trans.decodeMessage_trans_eq", "Goflow.C05Trans.decodeMessageVersion_trans_eq", "Goflow.C05.header_roundtrip", "Goflow.C05.record_roundtrip", "Goflow.C05.roundtrip",
              "Goflow.C05.truncation", "Goflow.C05.records_le_present", "Goflow.C05.layout_matches"],
    generators=[dict(name="C05", quick=3000, thorough=200000)],
    harness=["impl"],
    assumptions=["Go int is 64 bit; datagrams are at most 9000 bytes"],
    level_text="Theorems for all headers, all record lists and all truncations/counts (unbounded): decode∘encode = id, exactly min(count, complete records) records, never more records than 48-byte units present; the model is tied to decoders/netflowlegacy by the regenerated read-order fact and by differential execution (spec-generated datagrams and truncations). The decoder itself (DecodeMessage, DecodeMessageVersion) is TRANSLATED from the Go source on every run and proved equal to the model for every byte string and every previous content of the packet object (C05Trans: decodeMessageVersion_trans_eq).",
)

PROPS["C03"] = dict(
    modules=["Proofs.C03", "Proofs.C03Trans", "Proofs.RawJson", "Proofs.C03Trans2", "Proofs.C03Trans3"],
    theorems=["Goflow.C03Trans2.decodeField_trans_eq", "Goflow.C03Trans2.decodeTemplateSet_trans_eq", "Goflow.C03Trans2.decodeNFv9OptionsTemplateSet_trans_eq", "Goflow.C03Trans2.decodeIPFIXOptionsTemplateSet_trans_eq", "Goflow.C03Trans2.decodeDataSetUsingFields_trans_eq", "Goflow.C03Trans2.decodeDataSet_trans_eq", "Goflow.C03Trans2.decodeOptionsDataSet_trans_eq", "Goflow.C03Trans3.decodeFlowSet_trans_eq", "Goflow.C03Trans3.decodeMessageCommon_trans_eq", "Goflow.C03Trans3.decodeMessageNetFlow_trans_eq", "Goflow.C03Trans3.decodeMessageIPFIX_trans_eq", "Goflow.C03Trans3.decodeMessageVersion_trans_eq", "Goflow.RawJson.raw_json_member_names", "Goflow.RawJson.raw_json_marshalers", 'Goflow.C03Trans.getTemplateSize_eq', 'Goflow.C03.field_roundtrip', 'Goflow.C03.optionField_roundtrip', 'Goflow.C03.templateSet_roundtrip', 'Goflow.C03.optionsTemplateSet_roundtrip_v9', 'Goflow.C03.optionsTemplateSet_roundtrip_ipfix', 'Goflow.C03.record_roundtrip', 'Goflow.C03.encRecord_length_ge', 'Goflow.C03.dataSet_roundtrip', 'Goflow.C03.optionsDataSet_roundtrip', 'Goflow.C03.flowSet_roundtrip', 'Goflow.C03.messageCommon_roundtrip', 'Goflow.C03.roundtrip'],
    generators=[dict(name="C03", quick=4000, thorough=100000)],
    harness=["impl"],
    level_text="Theorem roundtrip: decode (encode m) = m for every well-formed NetFlow v9 / IPFIX message against an RFC encoder (template store update, padding, enterprise bit, variable length), plus the differential run of the encoder's output through the Go decoder. The whole decoder of decoders/netflow/netflow.go is TRANSLATED from the Go source on every run and proved equal to the model for every byte string and every related template store (C03Trans, C03Trans2, C03Trans3).",
)

PROPS["C04"] = dict(
    modules=["Proofs.C04", "Proofs.C04Roundtrip", "Proofs.C04Trans", "Proofs.RawJson", "Proofs.C04Trans2Map", "Proofs.C04Trans2"],
    theorems=["Goflow.C04Trans2.decodeCounterRecord_trans_eq", "Goflow.C04Trans2.decodeFlowRecord_trans_eq", "Goflow.C04Trans2.decodeSample_trans_eq", "Goflow.C04Trans2.decodeMessage_trans_eq", "Goflow.C04Trans2.decodeMessageVersion_trans_eq", "Goflow.RawJson.raw_json_member_names", "Goflow.RawJson.raw_json_marshalers", 'Goflow.C04Trans.decodeIP_trans_eq', 'Goflow.C04.xdrString_roundtrip', 'Goflow.C04.ip_roundtrip', 'Goflow.C04.unknown_record_skipped', 'Goflow.C04.unknown_flow_record',
              'Goflow.C04.flowRecord_roundtrip', 'Goflow.C04.counterRecord_roundtrip', 'Goflow.C04.sample_roundtrip', 'Goflow.C04.roundtrip', 'Goflow.C04.exampleDatagram_wf'],
    generators=[dict(name="C04", quick=4000, thorough=150000)],
    harness=["impl"],
    level_text="Theorem roundtrip: decodeMessageVersion (encode d) = ok (expected d) for every well-formed sFlow v5 datagram (all five sample kinds, eleven flow record kinds, counter records), plus the differential run against the Go decoder. The whole decoder (DecodeIP, DecodeCounterRecord, DecodeFlowRecord, DecodeSample, DecodeMessage, DecodeMessageVersion) is TRANSLATED from the Go source on every run and proved equal to the model for every byte string (C04Trans, C04Trans2); BinaryRead's string / []uint32 paths are restated as prelude primitives.",
)

PROPS["C07"] = dict(
    modules=["Proofs.C07", "Proofs.C07E2E", "Proofs.C03Trans3"],
    theorems=["Goflow.C03Trans3.decodeMessageCommon_trans_eq", 'Goflow.C07.produce_order_v5', 'Goflow.C07.produce_length_v5', 'Goflow.C07.count_any_bytes_v5', 'Goflow.C07.produce_length_netflow', 'Goflow.C07.count_any_bytes_netflow', 'Goflow.C07.produce_length_sflow', 'Goflow.C07.no_output_on_fatal_error',
              'Goflow.C07E2E.v5_pipe_messages', 'Goflow.C07E2E.v5_pipe_messages_trunc', 'Goflow.C07E2E.v5_auto_messages',
              'Goflow.C07E2E.roundtripU', 'Goflow.C07E2E.netflow_pipe_messages', 'Goflow.C07E2E.netflow_pipe_messages_known', 'Goflow.C07E2E.netflow_pipe_messages_default',
              'Goflow.C07E2E.netflow_pipe_conversion_failure', 'Goflow.C07E2E.recordsConvert_of_widths', 'Goflow.C07E2E.netflow_auto_eq',
              'Goflow.C07E2E.sflow_pipe_messages', 'Goflow.C07E2E.sflow_pipe_messages_default', 'Goflow.C07E2E.sflow_pipe_conversion_failure', 'Goflow.C07E2E.sflow_no_output_on_error',
              'Goflow.C07E2E.msgWFK_sound', 'Goflow.C07E2E.history_step', 'Goflow.C07E2E.history_counts', 'Goflow.C07E2E.history_counts_default', 'Goflow.C07E2E.history_counts_get'],
    generators=[dict(name="C07", quick=150, thorough=4000)],
    harness=["impl"],
    level_text="Theorems: message count = record count and order for v5, v9 / IPFIX and sFlow, never more messages than complete records for any byte string. End to end against the wire encoders of the specification side (C07E2E): for every well-formed v5 / v9 / IPFIX / sFlow datagram the pipe emits exactly, in wire order, the stamped conversion of each flow record it carries (v5_pipe_messages incl. datagrams cut inside a record, netflow_pipe_messages with unknown-template sets yielding none and template-not-found, sflow_pipe_messages), nothing at all when a conversion fails, and history_counts: along every history of well-formed datagrams of several exporters the i-th call emits the count the specification-side template knowledge predicts. Histories with count oracles are the tie.",
)

PROPS["C10"] = dict(
    modules=["Proofs.C10", "Proofs.C10Full", "Proofs.C10Trunc", "Proofs.C10Trans", "Proofs.C09Pad"],
    theorems=["Goflow.C09Pad.raw_header_dissects_capture", 'Goflow.C10.parser_table_matches', 'Goflow.C10.guards_cover_indices', 'Goflow.C10.encap_preserves_outer', 'Goflow.C10.icmp_terminal', 'Goflow.C10.icmp_first_only', 'Goflow.C10.encap_rule', 'Goflow.C10.encap_monotone', 'Goflow.C10.layer_sizes',
              'Goflow.C10.full_capture', 'Goflow.C10.full_capture_cfg', 'Goflow.C10.full_capture_plain', 'Goflow.C10.full_capture_v6ext', 'Goflow.C10.full_capture_mpls', 'Goflow.C10.full_capture_tunnel',
              'Goflow.C10.sampleFrame_wf', 'Goflow.C10.sampleTunnel_wf',
              'Goflow.C10.trunc_capture_cfg', 'Goflow.C10.trunc_capture_eq', 'Goflow.C10.expectedAt_mono', 'Goflow.C10.expectedAt_full', 'Goflow.C10.expectedAt_below',
              'Goflow.C10.trunc_capture', 'Goflow.C10.trunc_capture_cfg_below', 'Goflow.C10.trunc_capture_sizes',
              'Goflow.C10Trans.parseEthernet_eq', 'Goflow.C10Trans.parse8021Q_eq', 'Goflow.C10Trans.parseMPLS_eq', 'Goflow.C10Trans.parseIPv4_eq', 'Goflow.C10Trans.parseIPv6_eq',
              'Goflow.C10Trans.parseIPv6HeaderFragment_eq', 'Goflow.C10Trans.parseIPv6HeaderRouting_eq', 'Goflow.C10Trans.parseTCP_eq', 'Goflow.C10Trans.parseUDP_eq',
              'Goflow.C10Trans.parseGRE_eq', 'Goflow.C10Trans.parseTeredoDst_eq', 'Goflow.C10Trans.parseGeneve_eq', 'Goflow.C10Trans.parseICMP_eq', 'Goflow.C10Trans.parseICMPv6_eq',
              'Goflow.C10Trans.translated_parsers_eq', 'Goflow.C10Trans.nextParserEtype_eq', 'Goflow.C10Trans.nextParserProto_eq'],
    generators=[dict(name="C10", quick=300, thorough=10000)],
    harness=["impl"],
    level_text="Theorems: the bodies of the 14 layer parsers and of the ethertype / protocol dispatchers are TRANSLATED from the Go source into Lean on every run (extract/translate.go, a syntax-directed translation of a Go subset with Go's fixed-width arithmetic and an explicit panic outcome for every index / slice) and proved equal to the hand-written model for every message, byte string and parse configuration (parseX_eq, translated_parsers_eq, nextParserEtype_eq, nextParserProto_eq: no index can go out of range under the parsers' own guards, the loops end within their fuel); parser table and loop body of ParsePacket equal the regenerated ones; guards cover every index; encapsulation flags along parser chains (encap_rule, encap_monotone, encap_preserves_outer); ICMP rules; layer sizes; full_capture (every well-formed fully captured frame of the grammar, incl. extension headers, MPLS, GRE / IP-in-IP nesting, is reported exactly as the frame specification says); truncated captures: trunc_capture_cfg (for every well-formed frame and every capture length n the dissector reports exactly expectedAt f n) and expectedAt_below / trunc_capture (that message is below the full one: every scalar column unset or the true value, every list column a prefix, one size per reported layer with only the last possibly smaller; Etype / VlanId may be those of an outer L2 header), expectedAt_mono. The frame oracle at every capture length ties model and code.",
)

PROPS["C06"] = dict(
    modules=["Proofs.C06", "Proofs.C08Trans", "Proofs.C03Trans3"],
    theorems=["Goflow.C03Trans3.decodeFlowSet_trans_eq", "Goflow.C03Trans3.decodeMessageVersion_trans_eq", 'Goflow.C06.templateKey_injective', 'Goflow.C06.store_refines', 'Goflow.C06.latest_wins', 'Goflow.C06.isolation', 'Goflow.C06.addTemplates_other', 'Goflow.C06.unknown_template', 'Goflow.C06.exporter_isolation', 'Goflow.C06.templateKey_source', 'Goflow.C08Trans.templateKey_eq'],
    generators=[dict(name="C06", quick=120, thorough=3000)],
    harness=["impl"],
    level_text="Theorems: the template store refines a map keyed by (version, domain, id) per exporter; latest announcement wins; announcements never affect another key or exporter. Histories (re-announcements, broken-tail datagrams, foreign ids) are the tie.",
)

PROPS["C08"] = dict(
    modules=["Proofs.C08", "Proofs.C08Full", "Proofs.C08Trans", "Proofs.C08Trans2"],
    theorems=['Goflow.C08.cases_match', 'Goflow.C08.decodeUNumber_eq', 'Goflow.C08.decodeUNumber_long', 'Goflow.C08.decodeUNumberLE_eq', 'Goflow.C08.writeDecoded_trunc', 'Goflow.C08.full_value', 'Goflow.C08.v9_time', 'Goflow.C08.ipfix_time', 'Goflow.C08.v5_sampling_14bit', 'Goflow.C08.v5_record_eq_ref',
              'Goflow.C08.record_eq_ref', 'Goflow.C08.convertFields_record_eq_ref', 'Goflow.C08.packet_eq_ref', 'Goflow.C08.recordOK_of_check', 'Goflow.C08.apply_cases', 'Goflow.C08.legacy_source_matches', 'Goflow.C08Trans.decodeUNumber_trans_eq', 'Goflow.C08Trans.decodeUNumberLE_trans_eq', 'Goflow.C08Trans.convertLegacyRecord_eq', 'Goflow.C08Trans.templateKey_eq', 'Goflow.C08Trans2.convertField_eq', 'Goflow.C08Trans2.convertFields_cons', 'Goflow.C08Trans2.convertLoop_eq', 'Goflow.C08Trans2.convertNetFlowDataSet_eq', 'Goflow.C08Trans2.addrReplaceCheck_raw', 'Goflow.C08Trans2.mapCustomNetFlow_eq'],
    generators=[dict(name="C08", quick=400, thorough=40000)],
    harness=["impl"],
    level_text="Theorems: the conversion's case table equals the table regenerated from the source; v5_record_eq_ref; record_eq_ref / packet_eq_ref — for every v9 / IPFIX record of the documented domain the conversion equals the documented reference, whatever the template order; number decoding at every width; time rules.",
)

PROPS["C09"] = dict(
    modules=["Proofs.C09", "Proofs.C09Trans", "Proofs.C09Pad"],
    theorems=["Goflow.C09Pad.raw_header_dissects_capture", "Goflow.C09Pad.short_announced_length", "Goflow.C09Pad.long_announced_length", "Goflow.C09Trans.parseSampledHeaderConfig_eq", "Goflow.C09Trans.case_sampledHeader", "Goflow.C09Trans.case_sampledIPv4", "Goflow.C09Trans.case_sampledIPv6", "Goflow.C09Trans.case_extendedRouter", "Goflow.C09Trans.case_extendedSwitch", "Goflow.C09Trans.case_extendedGateway", "Goflow.C09Trans.loop1_eq", "Goflow.C09Trans.searchSFlowSampleConfig_eq", "Goflow.C09Trans.searchSFlowSampleConfig_convertSample", "Goflow.C09Trans.getSFlowFlowSamples_eq", "Goflow.C09Trans.convertSamples_translated", 'Goflow.C09.record_eq_ref', 'Goflow.C09.records_eq_ref', 'Goflow.C09.sample_eq_ref', 'Goflow.C09.expanded_sample_eq_ref', 'Goflow.C09.non_flow_samples_yield_nothing', 'Goflow.C09.as_rules', 'Goflow.C09.conversion_source_matches'],
    generators=[dict(name="C09", quick=800, thorough=40000)],
    harness=["impl"],
    level_text="Theorems: record_eq_ref, records_eq_ref, sample_eq_ref, expanded_sample_eq_ref, non_flow_samples_yield_nothing, as_rules — sFlow samples map as documented for every sample and record list (frames inside raw headers are C10's subject). The conversion itself (ParseSampledHeaderConfig, SearchSFlowSampleConfig with every arm of its record switch, GetSFlowFlowSamples) is TRANSLATED from producer_sf.go on every run and proved equal to the model (C09Trans: searchSFlowSampleConfig_eq, case_* per record kind, convertSamples_translated).",
)

PROPS["C11"] = dict(
    modules=["Proofs.C11"],
    theorems=['Goflow.C11.rates_refine', 'Goflow.C11.rate_zero_before_any', 'Goflow.C11.rate_of_message', 'Goflow.C11.rate_isolation', 'Goflow.C11.search_order', 'Goflow.C11.v5_rate', 'Goflow.C11.samplingKey_source'],
    generators=[dict(name="C11", quick=120, thorough=3000)],
    harness=["impl"],
    level_text="Theorems: rates_refine (the sampling state is a map keyed by version and domain per exporter address), rate_of_message, rate_isolation, search_order (305, 50, 34; reduced-size encodings), v5_rate. Histories with a reference map are the tie.",
)

PROPS["C12"] = dict(
    modules=["Proofs.C12", "Proofs.C12Pool", "Proofs.C12Commit"],
    theorems=["Goflow.C12.reset_total", "Goflow.C12.pool_independent", "Goflow.C12.sflow_stateless",
              "Goflow.C12Pool.decodeFlowP_eq", "Goflow.C12Pool.sent_formatter", "Goflow.C12Pool.history_pool_free",
              "Goflow.C12Pool.pool_content_irrelevant", "Goflow.C12Pool.take_plain", "Goflow.C12Pool.decodeFlowP_plain", "Goflow.C12Pool.history_plain", "Goflow.C12Pool.leak_without_reset",
              "Goflow.C12Pool.state_inventory", "Goflow.C12Commit.commit_once", "Goflow.C12Commit.refuseAt_state", "Goflow.C12Commit.refuseAt_prefix", "Goflow.C12Commit.refuseAt_refused"],
    generators=[dict(name="C12", quick=150, thorough=4000)],
    harness=["impl"],
    confirm_alone=True,
    level_text="Theorems: reset_total, pool_independent (the messages of a datagram are a function of the datagram, the receive metadata, the configuration and the exporter's templates and rates only), sflow_stateless; with the message pool inside the model (Goflow/Pool.lean: sync.Pool with arbitrary content, an oracle for every Get, Reset, the converters writing into the message they are given, Produce's stamps, the deferred Commit): history_pool_free — for every history, every initial pool and every oracle the outputs equal those of the pool-less model; leak_without_reset shows the Reset carries it; state_inventory ties the model's inventory of what outlives a datagram (members of the pooled message, Get / Put sites with the statement after each Get, FlowMessage.Reset, fields of pipes / producer / template and sampling systems, package-level variables) to the source on every run. Histories with pool poisoning, half-failed datagrams and custom fields printed as JSON / text are the tie, and a differing stateless datagram is re-run alone in a fresh process. commit_once: the only Commit calls are the two deferred ones right behind the production step of the pipes (regenerated call sites); a format refusing the k-th message of a datagram (`failat`) is part of the histories and of the model (refuseAt_*).",
)

PROPS["C13"] = dict(
    modules=["Proofs.C13", "Proofs.C13Json", "Proofs.C13Object", "Proofs.C13Valid", "Proofs.C13Agree", "Proofs.C13Proto", "Proofs.C13Grammar"],
    theorems=["Goflow.C13.varint_roundtrip", "Goflow.C13.frame_split", "Goflow.C13.stream_of_messages",
              "Goflow.C13.jsonQuoteBody_closed", "Goflow.C13.jsonQuote_valid", "Goflow.C13.utf8_plain",
              "Goflow.C13.number_decimal", "Goflow.C13.valOK_array", "Goflow.C13.members_ok", "Goflow.C13.object_ok",
              "Goflow.C13.render_scalar", "Goflow.C13.item_shape", "Goflow.C13.formatJSON_valid",
              "Goflow.C13.shapeOK_default", "Goflow.C13.default_valid", "Goflow.C13.mapUnknown_inv", "Goflow.C13.valueOf_scalars",
              "Goflow.C13.formatJSON_valid_sharp", "Goflow.C13.forms_agree", "Goflow.C13.same_item_count",
              "Goflow.C13.unmarshal_marshal", "Goflow.C13.stream_roundtrip", "Goflow.C13.exMsg_ok",
              "Goflow.C13.Grammar.valid_sound", "Goflow.C13.Grammar.valid_complete", "Goflow.C13.Grammar.valid_iff",
              "Goflow.C13.Grammar.formatJSON_is_json_object", "Goflow.C13.Grammar.default_is_json_object",
              "Goflow.C13.Grammar.jsonQuote_is_json_string", "Goflow.C13.Grammar.decimal_is_json_number"],
    generators=[dict(name="C13", quick=100, thorough=1500)],
    harness=["impl"],
    level_text="Theorems: frame_split / stream_roundtrip (a stream of N frames reads back as the N messages, unmarshal_marshal with a reader written from the protobuf encoding rules), jsonQuote_valid (every byte string is written as one JSON string literal), formatJSON_valid_sharp (the JSON form is accepted by the recogniser for every formatter with plain names and every message whose list-valued fields are printed as arrays), default_valid (unconditional for the default configuration), forms_agree (JSON and text are two syntaxes of one list of rendered fields). The notion of well-formed JSON is declarative: RFC 8259 as inductive predicates over bytes (Goflow/Spec/JsonGrammar.lean), with valid_iff — the executable recogniser accepts exactly the texts of the grammar — and formatJSON_is_json_object / default_is_json_object: the JSON form is one JObject. PARTIAL only in that the agreement of this grammar with Go's encoding/json (byte-level strings, no UTF-8 check) is compared on edge cases and mutations, the renderings to the documentation by oracles computed with Python's ipaddress / datetime.",
)

PROPS["C14"] = dict(
    modules=["Proofs.C14", "Proofs.C14Bits", "Proofs.C14BitsFull", "Proofs.C14Map", "Proofs.C14Compile", "Proofs.C14Compose", "Proofs.C14Trans"],
    theorems=["Goflow.C14.key_function", "Goflow.C14.no_key", "Goflow.C14.custom_varint_readback", "Goflow.C14.custom_bytes_readback",
              "Goflow.C14.mapCustom_varint", "Goflow.C14.getBytes_total", "Goflow.C14.extract_aligned", "Goflow.C14.getBytes_aligned",
              "Goflow.C14.getBytes_eq_extract_aligned", "Goflow.C14.getBytes_eq_extract", "Goflow.C14.toBits_shiftPass",
              "Goflow.C14Map.mapCustom_spec", "Goflow.C14Map.mapLayerEntries_spec", "Goflow.C14Map.mapLayerKeys_spec", "Goflow.C14Map.parseLoop_step",
              "Goflow.C14Map.element_mapping_spec", "Goflow.C14Map.convertFields_custom", "Goflow.C14Map.custom_record_spec",
              "Goflow.C14Map.lookupNetflow_last", "Goflow.C14Map.effectOf_custom", "Goflow.C14Map.effectOf_numeric",
              "Goflow.C14Compile.compile_eq", "Goflow.C14Compile.compile_ok_iff", "Goflow.C14Compile.accepted_iff", "Goflow.C14Compile.compile_netflow_entries",
              "Goflow.C14Compile.compile_formatter", "Goflow.C14Compile.file_lookup_last", "Goflow.C14Compile.file_element_mapping",
              "Goflow.C14Compile.file_element_unmapped", "Goflow.C14Compile.file_layer_entries",
              "Goflow.C14Compose.runParser_unk", "Goflow.C14Compose.parsePacket_layers_commute", "Goflow.C14Compose.parsePacket_layers_sane",
              "Goflow.C14Compose.parsePacket_unmatched", "Goflow.C14Compose.packetTrace_frame", "Goflow.C14Compose.full_capture_mapped",
              "Goflow.C14Compose.full_capture_mapped_sane", "Goflow.C14Compose.full_capture_unmatched", "Goflow.C14Compose.file_full_capture",
              "Goflow.C14Trans.getBytes_trans_eq", "Goflow.C14Trans.getBytes_trans_eq_nonneg", "Goflow.C14Trans.getBytes_panic"],
    generators=[dict(name="C14", quick=70, thorough=1260)],
    harness=["impl"],
    level_text="Theorems: getBytes_eq_extract (GetBytes = bit-list reference for every buffer, offset, length, mode), mapCustom_spec, mapLayerEntries_spec / mapLayerKeys_spec, element_mapping_spec, custom_record_spec, custom_varint_readback / custom_bytes_readback, key_function. PARTIAL: the compile step of the configuration and the whole-frame composition of layer mappings are tied by the differential run and the reference oracles (bit reference incl. exhaustive digests over all 1- and 2-byte buffers), not proved.",
)

PROPS["C16"] = dict(
    modules=["Proofs.C16", "Proofs.Findings.C16", "Proofs.C15Locks", "Proofs.C16Multi"],
    theorems=["Goflow.C16.inv_init", "Goflow.C16.inv_step", "Goflow.C16.inv_run", "Goflow.C16.publish_once",
              "Goflow.C16.single_system", "Goflow.C16.nothing_lost", "Goflow.Findings.C16.lost_update_possible",
              "Goflow.C15Locks.maps_only_grow", "Goflow.C15Locks.lock_discipline", "Goflow.C16.instrumented_store_atomic",
              "Goflow.C16Multi.nothing_lost_multi", "Goflow.C16Multi.published_stable", "Goflow.C16Multi.single_system_per_key",
              "Goflow.C16Multi.Findings.cow_stale_loses", "Goflow.C16Multi.Findings.cow_stale_equal_keys"],
    generators=[dict(name="C16", quick=1, thorough=1, subseeds=1)],
    count_all=True,
    harness=["impl"],
    rule="every plan (interleaving of start-until-parked / release-until-returned events) for 2 and 3 workers, for the pipe's template systems and the producer's sampling systems, forced on the real code through the public factory callbacks; exhaustive",
    level_text="Theorems: an inductive invariant of the get-or-create protocol for every number of workers and every schedule: one system per exporter is published, nothing registered is lost (publish_once, single_system, nothing_lost); lost_update_possible for the pinned protocol. Every plan for 2 and 3 workers is forced on the real code through the factory callbacks.",
)

PROPS["C19"] = dict(
    modules=["Proofs.C19", "Proofs.Findings.C19", "Proofs.C19Faults", "Proofs.Findings.C19Faults"],
    theorems=["Goflow.C19Faults.acked_written", "Goflow.C19Faults.failed_not_written", "Goflow.C19Faults.written_iff", "Goflow.C19Faults.no_partial_units", "Goflow.C19Faults.lock_exclusion", "Goflow.C19Faults.after_failed_reopen_sends_fail", "Goflow.Findings.C19Faults.swallowed_error_acknowledges_unwritten", "Goflow.C19.inv_init", "Goflow.C19.inv_step", "Goflow.C19.inv_run", "Goflow.C19.no_closed_write",
              "Goflow.C19.each_once", "Goflow.C19.units_in_one_file", "Goflow.Findings.C19.closed_write_possible",
              "Goflow.C19.skeleton_matches", "Goflow.C19.open_appends"],
    generators=[dict(name="C19", quick=12, thorough=300, subseeds=4)],
    harness=["impl"],
    count_all=True,
    watchdog_ms=30000,
    assumptions=["a single write(2) on an O_APPEND descriptor is atomic with respect to other writers of the same file",
                 "fmt.Fprint issues one Write call for its whole argument"],
    level_text="Theorems over the file transport's transition system for every number of senders, rotations and interleavings: no write on a closed file, every message written exactly once, every unit in one file; closed_write_possible for the pinned protocol. Runtime tie: plans forced through the file.send.picked / file.reopened hooks and an unscheduled stress run with messages up to 33 KB. Assumes a write(2) on an O_APPEND descriptor is atomic. With failing reopens (C19Faults): acked_written, failed_not_written, written_iff, no_partial_units, lock_exclusion, after_failed_reopen_sends_fail for every sender count and schedule.",
)

PROPS["C17"] = dict(
    modules=["Proofs.C17", "Proofs.C17Faults"],
    theorems=["Goflow.C17Faults.blocking_with_queue_never_drops", "Goflow.C17Faults.blocking_with_queue_drop_disabled", "Goflow.C17Faults.blocking_full_queue_waits", "Goflow.C17Faults.blocking_accounting", "Goflow.C17.inv_init", "Goflow.C17.inv_step", "Goflow.C17.inv_run", "Goflow.C17.conservation",
              "Goflow.C17.decoded_dropped_disjoint", "Goflow.C17.quiescent_accounting", "Goflow.C17.blocking_no_drop",
              "Goflow.C17.skeleton_matches", "Goflow.C17.bufInv_init", "Goflow.C17.bufInv_step", "Goflow.C17.buffer_exclusive"],
    generators=[dict(name="C17", quick=10, thorough=200, subseeds=4)],
    harness=["impl"],
    count_all=True,
    watchdog_ms=120000,
    assumptions=["kernel-level loss before ReadFromUDP is outside the model; the udp.read hook gives the exact number of datagrams taken from the kernel",
                 "Go channels, sync.Pool and sync.WaitGroup behave as documented (they are the step rules of the transition system)"],
    level_text="Theorems over the receiver's transition system (readers, queue, workers, Stop) for every reader / worker count, queue capacity and schedule: conservation (each datagram read is decoded once or dropped once), decoded / dropped disjoint, blocking mode never drops, buffers are exclusive. PARTIAL: the atomic steps are validated against real sockets through the udp.read hook, kernel behaviour is outside the model. Blocking with a queue of any capacity (C17Faults): drop is disabled at every point of every run.",
)

import e2e

PROPS["C18"] = dict(
    modules=["Proofs.C18", "Proofs.C18Faults"],
    theorems=["Goflow.C18Faults.results_spec_faults", "Goflow.C18Faults.never_hangs", "Goflow.C18Faults.state_after_calls", "Goflow.C18Faults.workers_run_session_decoder", "Goflow.C18Faults.refused_start_keeps_decoder", "Goflow.C18Faults.failed_start_restartable", "Goflow.C18Faults.restart_installs_new_decoder", "Goflow.C18Faults.faultfree_agrees", "Goflow.C18.start_stop_results", "Goflow.C18.shutdown_order", "Goflow.C18.skeleton_matches",
              "Goflow.C18.drainInv_init", "Goflow.C18.drainInv_step", "Goflow.C18.drainInv_run",
              "Goflow.C18.stop_drains", "Goflow.C18.stop_not_stuck",
              "Goflow.C18.quit_open_after_every_call", "Goflow.C18.callRun2_results", "Goflow.C18.startup_order"],
    generators=[dict(name="C18", quick=4, thorough=6, subseeds=1)],
    harness=["impl"],
    count_all=True,
    extra=[e2e.sigterm_backlog],
    watchdog_ms=60000,
    assumptions=["decoder calls return (the `finish` step is always eventually taken); socket rebinding and process exit are runtime behaviour seen only by the harness"],
    level_text="Theorems: start_stop_results (every Start / Stop sequence returns what the specification says), quit_open_after_every_call, stop_drains, stop_not_stuck, shutdown_order and the synchronisation skeletons regenerated from the source. Runtime tie: every call sequence up to length 4 on real receivers with traffic and a liveness check, and an end-to-end SIGTERM-with-backlog run of the goflow2 binary. PARTIAL: process exit and socket rebinding are observed, not proved. Statement-level model with failing binds and per-Start decoders (C18Faults): results_spec_faults, never_hangs, workers_run_session_decoder, failed_start_restartable for every call sequence; `updown` sequences incl. Starts that cannot bind are computed by that model.",
)

PROPS["C20"] = dict(
    modules=["Proofs.C20", "Proofs.C20Faults", "Proofs.Findings.C20"],
    theorems=["Goflow.C20Faults.every_lifecycle_flushed_contract", "Goflow.C20Faults.every_lifecycle_delivered_contract", "Goflow.C20Faults.every_lifecycle_flushed", "Goflow.C20Faults.lifecycle_outcome_contract", "Goflow.C20Faults.inputs_are_sends", "Goflow.C20Faults.close_forwards_nonblocking", "Goflow.C20Faults.reader_irrelevant", "Goflow.C20Faults.draining_accepts_errors", "Goflow.C20Faults.close_step_decreases", "Goflow.C20Faults.close_bounded", "Goflow.C20Faults.close_returns_within", "Goflow.Findings.C20.once_close_skips_second_lifecycle", "Goflow.Findings.C20.blocking_forward_deadlock", "Goflow.Findings.C20.go_close_returns_same_schedule", "Goflow.C20.send_preserves", "Goflow.C20.close_flushes_before_stop", "Goflow.C20.all_delivered",
              "Goflow.C20.equal_keys_same_partition", "Goflow.C20.producer_settings_match"],
    generators=[dict(name="C20", quick=8, thorough=80, subseeds=4)],
    harness=["impl"],
    count_all=True,
    watchdog_ms=60000,
    level_text="PARTIAL by a wide margin: theorems cover the 30-line adapter (topic/key/value unchanged and in order; producer.Close precedes the stop of the error forwarder, as regenerated from the source; producer_settings_match: every assignment of a sarama producer setting in Init with its conditions, regenerated — error stream on, size limit and flush threshold separate flags, hash partitioner exactly under the hashing flag) and the consequences of a stated contract of sarama's AsyncProducer; delivery, retries and the error stream live in sarama's runtime and are exercised against an in-process mock broker (batches of 1..2000, flush settings, hashing on/off, produce-error and broker-closed fault scripts), not proved. Lifecycles of the singleton driver as a transition system (C20Faults): every_lifecycle_flushed, close_forwards_nonblocking, close_returns_within for every schedule, under the same stated contract.",
    assumptions=["sarama AsyncProducer contract (Goflow.Conc.KafkaAdapter.Contract): every message accepted on Input() before Close is delivered exactly once unchanged when Close returns; HashPartitioner is a function of the key bytes",
                 "the mock broker speaks the Kafka 0.11 produce protocol (transport.kafka.version=0.11.0.0 in the harness)"],
)

PROPS["C15"] = dict(
    modules=["Proofs.C15", "Proofs.C15Locks", "Proofs.C15Refresh", "Proofs.C15Writes"],
    theorems=["Goflow.C15Writes.shared_fields_written_before_workers", "Goflow.C15Writes.per_datagram_writes_are_map_stores", "Goflow.C15.decodeFlow_congr", "Goflow.C15.parallel_eq_sequential", "Goflow.C15.per_datagram_order",
              "Goflow.C15.sflow_readOnly", "Goflow.C15.skeleton_matches",
              "Goflow.C15Locks.load_guarded", "Goflow.C15Locks.store_guarded", "Goflow.C15Locks.lock_discipline", "Goflow.C15Locks.maps_only_grow",
              "Goflow.C15Refresh.decodeFlow_congrL", "Goflow.C15Refresh.refresh_readOnly", "Goflow.C15Refresh.refresh_readOnly_any",
              "Goflow.C15Refresh.mixed_parallel_eq_sequential", "Goflow.C15Refresh.mixed_per_datagram_order", "Goflow.C15Refresh.addTemplates_same"],
    count_all=True,
    level_text="PARTIAL: theorems take whole DecodeFlow calls as atomic steps and prove that for read-only workloads every processing order yields, per datagram, the messages of processing it alone on the prologue state (multiset equality and per-datagram order); for the four shared maps (pipe templates, producer sampling systems, a template system's templates, a sampling system's rates) a lockset checker runs, kernel-evaluated, over the lock / access / block events regenerated from the source on every run (lock_discipline), and load_guarded / store_guarded prove what its verdict means for every event list; data-race freedom of everything else and interleavings inside one call are explored with the race detector on the real code (2..32 goroutines, shared pipes, templates and rates re-announced while data is cut with them), not proved.",
    generators=[dict(name="C15", quick=6, thorough=200, subseeds=8)],
    harness=["impl"],
    race=["impl"],
    impl_bin="impl-race",
    watchdog_ms=60000,
    assumptions=["data-race freedom is a fact about the Go memory model: it is explored with the race detector (-race build of the harness), and assumed by the theorems, whose steps are whole DecodeFlow calls"],
)

PROPS["C01"] = dict(
    modules=["Proofs.C01", "Proofs.C01Sane", "Proofs.C01Any", "Proofs.C03Trans3"],
    safety_classes={"ok", "err", "err:template-not-found", "err:recovered"},
    theorems=["Goflow.C03Trans3.decodeMessageVersion_trans_eq", "Goflow.C01.v5_safe", "Goflow.C01.sflow_safe", "Goflow.C01.netflow_safe", "Goflow.C01.iterations_bounded",
              "Goflow.C01.parsePacket_safe", "Goflow.C01.produce_safe", "Goflow.C01.pipe_safe", "Goflow.C01.pipe_history_safe",
              "Goflow.C01.mapCustom_sane", "Goflow.C01.parseLoop_sane", "Goflow.C01.parsePacket_sane", "Goflow.C01.produce_sane", "Goflow.C01.pipe_sane", "Goflow.C01.pipe_history_sane",
              "Goflow.C01.pipe_any_total", "Goflow.C01.pipe_any", "Goflow.C01.decodeFlowW_eq", "Goflow.C01.wrapped_safe",
              "Goflow.C01.wrapped_history_safe", "Goflow.C01.wrapped_history_all_safe", "Goflow.C01.recovered_only_if_insane",
              "Goflow.C01.recovered_state", "Goflow.C01.after_recovered", "Goflow.C01.recovered_rates_untouched",
              "Goflow.C01.recovered_templates", "Goflow.C01.decoder_wrapper_idle"],
    generators=[dict(name="C01", quick=60, thorough=3000)],
    harness=["impl"],
    level_text="Theorems: for every byte string, every template / sampling state and every history the decoders, the dissector, the conversion and the pipes of the model end in a result or a returned error (panic and fuel exhaustion are explicit outcomes of the model and proved unreachable; loops need at most 2|d|+3 iterations) — without mappings (pipe_history_safe) and with mappings under Sane: non-negative bit offsets / lengths, destinations other than the two unexported struct members (pipe_history_sane). For EVERY configuration the loader accepts (Proofs/C01Any.lean): pipe_any_total — no loop runs out of fuel, whatever the mappings; with the pipes wired as main.go wires them (Goflow/Wrapped.lean: WrapPanicProducer, PanicDecoderWrapper) wrapped_history_all_safe — every outcome along every history is a result, a returned error or a recovered panic, never an escaping one; recovered_state / after_recovered / recovered_rates_untouched / recovered_templates — what a recovered datagram leaves (templates learned, no rate written, messages dropped) and that the next datagram is processed from exactly that state; recovered_only_if_insane. PARTIAL only in that wall-clock time of the real process is watched by a watchdog, not proved.",
)

PROPS["C02"] = dict(
    modules=["Proofs.C02", "Proofs.C02Cost"],
    theorems=["Goflow.C02.make_sites_capped", "Goflow.C02.sflow_make_capped", "Goflow.C02.records_le_bytes",
              "Goflow.C02.dataSet_fields_bound", "Goflow.C02.v5_alloc", "Goflow.C02.message_objects_le_records",
              "Goflow.C02Cost.cost_within_budget", "Goflow.C02Cost.cost_within_budget_udp", "Goflow.C02Cost.Netflow.netflow_cost_bound", "Goflow.C02Cost.Sflow.sflow_cost_bound",
              "Goflow.C02Cost.V5.v5_cost_bound", "Goflow.C02Cost.produce_cost_bound", "Goflow.C02Cost.Netflow.netflow_split", "Goflow.C02Cost.Sflow.sflow_split", "Goflow.C02Cost.V5.v5_split",
              "Goflow.C02Cost.uncapped_cost_unbounded"],
    generators=[dict(name="C02", quick=50, thorough=500)],
    harness=["impl"],
    count_all=True,
    level_text="Theorems: an allocation COST MODEL (Goflow/Cost.lean: every make / append / boxing site of the three decoders, the conversion and the pipes, charged in the order the Go code allocates — a make before its elements are read, so failed decodes have paid; element sizes from unsafe.Sizeof, append growth over-approximated by 5.5x) and cost_within_budget: for every pipe, state, exporter and every byte string of at most 16000 bytes (the receive buffer is 9000) the modelled cost is at most 16 MiB + 256 x length x (1 + widest template the datagram can reference); per-decoder bounds, the share of the conversion not budgeted twice (netflow_split, sflow_split, v5_split), uncapped_cost_unbounded (the caps carry it); make_sites_capped etc. on the regenerated make sites. Tie: the real allocator is measured per datagram (runtime.MemStats.TotalAlloc around DecodeFlow) and compared on every run with the budget of the property at the widest template of the model (oracle) and with 2 x modelled cost + 64 KiB (validation of the cost model: a site missing from the model shows up). PARTIAL in that the allocator itself (size classes, map growth, the Prometheus registry) is measured, not modelled; above ~17 KB (unreachable through the 9000-byte receiver) the real code exceeds the budget — recorded as an observation.",
    assumptions=["Go allocator size classes, interface boxing and append growth are abstracted: the budget comparison is a measurement on the real process"],
)
