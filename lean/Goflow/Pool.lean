import Goflow.Pipe
/-!
  producer/proto: the message pool (`protoMessagePool`, a sync.Pool) made explicit.

  `Goflow.Pipe` starts every message from `FlowMsg.empty`. Here the life cycle of the real code is modelled:
  every creation site does `fmsg := protoMessagePool.Get(); fmsg.Reset()`, the converters write into the
  message they are given, `Produce` stamps the messages and sets their formatter, and the deferred `Commit`
  puts the returned set back into the pool. Which object `Get` hands out is the runtime's choice: any message
  put back earlier or a new one — an oracle (`cs`, one number per `Get`) decides.

  The parameter `reset` of the creation sites is `true` for the code as it is (the regenerated fact
  `poolGetSites` says that every `Get` is directly followed by `Reset()` on the same variable); `false` models a
  site without the `Reset` and is used only to show that the theorem of `Proofs/C12Pool.lean` is about something.
-/
namespace Goflow.Pool
open Goflow Goflow.Producer Goflow.Pipe

/-- ProtoProducerMessage: the embedded FlowMessage, the formatter (0 = nil, n + 1 = formatter of configuration n),
    skipDelimiter. (Fields as regenerated in `Generated.stateStructs`.) -/
structure Pooled where
  flow : FlowMsg := {}
  formatter : Nat := 0
  skipDelimiter : Bool := false
  deriving Inhabited

/-- `fmsg.Reset()`: the promoted `FlowMessage.Reset`, `*x = FlowMessage{}`; the two other members are untouched -/
def Pooled.reset (p : Pooled) : Pooled := { p with flow := FlowMsg.empty }

/-- pool content and the oracle of the remaining `Get` calls -/
structure PS where
  pool : List Pooled := []
  cs : List Nat := []
  deriving Inhabited

/-- sync.Pool.Get: `0` (or an index past the end) → `New()`, `i + 1` → the i-th pooled object, removed from the pool -/
def get (s : PS) : Pooled × PS :=
  let s' : PS := { s with cs := s.cs.tail }
  match s.cs.headD 0 with
  | 0 => ({}, s')
  | i + 1 =>
    match s.pool[i]? with
    | some p => (p, { s' with pool := s.pool.eraseIdx i })
    | none => ({}, s')

/-- one creation site -/
def take (reset : Bool) (s : PS) : Pooled × PS :=
  let r := get s
  (if reset then r.1.reset else r.1, r.2)

def put (s : PS) (ms : List Pooled) : PS := { s with pool := s.pool ++ ms }

def onFlow (p : Pooled) (f : FlowMsg → FlowMsg) : Pooled := { p with flow := f p.flow }

/-! ### the converters, writing into the message they are given -/

/-- ConvertNetFlowLegacyRecord(flowMessage, …) -/
def convertLegacyRecordOn (start : FlowMsg) (baseTime uptime : Nat) (r : V5.Record) : FlowMsg :=
  let dFirst := (uptime + U32 - r.first) % U32
  let dLast := (uptime + U32 - r.last) % U32
  let m : FlowMsg := { start with type_ := 2, timeFlowStartNs := (baseTime + 2 ^ 64 - dFirst * 1000000) % 2 ^ 64, timeFlowEndNs := (baseTime + 2 ^ 64 - dLast * 1000000) % 2 ^ 64, nextHop := encBE 4 r.nextHop, srcAddr := encBE 4 r.srcAddr, dstAddr := encBE 4 r.dstAddr, etype := 0x800, srcAs := r.srcAS, dstAs := r.dstAS }
  let m : FlowMsg := { m with srcNet := r.srcMask, dstNet := r.dstMask, proto := r.proto, tcpFlags := r.tcpFlags, ipTos := r.tos, inIf := r.input, outIf := r.output }
  { m with srcPort := r.srcPort, dstPort := r.dstPort, packets := r.dPkts, bytes := r.dOctets }

/-- ConvertNetFlowDataSet(flowMessage, …) -/
def convertNetFlowDataSetOn (start : FlowMsg) (cfg : Option Config) (version baseTime uptime : Nat) (record : List Netflow.DataField) : Res FlowMsg :=
  let baseTimeNs := baseTime * 1000000000
  let m : FlowMsg := { start with timeFlowStartNs := baseTimeNs, timeFlowEndNs := baseTimeNs, type_ := if version = 9 then 3 else if version = 10 then 4 else 0 }
  convertFields cfg version baseTimeNs uptime record m

/-- the sample-level assignments of SearchSFlowSampleConfig -/
def sampleBaseOn (start : FlowMsg) (rate inIf outIf : Nat) : FlowMsg :=
  { start with type_ := 1, samplingRate := rate, inIf := inIf, outIf := outIf, packets := 1 }

def convertSampleOn (start : FlowMsg) (cfg : Option Config) : Sflow.Sample → Option (Res FlowMsg)
  | .flow _ vals recs => some (applyRecords cfg recs (sampleBaseOn start (vals.getD 0 0) (vals.getD 3 0) (vals.getD 4 0)))
  | .expFlow _ vals recs => some (applyRecords cfg recs (sampleBaseOn start (vals.getD 0 0) (vals.getD 4 0) (vals.getD 6 0)))
  | _ => none

def isFlowSample : Sflow.Sample → Bool
  | .flow .. => true
  | .expFlow .. => true
  | _ => false

/-! ### the three creation loops -/

/-- SearchNetFlowLegacyRecords -/
def legacyRecordsP (reset : Bool) (baseTime uptime : Nat) : List V5.Record → PS → List Pooled × PS
  | [], s => ([], s)
  | r :: rs, s =>
    let t := take reset s
    let m := onFlow t.1 (fun st => convertLegacyRecordOn st baseTime uptime r)
    let rest := legacyRecordsP reset baseTime uptime rs t.2
    (m :: rest.1, rest.2)

/-- SearchNetFlowDataSetsRecords: on a conversion error the messages built so far in this set are returned with
    the error, but the caller drops them (they are neither sent nor put back) -/
def netflowRecordsP (reset : Bool) (cfg : Option Config) (version baseTime uptime : Nat) :
    List Netflow.DataRecord → PS → Res (List Pooled) × PS
  | [], s => (.ok [], s)
  | r :: rs, s =>
    let t := take reset s
    match convertNetFlowDataSetOn t.1.flow cfg version baseTime uptime r.values with
    | .error e => (.error e, t.2)
    | .ok f =>
      let rest := netflowRecordsP reset cfg version baseTime uptime rs t.2
      match rest.1 with
      | .error e => (.error e, rest.2)
      | .ok ms => (.ok ({ t.1 with flow := f } :: ms), rest.2)

/-- SearchNetFlowDataSets: set by set; an error returns the messages of the sets completed before, and the error -/
def netflowSetsP (reset : Bool) (cfg : Option Config) (version baseTime uptime : Nat) :
    List (List Netflow.DataRecord) → PS → (List Pooled × Option Err) × PS
  | [], s => (([], none), s)
  | recs :: sets, s =>
    let r := netflowRecordsP reset cfg version baseTime uptime recs s
    match r.1 with
    | .error e => (([], some e), r.2)
    | .ok ms =>
      let rest := netflowSetsP reset cfg version baseTime uptime sets r.2
      ((ms ++ rest.1.1, rest.1.2), rest.2)

def dataSetsOf (sets : List Netflow.FlowSet) : List (List Netflow.DataRecord) :=
  sets.filterMap fun s => match s with | .data _ _ rs => some rs | _ => none

/-- SearchSFlowSamplesConfig over GetSFlowFlowSamples: one Get per flow / expanded flow sample; a failing sample
    aborts with `return nil, err` (the messages taken so far are dropped) -/
def sflowSamplesP (reset : Bool) (cfg : Option Config) : List Sflow.Sample → PS → Res (List Pooled) × PS
  | [], s => (.ok [], s)
  | smp :: ss, s =>
    if isFlowSample smp then
      let t := take reset s
      match convertSampleOn t.1.flow cfg smp with
      | none => sflowSamplesP reset cfg ss t.2           -- unreachable: flow samples convert
      | some (.error e) => (.error e, t.2)
      | some (.ok f) =>
        let rest := sflowSamplesP reset cfg ss t.2
        match rest.1 with
        | .error e => (.error e, rest.2)
        | .ok ms => (.ok ({ t.1 with flow := f } :: ms), rest.2)
    else sflowSamplesP reset cfg ss s

/-! ### ProcessMessage…, Produce (stamps, formatter), DecodeFlow with the deferred Commit -/

structure ProduceOutP where
  msgs : List Pooled       -- the set returned by Produce (what `Commit` puts back)
  rates : Rates
  err : Option Err
  deriving Inhabited

def processLegacyP (reset : Bool) (p : V5.Packet) (s : PS) : List Pooled × PS :=
  let h := p.header
  let baseTime := h.unixSecs * 1000000000 + h.unixNSecs
  let r := legacyRecordsP reset baseTime h.sysUptime p.records s
  (r.1.map fun m => onFlow m fun f => { f with sequenceNum := h.flowSequence, samplingRate := h.samplingInterval % 16384 }, r.2)

def processNetflowP (reset : Bool) (cfg : Option Config) (p : Netflow.Packet) (rates : Rates) (s : PS) : ProduceOutP × PS :=
  let r := netflowSetsP reset cfg p.version p.baseTime p.uptime (dataSetsOf p.flowSets) s
  match r.1.2 with
  | some e => (⟨r.1.1, rates, some e⟩, r.2)
  | none =>
    match searchSamplingRate (optionRecordsOf p.flowSets) with
    | .error e => (⟨r.1.1, rates, some e⟩, r.2)
    | .ok found =>
      let rr := applyRate found rates (p.version, p.domain)
      (⟨r.1.1.map fun m => onFlow m (stampNetflow p.seqNum rr.1 p.domain), rr.2, none⟩, r.2)

def processSflowP (reset : Bool) (cfg : Option Config) (p : Sflow.Packet) (s : PS) : Res (List Pooled) × PS :=
  let r := sflowSamplesP reset cfg p.samples s
  match r.1 with
  | .error e => (.error e, r.2)
  | .ok ms => (.ok (ms.map fun m => onFlow m fun f => { f with samplerAddress := p.agentIP, sequenceNum := p.hdr.getD 1 0 }), r.2)

structure OutP where
  state : State
  sent : List Pooled         -- handed to format + transport, in order
  err : Option Err
  ps : PS                    -- pool after the deferred Commit
  deriving Inhabited

/-- the last enrich of Produce: every message of the set gets the configuration's formatter -/
def withFormatter (fid : Nat) (ms : List Pooled) : List Pooled := ms.map fun m => { m with formatter := fid + 1 }

def netflowPipeP (reset : Bool) (fid : Nat) (cfg : Config) (st : State) (s : PS) (src : Src) (recvNs : Nat) (payload : Bytes) : OutP :=
  let tpl := st.templatesOf src
  let st := st.setTemplates src tpl
  match readU 2 payload with
  | .error e => ⟨st, [], some e, s⟩
  | .ok (version, b) =>
    let sa := unmap src.ip
    if version = 5 then
      match V5.decodeMessage b with
      | .error e => ⟨st, [], some e, s⟩
      | .ok p =>
        let r := processLegacyP reset p s
        let set := withFormatter fid (r.1.map fun m => onFlow m (stampRecv recvNs sa))
        ⟨st, set, none, put r.2 set⟩
    else if version = 9 ∨ version = 10 then
      let o := if version = 9 then Netflow.decodeMessageNetFlow tpl b else Netflow.decodeMessageIPFIX tpl b
      let st := st.setTemplates src o.store
      match o.err with
      | some e => ⟨st, [], some e, s⟩
      | none =>
        let r := processNetflowP reset (some cfg) o.packet (st.ratesOf src.ip) s
        let st := st.setRates src.ip r.1.rates
        let set := withFormatter fid (r.1.msgs.map fun m => onFlow m (stampRecv recvNs sa))
        match r.1.err with
        | some e => ⟨st, [], some e, put r.2 set⟩          -- committed, not sent
        | none => ⟨st, set, if o.tnf then some .tnf else none, put r.2 set⟩
    else ⟨st, [], some .bad, s⟩

def sflowPipeP (reset : Bool) (fid : Nat) (cfg : Config) (st : State) (s : PS) (recvNs : Nat) (payload : Bytes) : OutP :=
  match Sflow.decodeMessageVersion payload with
  | .error e => ⟨st, [], some e, s⟩
  | .ok p =>
    let r := processSflowP reset (some cfg) p s
    match r.1 with
    | .error e => ⟨st, [], some e, r.2⟩
    | .ok ms =>
      let set := withFormatter fid (ms.map fun m => onFlow m (stampSflow recvNs))
      ⟨st, set, none, put r.2 set⟩

def autoPipeP (reset : Bool) (fid : Nat) (cfg : Config) (st : State) (s : PS) (src : Src) (recvNs : Nat) (payload : Bytes) : OutP :=
  match readU 4 payload with
  | .error e => ⟨st, [], some e, s⟩
  | .ok (proto, _) =>
    let nf := proto / 65536
    if proto = 5 then sflowPipeP reset fid cfg st s recvNs payload
    else if nf = 5 ∨ nf = 9 ∨ nf = 10 then netflowPipeP reset fid cfg st s src recvNs payload
    else ⟨st, [], some .bad, s⟩

def decodeFlowP (reset : Bool) (k : Kind) (fid : Nat) (cfg : Config) (st : State) (s : PS) (src : Src) (recvNs : Nat) (payload : Bytes) : OutP :=
  match k with
  | .netflow => netflowPipeP reset fid cfg st s src recvNs payload
  | .sflow => sflowPipeP reset fid cfg st s recvNs payload
  | .auto => autoPipeP reset fid cfg st s src recvNs payload

/-- one datagram of a history: pipe kind, formatter / configuration, source, receive time, payload, and the oracle
    of the `Get` calls made while it is processed -/
structure Dgram where
  kind : Kind
  fid : Nat
  cfg : Config
  src : Src
  recvNs : Nat
  payload : Bytes
  cs : List Nat

/-- a whole history on one process: state and pool are carried along; the outputs are collected -/
def runP (reset : Bool) : List Dgram → State → List Pooled → List (List Pooled × Option Err)
  | [], _, _ => []
  | d :: ds, st, pool =>
    let o := decodeFlowP reset d.kind d.fid d.cfg st ⟨pool, d.cs⟩ d.src d.recvNs d.payload
    (o.sent, o.err) :: runP reset ds o.state o.ps.pool

/-- the same history on the pool-less model -/
def run : List Dgram → State → List (List FlowMsg × Option Err)
  | [], _ => []
  | d :: ds, st =>
    let o := decodeFlow d.kind d.cfg st d.src d.recvNs d.payload
    (o.msgs, o.err) :: run ds o.state

/-! ### package-level variables of the packages on the path, with what the model takes them to be -/

inductive VarRole where
  | const        -- assigned once at its declaration, never written afterwards (constants, errors, parser descriptors)
  | table        -- a lookup table filled at its declaration, read-only afterwards
  | pool         -- a sync.Pool
  | registry     -- driver registry, written by `Register…` at start-up under its lock
  | lock
  | loaderWritten -- written while a configuration is compiled (`isSliceMap`, DESIGN 0.6), read by the formatter
  deriving Repr, DecidableEq

def knownPackageVars : List (String × String × VarRole) := [
  ("producer/proto", "BigEndian", .const), ("producer/proto", "LittleEndian", .const),
  ("producer/proto", "ProtoString", .const), ("producer/proto", "ProtoVarint", .const),
  ("producer/proto", "ProtoTypeMap", .table), ("producer/proto", "isSliceMap", .loaderWritten),
  ("producer/proto", "protoMessagePool", .pool),
  ("producer/proto", "PortDirSrc", .const), ("producer/proto", "PortDirDst", .const), ("producer/proto", "PortDirBoth", .const),
  ("producer/proto", "errParserEmpty", .const),
  ("producer/proto", "parserNone", .const), ("producer/proto", "parserPayload", .const), ("producer/proto", "parserEthernet", .const),
  ("producer/proto", "parser8021Q", .const), ("producer/proto", "parserMPLS", .const), ("producer/proto", "parserIPv4", .const),
  ("producer/proto", "parserIPv6", .const), ("producer/proto", "parserIPv6HeaderRouting", .const),
  ("producer/proto", "parserIPv6HeaderFragment", .const), ("producer/proto", "parserTCP", .const), ("producer/proto", "parserUDP", .const),
  ("producer/proto", "parserICMP", .const), ("producer/proto", "parserICMPv6", .const), ("producer/proto", "parserGRE", .const),
  ("producer/proto", "parserTeredoDst", .const), ("producer/proto", "parserGeneve", .const),
  ("producer/proto", "DefaultEnvironment", .table),
  ("producer/proto", "renderers", .table), ("producer/proto", "defaultRenderers", .table),
  ("producer/proto", "etypeName", .table), ("producer/proto", "protoName", .table),
  ("producer/proto", "icmpTypeName", .table), ("producer/proto", "icmp6TypeName", .table),
  ("utils", "packetPool", .pool),
  ("decoders/netflow", "ErrorTemplateNotFound", .const),
  ("format", "formatDrivers", .registry), ("format", "lock", .lock), ("format", "ErrFormat", .const), ("format", "ErrNoSerializer", .const),
  ("transport", "transportDrivers", .registry), ("transport", "lock", .lock), ("transport", "ErrTransport", .const)
]

end Goflow.Pool
