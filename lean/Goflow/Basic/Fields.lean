import Goflow.Basic.Bytes
/-! A run of big-endian unsigned fields read by one `utils.BinaryDecoder(payload, &a, &b, …)` call. -/
namespace Goflow

/-- Read the fields of the given widths, in order; the first short read aborts with `eof`. -/
def readFields : List Nat → Bytes → Res (List Nat × Bytes)
  | [], b => .ok ([], b)
  | w :: ws, b =>
    match readU w b with
    | .error e => .error e
    | .ok (v, b') =>
      match readFields ws b' with
      | .error e => .error e
      | .ok (vs, b'') => .ok (v :: vs, b'')

/-- Specification side: encode values on the given widths. -/
def encFields : List Nat → List Nat → Bytes
  | w :: ws, v :: vs => encBE w v ++ encFields ws vs
  | _, _ => []

/-- Every value fits its width (and the lists have the same length). -/
def Fits : List Nat → List Nat → Prop
  | [], [] => True
  | w :: ws, v :: vs => v < 256 ^ w ∧ Fits ws vs
  | _, _ => False

def Fits.dec : (ws vs : List Nat) → Decidable (Fits ws vs)
  | [], [] => isTrue trivial
  | w :: ws, v :: vs =>
    match Fits.dec ws vs with
    | isTrue h => if hv : v < 256 ^ w then isTrue ⟨hv, h⟩ else isFalse (fun h' => hv h'.1)
    | isFalse h => isFalse (fun h' => h h'.2)
  | [], _ :: _ => isFalse (fun h => h)
  | _ :: _, [] => isFalse (fun h => h)

instance (ws vs : List Nat) : Decidable (Fits ws vs) := Fits.dec ws vs

def sumW (ws : List Nat) : Nat := ws.foldr (· + ·) 0

/-- a sequence of `n` big-endian words of width `w` (BinaryRead into a []uint32 etc.) -/
def readWords (w : Nat) : Nat → Bytes → Res (List Nat × Bytes)
  | 0, b => .ok ([], b)
  | n + 1, b =>
    match readU w b with
    | .error e => .error e
    | .ok (v, b') =>
      match readWords w n b' with
      | .error e => .error e
      | .ok (vs, b'') => .ok (v :: vs, b'')

def encWords (w : Nat) (vs : List Nat) : Bytes := vs.flatMap (encBE w)

end Goflow
