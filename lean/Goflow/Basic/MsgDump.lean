import Goflow.Generated.FlowMessage
/-! canonical `msg` line: every non-zero exported field of the flow message, in struct order, then unk -/
namespace Goflow

def listStr (xs : List String) : String := "[" ++ ",".intercalate xs ++ "]"

def FlowMsg.dumpField (m : FlowMsg) (c : Column) : Option String :=
  if c.kind = "u32" ∨ c.kind = "u64" then
    match m.getNum c.goName with
    | some v => if v = 0 then none else some (c.goName ++ "=" ++ toString v)
    | none => none
  else if c.kind = "bytes" then
    match m.getBytes c.goName with
    | some v => if v.isEmpty then none else some (c.goName ++ "=" ++ hexOf v)
    | none => none
  else if c.kind = "listU32" then
    match m.getNums c.goName with
    | some v => if v.isEmpty then none else some (c.goName ++ "=" ++ listStr (v.map toString))
    | none => none
  else
    match m.getBytess c.goName with
    | some v => if v.isEmpty then none else some (c.goName ++ "=" ++ listStr (v.map hexOf))
    | none => none

def FlowMsg.dump (m : FlowMsg) : String :=
  let fs := flowMessageColumns.filterMap m.dumpField
  let fs := if m.unk.isEmpty then fs else fs ++ ["unk=" ++ hexOf m.unk]
  " ".intercalate ("msg" :: fs)

end Goflow
