import Goflow.Basic.Bytes
/-! Canonical text form of decoded structures, shared by the model driver and (re-implemented
    with reflection) by the Go harness. -/
namespace Goflow

inductive D where
  | n (v : Nat)
  | b (v : Bool)
  | h (bs : Bytes)                       -- []byte, string: hex, "-" when empty
  | l (xs : List D)                      -- slice
  | s (name : String) (fs : List (String × D))   -- struct
  | nil                                  -- nil interface
  deriving Inhabited

mutual
partial def D.render : D → String
  | .n v => toString v
  | .b v => if v then "true" else "false"
  | .h bs => hexOf bs
  | .l xs => "[" ++ ",".intercalate (xs.map D.render) ++ "]"
  | .s name fs => name ++ "{" ++ " ".intercalate (fs.map fun (k, v) => k ++ "=" ++ v.render) ++ "}"
  | .nil => "nil"
end

def D.named (name : String) (names : List String) (vals : List D) : D :=
  .s name (names.zip vals)

end Goflow
