/-
  Bytes, big-endian numbers and the length-checked reader that models
  decoders/utils.BinaryRead over a bytes.Buffer.
  Core Lean only (this module is linked into the native driver).
-/
namespace Goflow

abbrev Bytes := List UInt8

/-- Big-endian value of a byte string (binary.BigEndian.UintNN, any width). -/
def beNat (bs : Bytes) : Nat := bs.foldl (fun a b => a * 256 + b.toNat) 0

/-- Little-endian value. -/
def leNat : Bytes → Nat
  | [] => 0
  | b :: bs => b.toNat + 256 * leNat bs

/-- Big-endian encoding of `v` on exactly `n` bytes (truncating, as Go's PutUintNN does). -/
def encBE : Nat → Nat → Bytes
  | 0, _ => []
  | n + 1, v => encBE n (v / 256) ++ [UInt8.ofNat (v % 256)]

/-- The outcome classes of a modelled Go call. `panic` and `diverge` are the two
    the safety property C01 excludes; they are real values of the model, not defined away. -/
inductive Err where
  | eof            -- io.ErrUnexpectedEOF from a short read
  | bad            -- any other returned error
  | tnf            -- netflow.ErrorTemplateNotFound (only ever joined, never fatal in the decoder)
  | panic          -- a Go run-time panic would occur here
  | diverge        -- fuel exhausted: the Go loop would not terminate within len+2 iterations
  deriving DecidableEq, Repr, Inhabited

deriving instance DecidableEq for Except

abbrev Res (α : Type) := Except Err α

@[simp] theorem ok_bind {α β} (a : α) (f : α → Res β) : (Except.ok a >>= f) = f a := rfl
@[simp] theorem err_bind {α β} (e : Err) (f : α → Res β) : ((Except.error e : Res α) >>= f) = Except.error e := rfl
@[simp] theorem pure_eq_ok {α} (a : α) : (pure a : Res α) = Except.ok a := rfl

/-- `payload.Next(n)` followed by the `len(bs) < n` check of BinaryRead. -/
def takeN (n : Nat) (b : Bytes) : Res (Bytes × Bytes) :=
  if n ≤ b.length then .ok (b.take n, b.drop n) else .error .eof

/-- `payload.Next(n)` alone: returns fewer bytes when short, never fails. -/
def nextN (n : Nat) (b : Bytes) : Bytes × Bytes := (b.take n, b.drop n)

/-- BinaryRead of an unsigned big-endian integer of `n` bytes. -/
def readU (n : Nat) (b : Bytes) : Res (Nat × Bytes) :=
  match takeN n b with
  | .ok (x, r) => .ok (beNat x, r)
  | .error e => .error e

def readU8 := readU 1
def readU16 := readU 2
def readU32 := readU 4
def readU64 := readU 8

/-- hex rendering (lower case), used by the canonical output. -/
def hexDigit (n : Nat) : Char :=
  if n < 10 then Char.ofNat (48 + n) else Char.ofNat (87 + n)

def hexOf (bs : Bytes) : String :=
  if bs.isEmpty then "-" else
  String.ofList (bs.foldr (fun b acc => hexDigit (b.toNat / 16) :: hexDigit (b.toNat % 16) :: acc) [])

def hexVal (c : Char) : Option Nat :=
  if '0' ≤ c ∧ c ≤ '9' then some (c.toNat - 48)
  else if 'a' ≤ c ∧ c ≤ 'f' then some (c.toNat - 87)
  else if 'A' ≤ c ∧ c ≤ 'F' then some (c.toNat - 55)
  else none

def parseHexAux : List Char → Bytes → Option Bytes
  | [], acc => some acc.reverse
  | [_], _ => none
  | a :: b :: rest, acc =>
    match hexVal a, hexVal b with
    | some x, some y => parseHexAux rest (UInt8.ofNat (x * 16 + y) :: acc)
    | _, _ => none

def parseHex (s : String) : Option Bytes :=
  if s = "-" then some [] else parseHexAux s.toList []

end Goflow
