import Goflow.Basic.Bytes
/-! Textual renderings the formatter produces (render.go and the Go standard library calls it
    makes): decimal numbers, hex, MAC addresses, IP addresses as netip.Addr.String() prints them
    (RFC 5952), prefixes, RFC 3339 timestamps, enum / ethertype / protocol / ICMP names.
    All text is `Bytes` (Go strings are byte sequences). -/
namespace Goflow.Format

def str (s : String) : Bytes := s.toUTF8.toList

/-- decimal digits, most significant first (`fuel` bounds the recursion; `n < 10 ^ fuel` suffices) -/
def digitsOf : Nat → Nat → Bytes
  | 0, _ => []
  | fuel + 1, n => if n < 10 then [UInt8.ofNat (48 + n)] else digitsOf fuel (n / 10) ++ [UInt8.ofNat (48 + n % 10)]

/-- strconv / fmt `%d` of an unsigned number -/
def decimal (n : Nat) : Bytes := digitsOf (n + 1) n

def hexLower (bs : Bytes) : Bytes :=
  bs.flatMap fun b => [UInt8.ofNat (hexDigit (b.toNat / 16)).toNat, UInt8.ofNat (hexDigit (b.toNat % 16)).toNat]

/-- net.HardwareAddr(mac[2:]).String() of a uint64 -/
def macText (v : Nat) : Bytes :=
  let bs := encBE 6 v
  let parts := bs.map fun b => hexLower [b]
  (parts.intersperse (str ":")).flatten

def ipv4Text (b : Bytes) : Bytes :=
  ((b.map fun x => decimal x.toNat).intersperse (str ".")).flatten

/-- hex of a 16-bit group without leading zeros -/
def hexGroup (n : Nat) : Bytes :=
  let ds := [n / 4096 % 16, n / 256 % 16, n / 16 % 16, n % 16]
  let ds := ds.dropWhile (· == 0)
  let ds := if ds.isEmpty then [0] else ds
  ds.map fun d => UInt8.ofNat (hexDigit d).toNat

/-- the longest run of zero groups of length ≥ 2 (first one on ties): (start, length) -/
def longestZeroRun (gs : List Nat) : Option (Nat × Nat) :=
  let rec go (i : Nat) (gs : List Nat) (cur : Option (Nat × Nat)) (best : Option (Nat × Nat)) : Option (Nat × Nat) :=
    match gs with
    | [] =>
      match cur, best with
      | some (s, l), some (_, bl) => if l > bl then some (s, l) else best
      | some c, none => some c
      | none, b => b
    | g :: rest =>
      if g = 0 then
        match cur with
        | some (s, l) => go (i + 1) rest (some (s, l + 1)) best
        | none => go (i + 1) rest (some (i, 1)) best
      else
        let best' := match cur, best with
          | some (s, l), some (_, bl) => if l > bl then some (s, l) else best
          | some c, none => some c
          | none, b => b
        go (i + 1) rest none best'
  match go 0 gs none none with
  | some (s, l) => if l ≥ 2 then some (s, l) else none
  | none => none

def groupsOf : Bytes → List Nat
  | a :: b :: rest => (a.toNat * 256 + b.toNat) :: groupsOf rest
  | _ => []

/-- netip.Addr.String() for a 16-byte address (IPv4-mapped addresses print as ::ffff:a.b.c.d) -/
def ipv6Text (b : Bytes) : Bytes :=
  if b.take 10 = List.replicate 10 0 ∧ (b.drop 10).take 2 = [0xff, 0xff] then
    str "::ffff:" ++ ipv4Text (b.drop 12)
  else
    let gs := groupsOf b
    match longestZeroRun gs with
    | none => ((gs.map hexGroup).intersperse (str ":")).flatten
    | some (s, l) =>
      let left := ((gs.take s).map hexGroup).intersperse (str ":")
      let right := ((gs.drop (s + l)).map hexGroup).intersperse (str ":")
      left.flatten ++ str "::" ++ right.flatten

/-- RenderIP: "" unless the address has 4 or 16 bytes -/
def renderIP (b : Bytes) : Bytes :=
  if b.length = 4 then ipv4Text b else if b.length = 16 then ipv6Text b else []

/-- mask an address to `bits` leading bits -/
def maskBits (b : Bytes) (bits : Nat) : Bytes :=
  (List.range b.length).map fun i =>
    let x := (b.getD i 0).toNat
    let keep := if bits ≥ 8 * (i + 1) then 8 else if bits ≤ 8 * i then 0 else bits - 8 * i
    UInt8.ofNat (x / 2 ^ (8 - keep) * 2 ^ (8 - keep))

/-- NetworkRenderer: netip.AddrFromSlice(addr).Prefix(bits).String() — "invalid Prefix" when the
    address is not 4/16 bytes long or bits exceed the address width -/
def prefixText (addr : Bytes) (bits : Nat) : Bytes :=
  if (addr.length = 4 ∧ bits ≤ 32) ∨ (addr.length = 16 ∧ bits ≤ 128) then
    renderIP (maskBits addr bits) ++ str "/" ++ decimal bits
  else str "invalid Prefix"

/-! ### JSON string literal, as encoding/json writes a Go string (HTML-safe escaping, invalid
    UTF-8 replaced by U+FFFD) -/

def hexByte (b : Nat) : Bytes := [UInt8.ofNat (hexDigit (b / 16)).toNat, UInt8.ofNat (hexDigit (b % 16)).toNat]

def isCont (b : UInt8) : Bool := 0x80 ≤ b && b ≤ 0xBF

/-- utf8.DecodeRune on the head of `bs` (non-ASCII lead byte): number of bytes of a valid encoding, 0 when invalid -/
def utf8Size (bs : Bytes) : Nat :=
  match bs with
  | b0 :: rest =>
    if 0xC2 ≤ b0 ∧ b0 ≤ 0xDF then
      (match rest with | b1 :: _ => if isCont b1 then 2 else 0 | _ => 0)
    else if 0xE0 ≤ b0 ∧ b0 ≤ 0xEF then
      (match rest with
       | b1 :: b2 :: _ =>
         let lo : UInt8 := if b0 = 0xE0 then 0xA0 else 0x80
         let hi : UInt8 := if b0 = 0xED then 0x9F else 0xBF
         if lo ≤ b1 ∧ b1 ≤ hi ∧ isCont b2 then 3 else 0
       | _ => 0)
    else if 0xF0 ≤ b0 ∧ b0 ≤ 0xF4 then
      (match rest with
       | b1 :: b2 :: b3 :: _ =>
         let lo : UInt8 := if b0 = 0xF0 then 0x90 else 0x80
         let hi : UInt8 := if b0 = 0xF4 then 0x8F else 0xBF
         if lo ≤ b1 ∧ b1 ≤ hi ∧ isCont b2 ∧ isCont b3 then 4 else 0
       | _ => 0)
    else 0
  | [] => 0

/-- the escape sequence of one ASCII byte (`none`: written as it is) -/
def asciiEscape (b : UInt8) : Option Bytes :=
  if b = 0x22 ∨ b = 0x5c then some [0x5c, b]
  else if b = 0x08 then some [0x5c, 0x62]
  else if b = 0x0c then some [0x5c, 0x66]
  else if b = 0x0a then some [0x5c, 0x6e]
  else if b = 0x0d then some [0x5c, 0x72]
  else if b = 0x09 then some [0x5c, 0x74]
  else if b < 0x20 ∨ b = 0x3c ∨ b = 0x3e ∨ b = 0x26 then some ([0x5c, 0x75, 0x30, 0x30] ++ hexByte b.toNat)
  else none

def escapeOrSelf (b : UInt8) : Bytes := match asciiEscape b with | some e => e | none => [b]

def jsonQuoteBody : Nat → Bytes → Bytes
  | 0, _ => []
  | _, [] => []
  | fuel + 1, b :: rest =>
    if b < 0x80 then
      escapeOrSelf b ++ jsonQuoteBody fuel rest
    else
      let n := utf8Size (b :: rest)
      if n = 0 then [0x5c, 0x75, 0x66, 0x66, 0x66, 0x64] ++ jsonQuoteBody fuel rest        -- \ufffd
      else
        let enc := (b :: rest).take n
        if enc = [0xE2, 0x80, 0xA8] then [0x5c, 0x75, 0x32, 0x30, 0x32, 0x38] ++ jsonQuoteBody fuel (rest.drop (n - 1))
        else if enc = [0xE2, 0x80, 0xA9] then [0x5c, 0x75, 0x32, 0x30, 0x32, 0x39] ++ jsonQuoteBody fuel (rest.drop (n - 1))
        else enc ++ jsonQuoteBody fuel (rest.drop (n - 1))

def jsonQuote (b : Bytes) : Bytes := [0x22] ++ jsonQuoteBody (b.length + 1) b ++ [0x22]

/-! ### RFC 3339 -/

/-- days since 1970-01-01 (may be negative) → (year, month, day) (civil-from-days, proleptic Gregorian) -/
def civil (days : Int) : Int × Nat × Nat :=
  let z := days + 719468
  let era := z.fdiv 146097
  let doe := (z - era * 146097).toNat
  let yoe := (doe - doe / 1460 + doe / 36524 - doe / 146096) / 365
  let y : Int := (yoe : Int) + era * 400
  let doy := doe - (365 * yoe + yoe / 4 - yoe / 100)
  let mp := (5 * doy + 2) / 153
  let d := doy - (153 * mp + 2) / 5 + 1
  let m := if mp < 10 then mp + 3 else mp - 9
  (if m ≤ 2 then y + 1 else y, m, d)

def pad2 (n : Nat) : Bytes := if n < 10 then str "0" ++ decimal n else decimal n
def pad4 (n : Nat) : Bytes := str (String.ofList (List.replicate (4 - (toString n).length) '0')) ++ decimal n
/-- the year as time.Format writes it: at least four digits, a minus sign for negative years -/
def yearText (y : Int) : Bytes := if y < 0 then str "-" ++ pad4 y.natAbs else pad4 y.toNat

/-- time.Unix(sec, nsec).UTC().Format(time.RFC3339Nano) for 0 ≤ nsec < 1e9: fraction with trailing zeros removed -/
def rfc3339 (sec : Int) (nsec : Nat) : Bytes :=
  let (y, mo, d) := civil (sec.fdiv 86400)
  let rem := (sec.emod 86400).toNat
  let frac : Bytes :=
    if nsec = 0 then [] else
      let digits := (str (String.ofList (List.replicate (9 - (toString nsec).length) '0'))) ++ decimal nsec
      let trimmed := (digits.reverse.dropWhile (· == 48)).reverse
      str "." ++ trimmed
  yearText y ++ str "-" ++ pad2 mo ++ str "-" ++ pad2 d ++ str "T" ++ pad2 (rem / 3600) ++ str ":" ++ pad2 (rem % 3600 / 60) ++
    str ":" ++ pad2 (rem % 60) ++ frac ++ str "Z"

/-- package time keeps seconds since the year -292277022399 in a uint64: earlier instants wrap around -/
def goTimeSec (s : Int) : Int := if s < -9223372028715321600 then s + 2 ^ 64 else s

/-- int64(x) of a uint64 -/
def asInt64 (n : Nat) : Int := if n < 2 ^ 63 then (n : Int) else (n : Int) - 2 ^ 64

/-! ### names -/

def flowTypeName (n : Nat) : Bytes :=
  match n with
  | 0 => str "FLOWUNKNOWN" | 1 => str "SFLOW_5" | 2 => str "NETFLOW_V5" | 3 => str "NETFLOW_V9" | 4 => str "IPFIX"
  | n => decimal n

def layerName (n : Nat) : Bytes :=
  match n with
  | 0 => str "Ethernet" | 1 => str "IPv4" | 2 => str "IPv6" | 3 => str "TCP" | 4 => str "UDP" | 5 => str "MPLS"
  | 6 => str "Dot1Q" | 7 => str "ICMP" | 8 => str "ICMPv6" | 9 => str "GRE" | 10 => str "IPv6HeaderRouting"
  | 11 => str "IPv6HeaderFragment" | 12 => str "Geneve" | 13 => str "Teredo" | 99 => str "Custom"
  | n => decimal n

def etypeNameOf (n : Nat) : Bytes :=
  if n = 0x806 then str "ARP" else if n = 0x800 then str "IPv4" else if n = 0x86dd then str "IPv6" else []

end Goflow.Format
