import Goflow.Format.Text
import Goflow.Producer.Packet
import Goflow.Generated.FlowMessage
import Goflow.Generated.Renderers
import Goflow.Spec.Json
/-!
  config_impl.go (mapConfig / mapFormat / finalize) and messages.go (FormatMessageReflectCustom,
  mapUnknown, Key, MarshalBinary) as a model: the uncompiled configuration as data (`RawConfig`,
  the twin of the YAML file), its compilation, and the three output formats.
-/
namespace Goflow.Format
open Goflow Goflow.Producer

structure RawMap where
  penProvided : Bool := false
  pen : Nat := 0
  type : Nat := 0
  layer : String := ""
  encap : Bool := false
  offset : Int := 0
  length : Int := 0
  destination : String := ""
  endian : String := ""
  /-- only for writing the YAML file: use the key `endian` (as docs/protocols.md and the example
      mapping file do) instead of `endianness` -/
  shortKey : Bool := false
  deriving Repr, Inhabited

structure RawConfig where
  fields : List String := []
  key : List String := []
  render : List (String × String) := []
  rename : List (String × Bytes) := []
  protobuf : List PbField := []
  ipfix : List RawMap := []
  v9 : List RawMap := []
  layers : List RawMap := []
  ports : List PortEntry := []
  deriving Repr, Inhabited

/-- the compiled formatter (FormatterConfigMapper) -/
structure Fmt where
  fields : List String
  key : List String
  reMap : List (String × String)       -- JSON / declared name ↦ Go struct field name ("" for declared protobuf fields)
  rename : List (String × Bytes)
  render : List (String × String)      -- Go field name / virtual name ↦ renderer function
  numToPb : List (Nat × PbField)
  isSlice : List (String × Bool)       -- the package-level isSliceMap after this compilation
  deriving Repr, Inhabited

structure Compiled where
  cfg : Config
  fmt : Fmt
  deriving Repr, Inhabited

def assocSet {β} (l : List (String × β)) (k : String) (v : β) : List (String × β) := (k, v) :: l.filter (fun e => e.1 != k)

def defaultReMap : List (String × String) := flowMessageColumns.map fun c => (c.protoName, c.goName)
def defaultFields : List String := flowMessageColumns.map (·.protoName)
def initialIsSlice : List (String × Bool) := Goflow.Generated.isSliceMap.map fun e => (e.1, e.2 == "true")

/-- renderer id (yaml) ↦ renderer function, only for the ids registered in `renderers` -/
def rendererFunc (id : String) : Option String :=
  match Goflow.Generated.rendererIds.find? (fun e => e.2 == id) with
  | none => none
  | some (constName, _) => (Goflow.Generated.renderers.lookup constName)

def protoTypeOf (t : String) : Option ProtoType :=
  if t = "string" ∨ t = "bytes" then some .string else if t = "varint" then some .varint else none

/-- finalizemapDest: a destination that is a declared protobuf field gets its index / type / array
    flag; a destination written as a documented column name (`in_if`) is resolved to the column
    (after the `fix:` commit; the pinned tree silently ignored it) -/
def finalizeDest (pb : List PbField) (reMap : List (String × String)) (dest : String) (little : Bool) : Except Unit MapField :=
  match pb.reverse.find? (fun p => p.name == dest) with
  | some p =>
    match protoTypeOf p.type with
    | some t => .ok ⟨dest, little, p.index, t, p.array⟩
    | none => .error ()
  | none =>
    match reMap.lookup dest with
    | some go => if go ≠ "" then .ok ⟨go, little, 0, .none, false⟩ else .ok ⟨dest, little, 0, .none, false⟩
    | none => .ok ⟨dest, little, 0, .none, false⟩

/-- two element statements with the same map key `fmt.Sprintf("%v-%d-%d", PenProvided, Pen, Type)` -/
def sameKey (a b : RawMap) : Bool := a.penProvided == b.penProvided && a.pen == b.pen && a.type == b.type

/-- mapFieldsNetFlow fills a Go map keyed by (penprovided, pen, field) in file order: of several statements
    with the same key only the last one exists afterwards. The survivors, in their file order. -/
def lastPerKey : List RawMap → List RawMap
  | [] => []
  | m :: ms => if ms.any (sameKey m) then lastPerKey ms else m :: lastPerKey ms

/-- mapConfig on a non-nil configuration. `isSlice0` is the package-level isSliceMap before. -/
def compile (raw : RawConfig) (isSlice0 : List (String × Bool)) : Except Unit Compiled := do
  -- mapPortsSFlow
  for p in raw.ports do
    if (parserByName p.parser).isNone then throw ()
    if p.dir ≠ "src" ∧ p.dir ≠ "dst" ∧ p.dir ≠ "both" then throw ()
  let ports : List PortEntry := raw.ports.flatMap fun p =>
    if p.dir = "both" then [{ p with dir := "src" }, { p with dir := "dst" }] else [p]
  -- mapFormat
  let mut reMap := defaultReMap
  let mut numToPb : List (Nat × PbField) := []
  let mut isSlice := isSlice0
  for pb in raw.protobuf do
    reMap := assocSet reMap pb.name ""
    numToPb := (pb.index, pb) :: numToPb.filter (fun e => e.1 != pb.index)
    isSlice := assocSet isSlice pb.name pb.array
  for k in raw.key do
    if (reMap.lookup k).isNone then throw ()
  let mut render : List (String × String) := Goflow.Generated.defaultRenderers
  for (k, v) in raw.render do
    let k' := match reMap.lookup k with
      | some go => if go ≠ "" then go else k
      | none => k
    match rendererFunc v with
    | some f => render := assocSet render k' f
    | none => throw ()
  let fields ← if raw.fields.isEmpty then pure defaultFields else do
    for f in raw.fields do
      if (reMap.lookup f).isNone ∧ (render.lookup f).isNone then throw ()
    pure raw.fields
  -- finalize: the three mappers. finalizeNetFlowMapper ranges over the entries of the map, so a statement
  -- replaced by a later one with the same key is neither finalized (its destination cannot make Compile
  -- fail) nor part of the mapper; the sFlow mapper keeps a list per layer: every statement is finalized
  let fin (ms : List RawMap) : Except Unit (List (RawMap × MapField)) :=
    ms.mapM fun m => do
      let f ← finalizeDest raw.protobuf reMap m.destination (m.endian == "little")
      pure (m, f)
  let ipfix ← fin (lastPerKey raw.ipfix)
  let v9 ← fin (lastPerKey raw.v9)
  let layers ← fin raw.layers
  pure ⟨{ ipfix := ipfix.map fun (m, f) => ⟨m.penProvided, m.pen, m.type, f⟩,
          v9 := v9.map fun (m, f) => ⟨m.penProvided, m.pen, m.type, f⟩,
          layers := layers.map fun (m, f) => ⟨m.layer, m.encap, m.offset, m.length, f⟩,
          ports := ports, present := true },
        ⟨fields, raw.key, reMap, raw.rename, render, numToPb, isSlice⟩⟩

/-- the package-level isSliceMap after a compilation attempt: the protobuf loop mutates it even when a
    later check fails; a failing port list returns before it -/
def isSliceAfter (raw : RawConfig) (isSlice0 : List (String × Bool)) : List (String × Bool) :=
  if raw.ports.any (fun p => (parserByName p.parser).isNone || (p.dir != "src" && p.dir != "dst" && p.dir != "both")) then isSlice0
  else raw.protobuf.foldl (fun acc pb => assocSet acc pb.name pb.array) isSlice0

/-- Compile() on a nil configuration -/
def compileNil (isSlice0 : List (String × Bool)) : Compiled :=
  ⟨{}, ⟨defaultFields, [], defaultReMap, [], Goflow.Generated.defaultRenderers, [], isSlice0⟩⟩

/-! ### values -/

inductive FV where
  | num (n : Nat) (bits : Nat := 64)     -- uint32 / uint64 (unknown varints are uint64)
  | bytes (b : Bytes)
  | flowType (n : Nat)
  | layer (n : Nat)
  | list (l : List FV)
  | invalid                      -- reflect.Value{} : no such struct field and no unknown field
  deriving Repr, Inhabited

def fieldValue (m : FlowMsg) (goName : String) : FV :=
  match FlowMsg.kindOf goName with
  | none => .invalid
  | some kind =>
    if goName = "Type" then .flowType ((m.getNum goName).getD 0)
    else if goName = "LayerStack" then .list (((m.getNums goName).getD []).map FV.layer)
    else if kind = "u32" then .num ((m.getNum goName).getD 0) 32
    else if kind = "u64" then .num ((m.getNum goName).getD 0) 64
    else if kind = "bytes" then .bytes ((m.getBytes goName).getD [])
    else if kind = "listU32" then .list (((m.getNums goName).getD []).map fun n => FV.num n 32)
    else .list (((m.getBytess goName).getD []).map FV.bytes)

/-! ### protobuf unknown fields (mapUnknown) -/

/-- protowire.ConsumeVarint on well-formed input -/
def consumeVarint : Nat → Bytes → Option (Nat × Bytes)
  | 0, _ => none
  | _, [] => none
  | fuel + 1, b :: rest =>
    if b.toNat < 128 then some (b.toNat, rest)
    else match consumeVarint fuel rest with
      | some (v, r) => some (b.toNat - 128 + 128 * v, r)
      | none => none

/-- parse the unknown section into (number, wire type, value) triples; varint and bytes fields only -/
def parseUnknown : Nat → Bytes → List (Nat × Nat × FV)
  | 0, _ => []
  | _, [] => []
  | fuel + 1, b =>
    match consumeVarint 10 b with
    | none => []
    | some (tag, r) =>
      let num := tag / 8
      let wt := tag % 8
      if wt = 0 then
        match consumeVarint 10 r with
        | some (v, r') => (num, wt, FV.num v 64) :: parseUnknown fuel r'
        | none => []
      else if wt = 2 then
        match consumeVarint 10 r with
        | some (n, r') => (num, wt, FV.bytes (r'.take n)) :: parseUnknown fuel (r'.drop n)
        | none => []
      else []

/-- mapUnknown: declared name ↦ value (scalar: last wins; array: appended in order) -/
def mapUnknown (f : Fmt) (unk : Bytes) : List (String × FV) :=
  (parseUnknown (unk.length + 1) unk).foldl (fun acc (num, _, v) =>
    match f.numToPb.lookup num with
    | none => acc
    | some pb =>
      if pb.array then
        let cur := match acc.lookup pb.name with | some (.list l) => l | _ => []
        assocSet acc pb.name (.list (cur ++ [v]))
      else assocSet acc pb.name v) []

/-! ### renderers: the rendered value is text (quoted in JSON) or a bare `%v` -/

inductive Rendered where
  | text (b : Bytes)         -- reflect.String kind: quoted
  | bare (b : Bytes)         -- anything else, printed with %v
  | nil                      -- renderer returned nil: the field is skipped
  deriving Repr, Inhabited

def lookupName (t : List (Nat × String)) (n : Nat) : Bytes :=
  match t.lookup n with | some s => str s | none => []

def protoNameOf (n : Nat) : Bytes :=
  match Goflow.Generated.protoName.lookup n with
  | some s => str s
  | none => if 146 ≤ n ∧ n ≤ 252 then str "unassigned" else if 253 ≤ n ∧ n ≤ 254 then str "experimental"
            else if n = 255 then str "reserved" else str "unknown"

/-- `%v` of a value as fmt prints it (used for bare values and for the key) -/
def percentV : FV → Bytes
  | .num n _ => decimal n
  | .bytes b => str "[" ++ ((b.map fun x => decimal x.toNat).intersperse (str " ")).flatten ++ str "]"
  | .flowType n => flowTypeName n
  | .layer n => layerName n
  | .list l => str "[" ++ ((l.map fun
      | .num n _ => decimal n
      | .bytes b => str "[" ++ ((b.map fun x => decimal x.toNat).intersperse (str " ")).flatten ++ str "]"
      | .flowType n => flowTypeName n
      | .layer n => layerName n
      | _ => []).intersperse (str " ")).flatten ++ str "]"
  | .invalid => str "<nil>"

def nilRenderer : FV → Rendered
  | .flowType n => .text (flowTypeName n)
  | .layer n => .text (layerName n)
  | .bytes b => .text (hexLower b)
  | .invalid => .nil
  | v => .bare (percentV v)

inductive RKind where
  | nil | string | ip | mac | etype | proto | dateTime | dateTimeNano | network | icmp
  deriving Repr, DecidableEq, Inhabited

def rkindOf (r : String) : RKind :=
  if r = "StringRenderer" then .string
  else if r = "IPRenderer" then .ip
  else if r = "MacRenderer" then .mac
  else if r = "EtypeRenderer" then .etype
  else if r = "ProtoRenderer" then .proto
  else if r = "DateTimeRenderer" then .dateTime
  else if r = "DateTimeNanoRenderer" then .dateTimeNano
  else if r = "NetworkRenderer" then .network
  else if r = "ICMPRenderer" then .icmp
  else .nil

/-- one renderer applied to one value. `m` is needed by the network and ICMP renderers. -/
def applyKind (m : FlowMsg) (fieldName : String) : RKind → FV → Rendered
  | .nil, v => nilRenderer v
  | .string, .bytes b => .text b
  | .string, v => nilRenderer v
  | .ip, .bytes b => .text (renderIP b)
  | .ip, v => nilRenderer v
  | .mac, .num n bits => if bits = 64 then .text (macText (n % 2 ^ 48)) else nilRenderer (.num n bits)
  | .mac, v => nilRenderer v
  | .etype, .num n _ => .text (etypeNameOf (n % 2 ^ 32))
  | .etype, _ => .text (str "unknown")
  | .proto, .num n _ => .text (protoNameOf (n % 2 ^ 32))
  | .proto, _ => .text (str "unknown")
  | .dateTime, .num n bits => if bits = 64 then .text (rfc3339 (goTimeSec (asInt64 n)) 0) else .text (rfc3339 n 0)
  | .dateTime, v => nilRenderer v
  | .dateTimeNano, .num n bits =>
    if bits = 64 then .text (rfc3339 ((asInt64 n).fdiv 1000000000) ((asInt64 n).emod 1000000000).toNat) else nilRenderer (.num n bits)
  | .dateTimeNano, v => nilRenderer v
  | .network, v =>
    let addr := if fieldName = "SrcNet" then m.srcAddr else if fieldName = "DstNet" then m.dstAddr else []
    (match v with
     | .num n bits => if bits = 32 then .text (prefixText addr n) else .text (str "unknown")
     | _ => .text (str "unknown"))
  | .icmp, _ =>
    .text (if m.proto = 1 then lookupName Goflow.Generated.icmpTypeName m.icmpType
           else if m.proto = 58 then lookupName Goflow.Generated.icmp6TypeName m.icmpType else str "unknown")

def applyRenderer (m : FlowMsg) (fieldName : String) (r : String) (v : FV) : Rendered :=
  applyKind m fieldName (rkindOf r) v

/-- the name printed for a configured field: the rename when there is a non-empty one -/
def finalNameOf (f : Fmt) (s : String) : Bytes :=
  match f.rename.lookup s with
  | some r => if r.isEmpty then str s else r
  | none => str s

/-- the struct field (or declared / virtual name) a configured field stands for -/
def fieldNameOf (f : Fmt) (s : String) : String :=
  match f.reMap.lookup s with
  | some go => if go ≠ "" then go else s
  | none => s

def rendererOf (f : Fmt) (s : String) : String × Bool :=
  match f.render.lookup (fieldNameOf f s) with
  | some r => (r, true)
  | none => ("NilRenderer", false)

/-- the value printed for a configured field: the struct field, else the custom field carried in the
    unknown section, else (virtual columns only) the invalid value handed to the renderer -/
def valueOf (f : Fmt) (m : FlowMsg) (unk : List (String × FV)) (s : String) : Option FV :=
  match fieldValue m (fieldNameOf f s) with
  | .invalid => (match unk.lookup s with
      | some u => some u
      | none => if (rendererOf f s).2 ∧ (f.reMap.lookup s).isNone then some .invalid else none)   -- virtual columns only
  | v => some v

def quoteIf (json : Bool) (quotes : Bytes) (r : Rendered) : Option Bytes :=
  match r with
  | .text b => some (if json then jsonQuote b else quotes ++ b ++ quotes)
  | .bare b => some b
  | .nil => none

/-- one element of an array value, rendered (`none`: the renderer returned nil, the element is skipped) -/
def renderElem (f : Fmt) (m : FlowMsg) (json : Bool) (quotes : Bytes) (s : String) (e : FV) : Option Bytes :=
  quoteIf json quotes (applyRenderer m (fieldNameOf f s) (rendererOf f s).1 e)

/-- the elements of an array value, each rendered; a separator follows every rendered element but the
    last one of the array (`if i < c-1 { v += "," }` after the `continue` for nil) -/
def sliceBody (f : Fmt) (m : FlowMsg) (json : Bool) (quotes : Bytes) (s : String) : List FV → Bytes
  | [] => []
  | [e] => (renderElem f m json quotes s e).getD []
  | e :: e' :: rest =>
    (match renderElem f m json quotes s e with
     | some b => b ++ [0x2c]
     | none => []) ++ sliceBody f m json quotes s (e' :: rest)

/-- the elements of a value printed as an array (`fieldValue.Len()` / `Index(i)`): nothing for a non-list -/
def elemsOf : FV → List FV
  | .list l => l
  | _ => []

/-- one `name sign value` item, or nothing when the field is skipped -/
def itemOf (f : Fmt) (m : FlowMsg) (unk : List (String × FV)) (json : Bool) (quotes sign : Bytes) (s : String) : Option Bytes :=
  match valueOf f m unk s with
  | none => none
  | some v =>
    if (f.isSlice.lookup (fieldNameOf f s)).getD false then
      some (quotes ++ finalNameOf f s ++ quotes ++ sign ++ [0x5b] ++ sliceBody f m json quotes s (elemsOf v) ++ [0x5d])
    else
      match quoteIf json quotes (applyRenderer m (fieldNameOf f s) (rendererOf f s).1 v) with
      | none => none
      | some b => some (quotes ++ finalNameOf f s ++ quotes ++ sign ++ b)

/-- FormatMessageReflectCustom(ext, quotes, sep, sign, null): the list of `name sign value` items -/
def formatItems (f : Fmt) (m : FlowMsg) (json : Bool) (quotes sign : Bytes) : List Bytes :=
  f.fields.filterMap (itemOf f m (mapUnknown f m.unk) json quotes sign)

def formatJSON (f : Fmt) (m : FlowMsg) : Bytes :=
  [0x7b] ++ ((formatItems f m true [0x22] [0x3a]).intersperse [0x2c]).flatten ++ [0x7d]

def formatText (f : Fmt) (m : FlowMsg) : Bytes :=
  ((formatItems f m false [] (str "=")).intersperse (str " ")).flatten

/-! ### key: FNV-1 (32 bit) over the %v text of the key fields -/

def fnv1 (bs : Bytes) (h : Nat) : Nat := bs.foldl (fun h b => ((h * 16777619) % 2 ^ 32) ^^^ b.toNat) h

def key (f : Fmt) (m : FlowMsg) : Bytes :=
  if f.key.isEmpty then [] else
  let unk := mapUnknown f m.unk
  let h := f.key.foldl (fun h s =>
    let fieldName := match f.reMap.lookup s with
      | some go => if go ≠ "" then go else s
      | none => s
    match fieldValue m fieldName with
    | .invalid => (match unk.lookup s with | some u => fnv1 (percentV u) h | none => h)
    | v => fnv1 (percentV v) h) 2166136261
  encBE 4 h

/-! ### binary: protodelim (varint length + proto.Marshal) -/

def pbVarintField (num v : Nat) : Bytes := if v = 0 then [] else appendTag num 0 ++ appendVarint v
def pbBytesField (num : Nat) (b : Bytes) : Bytes := if b.isEmpty then [] else appendTag num 2 ++ appendVarint b.length ++ b
def pbPacked (num : Nat) (vs : List Nat) : Bytes :=
  if vs.isEmpty then [] else
  let body := vs.flatMap appendVarint
  appendTag num 2 ++ appendVarint body.length ++ body
def pbRepeatedBytes (num : Nat) (bs : List Bytes) : Bytes := bs.flatMap fun b => appendTag num 2 ++ appendVarint b.length ++ b

/-- proto.Marshal: known fields in field-number order, then the unknown fields -/
def marshal (m : FlowMsg) : Bytes :=
  let cols := flowMessageColumns.mergeSort (fun a b => a.num ≤ b.num)
  (cols.flatMap fun c =>
    if c.kind = "u32" ∨ c.kind = "u64" then pbVarintField c.num ((m.getNum c.goName).getD 0)
    else if c.kind = "bytes" then pbBytesField c.num ((m.getBytes c.goName).getD [])
    else if c.kind = "listU32" then pbPacked c.num ((m.getNums c.goName).getD [])
    else pbRepeatedBytes c.num ((m.getBytess c.goName).getD [])) ++ m.unk

def marshalBinary (m : FlowMsg) : Bytes :=
  let body := marshal m
  appendVarint body.length ++ body

/-- the reader's side (protodelim.UnmarshalFrom in a loop): cut a stream into frames -/
def splitFrames : Nat → Bytes → Option (List Bytes)
  | 0, _ => none
  | _, [] => some []
  | fuel + 1, b =>
    match consumeVarint 10 b with
    | none => none
    | some (n, r) =>
      if r.length < n then none else
      match splitFrames fuel (r.drop n) with
      | some fs => some (r.take n :: fs)
      | none => none

/-- the four outputs of one message as the harness prints them -/
def fmtLines (f : Fmt) (m : FlowMsg) : List String :=
  let js := formatJSON f m
  let bin := marshalBinary m
  let two := bin ++ bin
  let split := splitFrames (two.length + 1) two == some [marshal m, marshal m]
  ["json " ++ hexOf js ++ " valid=" ++ (if Goflow.Spec.Json.valid js then "1" else "0"),
   "text " ++ hexOf (formatText f m),
   "bin " ++ hexOf bin ++ " split=" ++ (if split then "ok" else "bad"),
   "key " ++ hexOf (key f m)]

end Goflow.Format
