import Goflow.Format.Formatter
import Goflow.Basic.MsgDump
/-!
  The twin of a mapping file: the same `RawConfig` written in a trivially parseable form, so that
  the model does not need a YAML parser. The harness loads the YAML with the code's own loader,
  re-encodes the resulting `ProducerConfig` in this form and both sides print it — a YAML file and a
  twin that disagree are reported before anything else is compared.

    F=<name>,…/K=<name>,…/R=<key>:<renderer>,…/N=<key>:<new>,…/P=<name>:<index>:<type>:<0|1>,…/
    I=<0|1>:<pen>:<field>:<dest>:<endian>,…/V=…/L=<layer>:<0|1>:<offset>:<length>:<dest>:<endian>,…/
    O=<proto>:<dir>:<port>:<parser>,…

  strings are hex (`-` for the empty string); render / rename are sorted by key.
-/
namespace Goflow.Format
open Goflow Goflow.Producer

def hexStr (s : String) : String := hexOf s.toUTF8.toList
def unhexStr (h : String) : Option String :=
  match parseHex h with
  | some b => String.fromUTF8? (ByteArray.mk b.toArray)
  | none => none

def splitNonEmpty (s : String) (sep : String) : List String := (s.splitOn sep).filter (· ≠ "")

def bit (s : String) : Option Bool := if s = "1" then some true else if s = "0" then some false else none

def parseNetflowMap (s : String) : Option RawMap :=
  match s.splitOn ":" with
  | [pp, pen, ty, dest, endian] => do
    let pp ← bit pp
    let pen ← pen.toNat?
    let ty ← ty.toNat?
    let dest ← unhexStr dest
    let endian ← unhexStr endian
    pure { penProvided := pp, pen := pen, type := ty, destination := dest, endian := endian }
  | _ => none

def parseLayerMap (s : String) : Option RawMap :=
  match s.splitOn ":" with
  | [layer, encap, off, len, dest, endian] => do
    let layer ← unhexStr layer
    let encap ← bit encap
    let off ← off.toInt?
    let len ← len.toInt?
    let dest ← unhexStr dest
    let endian ← unhexStr endian
    pure { layer := layer, encap := encap, offset := off, length := len, destination := dest, endian := endian }
  | _ => none

def parsePb (s : String) : Option PbField :=
  match s.splitOn ":" with
  | [name, index, ty, arr] => do
    let name ← unhexStr name
    let index ← index.toNat?
    let ty ← unhexStr ty
    let arr ← bit arr
    pure ⟨name, index, ty, arr⟩
  | _ => none

def parsePort (s : String) : Option PortEntry :=
  match s.splitOn ":" with
  | [proto, dir, port, parser] => do
    let proto ← unhexStr proto
    let dir ← unhexStr dir
    let port ← port.toNat?
    let parser ← unhexStr parser
    pure ⟨proto, dir, port, parser⟩
  | _ => none

def parsePair (s : String) : Option (String × String) :=
  match s.splitOn ":" with
  | [k, v] => do pure (← unhexStr k, ← unhexStr v)
  | _ => none

def parseSection (raw : RawConfig) (sec : String) : Option RawConfig :=
  match sec.splitOn "=" with
  | [tag, body] =>
    let items := splitNonEmpty body ","
    match tag with
    | "F" => do pure { raw with fields := ← items.mapM unhexStr }
    | "K" => do pure { raw with key := ← items.mapM unhexStr }
    | "R" => do pure { raw with render := ← items.mapM parsePair }
    | "N" => do
      let ps ← items.mapM parsePair
      pure { raw with rename := ps.map fun (k, v) => (k, v.toUTF8.toList) }
    | "P" => do pure { raw with protobuf := ← items.mapM parsePb }
    | "I" => do pure { raw with ipfix := ← items.mapM parseNetflowMap }
    | "V" => do pure { raw with v9 := ← items.mapM parseNetflowMap }
    | "L" => do pure { raw with layers := ← items.mapM parseLayerMap }
    | "O" => do pure { raw with ports := ← items.mapM parsePort }
    | _ => none
  | _ => none

def parseTwin (s : String) : Option RawConfig :=
  (splitNonEmpty s "/").foldlM parseSection {}

def sortPairs (l : List (String × String)) : List (String × String) :=
  l.mergeSort fun a b => a.1 ≤ b.1

def renderTwin (raw : RawConfig) : String :=
  let b (x : Bool) := if x then "1" else "0"
  let nf (m : RawMap) := ":".intercalate [b m.penProvided, toString m.pen, toString m.type, hexStr m.destination, hexStr m.endian]
  let lm (m : RawMap) := ":".intercalate [hexStr m.layer, b m.encap, toString m.offset, toString m.length, hexStr m.destination, hexStr m.endian]
  let pair (p : String × String) := hexStr p.1 ++ ":" ++ hexStr p.2
  let renames : List (String × String) := raw.rename.map fun (k, v) => (k, (String.fromUTF8? (ByteArray.mk v.toArray)).getD "")
  "/".intercalate [
    "F=" ++ ",".intercalate (raw.fields.map hexStr),
    "K=" ++ ",".intercalate (raw.key.map hexStr),
    "R=" ++ ",".intercalate ((sortPairs raw.render).map pair),
    "N=" ++ ",".intercalate ((sortPairs renames).map pair),
    "P=" ++ ",".intercalate (raw.protobuf.map fun p => ":".intercalate [hexStr p.name, toString p.index, hexStr p.type, b p.array]),
    "I=" ++ ",".intercalate (raw.ipfix.map nf),
    "V=" ++ ",".intercalate (raw.v9.map nf),
    "L=" ++ ",".intercalate (raw.layers.map lm),
    "O=" ++ ",".intercalate (raw.ports.map fun p => ":".intercalate [hexStr p.proto, hexStr p.dir, toString p.port, hexStr p.parser])]

/-! ### the YAML file itself (flow style; all strings double-quoted, restricted to characters that
    need no escaping — the generators only produce such strings) -/

def yq (s : String) : String := "\"" ++ s ++ "\""

def renderYaml (raw : RawConfig) : String :=
  let b (x : Bool) := if x then "true" else "false"
  let list (xs : List String) := "[" ++ ", ".intercalate xs ++ "]"
  let nf (m : RawMap) := "    - {field: " ++ toString m.type ++ ", pen: " ++ toString m.pen ++ ", penprovided: " ++ b m.penProvided ++
    ", destination: " ++ yq m.destination ++ (if m.endian = "" then "" else (if m.shortKey then ", endian: " else ", endianness: ") ++ yq m.endian) ++ "}\n"
  let lm (m : RawMap) := "    - {layer: " ++ yq m.layer ++ ", encap: " ++ b m.encap ++ ", offset: " ++ toString m.offset ++ ", length: " ++ toString m.length ++
    ", destination: " ++ yq m.destination ++ (if m.endian = "" then "" else (if m.shortKey then ", endian: " else ", endianness: ") ++ yq m.endian) ++ "}\n"
  let renames : List (String × String) := raw.rename.map fun (k, v) => (k, (String.fromUTF8? (ByteArray.mk v.toArray)).getD "")
  "formatter:\n" ++
  (if raw.fields.isEmpty then "" else "  fields: " ++ list (raw.fields.map yq) ++ "\n") ++
  (if raw.key.isEmpty then "" else "  key: " ++ list (raw.key.map yq) ++ "\n") ++
  (if raw.render.isEmpty then "" else "  render: {" ++ ", ".intercalate (raw.render.map fun (k, v) => yq k ++ ": " ++ yq v) ++ "}\n") ++
  (if renames.isEmpty then "" else "  rename: {" ++ ", ".intercalate (renames.map fun (k, v) => yq k ++ ": " ++ yq v) ++ "}\n") ++
  (if raw.protobuf.isEmpty then "" else "  protobuf:\n" ++ String.join (raw.protobuf.map fun p =>
    "    - {name: " ++ yq p.name ++ ", index: " ++ toString p.index ++ ", type: " ++ yq p.type ++ ", array: " ++ b p.array ++ "}\n")) ++
  (if raw.ipfix.isEmpty then "" else "ipfix:\n  mapping:\n" ++ String.join (raw.ipfix.map nf)) ++
  (if raw.v9.isEmpty then "" else "netflowv9:\n  mapping:\n" ++ String.join (raw.v9.map nf)) ++
  (if raw.layers.isEmpty ∧ raw.ports.isEmpty then "" else "sflow:\n" ++
    (if raw.layers.isEmpty then "" else "  mapping:\n" ++ String.join (raw.layers.map lm)) ++
    (if raw.ports.isEmpty then "" else "  ports:\n" ++ String.join (raw.ports.map fun p =>
      "    - {proto: " ++ yq p.proto ++ ", dir: " ++ yq p.dir ++ ", port: " ++ toString p.port ++ ", parser: " ++ yq p.parser ++ "}\n")))

/-- the `cfg` op for a configuration -/
def cfgOp (cid : String) (raw : RawConfig) : String :=
  "cfg " ++ cid ++ " " ++ hexStr (renderYaml raw) ++ " " ++ renderTwin raw

/-! ### messages on an op line: the `msg` dump format read back -/

def parseList (s : String) : Option (List String) :=
  if s.startsWith "[" ∧ s.endsWith "]" then
    let inner := ((s.drop 1).dropEnd 1).toString
    some (inner.splitOn ",")
  else none

def parseMsgField (m : FlowMsg) (tok : String) : Option FlowMsg :=
  match tok.splitOn "=" with
  | [name, val] =>
    if name = "unk" then do pure { m with unk := ← parseHex val }
    else
      match FlowMsg.kindOf name with
      | none => none
      | some kind =>
        if kind = "u32" ∨ kind = "u64" then do pure (m.setNum name (← val.toNat?))
        else if kind = "bytes" then do pure (m.setBytes name (← parseHex val))
        else if kind = "listU32" then do
          let xs ← parseList val
          pure (m.setNums name (← xs.mapM String.toNat?))
        else do
          let xs ← parseList val
          pure (m.setBytess name (← xs.mapM fun x => if x = "" then some [] else parseHex x))
  | _ => none

def parseMsg (toks : List String) : Option FlowMsg := toks.foldlM parseMsgField FlowMsg.empty

end Goflow.Format
