import Goflow.Producer.Netflow
import Goflow.Producer.Sflow
import Goflow.Producer.Legacy
/-! utils/pipe.go + producer/proto/proto.go: the sequential DecodeFlow of the three pipes over an
    explicit state (per-exporter template stores, per-exporter-IP sampling rates). The message
    pool is not part of the state: every message starts from Reset() (= FlowMsg.empty). -/
namespace Goflow.Pipe
open Goflow Goflow.Producer

/-- UDP source: address bytes (4 or 16) and port. `netip.AddrPort.String()` is assumed injective on these. -/
structure Src where
  ip : Bytes
  port : Nat
  deriving Repr, DecidableEq, Inhabited

structure State where
  templates : List (Src × Netflow.Store) := []
  sampling : List (Bytes × Rates) := []
  deriving Inhabited

def State.templatesOf (s : State) (k : Src) : Netflow.Store := (s.templates.lookup k).getD []
def State.setTemplates (s : State) (k : Src) (t : Netflow.Store) : State :=
  { s with templates := (k, t) :: s.templates.filter (fun e => e.1 != k) }
def State.ratesOf (s : State) (ip : Bytes) : Rates := (s.sampling.lookup ip).getD []
def State.setRates (s : State) (ip : Bytes) (r : Rates) : State :=
  { s with sampling := (ip, r) :: s.sampling.filter (fun e => e.1 != ip) }

structure Out where
  state : State
  msgs : List FlowMsg        -- in the order handed to format + transport
  err : Option Err           -- outcome class of DecodeFlow
  deriving Inhabited

/-- `args.SamplerAddress.Unmap().MarshalBinary()` -/
def unmap (ip : Bytes) : Bytes :=
  if ip.length = 16 ∧ ip.take 10 = List.replicate 10 0 ∧ (ip.drop 10).take 2 = [0xff, 0xff] then ip.drop 12 else ip

/-- the enrich callback of Produce for NetFlow: receive time and exporter address -/
def stampRecv (recvNs : Nat) (sa : Bytes) (m : FlowMsg) : FlowMsg :=
  { m with timeReceivedNs := recvNs, samplerAddress := sa }

/-- the enrich callback of Produce for sFlow: receive time as flow start and end -/
def stampSflow (recvNs : Nat) (m : FlowMsg) : FlowMsg :=
  { m with timeReceivedNs := recvNs, timeFlowStartNs := recvNs, timeFlowEndNs := recvNs }

/-- NetFlowPipe.DecodeFlow. A datagram that only lacks some templates still yields the messages of
    the sets whose templates are known and then reports template-not-found (after the `fix:` commit;
    the pinned tree dropped everything). -/
def netflowPipe (cfg : Config) (st : State) (src : Src) (recvNs : Nat) (payload : Bytes) : Out :=
  let tpl := st.templatesOf src
  -- first contact registers an (empty) template system for the exporter
  let st := st.setTemplates src tpl
  match readU 2 payload with
  | .error e => ⟨st, [], some e⟩
  | .ok (version, b) =>
    let sa := unmap src.ip
    if version = 5 then
      match V5.decodeMessage b with
      | .error e => ⟨st, [], some e⟩
      | .ok p => ⟨st, (processLegacy p).map (stampRecv recvNs sa), none⟩
    else if version = 9 ∨ version = 10 then
      let o := if version = 9 then Netflow.decodeMessageNetFlow tpl b else Netflow.decodeMessageIPFIX tpl b
      let st := st.setTemplates src o.store
      match o.err with
      | some e => ⟨st, [], some e⟩
      | none =>
        let r := processNetflow (some cfg) o.packet (st.ratesOf src.ip)
        let st := st.setRates src.ip r.rates
        match r.err with
        | some e => ⟨st, [], some e⟩
        | none =>
          ⟨st, r.msgs.map (stampRecv recvNs sa),
            if o.tnf then some .tnf else none⟩
    else ⟨st, [], some .bad⟩

/-- SFlowPipe.DecodeFlow -/
def sflowPipe (cfg : Config) (st : State) (recvNs : Nat) (payload : Bytes) : Out :=
  match Sflow.decodeMessageVersion payload with
  | .error e => ⟨st, [], some e⟩
  | .ok p =>
    match processSflow (some cfg) p with
    | .error e => ⟨st, [], some e⟩
    | .ok ms => ⟨st, ms.map (stampSflow recvNs), none⟩

/-- AutoFlowPipe.DecodeFlow -/
def autoPipe (cfg : Config) (st : State) (src : Src) (recvNs : Nat) (payload : Bytes) : Out :=
  match readU 4 payload with
  | .error e => ⟨st, [], some e⟩
  | .ok (proto, _) =>
    let nf := proto / 65536
    if proto = 5 then sflowPipe cfg st recvNs payload
    else if nf = 5 ∨ nf = 9 ∨ nf = 10 then netflowPipe cfg st src recvNs payload
    else ⟨st, [], some .bad⟩

inductive Kind where
  | netflow | sflow | auto
  deriving Repr, DecidableEq, Inhabited

def decodeFlow (k : Kind) (cfg : Config) (st : State) (src : Src) (recvNs : Nat) (payload : Bytes) : Out :=
  match k with
  | .netflow => netflowPipe cfg st src recvNs payload
  | .sflow => sflowPipe cfg st recvNs payload
  | .auto => autoPipe cfg st src recvNs payload

/-- `formatSend` with a format / transport that refuses the k-th message of the datagram (counted from 1; 0: none):
    the messages in front of it have been delivered, the refusal is the outcome of DecodeFlow (it takes precedence
    over template-not-found), the state is what production left. -/
def refuseAt (k : Nat) (o : Out) : Out :=
  if 1 ≤ k ∧ k ≤ o.msgs.length then { o with msgs := o.msgs.take (k - 1), err := some .bad } else o

end Goflow.Pipe
