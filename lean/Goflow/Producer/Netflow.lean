import Goflow.Decoders.Netflow
import Goflow.Producer.Packet
/-! producer_nf.go: ConvertNetFlowDataSet and the ProcessMessage{NetFlowV9,IPFIX}Config pipeline.
    The per-element behaviour is a table of `Action`s; `Action.goText` is the Go source of the
    corresponding `case` body, and Proofs/C08.lean proves that the table regenerated from
    producer_nf.go equals this one. -/
namespace Goflow.Producer
open Goflow.Netflow

inductive Action where
  | unum (col : String)                       -- DecodeUNumber(v, &flowMessage.<col>)
  | unum2 (col1 col2 : String)                -- two destinations from the same value
  | ipVersion                                 -- element 60
  | addr (col : String) (v6 : Bool)           -- addrReplaceCheck
  | bytes (col : String)                      -- flowMessage.<col> = v
  | icmpTypeCode
  | fragOffset
  | ipFlags
  | mplsLabel (idx : Nat)
  | mplsIp
  | v9First | v9Last
  | ipfixTime (start : Bool) (mult : Nat)
  | ipfixDelta (start : Bool)
  | frameSize
  | frameSection
  deriving Repr, DecidableEq, Inhabited

def unumText (dst : String) : String := "if err := DecodeUNumber(v, &" ++ dst ++ "); err != nil { return err }"

def Action.goText : Action → String
  | .unum c => unumText ("(flowMessage." ++ c ++ ")")
  | .unum2 a b => unumText ("(flowMessage." ++ a ++ ")") ++ " ; " ++ unumText ("(flowMessage." ++ b ++ ")")
  | .ipVersion => "if len(v) > 0 { if v[0] == 4 { flowMessage.Etype = 0x800 } else if v[0] == 6 { flowMessage.Etype = 0x86dd } }"
  | .addr c v6 => "addrReplaceCheck(&(flowMessage." ++ c ++ "), v, &(flowMessage.Etype), " ++ (if v6 then "true" else "false") ++ ")"
  | .bytes c => "flowMessage." ++ c ++ " = v"
  | .icmpTypeCode => "var icmpTypeCode uint16 ; " ++ unumText "icmpTypeCode" ++ " ; flowMessage.IcmpType = uint32(icmpTypeCode >> 8) ; flowMessage.IcmpCode = uint32(icmpTypeCode & 0xff)"
  | .fragOffset => "var fragOffset uint32 ; " ++ unumText "fragOffset" ++ " ; flowMessage.FragmentOffset = fragOffset"
  | .ipFlags => "var ipFlags uint32 ; " ++ unumText "ipFlags" ++ " ; flowMessage.IpFlags = ipFlags >> 5"
  | .mplsLabel 0 => "var mplsLabel uint32 ; " ++ unumText "mplsLabel" ++ " ; if len(flowMessage.MplsLabel) < 1 { flowMessage.MplsLabel = make([]uint32, 1) } ; flowMessage.MplsLabel[0] = uint32(mplsLabel >> 4)"
  | .mplsLabel i => "var mplsLabel uint32 ; " ++ unumText "mplsLabel" ++ " ; if len(flowMessage.MplsLabel) < " ++ toString (i + 1) ++
      " { tmpLabels := make([]uint32, " ++ toString (i + 1) ++ ") copy(tmpLabels, flowMessage.MplsLabel) flowMessage.MplsLabel = tmpLabels } ; flowMessage.MplsLabel[" ++ toString i ++ "] = uint32(mplsLabel >> 4)"
  | .mplsIp => "flowMessage.MplsIp = append(flowMessage.MplsIp, v)"
  | .v9First => "var timeFirstSwitched uint32 ; " ++ unumText "timeFirstSwitched" ++ " ; timeDiff := (uptimeNs - uint64(timeFirstSwitched)*1e6) ; flowMessage.TimeFlowStartNs = baseTimeNs - timeDiff"
  | .v9Last => "var timeLastSwitched uint32 ; " ++ unumText "timeLastSwitched" ++ " ; timeDiff := (uptimeNs - uint64(timeLastSwitched)*1e6) ; flowMessage.TimeFlowEndNs = baseTimeNs - timeDiff"
  | .ipfixTime s m => unumText "time" ++ " ; flowMessage.TimeFlow" ++ (if s then "Start" else "End") ++ "Ns = time" ++ (if m = 1 then "" else " * " ++ toString m)
  | .ipfixDelta s => unumText "time" ++ " ; flowMessage.TimeFlow" ++ (if s then "Start" else "End") ++ "Ns = baseTimeNs - time*1000"
  | .frameSize => unumText "(flowMessage.Bytes)" ++ " ; flowMessage.Packets = 1"
  | .frameSection => "if err := mapperSFlow.ParsePacket(flowMessage, v); err != nil { return err } ; flowMessage.Packets = 1 ; if flowMessage.Bytes == 0 { flowMessage.Bytes = uint64(len(v)) }"

/-- (version scope, element ids, action): 0 = outer switch, 9 / 10 = default branch of that version -/
def caseTable : List (Nat × List Nat × Action) := [
  (0, [138], .unum "ObservationPointId"),
  (0, [1], .unum "Bytes"), (0, [2], .unum "Packets"), (0, [23], .unum "Bytes"), (0, [24], .unum "Packets"),
  (0, [7], .unum "SrcPort"), (0, [11], .unum "DstPort"), (0, [4], .unum "Proto"),
  (0, [16], .unum "SrcAs"), (0, [17], .unum "DstAs"),
  (0, [10], .unum "InIf"), (0, [14], .unum "OutIf"),
  (0, [89], .unum "ForwardingStatus"), (0, [5], .unum "IpTos"), (0, [6], .unum "TcpFlags"), (0, [52], .unum "IpTtl"),
  (0, [60], .ipVersion),
  (0, [8], .addr "SrcAddr" false), (0, [12], .addr "DstAddr" false),
  (0, [9], .unum "SrcNet"), (0, [13], .unum "DstNet"),
  (0, [27], .addr "SrcAddr" true), (0, [28], .addr "DstAddr" true),
  (0, [29], .unum "SrcNet"), (0, [30], .unum "DstNet"),
  (0, [15], .bytes "NextHop"), (0, [18], .bytes "BgpNextHop"), (0, [62], .bytes "NextHop"), (0, [63], .bytes "BgpNextHop"),
  (0, [32], .icmpTypeCode), (0, [139], .icmpTypeCode),
  (0, [176], .unum "IcmpType"), (0, [178], .unum "IcmpType"), (0, [177], .unum "IcmpCode"), (0, [179], .unum "IcmpCode"),
  (0, [56], .unum "SrcMac"), (0, [80], .unum "DstMac"), (0, [81], .unum "SrcMac"), (0, [57], .unum "DstMac"),
  (0, [58], .unum2 "VlanId" "SrcVlan"), (0, [59], .unum "DstVlan"),
  (0, [54], .unum "FragmentId"), (0, [88], .fragOffset), (0, [197], .ipFlags), (0, [31], .unum "Ipv6FlowLabel"),
  (0, [70], .mplsLabel 0), (0, [71], .mplsLabel 1), (0, [72], .mplsLabel 2),
  (0, [47], .mplsIp), (0, [140], .mplsIp),
  (9, [22], .v9First), (9, [21], .v9Last),
  (10, [150], .ipfixTime true 1000000000), (10, [152], .ipfixTime true 1000000), (10, [154], .ipfixTime true 1000),
  (10, [156], .ipfixTime true 1),
  (10, [151], .ipfixTime false 1000000000), (10, [153], .ipfixTime false 1000000), (10, [155], .ipfixTime false 1000),
  (10, [157], .ipfixTime false 1),
  (10, [158], .ipfixDelta true), (10, [159], .ipfixDelta false),
  (10, [312], .frameSize), (10, [315], .frameSection)
]

/-- Go `switch`: the first outer case listing the id; otherwise the default branch of the version -/
def lookupAction (version id : Nat) : Option Action :=
  match caseTable.find? (fun e => e.1 == 0 && e.2.1.contains id) with
  | some e => some e.2.2
  | none =>
    match caseTable.find? (fun e => e.1 == version && e.2.1.contains id) with
    | some e => some e.2.2
    | none => none

def colBits (col : String) : Nat :=
  match FlowMsg.kindOf col with
  | some "u64" => 64
  | _ => 32

def U64 : Nat := 2 ^ 64

/-- addrReplaceCheck -/
def addrReplaceCheck (m : FlowMsg) (col : String) (v : Bytes) (v6 : Bool) : FlowMsg :=
  let cur := (m.getBytes col).getD []
  if (cur.length = 0 ∧ v.length > 0) ∨ (cur.length ≠ 0 ∧ v.length > 0 ∧ !(v.all (· == 0))) then
    { m.setBytes col v with etype := if v6 then 0x86dd else 0x800 }
  else m

def setAt (l : List Nat) (i v : Nat) : List Nat := l.set i v

/-- one `case` body. `cfg`/`present` are needed for element 315 (ParsePacket through the packet mapper). -/
def applyAction (cfg : Option Config) (baseTimeNs uptime : Nat) (m : FlowMsg) (v : Bytes) : Action → Res FlowMsg
  | .unum c =>
    match decodeUNumber (colBits c) v with
    | .error e => .error e
    | .ok x => .ok (m.setNum c x)
  | .unum2 a b =>
    match decodeUNumber (colBits a) v with
    | .error e => .error e
    | .ok x =>
      match decodeUNumber (colBits b) v with
      | .error e => .error e
      | .ok y => .ok ((m.setNum a x).setNum b y)
  | .ipVersion =>
    match v with
    | [] => .ok m
    | x :: _ => .ok (if x = 4 then { m with etype := 0x800 } else if x = 6 then { m with etype := 0x86dd } else m)
  | .addr c v6 => .ok (addrReplaceCheck m c v v6)
  | .bytes c => .ok (m.setBytes c v)
  | .icmpTypeCode =>
    match decodeUNumber 16 v with
    | .error e => .error e
    | .ok x => .ok { m with icmpType := x / 256, icmpCode := x % 256 }
  | .fragOffset =>
    match decodeUNumber 32 v with
    | .error e => .error e
    | .ok x => .ok { m with fragmentOffset := x }
  | .ipFlags =>
    match decodeUNumber 32 v with
    | .error e => .error e
    | .ok x => .ok { m with ipFlags := x / 32 }
  | .mplsLabel i =>
    match decodeUNumber 32 v with
    | .error e => .error e
    | .ok x =>
      let cur := m.mplsLabel
      let cur := if cur.length < i + 1 then cur ++ List.replicate (i + 1 - cur.length) 0 else cur
      .ok { m with mplsLabel := setAt cur i (x / 16) }
  | .mplsIp => .ok { m with mplsIp := m.mplsIp ++ [v] }
  | .v9First =>
    match decodeUNumber 32 v with
    | .error e => .error e
    | .ok x =>
      let timeDiff := (uptime * 1000000 + U64 - (x * 1000000) % U64) % U64
      .ok { m with timeFlowStartNs := (baseTimeNs + U64 - timeDiff) % U64 }
  | .v9Last =>
    match decodeUNumber 32 v with
    | .error e => .error e
    | .ok x =>
      let timeDiff := (uptime * 1000000 + U64 - (x * 1000000) % U64) % U64
      .ok { m with timeFlowEndNs := (baseTimeNs + U64 - timeDiff) % U64 }
  | .ipfixTime s mult =>
    match decodeUNumber 64 v with
    | .error e => .error e
    | .ok x => .ok (if s then { m with timeFlowStartNs := (x * mult) % U64 } else { m with timeFlowEndNs := (x * mult) % U64 })
  | .ipfixDelta s =>
    match decodeUNumber 64 v with
    | .error e => .error e
    | .ok x =>
      let t := (baseTimeNs + U64 - (x * 1000) % U64) % U64
      .ok (if s then { m with timeFlowStartNs := t } else { m with timeFlowEndNs := t })
  | .frameSize =>
    match decodeUNumber 64 v with
    | .error e => .error e
    | .ok x => .ok { m with bytes := x, packets := 1 }
  | .frameSection =>
    match cfg with
    | none => .error .panic          -- mapperSFlow is the nil interface: method call on nil
    | some c =>
      match parsePacket c m v with
      | .error e => .error e
      | .ok m1 =>
        let m2 := { m1 with packets := 1 }
        .ok (if m2.bytes = 0 then { m2 with bytes := v.length } else m2)

/-- the per-field loop of ConvertNetFlowDataSet -/
def convertFields (cfg : Option Config) (version baseTimeNs uptime : Nat) : List DataField → FlowMsg → Res FlowMsg
  | [], m => .ok m
  | df :: rest, m =>
    match df.value with
    | none => convertFields cfg version baseTimeNs uptime rest m
    | some v =>
      let mapper : List NetflowMapEntry := match cfg with
        | some c => if version = 10 then c.ipfix else c.v9
        | none => []
      let r1 : Res FlowMsg := match lookupNetflow mapper df.penProvided df.pen df.type with
        | some f => mapCustom m v f
        | none => .ok m
      match r1 with
      | .error e => .error e
      | .ok m1 =>
        if df.penProvided then convertFields cfg version baseTimeNs uptime rest m1
        else
          match lookupAction version df.type with
          | none => convertFields cfg version baseTimeNs uptime rest m1
          | some a =>
            match applyAction cfg baseTimeNs uptime m1 v a with
            | .error e => .error e
            | .ok m2 => convertFields cfg version baseTimeNs uptime rest m2

/-- ConvertNetFlowDataSet on a Reset() message -/
def convertNetFlowDataSet (cfg : Option Config) (version baseTime uptime : Nat) (record : List DataField) : Res FlowMsg :=
  let baseTimeNs := baseTime * 1000000000
  let m : FlowMsg := { FlowMsg.empty with timeFlowStartNs := baseTimeNs, timeFlowEndNs := baseTimeNs, type_ := if version = 9 then 3 else if version = 10 then 4 else 0 }
  convertFields cfg version baseTimeNs uptime record m

/-- SearchNetFlowDataSetsRecords / SearchNetFlowDataSets: all data records of all data sets, in order;
    the first conversion error aborts and returns the messages built so far together with the error -/
def convertRecords (cfg : Option Config) (version baseTime uptime : Nat) : List DataRecord → Res (List FlowMsg)
  | [] => .ok []
  | r :: rs =>
    match convertNetFlowDataSet cfg version baseTime uptime r.values with
    | .error e => .error e
    | .ok m =>
      match convertRecords cfg version baseTime uptime rs with
      | .error e => .error e
      | .ok ms => .ok (m :: ms)

def dataRecordsOf (sets : List FlowSet) : List DataRecord :=
  sets.flatMap fun s => match s with | .data _ _ rs => rs | _ => []

def optionRecordsOf (sets : List FlowSet) : List OptionsDataRecord :=
  sets.flatMap fun s => match s with | .optsData _ _ rs => rs | _ => []

/-- NetFlowLookFor + NetFlowPopulate into a *uint32: first non-enterprise field of that type;
    found even when the value is nil; the value is decoded as an unsigned number of any width up to
    8 bytes (reduced-size encoding), truncated to 32 bits; wider values are ignored. -/
def populate (fields : List DataField) (typeId : Nat) : Res (Option Nat) :=
  match fields.find? (fun f => !f.penProvided && f.type == typeId) with
  | none => .ok none
  | some f =>
    match f.value with
    | none => .ok (some 0)                 -- exists, value nil: found, nothing written (caller keeps 0)
    | some v =>
      if v.length > 8 then .ok none          -- not a number: ignored, the lookup goes on
      else
      match decodeUNumber 32 v with
      | .error e => .error e
      | .ok x => .ok (some x)

/-- SearchNetFlowOptionDataSets: first record, in order, carrying 305, else 50, else 34 -/
def searchSamplingRate : List OptionsDataRecord → Res (Option Nat)
  | [] => .ok none
  | r :: rs =>
    match populate r.optionsValues 305 with
    | .error e => .error e
    | .ok (some x) => .ok (some x)
    | .ok none =>
      match populate r.optionsValues 50 with
      | .error e => .error e
      | .ok (some x) => .ok (some x)
      | .ok none =>
        match populate r.optionsValues 34 with
        | .error e => .error e
        | .ok (some x) => .ok (some x)
        | .ok none => searchSamplingRate rs

/-- sampling-rate state of one exporter IP: (version, domain) ↦ rate -/
abbrev Rates := List ((Nat × Nat) × Nat)
def Rates.get (r : Rates) (k : Nat × Nat) : Nat := (r.lookup k).getD 0
def Rates.add (r : Rates) (k : Nat × Nat) (v : Nat) : Rates := (k, v) :: r.filter (fun e => e.1 != k)

structure ProduceOut where
  msgs : List FlowMsg
  rates : Rates
  err : Option Err
  deriving Inhabited

/-- header fields by version: v9 = count uptime unixSeconds sequence sourceId; IPFIX = length exportTime sequence domain -/
def _root_.Goflow.Netflow.Packet.domain (p : Packet) : Nat := if p.version = 9 then p.hdr.getD 4 0 else p.hdr.getD 3 0
def _root_.Goflow.Netflow.Packet.seqNum (p : Packet) : Nat := if p.version = 9 then p.hdr.getD 3 0 else p.hdr.getD 2 0
def _root_.Goflow.Netflow.Packet.baseTime (p : Packet) : Nat := if p.version = 9 then p.hdr.getD 2 0 else p.hdr.getD 1 0
def _root_.Goflow.Netflow.Packet.uptime (p : Packet) : Nat := if p.version = 9 then p.hdr.getD 1 0 else 0

/-- `if found { AddSamplingRate } else { samplingRate = GetSamplingRate }` -/
def applyRate (found : Option Nat) (rates : Rates) (key : Nat × Nat) : Nat × Rates :=
  match found with
  | some x => (x, rates.add key x)
  | none => (rates.get key, rates)

def stampNetflow (seq rate dom : Nat) (m : FlowMsg) : FlowMsg :=
  { m with sequenceNum := seq, samplingRate := rate, observationDomainId := dom }

/-- ProcessMessageNetFlowV9Config / ProcessMessageIPFIXConfig (with a sampling-rate system) -/
def processNetflow (cfg : Option Config) (p : Packet) (rates : Rates) : ProduceOut :=
  -- v9 passes a nil packet mapper: element 315 is only reachable for version 10
  match convertRecords cfg p.version p.baseTime p.uptime (dataRecordsOf p.flowSets) with
  | .error e => ⟨[], rates, some e⟩
  | .ok msgs =>
    match searchSamplingRate (optionRecordsOf p.flowSets) with
    | .error e => ⟨[], rates, some e⟩
    | .ok found =>
      let rr := applyRate found rates (p.version, p.domain)
      ⟨msgs.map (stampNetflow p.seqNum rr.1 p.domain), rr.2, none⟩

end Goflow.Producer
