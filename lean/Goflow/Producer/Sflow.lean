import Goflow.Decoders.Sflow
import Goflow.Producer.Packet
/-! producer_sf.go: one flow message per flow / expanded flow sample. -/
namespace Goflow.Producer
open Goflow.Sflow

def vNat (vs : List V) (i : Nat) : Nat := (vs.getD i (V.n 0)).nat
def vBytes (vs : List V) (i : Nat) : Bytes := (vs.getD i (V.b [])).bytes

/-- one record of the sample (the `switch recordData := record.Data.(type)` body) -/
def applyRecord (cfg : Option Config) (m : FlowMsg) (r : FlowRecord) : Res FlowMsg :=
  match r.data with
  | .raw vals hd =>
    let m := { m with bytes := vals.getD 1 0 }
    -- only the announced length was captured: the XDR padding the decoder keeps is not dissected
    if vals.getD 0 0 = 1 then parsePacket (cfg.getD {}) m (hd.take (vals.getD 3 0)) else .ok m
  | .fixed kind vs =>
    if kind = 3 then
      .ok { m with srcAddr := vBytes vs 2, dstAddr := vBytes vs 3, bytes := vNat vs 0, proto := vNat vs 1, srcPort := vNat vs 4, dstPort := vNat vs 5, ipTos := vNat vs 7, etype := 0x800 }
    else if kind = 4 then
      .ok { m with srcAddr := vBytes vs 2, dstAddr := vBytes vs 3, bytes := vNat vs 0, proto := vNat vs 1, srcPort := vNat vs 4, dstPort := vNat vs 5, ipTos := vNat vs 7, etype := 0x86dd }
    else if kind = 1001 then .ok { m with srcVlan := vNat vs 0, dstVlan := vNat vs 2 }
    else .ok m
  | .router _ ip s d => .ok { m with nextHop := ip, srcNet := s, dstNet := d }
  | .gateway _ ip hd _ _ path _ comm _ =>
    let as := hd.getD 0 0
    let srcAs := hd.getD 1 0
    let m := { m with bgpNextHop := ip, bgpCommunities := comm, asPath := path }
    let m := match path.getLast? with
      | some l => { m with dstAs := l, nextHopAs := path.headD 0 }
      | none => { m with dstAs := as }
    .ok (if srcAs > 0 then { m with srcAs := srcAs } else { m with srcAs := as })
  | _ => .ok m

def applyRecords (cfg : Option Config) : List FlowRecord → FlowMsg → Res FlowMsg
  | [], m => .ok m
  | r :: rs, m =>
    match applyRecord cfg m r with
    | .error e => .error e
    | .ok m' => applyRecords cfg rs m'

/-- the message after Reset() and the sample-level assignments of SearchSFlowSampleConfig -/
def sampleBase (rate inIf outIf : Nat) : FlowMsg :=
  { FlowMsg.empty with type_ := 1, samplingRate := rate, inIf := inIf, outIf := outIf, packets := 1 }

/-- SearchSFlowSampleConfig on a Reset() message; `none` for samples that are not flow samples -/
def convertSample (cfg : Option Config) : Sample → Option (Res FlowMsg)
  | .flow _ vals recs => some (applyRecords cfg recs (sampleBase (vals.getD 0 0) (vals.getD 3 0) (vals.getD 4 0)))
  | .expFlow _ vals recs => some (applyRecords cfg recs (sampleBase (vals.getD 0 0) (vals.getD 4 0) (vals.getD 6 0)))
  | _ => none

/-- SearchSFlowSamplesConfig: the first failing sample aborts everything (`return nil, err`) -/
def convertSamples (cfg : Option Config) : List Sample → Res (List FlowMsg)
  | [] => .ok []
  | s :: ss =>
    match convertSample cfg s with
    | none => convertSamples cfg ss
    | some (.error e) => .error e
    | some (.ok m) =>
      match convertSamples cfg ss with
      | .error e => .error e
      | .ok ms => .ok (m :: ms)

/-- ProcessMessageSFlowConfig -/
def processSflow (cfg : Option Config) (p : Packet) : Res (List FlowMsg) :=
  match convertSamples cfg p.samples with
  | .error e => .error e
  | .ok ms => .ok (ms.map fun m => { m with samplerAddress := p.agentIP, sequenceNum := p.hdr.getD 1 0 })

end Goflow.Producer
