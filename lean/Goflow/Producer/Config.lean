import Goflow.Generated.FlowMessage
/-! The compiled producer configuration (config_impl.go: producerConfigMapped) as data. -/
namespace Goflow.Producer

inductive ProtoType where
  | none | varint | string
  deriving Repr, DecidableEq, Inhabited

/-- MapConfigBase after finalize(): destination, endianness and — when the destination is a
    declared protobuf field — its index, wire type and array flag -/
structure MapField where
  destination : String
  little : Bool := false
  protoIndex : Nat := 0
  protoType : ProtoType := .none
  array : Bool := false
  deriving Repr, DecidableEq, Inhabited

/-- one `ipfix.mapping` / `netflowv9.mapping` entry; the key is "%v-%d-%d" of (penprovided, pen, field) -/
structure NetflowMapEntry where
  penProvided : Bool
  pen : Nat
  type : Nat
  field : MapField
  deriving Repr, DecidableEq, Inhabited

/-- one `sflow.mapping` entry: layer name as written, bit offset and length (Go ints: may be negative) -/
structure LayerMapEntry where
  layer : String
  encap : Bool
  offset : Int
  length : Int
  field : MapField
  deriving Repr, DecidableEq, Inhabited

/-- one `sflow.ports` entry after RegisterPort: proto, direction key ("src"/"dst"), port, parser name -/
structure PortEntry where
  proto : String
  dir : String
  port : Nat
  parser : String
  deriving Repr, DecidableEq, Inhabited

/-- a declared protobuf field of the formatter (`formatter.protobuf`) -/
structure PbField where
  name : String
  index : Nat
  type : String
  array : Bool
  deriving Repr, DecidableEq, Inhabited

structure Config where
  ipfix : List NetflowMapEntry := []
  v9 : List NetflowMapEntry := []
  layers : List LayerMapEntry := []
  ports : List PortEntry := []
  /-- `true` when a configuration object exists (Compile on a non-nil config): the packet mapper is
      then the SFlowMapper with its own parser environment -/
  present : Bool := false
  deriving Repr, Inhabited

/-- NetFlowMapper.Map: Go map keyed by the formatted triple — the last entry with the key wins -/
def lookupNetflow (es : List NetflowMapEntry) (penProvided : Bool) (pen type : Nat) : Option MapField :=
  match (es.filter fun e => e.penProvided == penProvided && e.pen == pen && e.type == type).getLast? with
  | some e => some e.field
  | none => none

/-- SFlowMapper.Map(key): the entries whose layer string equals strings.ToLower(key), in file order.
    (keys handed in by the parser are already lower case) -/
def lookupLayer (es : List LayerMapEntry) (key : String) : List LayerMapEntry :=
  es.filter fun e => e.layer == key

end Goflow.Producer
