import Goflow.Decoders.NetflowLegacy
/-!
  producer/raw (the `-produce raw` mode) for NetFlow v5: the decoded packet is handed on as it is and printed by
  `encoding/json` through the struct tags of decoders/netflowlegacy/packet.go — numbers in decimal, the three addresses of a
  record as dotted quads (`IPAddress.MarshalJSON`), wrapped by `RawMessage.MarshalJSON` with the type name, the exporter
  and the receive time. This is the second observation point of property C05 ("raw producer JSON").
-/
namespace Goflow.Raw
open Goflow Goflow.V5

def dotted (a : Nat) : String :=
  "\"" ++ toString (a / 16777216 % 256) ++ "." ++ toString (a / 65536 % 256) ++ "." ++ toString (a / 256 % 256) ++ "." ++ toString (a % 256) ++ "\""

def recordNames : List String :=
  ["src-addr", "dst-addr", "next-hop", "input", "output", "dpkts", "doctets", "first", "last", "src-port", "dst-port", "pad1",
   "tcp-flags", "proto", "tos", "src-as", "dst-as", "src-mask", "dst-mask", "pad2"]

def headerNames : List String :=
  ["count", "sys-uptime", "unix-secs", "unix-nsecs", "flow-sequence", "engine-type", "engine-id", "sampling-interval"]

def member (name value : String) : String := "\"" ++ name ++ "\":" ++ value

def recordJson (r : Record) : String :=
  let vals := (r.toList.zip (List.range 20)).map fun (v, i) => if i < 3 then dotted v else toString v
  "{" ++ ",".intercalate ((recordNames.zip vals).map fun (n, v) => member n v) ++ "}"

def packetJson (p : Packet) : String :=
  "{" ++ ",".intercalate ([member "version" (toString p.version)] ++ (headerNames.zip (p.header.toList.map toString)).map (fun (n, v) => member n v) ++
    [member "records" ("[" ++ ",".intercalate (p.records.map recordJson) ++ "]")]) ++ "}"

/-- `json.Marshal(RawMessage{&packet, src, received})` with the exporter and receive time the harness uses -/
def rawJsonV5 (p : Packet) : String :=
  "{" ++ ",".intercalate [member "type" "\"netflowv5\"", member "message" (packetJson p), member "src" "\"10.0.0.1:2055\"",
    member "time_received" "\"2023-11-14T22:13:20Z\""] ++ "}"

end Goflow.Raw
