import Goflow.Decoders.NetflowLegacy
import Goflow.Generated.FlowMessage
/-! producer_nflegacy.go: NetFlow v5 records to flow messages. -/
namespace Goflow.Producer
open Goflow.V5

def U32 : Nat := 2 ^ 32

/-- ConvertNetFlowLegacyRecord on a Reset() message: the uptime difference is taken in uint32 -/
def convertLegacyRecord (baseTime uptime : Nat) (r : Record) : FlowMsg :=
  let dFirst := (uptime + U32 - r.first) % U32
  let dLast := (uptime + U32 - r.last) % U32
  let m : FlowMsg := { FlowMsg.empty with type_ := 2, timeFlowStartNs := (baseTime + 2 ^ 64 - dFirst * 1000000) % 2 ^ 64, timeFlowEndNs := (baseTime + 2 ^ 64 - dLast * 1000000) % 2 ^ 64, nextHop := encBE 4 r.nextHop, srcAddr := encBE 4 r.srcAddr, dstAddr := encBE 4 r.dstAddr, etype := 0x800, srcAs := r.srcAS, dstAs := r.dstAS }
  let m : FlowMsg := { m with srcNet := r.srcMask, dstNet := r.dstMask, proto := r.proto, tcpFlags := r.tcpFlags, ipTos := r.tos, inIf := r.input, outIf := r.output }
  { m with srcPort := r.srcPort, dstPort := r.dstPort, packets := r.dPkts, bytes := r.dOctets }

/-- ProcessMessageNetFlowLegacy -/
def processLegacy (p : Packet) : List FlowMsg :=
  let h := p.header
  let baseTime := h.unixSecs * 1000000000 + h.unixNSecs
  (p.records.map (convertLegacyRecord baseTime h.sysUptime)).map fun m =>
    { m with sequenceNum := h.flowSequence, samplingRate := h.samplingInterval % 16384 }

end Goflow.Producer
