/-! The conversion statements of producer_sf.go and producer_nflegacy.go that the hand-written models
    `Goflow/Producer/Sflow.lean` and `Goflow/Producer/Legacy.lean` were written from, frozen as text (tree with the `fix:` commits up to
    26dd617). `Proofs/C09.lean conversion_source_matches` and `Proofs/C08.lean legacy_source_matches` compare them with what
    /verif/extract reads from the source now: an edit of any of these statements breaks the equality, and the check then searches for
    a failing input with the sFlow / v5 generators. Not generated: edit by hand together with the model. -/
namespace Goflow.Snapshot

def sflowSampleStmts : List String := [
  "var records []sflow.FlowRecord",
  "flowMessage.Type = flowmessage.FlowMessage_SFLOW_5",
  "var ipNh, ipSrc, ipDst []byte",
  "flowMessage.Packets = 1",
  "range records",
  "return nil"
]

def sflowSampleCases : List (String × String) := [
  ("flowSample := flowSample.(type) / sflow.FlowSample", "records = flowSample.Records ; flowMessage.SamplingRate = uint64(flowSample.SamplingRate) ; flowMessage.InIf = flowSample.Input ; flowMessage.OutIf = flowSample.Output"),
  ("flowSample := flowSample.(type) / sflow.ExpandedFlowSample", "records = flowSample.Records ; flowMessage.SamplingRate = uint64(flowSample.SamplingRate) ; flowMessage.InIf = flowSample.InputIfValue ; flowMessage.OutIf = flowSample.OutputIfValue"),
  ("range records / recordData := record.Data.(type) / sflow.SampledHeader", "flowMessage.Bytes = uint64(recordData.FrameLength) ; if err := ParseSampledHeaderConfig(flowMessage, &recordData, config); err != nil { return err }"),
  ("range records / recordData := record.Data.(type) / sflow.SampledIPv4", "ipSrc = recordData.SrcIP ; ipDst = recordData.DstIP ; flowMessage.SrcAddr = ipSrc ; flowMessage.DstAddr = ipDst ; flowMessage.Bytes = uint64(recordData.Length) ; flowMessage.Proto = recordData.Protocol ; flowMessage.SrcPort = recordData.SrcPort ; flowMessage.DstPort = recordData.DstPort ; flowMessage.IpTos = recordData.Tos ; flowMessage.Etype = 0x800"),
  ("range records / recordData := record.Data.(type) / sflow.SampledIPv6", "ipSrc = recordData.SrcIP ; ipDst = recordData.DstIP ; flowMessage.SrcAddr = ipSrc ; flowMessage.DstAddr = ipDst ; flowMessage.Bytes = uint64(recordData.Length) ; flowMessage.Proto = recordData.Protocol ; flowMessage.SrcPort = recordData.SrcPort ; flowMessage.DstPort = recordData.DstPort ; flowMessage.IpTos = recordData.Priority ; flowMessage.Etype = 0x86dd"),
  ("range records / recordData := record.Data.(type) / sflow.ExtendedRouter", "ipNh = recordData.NextHop ; flowMessage.NextHop = ipNh ; flowMessage.SrcNet = recordData.SrcMaskLen ; flowMessage.DstNet = recordData.DstMaskLen"),
  ("range records / recordData := record.Data.(type) / sflow.ExtendedGateway", "ipNh = recordData.NextHop ; flowMessage.BgpNextHop = ipNh ; flowMessage.BgpCommunities = recordData.Communities ; flowMessage.AsPath = recordData.ASPath ; if len(recordData.ASPath) > 0 { flowMessage.DstAs = recordData.ASPath[len(recordData.ASPath)-1] flowMessage.NextHopAs = recordData.ASPath[0] } else { flowMessage.DstAs = recordData.AS } ; if recordData.SrcAS > 0 { flowMessage.SrcAs = recordData.SrcAS } else { flowMessage.SrcAs = recordData.AS }"),
  ("range records / recordData := record.Data.(type) / sflow.ExtendedSwitch", "flowMessage.SrcVlan = recordData.SrcVlan ; flowMessage.DstVlan = recordData.DstVlan")
]

def sflowMessageStmts : List String := [
  "seqnum := packet.SequenceNumber",
  "agent := packet.AgentIP",
  "var cfgSFlow PacketMapper",
  "if config != nil { cfgSFlow = config.GetPacketMapper() }",
  "flowSamples := GetSFlowFlowSamples(packet)",
  "flowMessageSet, err = SearchSFlowSamplesConfig(flowSamples, cfgSFlow)",
  "if err != nil { return flowMessageSet, err }",
  "range flowMessageSet",
  "range flowMessageSet / fmsg, ok := msg.(*ProtoProducerMessage)",
  "range flowMessageSet / if !ok { continue }",
  "range flowMessageSet / fmsg.SamplerAddress = agent",
  "range flowMessageSet / fmsg.SequenceNum = seqnum",
  "return flowMessageSet, nil"
]

def sflowMessageCases : List (String × String) := [
  
]

def sflowHeaderStmts : List String := [
  "data := (*sampledHeader).HeaderData",
  "if n := int((*sampledHeader).OriginalLength); n < len(data) { data = data[:n] }",
  "switch (*sampledHeader).Protocol { case 1: if config == nil { config = DefaultEnvironment } if err := config.ParsePacket(flowMessage, data); err != nil { return err } }",
  "return nil"
]

def sflowHeaderCases : List (String × String) := [
  
]

def sflowSamplesStmts : List String := [
  "var flowSamples []interface{}",
  "range packet.Samples",
  "return flowSamples"
]

def sflowSamplesCases : List (String × String) := [
  ("range packet.Samples / sample.(type) / sflow.FlowSample", "flowSamples = append(flowSamples, sample)"),
  ("range packet.Samples / sample.(type) / sflow.ExpandedFlowSample", "flowSamples = append(flowSamples, sample)")
]

def legacyRecordStmts : List String := [
  "flowMessage.Type = flowmessage.FlowMessage_NETFLOW_V5",
  "timeDiffFirst := (uptime - record.First)",
  "timeDiffLast := (uptime - record.Last)",
  "flowMessage.TimeFlowStartNs = baseTime - uint64(timeDiffFirst)*1000000",
  "flowMessage.TimeFlowEndNs = baseTime - uint64(timeDiffLast)*1000000",
  "v := make([]byte, 4)",
  "binary.BigEndian.PutUint32(v, uint32(record.NextHop))",
  "flowMessage.NextHop = v",
  "v = make([]byte, 4)",
  "binary.BigEndian.PutUint32(v, uint32(record.SrcAddr))",
  "flowMessage.SrcAddr = v",
  "v = make([]byte, 4)",
  "binary.BigEndian.PutUint32(v, uint32(record.DstAddr))",
  "flowMessage.DstAddr = v",
  "flowMessage.Etype = 0x800",
  "flowMessage.SrcAs = uint32(record.SrcAS)",
  "flowMessage.DstAs = uint32(record.DstAS)",
  "flowMessage.SrcNet = uint32(record.SrcMask)",
  "flowMessage.DstNet = uint32(record.DstMask)",
  "flowMessage.Proto = uint32(record.Proto)",
  "flowMessage.TcpFlags = uint32(record.TCPFlags)",
  "flowMessage.IpTos = uint32(record.Tos)",
  "flowMessage.InIf = uint32(record.Input)",
  "flowMessage.OutIf = uint32(record.Output)",
  "flowMessage.SrcPort = uint32(record.SrcPort)",
  "flowMessage.DstPort = uint32(record.DstPort)",
  "flowMessage.Packets = uint64(record.DPkts)",
  "flowMessage.Bytes = uint64(record.DOctets)"
]

def legacyRecordCases : List (String × String) := [
  
]

def legacyMessageStmts : List String := [
  "seqnum := packet.FlowSequence",
  "samplingRate := packet.SamplingInterval & 0x3FFF",
  "baseTime := uint64(packet.UnixSecs)*1000000000 + uint64(packet.UnixNSecs)",
  "uptime := packet.SysUptime",
  "flowMessageSet := SearchNetFlowLegacyRecords(baseTime, uptime, packet.Records)",
  "range flowMessageSet",
  "range flowMessageSet / fmsg, ok := msg.(*ProtoProducerMessage)",
  "range flowMessageSet / if !ok { continue }",
  "range flowMessageSet / fmsg.SequenceNum = seqnum",
  "range flowMessageSet / fmsg.SamplingRate = uint64(samplingRate)",
  "return flowMessageSet, nil"
]

def legacyMessageCases : List (String × String) := [
  
]

end Goflow.Snapshot
