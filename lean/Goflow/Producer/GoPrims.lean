import Goflow.Producer.Packet
/-!
  GoPrims: the target language of the Go → Lean translator (extract/translate.go).

  `Goflow/Generated/ParsersT.lean` is regenerated from producer/proto/producer_packet.go on every
  run and mentions only (a) core Lean, (b) the primitives below. Every primitive is the meaning of
  one construct of the Go subset the translator accepts; a construct outside the subset makes the
  translator emit `EXTRACT-PROBLEM` and a term that does not elaborate.

  Encoding
  * Go `uint8/16/32/64`  ↦ Lean `UInt8/16/32/64`  (wrap-around `+ - *`, `/ %`, `&&& ||| ^^^` are the core ones;
    shifts are `Go.shlN / Go.shrN` because a Go shift by ≥ width gives 0 where Lean's reduces the count mod width)
  * Go `int`             ↦ `Nat`: the translator refuses `-` and unary minus on `int`, so every `int` it accepts is a
    sum / product of lengths, constants and widened bytes. (Overflow of the 64-bit `int` is not modelled: it would
    need a slice of more than 2^59 bytes.)
  * Go `[]byte`, `[]uint32`, `[][]byte` ↦ `List UInt8`, `List UInt32`, `List (List UInt8)`; nil = `[]`
    (only `len`, `append`, indexing, slicing and assignment are accepted, none of which tells nil from empty).
    Slices are values: the translator accepts no store through an index, so aliasing is unobservable.
  * a Go run-time panic  ↦ `Except.error Err.panic`   (index / slice out of range, short buffer in `binary.BigEndian`)
  * a returned `err != nil` ↦ `Except.error e`
  * a `for` loop         ↦ a function recursive on a fuel argument; fuel exhausted ↦ `Except.error Err.diverge`
  so `T.ParseX m d pc = .ok r` says: no panic, no error, the loops end within their fuel, and the state is `r`.

  Slice expressions are checked against `len`, not `cap` (Go checks `data[a:b]` against `cap(data)`): the model is
  stricter than Go here, which is the safe direction for a panic-freedom statement.
-/
namespace Goflow.Go
open Goflow.Producer

/-- Go `error`: `nil` or some error -/
abbrev Error := Option Err

/-- `ParseResult{NextParser, Size}`; the zero value is what `(res ParseResult, …)` starts with -/
structure ParseResult where
  NextParser : Next := Next.none
  Size : Nat := 0

/-- `return res, err` of a `Parser`: the message (a pointer in Go, a value here) travels with the result -/
def ret (m : FlowMsg) (res : ParseResult) (err : Error) : Res PRes :=
  match err with
  | none => .ok ⟨m, res.NextParser, res.Size⟩
  | some e => .error e

/-- `data[i]` -/
def idx (d : Bytes) (i : Nat) : Res UInt8 :=
  match d[i]? with
  | some x => .ok x
  | none => .error .panic

/-- `data[a:b]` -/
def slice (d : Bytes) (a b : Nat) : Res Bytes :=
  if a ≤ b ∧ b ≤ d.length then .ok ((d.drop a).take (b - a)) else .error .panic

/-- `data[a:]` -/
def sliceFrom (d : Bytes) (a : Nat) : Res Bytes :=
  if a ≤ d.length then .ok (d.drop a) else .error .panic

/-- `data[:b]` -/
def sliceTo (d : Bytes) (b : Nat) : Res Bytes :=
  if b ≤ d.length then .ok (d.take b) else .error .panic

/-- `binary.BigEndian.Uint16(b)`: panics when `len(b) < 2`, reads the first two bytes -/
def beU16 (b : Bytes) : Res UInt16 :=
  if 2 ≤ b.length then .ok (UInt16.ofNat (beNat (b.take 2))) else .error .panic
def beU32 (b : Bytes) : Res UInt32 :=
  if 4 ≤ b.length then .ok (UInt32.ofNat (beNat (b.take 4))) else .error .panic
def beU64 (b : Bytes) : Res UInt64 :=
  if 8 ≤ b.length then .ok (UInt64.ofNat (beNat (b.take 8))) else .error .panic

/-- `x << n`, `x >> n` on fixed-width unsigned integers (Go: a count ≥ width gives 0) -/
def shl8 (x : UInt8) (n : Nat) : UInt8 := UInt8.ofNat (x.toNat <<< n)
def shr8 (x : UInt8) (n : Nat) : UInt8 := UInt8.ofNat (x.toNat >>> n)
def shl16 (x : UInt16) (n : Nat) : UInt16 := UInt16.ofNat (x.toNat <<< n)
def shr16 (x : UInt16) (n : Nat) : UInt16 := UInt16.ofNat (x.toNat >>> n)
def shl32 (x : UInt32) (n : Nat) : UInt32 := UInt32.ofNat (x.toNat <<< n)
def shr32 (x : UInt32) (n : Nat) : UInt32 := UInt32.ofNat (x.toNat >>> n)
def shl64 (x : UInt64) (n : Nat) : UInt64 := UInt64.ofNat (x.toNat <<< n)
def shr64 (x : UInt64) (n : Nat) : UInt64 := UInt64.ofNat (x.toNat >>> n)

/-- `int / int`, `int % int` with a zero divisor panic (unsigned fixed-width division by zero likewise) -/
def divInt (a b : Nat) : Res Nat := if b = 0 then .error .panic else .ok (a / b)
def modInt (a b : Nat) : Res Nat := if b = 0 then .error .panic else .ok (a % b)

/-- `flowMessage.AddLayer(name)` (messages.go; the returned `ok` is dropped by every caller) -/
def AddLayer (m : FlowMsg) (name : String) : FlowMsg := addLayer m name

/-- `pc.BaseLayer()` -/
def BaseLayer (pc : PC) : Bool := !pc.encapsulated

/-- `pc.Environment == nil`: ParsePacket always installs an environment (`pe` or `DefaultEnvironment`),
    and the model's `PC` has none to be nil -/
def envIsNil (_ : PC) : Bool := false

/-- a `ParserInfo{…}` literal as the model sees it: the parser named `Name` with its `ConfigKeyList`
    (LayerIndex / ParserIndex / EncapSkip of the literals are tied by `C10.parser_table_matches`) -/
def parserInfo (name : String) (keys : List String) : Next :=
  ⟨(parserByName name).getD .none, keys, false⟩

/-- `pc.Environment.NextParserEtype(b)` for the base environment with no custom ethertype registered:
    `innerNextParserEtype` answers `parserNone, error` unless `len(b) == 2`, then `b[0]`, `b[1]` are read -/
def NextParserEtype (_ : PC) (b : Bytes) : Res (Next × Error) :=
  match b with
  | [] => .error .panic
  | [_] => .error .panic
  | [e0, e1] => .ok (nextParserEtype e0.toNat e1.toNat, none)
  | e0 :: e1 :: _ =>
    let et := e0.toNat * 256 + e1.toNat
    .ok (⟨.none, ["etype" ++ natStr et, "etype0x" ++ hex4 et], false⟩, some .bad)

/-- `pc.Environment.NextParserProto(b)`, no custom protocol registered -/
def NextParserProto (_ : PC) (b : UInt8) : Res (Next × Error) := .ok (nextParserProto b.toNat, none)

/-- `pc.Environment.NextParserPort(proto, src, dst)` over the registered ports -/
def NextParserPort (pc : PC) (proto : String) (src dst : UInt16) : Res (Next × Error) :=
  .ok (nextParserPort pc.ports proto src.toNat dst.toNat, none)

/-- `e.customEtype.Load(k)` / `e.customProto.Load(k)`: nothing is registered in the modelled environment;
    the first component stands for the `any` value, already asserted to be a `ParserInfo` -/
def customEtypeLoad (_ : UInt16) : Next × Bool := (Next.none, false)
def customProtoLoad (_ : UInt8) : Next × Bool := (Next.none, false)

/-- `fmt.Sprintf` verbs the translator accepts -/
def fmtD (n : Nat) : String := natStr n
def fmtX4 (n : Nat) : String := hex4 n

/-- fuel handed to every translated loop -/
def loopFuel (d : Bytes) : Nat := d.length + 1

/-! ## additions for Goflow/Generated/NumbersT.lean -/

/-- what an `out interface{}` parameter of DecodeUNumber / WriteUDecoded points to: one of the four unsigned
    widths the type switch knows, or anything else. The translated function returns the cell after the call. -/
inductive Cell where
  | u8 (v : UInt8) | u16 (v : UInt16) | u32 (v : UInt32) | u64 (v : UInt64) | other
  deriving DecidableEq, Repr

def Cell.toNat : Cell → Nat
  | .u8 v => v.toNat | .u16 v => v.toNat | .u32 v => v.toNat | .u64 v => v.toNat | .other => 0

/-- a zeroed destination of `bits` bits -/
def Cell.zero : Nat → Cell
  | 8 => .u8 0 | 16 => .u16 0 | 32 => .u32 0 | 64 => .u64 0 | _ => .other

/-- `return err` of a function writing through `out` -/
def retCell (c : Cell) (err : Error) : Res Cell :=
  match err with
  | none => .ok c
  | some e => .error e

/-- `binary.LittleEndian.UintNN(b)`: panics when b is too short, reads the first bytes -/
def leU16 (b : Bytes) : Res UInt16 :=
  if 2 ≤ b.length then .ok (UInt16.ofNat (leNat (b.take 2))) else .error .panic
def leU32 (b : Bytes) : Res UInt32 :=
  if 4 ≤ b.length then .ok (UInt32.ofNat (leNat (b.take 4))) else .error .panic
def leU64 (b : Bytes) : Res UInt64 :=
  if 8 ≤ b.length then .ok (UInt64.ofNat (leNat (b.take 8))) else .error .panic

/-- `binary.BigEndian.PutUintNN(b, v)`: panics when b is too short, overwrites the first bytes -/
def putU16 (b : Bytes) (v : UInt16) : Res Bytes :=
  if 2 ≤ b.length then .ok (encBE 2 v.toNat ++ b.drop 2) else .error .panic
def putU32 (b : Bytes) (v : UInt32) : Res Bytes :=
  if 4 ≤ b.length then .ok (encBE 4 v.toNat ++ b.drop 4) else .error .panic
def putU64 (b : Bytes) (v : UInt64) : Res Bytes :=
  if 8 ≤ b.length then .ok (encBE 8 v.toNat ++ b.drop 8) else .error .panic

/-- `make([]byte, n)` -/
def makeBytes (n : Nat) : Res Bytes := .ok (List.replicate n 0)
/-- `copy(dst, src)`: min(len(dst), len(src)) bytes; the value is the new content of dst -/
def copyBytes (dst src : Bytes) : Bytes := src.take dst.length ++ dst.drop src.length
/-- `d[i] = v` on a slice nothing else refers to -/
def setIdx (d : Bytes) (i : Nat) (v : UInt8) : Res Bytes :=
  if i < d.length then .ok (d.set i v) else .error .panic

/-! ### the `Int` flavour: Go `int` as a signed integer (used where the Go code subtracts or may go negative).
    `/` and `%` are `Int.tdiv` / `Int.tmod` (Go truncates toward zero). 64-bit overflow is not modelled. -/

def idxI (d : Bytes) (i : Int) : Res UInt8 := if i < 0 then .error .panic else idx d i.toNat
def setIdxI (d : Bytes) (i : Int) (v : UInt8) : Res Bytes := if i < 0 then .error .panic else setIdx d i.toNat v
def sliceI (d : Bytes) (a b : Int) : Res Bytes :=
  if a < 0 ∨ b < 0 then .error .panic else slice d a.toNat b.toNat
def sliceFromI (d : Bytes) (a : Int) : Res Bytes := if a < 0 then .error .panic else sliceFrom d a.toNat
def sliceToI (d : Bytes) (b : Int) : Res Bytes := if b < 0 then .error .panic else sliceTo d b.toNat
def makeBytesI (n : Int) : Res Bytes := if n < 0 then .error .panic else .ok (List.replicate n.toNat 0)
def divIntI (a b : Int) : Res Int := if b = 0 then .error .panic else .ok (Int.tdiv a b)
def modIntI (a b : Int) : Res Int := if b = 0 then .error .panic else .ok (Int.tmod a b)

/-- `x << n`, `x >> n` with a signed count: a negative count panics -/
def shl8I (x : UInt8) (n : Int) : Res UInt8 := if n < 0 then .error .panic else .ok (shl8 x n.toNat)
def shr8I (x : UInt8) (n : Int) : Res UInt8 := if n < 0 then .error .panic else .ok (shr8 x n.toNat)
def shl16I (x : UInt16) (n : Int) : Res UInt16 := if n < 0 then .error .panic else .ok (shl16 x n.toNat)
def shr16I (x : UInt16) (n : Int) : Res UInt16 := if n < 0 then .error .panic else .ok (shr16 x n.toNat)
def shl32I (x : UInt32) (n : Int) : Res UInt32 := if n < 0 then .error .panic else .ok (shl32 x n.toNat)
def shr32I (x : UInt32) (n : Int) : Res UInt32 := if n < 0 then .error .panic else .ok (shr32 x n.toNat)
def shl64I (x : UInt64) (n : Int) : Res UInt64 := if n < 0 then .error .panic else .ok (shl64 x n.toNat)
def shr64I (x : UInt64) (n : Int) : Res UInt64 := if n < 0 then .error .panic else .ok (shr64 x n.toNat)

/-! ## additions for Goflow/Generated/NetflowT.lean -/

/-- the three exits of a loop body: go on, `break`, `return x` -/
inductive Ctl (α ρ : Type) where
  | next (a : α) | brk (a : α) | ret (r : ρ)

/-- after a loop: a `return` inside it ends the function, otherwise the loop-carried variables come back -/
def Ctl.elim {α ρ β : Type} (c : Ctl α ρ) (onRet : ρ → β) (onDone : α → β) : β :=
  match c with
  | .next a => onDone a
  | .brk a => onDone a
  | .ret r => onRet r

/-- an `interface{}` value as far as the translated code looks at it: a `[]byte`, or anything else (nil included) -/
abbrev Any := Option Bytes
/-- `v, ok := x.([]byte)` -/
def anyBytes (x : Any) : Bytes := x.getD []
def anyIsBytes (x : Any) : Bool := x.isSome
/-- `x.([]byte)`: panics when the dynamic type is something else -/
def assertBytes (x : Any) : Res Bytes :=
  match x with
  | some b => .ok b
  | none => .error .panic

/-- `record[i]` on a slice of structs -/
def idxL {α : Type} (l : List α) (i : Nat) : Res α :=
  match l[i]? with
  | some x => .ok x
  | none => .error .panic

/-- `return err` of a `func(msg, …) error` -/
def retMsg (m : FlowMsg) (err : Error) : Res FlowMsg :=
  match err with
  | none => .ok m
  | some e => .error e

def Cell.getU8 : Cell → UInt8 | .u8 v => v | _ => 0
def Cell.getU16 : Cell → UInt16 | .u16 v => v | _ => 0
def Cell.getU32 : Cell → UInt32 | .u32 v => v | _ => 0
def Cell.getU64 : Cell → UInt64 | .u64 v => v | _ => 0

/-- `make([]uint32, n)`, `copy` on any element type, `m.Column[i] = v` on a []uint32 column of the message
    (the column keeps the Nat values of its elements) -/
def makeU32s (n : Nat) : Res (List UInt32) := .ok (List.replicate n 0)
def copyList {α : Type} (dst src : List α) : List α := src.take dst.length ++ dst.drop src.length
def setIdxNat (l : List Nat) (i v : Nat) : Res (List Nat) :=
  if i < l.length then .ok (l.set i v) else .error .panic

/-! ### externals: the configured mappers and MapCustom are not translated, they delegate to the model -/

/-- `TemplateMapper`: the nil interface, or the `ipfix` / `netflowv9` mapping of the configuration -/
abbrev TemplateMapper := Option (List NetflowMapEntry)
/-- `mapper.Map(df)`: (field, found); a method call on the nil interface panics -/
def mapperMap (mp : TemplateMapper) (penProvided : Bool) (pen : UInt32) (type : UInt16) : Res (MapField × Bool) :=
  match mp with
  | none => .error .panic
  | some es =>
    match lookupNetflow es penProvided pen.toNat type.toNat with
    | some f => .ok (f, true)
    | none => .ok (default, false)

/-- `MapCustom(flowMessage, v, cfg)` -/
def MapCustom (m : FlowMsg) (v : Bytes) (f : MapField) : Res FlowMsg := mapCustom m v f

/-- `PacketMapper`: the nil interface, or the compiled configuration with its parser environment -/
abbrev PacketMapper := Option Config
/-- `mapperSFlow.ParsePacket(flowMessage, data)` -/
def ParsePacket (pm : PacketMapper) (m : FlowMsg) (data : Bytes) : Res FlowMsg :=
  match pm with
  | none => .error .panic
  | some c => parsePacket c m data

/-! ## additions for the wire decoders (LegacyT.lean, …): the *bytes.Buffer is the list of the bytes that remain -/

/-- `payload.Next(n)`: up to n bytes, never fails; (what was taken, what remains) -/
def next (b : Bytes) (n : Nat) : Bytes × Bytes := (b.take n, b.drop n)

/-- `utils.BinaryRead(payload, binary.BigEndian, &x)` for `x` of type uint8 / uint16 / uint32 / uint64 (decoders/utils/utils.go):
    `n := intDataSize(data)` is 1 / 2 / 4 / 8; `bs := payload.Next(n); if len(bs) < n { return io.ErrUnexpectedEOF }`;
    `*data = bs[0]` resp. `order.UintNN(bs)`. The value and the buffer after the read. -/
def readU8 (b : Bytes) : Res (UInt8 × Bytes) :=
  let bs := (next b 1).1
  if bs.length < 1 then .error .eof else .ok (UInt8.ofNat (beNat bs), (next b 1).2)
def readU16 (b : Bytes) : Res (UInt16 × Bytes) :=
  let bs := (next b 2).1
  if bs.length < 2 then .error .eof else .ok (UInt16.ofNat (beNat bs), (next b 2).2)
def readU32 (b : Bytes) : Res (UInt32 × Bytes) :=
  let bs := (next b 4).1
  if bs.length < 4 then .error .eof else .ok (UInt32.ofNat (beNat bs), (next b 4).2)
def readU64 (b : Bytes) : Res (UInt64 × Bytes) :=
  let bs := (next b 8).1
  if bs.length < 8 then .error .eof else .ok (UInt64.ofNat (beNat bs), (next b 8).2)

/-- `return …, err` of a state-passing function: the error if there is one -/
def retSt {α : Type} (err : Error) (a : α) : Res α :=
  match err with
  | none => .ok a
  | some e => .error e

/-- an error wrapped in a way `errors.Is` does not see through (fmt.Errorf without %w): any error becomes `bad`;
    a panic or a loop out of fuel is not an error value and stays what it is -/
def errBad {α : Type} (r : Res α) : Res α :=
  match r with
  | .error .eof => .error .bad
  | .error .tnf => .error .bad
  | other => other

/-- `make([]T, n)`, `s[i] = v`, `s[:n]` on a slice of structs (checked against len, not cap) -/
def makeL {α : Type} (n : Nat) (zero : α) : Res (List α) := .ok (List.replicate n zero)
def setIdxL {α : Type} (l : List α) (i : Nat) (v : α) : Res (List α) :=
  if i < l.length then .ok (l.set i v) else .error .panic
def sliceToL {α : Type} (l : List α) (n : Nat) : Res (List α) :=
  if n ≤ l.length then .ok (l.take n) else .error .panic

/-- `utils.BinaryRead(payload, order, data)` for `data []byte` (also IPAddress / MacAddress): `n := len(data)`; an empty
    destination falls out of the fast path and is an "invalid type" error; otherwise `bs := payload.Next(n)`, EOF when short,
    `copy(data, bs)`. The new content of `data` and the buffer after the read. -/
def readBytes (b : Bytes) (n : Nat) : Res (Bytes × Bytes) :=
  if n = 0 then .error .bad
  else
    let bs := (next b n).1
    if bs.length < n then .error .eof else .ok (bs, (next b n).2)

/-! ## additions for the NetFlow v9 / IPFIX wire decoder (NetflowDecT.lean) -/

/-- `make([]T, n)` and `s[i] = v` on a slice of structs with a signed `int` (the `Int` flavour): negative panics -/
def makeLI {α : Type} (n : Int) (zero : α) : Res (List α) :=
  if n < 0 then .error .panic else .ok (List.replicate n.toNat zero)
def setIdxLI {α : Type} (l : List α) (i : Int) (v : α) : Res (List α) :=
  if i < 0 then .error .panic else setIdxL l i.toNat v

def idxLI {α : Type} (l : List α) (i : Int) : Res α := if i < 0 then .error .panic else idxL l i.toNat

/-! ### a function whose error the caller inspects (DecodeMessageCommonFlowSet, DecodeMessageCommon): the error is a
    value in the result; `Except.error` is left for panics and loops out of fuel -/

/-- a checked call `x, err := f(…); if err != nil { return … }` of a translated function whose Go error is
    `Except.error`: the handler gets the error, a panic / a loop out of fuel is not an error value and goes on up -/
def tryCatch {α β : Type} (r : Res α) (onErr : Err → Res β) (k : α → Res β) : Res β :=
  match r with
  | .ok a => k a
  | .error .panic => .error .panic
  | .error .diverge => .error .diverge
  | .error e => onErr e

/-- `if err != nil { return … }` on an error that is a value -/
def ifErr {β : Type} (e : Error) (onErr : Err → Res β) (k : Unit → Res β) : Res β :=
  match e with
  | some x => onErr x
  | none => k ()

/-- `errors.Is(err, sentinel)` on error classes (the wrappers the decoders use have `Unwrap`) -/
def errIs (e : Error) (cls : Err) : Bool := e == some cls

/-- `errors.Join(a, b)`: nil when both are; one class when the parts agree. A join of two different classes answers
    `errors.Is` for both, which a single class cannot say: it is `bad` here (the decoder only ever joins
    template-not-found errors). -/
def errJoin (a b : Error) : Error :=
  match a, b with
  | none, b => b
  | a, none => a
  | some x, some y => if x = y then some x else some .bad

/-- `uintN(x)` for a signed `int` x: wraps (two's complement) -/
def u8OfInt (i : Int) : UInt8 := UInt8.ofNat (i % 256).toNat
def u16OfInt (i : Int) : UInt16 := UInt16.ofNat (i % 65536).toNat
def u32OfInt (i : Int) : UInt32 := UInt32.ofNat (i % 4294967296).toNat
def u64OfInt (i : Int) : UInt64 := UInt64.ofNat (i % 18446744073709551616).toNat

/-- `payload.Next(n)` with a signed `int`: a negative n panics (slice bounds out of range) -/
def nextI (b : Bytes) (n : Int) : Res (Bytes × Bytes) := if n < 0 then .error .panic else .ok (next b n.toNat)

/-- `NetFlowTemplateSystem`: the nil interface, or the template store of decoders/netflow/templates.go
    (BasicTemplateSystem: a map from `templateKey(version, obsDomainId, templateId)` to what was added last), generic in
    what is stored. A method call on the nil interface panics. -/
abbrev TemplateSystem (T : Type) := Option (List (Nat × T))

/-- `templateKey`: (version << 48) | (obsDomainId << 16) | templateId -/
def tsKey (version : UInt16) (dom : UInt32) (id : UInt16) : Nat := version.toNat * 2 ^ 48 + dom.toNat * 2 ^ 16 + id.toNat

/-- `templates.AddTemplate(version, obsDomainId, templateId, template)`: the store afterwards and the (nil) error -/
def tsAdd {T : Type} (ts : TemplateSystem T) (version : UInt16) (dom : UInt32) (id : UInt16) (t : T) : Res (TemplateSystem T × Error) :=
  match ts with
  | none => .error .panic
  | some s => .ok (some ((tsKey version dom id, t) :: s.filter (fun e => e.1 != tsKey version dom id)), none)

/-- `templates.GetTemplate(version, obsDomainId, templateId)`: (template, nil) or (nil, ErrorTemplateNotFound) -/
def tsGet {T : Type} (nil : T) (ts : TemplateSystem T) (version : UInt16) (dom : UInt32) (id : UInt16) : Res (T × Error) :=
  match ts with
  | none => .error .panic
  | some s =>
    match s.lookup (tsKey version dom id) with
    | some t => .ok (t, none)
    | none => .ok (nil, some .tnf)

/-! ## additions for the sFlow -> flow message conversion (SflowProdT.lean) -/

/-- `DefaultEnvironment` (producer_packet.go: the `*BaseParserEnvironment` that `init()` makes with NewBaseParserEnvironment)
    where a `PacketMapper` is wanted: never nil, and its `ParsePacket(flowMessage, data)` is
    `ParsePacket(flowMessage, data, nil, e)`, the dissector without a configuration -/
def DefaultEnvironment : PacketMapper := some {}

end Goflow.Go
