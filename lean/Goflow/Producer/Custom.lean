import Goflow.Producer.Numbers
import Goflow.Producer.Config
/-! reflect.go: GetBytes (bit ranges) and MapCustom (reflection / protobuf unknown fields). -/
namespace Goflow.Producer

/-! ### protowire -/

/-- protowire.AppendVarint -/
def varint (fuel : Nat) (v : Nat) : Bytes :=
  match fuel with
  | 0 => []
  | fuel + 1 => if v < 128 then [UInt8.ofNat v] else UInt8.ofNat (v % 128 + 128) :: varint fuel (v / 128)

def appendVarint (v : Nat) : Bytes := varint 10 v
/-- protowire.AppendTag(num, typ) -/
def appendTag (num typ : Nat) : Bytes := appendVarint (num * 8 + typ)

/-! ### GetBytes -/

/-- Go `%` and `/` on ints truncate toward zero -/
def goMod (a b : Int) : Int := Int.tmod a b
def goDiv (a b : Int) : Int := Int.tdiv a b

def shl8 (x : UInt8) (n : Nat) : UInt8 := UInt8.ofNat ((x.toNat * 2 ^ n) % 256)
def shr8 (x : UInt8) (n : Nat) : UInt8 := UInt8.ofNat (x.toNat / 2 ^ n)

/-- first pass of GetBytes: `dFinal[i] = dUsed[i]<<s | dUsed[i+1]>>(8-s)` while bytes are available -/
def shiftPass (s : Nat) : Nat → Bytes → Bytes
  | 0, _ => []
  | n + 1, [] => List.replicate (n + 1) 0
  | n + 1, [x] => shl8 x s :: List.replicate n 0
  | n + 1, x :: y :: rest => (shl8 x s ||| shr8 y (8 - s)) :: shiftPass s n (y :: rest)

def setLast (bs : Bytes) (f : UInt8 → UInt8) : Bytes :=
  match bs.reverse with
  | [] => []
  | x :: xs => (f x :: xs).reverse

/-- GetBytes(d, offset, length, shift). `none` is the nil slice. A negative offset or length
    makes the Go code panic (slice bounds / negative shift / negative make). -/
def getBytes (d : Bytes) (offset length : Int) (shift : Bool) : Res Bytes :=
  if (d.length : Int) * 8 < offset then .ok []
  else if length = 0 then .ok []
  else if length < 0 ∨ offset ≤ -8 then .error .panic          -- slice bounds / negative make / index -1
  else if offset < 0 then
    -- offset ∈ [-7,-1]: start = 0, shiftSize < 0: `dUsed[i] << shiftSize` panics as soon as dUsed is non-empty
    let sum := offset + length
    let end0 : Int := goDiv sum 8 + (if goMod sum 8 > 0 then 1 else 0)
    if end0 > 0 ∧ d.length > 0 then .error .panic
    else
      let len := length.toNat
      .ok (List.replicate (len / 8 + (if len % 8 > 0 then 1 else 0)) 0)
  else
    let off := offset.toNat
    let len := length.toNat
    let shiftSize := off % 8
    let shiftRightSize := len % 8
    let start := off / 8
    let end0 := (off + len) / 8 + (if (off + len) % 8 > 0 then 1 else 0)
    let lengthB := len / 8 + (if shiftRightSize > 0 then 1 else 0)
    let missing := end0 > d.length
    let end1 := if missing then d.length else end0
    let dUsed := (d.take end1).drop start
    if shiftSize = 0 ∧ len % 8 = 0 then
      if missing then .ok (dUsed ++ List.replicate (lengthB - dUsed.length) 0)
      else .ok dUsed
    else
      let dFinal := shiftPass shiftSize lengthB dUsed
      let k := (8 - shiftRightSize) % 8
      if shift then .ok (setLast dFinal fun x => shr8 x k)
      else .ok (setLast dFinal fun x => x &&& shl8 0xFF k)

/-! ### MapCustom -/

def endianDecode (little : Bool) (bits : Nat) (v : Bytes) : Res Nat :=
  if little then decodeUNumberLE bits v else decodeUNumber bits v

/-- MapCustom(flowMessage, v, cfg) -/
def mapCustom (m : FlowMsg) (v : Bytes) (f : MapField) : Res FlowMsg :=
  let dest := f.destination
  match FlowMsg.kindOf dest with
  | some kind =>
    if kind = "bytes" then .ok (m.setBytes dest v)
    else if kind = "listU32" then
      if dest = "LayerStack" then
        -- element kind int32 (enum): DecodeNumber, then WriteDecoded rejects the pointer type
        .error .bad
      else
        match endianDecode f.little 32 v with
        | .error e => .error e
        | .ok x => .ok (m.setNums dest (((m.getNums dest).getD []) ++ [x]))
    else if kind = "listBytes" then
      -- element kind slice: neither unsigned nor signed, the zero item is appended
      .ok (m.setBytess dest (((m.getBytess dest).getD []) ++ [[]]))
    else if dest = "Type" then .error .bad          -- enum (int32 kind): WriteDecoded rejects the pointer type
    else if kind = "u32" then
      match endianDecode f.little 32 v with
      | .error e => .error e
      | .ok x => .ok (m.setNum dest x)
    else
      match endianDecode f.little 64 v with
      | .error e => .error e
      | .ok x => .ok (m.setNum dest x)
  | none =>
    -- unexported members are found by FieldByName too
    if dest = "sizeCache" ∨ dest = "unknownFields" then .error .panic
    else if dest = "state" ∨ dest = "formatter" ∨ dest = "skipDelimiter" ∨ dest = "FlowMessage" then .ok m
    else if f.protoIndex > 0 then
      match f.protoType with
      | .varint =>
        match endianDecode f.little 64 v with
        | .error e => .error e
        | .ok x => .ok { m with unk := m.unk ++ appendTag f.protoIndex 0 ++ appendVarint x }
      | .string => .ok { m with unk := m.unk ++ appendTag f.protoIndex 2 ++ appendVarint v.length ++ v }
      | .none => .error .bad
    else .ok m

end Goflow.Producer
