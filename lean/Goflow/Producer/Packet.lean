import Goflow.Producer.Custom
/-! producer_packet.go: the chain of layer parsers (ParsePacket) and the 14 parsers. -/
namespace Goflow.Producer

inductive Parser where
  | none | ethernet | dot1q | mpls | ipv4 | ipv6 | ipv6route | ipv6frag
  | tcp | udp | icmp | icmpv6 | gre | teredo | geneve
  deriving Repr, DecidableEq, Inhabited

/-- (Name, ConfigKeyList, LayerIndex, ParserIndex, EncapSkip) of the ParserInfo literals -/
def Parser.info : Parser → String × List String × Nat × Nat × Bool
  | .none => ("none", [], 100, 9999, false)
  | .ethernet => ("ethernet", ["ethernet", "2"], 20, 1, false)
  | .dot1q => ("dot1q", ["dot1q"], 25, 2, true)
  | .mpls => ("mpls", ["mpls"], 25, 3, true)
  | .ipv4 => ("ipv4", ["ipv4", "ip", "3"], 30, 4, false)
  | .ipv6 => ("ipv6", ["ipv6", "ip", "3"], 30, 5, false)
  | .ipv6route => ("ipv6-route", ["ipv6eh_routing", "ipv6-route", "ipv6eh"], 35, 7, false)
  | .ipv6frag => ("ipv6-frag", ["ipv6eh_fragment", "ipv6-frag", "ipv6eh"], 35, 6, true)
  | .tcp => ("tcp", ["tcp", "4"], 40, 8, false)
  | .udp => ("udp", ["udp", "4"], 40, 9, false)
  | .icmp => ("icmp", ["icmp"], 70, 10, false)
  | .icmpv6 => ("ipv6-icmp", ["icmpv6", "ipv6-icmp"], 70, 11, false)
  | .gre => ("gre", ["gre"], 40, 12, false)
  | .teredo => ("teredo-dst", ["teredo-dst", "teredo"], 40, 13, false)
  | .geneve => ("geneve", ["geneve"], 40, 14, false)

def Parser.name (p : Parser) : String := p.info.1
def Parser.keys (p : Parser) : List String := p.info.2.1
def Parser.layerIndex (p : Parser) : Nat := p.info.2.2.1
def Parser.parserIndex (p : Parser) : Nat := p.info.2.2.2.1
def Parser.encapSkip (p : Parser) : Bool := p.info.2.2.2.2

def allParsers : List Parser :=
  [.ethernet, .dot1q, .mpls, .ipv4, .ipv6, .ipv6route, .ipv6frag, .tcp, .udp, .icmp, .icmpv6, .gre, .teredo, .geneve]

def parserByName (n : String) : Option Parser := allParsers.find? (fun p => p.name == n)

/-- the next parser together with its (possibly extended) ConfigKeyList; the zero ParserInfo
    (returned by a parser that found its layer too short, and by the ICMP parsers) is `zero` -/
structure Next where
  parser : Parser
  keys : List String
  zero : Bool := false
  deriving Repr, Inhabited

def Next.none : Next := ⟨.none, [], true⟩
def Next.layerIndex (n : Next) : Nat := if n.zero then 0 else n.parser.layerIndex
def Next.parserIndex (n : Next) : Nat := if n.zero then 0 else n.parser.parserIndex
def Next.encapSkip (n : Next) : Bool := if n.zero then false else n.parser.encapSkip
/-- `nextParser.Parser != nil` -/
def Next.callable (n : Next) : Bool := !n.zero && n.parser != .none

def natStr (n : Nat) : String := toString n
def hex4 (n : Nat) : String :=
  String.ofList [hexDigit (n / 4096 % 16), hexDigit (n / 256 % 16), hexDigit (n / 16 % 16), hexDigit (n % 16)]

/-- NextParserEtype: the per-packet keys carry the ethertype in decimal and as four hex digits (after the `fix:`
    commit; the pinned tree shifted the high byte inside a uint8, so the keys carried only the low byte) -/
def nextParserEtype (e0 e1 : Nat) : Next :=
  let et := e0 * 256 + e1
  let p : Parser :=
    if et = 0x199e then .ethernet else if et = 0x6558 then .ethernet else if et = 0x8847 then .mpls
    else if et = 0x8100 then .dot1q else if et = 0x0800 then .ipv4 else if et = 0x86dd then .ipv6 else .none
  ⟨p, p.keys ++ ["etype" ++ natStr et, "etype0x" ++ hex4 et], false⟩

def nextParserProto (proto : Nat) : Next :=
  let p : Parser :=
    if proto = 1 then .icmp else if proto = 4 then .ipv4 else if proto = 6 then .tcp else if proto = 17 then .udp
    else if proto = 41 then .ipv6 else if proto = 43 then .ipv6route else if proto = 44 then .ipv6frag
    else if proto = 47 then .gre else if proto = 58 then .icmpv6 else .none
  ⟨p, p.keys ++ ["proto" ++ natStr proto], false⟩

/-- NextParserPort over the registered ports: destination first, then source; the Go map keeps
    the last registration for a key -/
def nextParserPort (ports : List PortEntry) (proto : String) (src dst : Nat) : Next :=
  let find (dir : String) (port : Nat) : Option Parser :=
    match (ports.filter fun e => e.proto == proto && e.dir == dir && e.port == port).getLast? with
    | some e => parserByName e.parser
    | none => none
  match find "dst" dst with
  | some p => ⟨p, p.keys ++ [proto ++ natStr dst], false⟩
  | none =>
    match find "src" src with
    | some p => ⟨p, p.keys ++ [proto ++ natStr src], false⟩
    | none => ⟨.none, [], false⟩

/-- ParseConfig as seen by a parser -/
structure PC where
  encapsulated : Bool
  calls : Nat
  ports : List PortEntry

structure PRes where
  msg : FlowMsg
  next : Next
  size : Nat

def u8 (d : Bytes) (i : Nat) : Nat := (d.getD i 0).toNat
def be (d : Bytes) (i n : Nat) : Nat := beNat ((d.drop i).take n)
def sl (d : Bytes) (i j : Nat) : Bytes := (d.drop i).take (j - i)

/-- values of flowpb.FlowMessage_LayerStack -/
def layerStackValue : String → Nat
  | "Ethernet" => 0 | "IPv4" => 1 | "IPv6" => 2 | "TCP" => 3 | "UDP" => 4 | "MPLS" => 5 | "Dot1Q" => 6
  | "ICMP" => 7 | "ICMPv6" => 8 | "GRE" => 9 | "IPv6HeaderRouting" => 10 | "IPv6HeaderFragment" => 11
  | "Geneve" => 12 | "Teredo" => 13 | "Custom" => 99
  | _ => 0

def addLayer (m : FlowMsg) (name : String) : FlowMsg := { m with layerStack := m.layerStack ++ [layerStackValue name] }

def tooShort (m : FlowMsg) : PRes := ⟨m, Next.none, 0⟩

def parseEthernet (m : FlowMsg) (d : Bytes) (pc : PC) : PRes :=
  if d.length < 14 then tooShort m else
  let m := addLayer m "Ethernet"
  let m := if !pc.encapsulated then
      { m with srcMac := be d 6 6, dstMac := be d 0 6, etype := be d 12 2 } else m
  ⟨m, nextParserEtype (u8 d 12) (u8 d 13), 14⟩

def parse8021Q (m : FlowMsg) (d : Bytes) (pc : PC) : PRes :=
  if d.length < 4 then tooShort m else
  let m := addLayer m "Dot1Q"
  let m := if !pc.encapsulated then { m with vlanId := be d 0 2, etype := be d 2 2 } else m
  ⟨m, nextParserEtype (u8 d 2) (u8 d 3), 4⟩

/-- the label loop of ParseMPLS: returns labels, ttls, final offset and the peeked ethertype -/
def mplsLoop (d : Bytes) : Nat → Nat → List Nat → List Nat → (List Nat × List Nat × Nat × Option (Nat × Nat))
  | 0, off, ls, ts => (ls, ts, off, none)
  | fuel + 1, off, ls, ts =>
    if d.length < off + 4 then (ls, ts, off, none)
    else
      let label := be d off 3 / 16
      let bottom := u8 d (off + 2) % 2
      let ttl := u8 d (off + 3)
      let off' := off + 4
      if bottom = 1 ∨ label ≤ 15 ∨ off' > d.length then
        let et : Option (Nat × Nat) :=
          if d.length > off' then
            if u8 d off' / 16 = 4 then some (0x08, 0x00)
            else if u8 d off' / 16 = 6 then some (0x86, 0xdd)
            else none
          else none
        (ls ++ [label], ts ++ [ttl], off', et)
      else mplsLoop d fuel off' (ls ++ [label]) (ts ++ [ttl])

def parseMPLS (m : FlowMsg) (d : Bytes) (pc : PC) : PRes :=
  if d.length < 4 then tooShort m else
  let m := addLayer m "MPLS"
  let (ls, ts, off, et) := mplsLoop d (d.length / 4 + 1) 0 [] []
  let m := if !pc.encapsulated then
      let m := match et with | some (a, b) => { m with etype := a * 256 + b } | none => m
      { m with mplsLabel := ls, mplsTtl := ts }
    else m
  match et with
  | some (a, b) => ⟨m, nextParserEtype a b, off⟩
  | none => ⟨m, Next.none, off⟩

def parseIPv4 (m : FlowMsg) (d : Bytes) (pc : PC) : PRes :=
  if d.length < 20 then tooShort m else
  let m := addLayer m "IPv4"
  let nh := u8 d 9
  let m := if !pc.encapsulated then
      let frag := be d 6 2
      { m with srcAddr := sl d 12 16, dstAddr := sl d 16 20, ipTos := u8 d 1, ipTtl := u8 d 8,
               fragmentId := be d 4 2, fragmentOffset := frag % 8192, ipFlags := frag / 8192, proto := nh }
    else m
  ⟨m, nextParserProto nh, 20⟩

def parseIPv6 (m : FlowMsg) (d : Bytes) (pc : PC) : PRes :=
  if d.length < 40 then tooShort m else
  let m := addLayer m "IPv6"
  let nh := u8 d 6
  let m := if !pc.encapsulated then
      -- tos := uint8(tostmp & 0x0ff0 >> 4): in Go `&` and `>>` share one precedence level, left to right
      { m with srcAddr := sl d 8 24, dstAddr := sl d 24 40, ipTos := (be d 0 2 % 4096) / 16, ipTtl := u8 d 7,
               ipv6FlowLabel := be d 0 4 % 2 ^ 20, proto := nh }
    else m
  ⟨m, nextParserProto nh, 40⟩

def parseIPv6HeaderFragment (m : FlowMsg) (d : Bytes) (pc : PC) : PRes :=
  if d.length < 8 then tooShort m else
  let m := addLayer m "IPv6HeaderFragment"
  let m := if !pc.encapsulated then
      let frag := be d 2 2
      { m with fragmentId := be d 4 4, fragmentOffset := frag / 8, ipFlags := frag % 8 }
    else m
  ⟨m, nextParserProto (u8 d 0), 8⟩

/-- the segment list loop of ParseIPv6HeaderRouting -/
def srv6Loop (d : Bytes) (size lastEntry : Nat) : Nat → Nat → Nat → List Bytes → List Bytes
  | 0, _, _, acc => acc
  | fuel + 1, off, entry, acc =>
    if 8 + off < size ∧ 8 + off + 16 ≤ d.length ∧ entry ≤ lastEntry then
      srv6Loop d size lastEntry fuel (off + 16) (entry + 1) (acc ++ [sl d (8 + off) (8 + off + 16)])
    else acc

def parseIPv6HeaderRouting (m : FlowMsg) (d : Bytes) (pc : PC) : PRes :=
  if d.length < 8 then tooShort m else
  let size := 8 + 8 * u8 d 1
  let m := addLayer m "IPv6HeaderRouting"
  let m := if !pc.encapsulated then
      let m := { m with ipv6RoutingHeaderSegLeft := u8 d 3 }
      if u8 d 2 = 4 then
        { m with ipv6RoutingHeaderAddresses := srv6Loop d size (u8 d 4) (d.length / 16 + 1) 0 0 m.ipv6RoutingHeaderAddresses }
      else m
    else m
  ⟨m, nextParserProto (u8 d 0), size⟩

/-- ParseTCP: the header length comes from the data-offset nibble of byte 12
    (after the `fix:` commit; the pinned tree read the flags byte 13) -/
def parseTCP (m : FlowMsg) (d : Bytes) (pc : PC) : PRes :=
  if d.length < 20 then tooShort m else
  let size := max 20 ((u8 d 12 / 16) * 4)
  let m := addLayer m "TCP"
  let sp := be d 0 2
  let dp := be d 2 2
  let m := if !pc.encapsulated then { m with srcPort := sp, dstPort := dp, tcpFlags := u8 d 13 } else m
  ⟨m, nextParserPort pc.ports "tcp" sp dp, size⟩

def parseUDP (m : FlowMsg) (d : Bytes) (pc : PC) : PRes :=
  if d.length < 8 then tooShort m else
  let m := addLayer m "UDP"
  let sp := be d 0 2
  let dp := be d 2 2
  let m := if !pc.encapsulated then { m with srcPort := sp, dstPort := dp } else m
  ⟨m, nextParserPort pc.ports "udp" sp dp, 8⟩

def parseGRE (m : FlowMsg) (d : Bytes) (_ : PC) : PRes :=
  if d.length < 4 then tooShort m else
  ⟨addLayer m "GRE", nextParserEtype (u8 d 2) (u8 d 3), 4⟩

def parseTeredoDst (m : FlowMsg) (_ : Bytes) (_ : PC) : PRes :=
  ⟨addLayer m "Teredo", ⟨.ipv6, Parser.ipv6.keys, false⟩, 0⟩

def parseGeneve (m : FlowMsg) (d : Bytes) (_ : PC) : PRes :=
  if d.length < 8 then tooShort m else
  ⟨addLayer m "Geneve", nextParserEtype (u8 d 2) (u8 d 3), (u8 d 0 % 64) * 4 + 8⟩

def parseICMP (m : FlowMsg) (d : Bytes) (pc : PC) : PRes :=
  if d.length < 2 then tooShort m else
  let m := addLayer m "ICMP"
  let m := if pc.calls = 0 then { m with icmpType := u8 d 0, icmpCode := u8 d 1 } else m
  ⟨m, Next.none, 8⟩

def parseICMPv6 (m : FlowMsg) (d : Bytes) (pc : PC) : PRes :=
  if d.length < 2 then tooShort m else
  let m := addLayer m "ICMPv6"
  let m := if pc.calls = 0 then { m with icmpType := u8 d 0, icmpCode := u8 d 1 } else m
  ⟨m, Next.none, 8⟩

def runParser : Parser → FlowMsg → Bytes → PC → PRes
  | .none => fun m _ _ => tooShort m
  | .ethernet => parseEthernet
  | .dot1q => parse8021Q
  | .mpls => parseMPLS
  | .ipv4 => parseIPv4
  | .ipv6 => parseIPv6
  | .ipv6route => parseIPv6HeaderRouting
  | .ipv6frag => parseIPv6HeaderFragment
  | .tcp => parseTCP
  | .udp => parseUDP
  | .icmp => parseICMP
  | .icmpv6 => parseICMPv6
  | .gre => parseGRE
  | .teredo => parseTeredoDst
  | .geneve => parseGeneve

/-- apply the layer mappings of one key: `for layerIterator … GetBytes(data, offset*8+cfgOffset, cfgLength, true); MapCustom` -/
def mapLayerEntries (data : Bytes) (offset : Nat) (encapsulated : Bool) : List LayerMapEntry → FlowMsg → Res FlowMsg
  | [], m => .ok m
  | e :: es, m =>
    if e.encap != encapsulated then mapLayerEntries data offset encapsulated es m
    else
      match getBytes data ((offset : Int) * 8 + e.offset) e.length true with
      | .error err => .error err
      | .ok ex =>
        match mapCustom m ex e.field with
        | .error err => .error err
        | .ok m' => mapLayerEntries data offset encapsulated es m'

def mapLayerKeys (cfg : Config) (data : Bytes) (offset : Nat) (encapsulated : Bool) : List String → FlowMsg → Res FlowMsg
  | [], m => .ok m
  | k :: ks, m =>
    match mapLayerEntries data offset encapsulated (lookupLayer cfg.layers k) m with
    | .error e => .error e
    | .ok m' => mapLayerKeys cfg data offset encapsulated ks m'

def bump (cs : List (Nat × Nat)) (k : Nat) : List (Nat × Nat) :=
  (k, ((cs.lookup k).getD 0) + 1) :: cs.filter (fun e => e.1 != k)

/-- the layer index the next layer is compared with: the last layer that does not skip the comparison -/
def encapIdx (idx : Nat) (curSkip : Bool) (curLayer : Nat) : Nat := if curSkip then idx else curLayer

/-- does the next layer start an encapsulation: it lies below the reference layer, or repeats its level
    without being one of the layers that skip the comparison (802.1Q, MPLS, IPv6 fragment header) -/
def encapTrig (idx : Nat) (nxtSkip : Bool) (nxtLayer : Nat) : Bool :=
  decide (nxtLayer < idx) || (!nxtSkip && nxtLayer == idx)

/-- The loop of ParsePacket. `calls` counts, per parser index, how many times that parser has
    already run (after the `fix:` commit; the pinned tree counted selections, so every parser but
    the first saw Calls ≥ 1 and ICMP type/code were never filled). -/
def parseLoop (cfg : Config) (data : Bytes) : Nat → Next → Nat → Bool → Nat → List (Nat × Nat) → FlowMsg → Res FlowMsg
  | 0, _, _, _, _, _, _ => .error .diverge
  | fuel + 1, next, offset, encap, encapIndex, calls, m =>
    if next.callable ∧ offset ≤ data.length then
      let pc : PC := ⟨encap, (calls.lookup next.parserIndex).getD 0, cfg.ports⟩
      let r := runParser next.parser m (data.drop offset) pc
      -- a parser that found its header cut short adds no layer: no mappings, no size for it
      -- (after the `fix:` commits; the pinned tree mapped and appended a size in every round)
      let recognised := decide (m.layerStack.length < r.msg.layerStack.length)
      match (if recognised then mapLayerKeys cfg data offset encap next.keys r.msg else .ok r.msg) with
      | .error e => .error e
      | .ok m1 =>
        let m2 := if recognised then { m1 with layerSize := m1.layerSize ++ [r.size % 2 ^ 32] } else m1
        -- the layer the next one is compared with: the last layer that does not skip the comparison
        -- (after the `fix:` commit; the pinned tree compared with the current layer, so GRE + MPLS + IP
        -- left the inner IP un-encapsulated)
        let idx := encapIdx encapIndex next.encapSkip next.layerIndex
        let encap' := encap || encapTrig idx r.next.encapSkip r.next.layerIndex
        parseLoop cfg data fuel r.next (offset + r.size) encap' idx (bump calls next.parserIndex) m2
    else .ok m

/-- ParsePacket(flowMessage, data, config, pe) -/
def parsePacket (cfg : Config) (m : FlowMsg) (data : Bytes) : Res FlowMsg :=
  parseLoop cfg data (2 * data.length + 4) ⟨.ethernet, Parser.ethernet.keys, false⟩ 0 false Parser.ethernet.layerIndex [] m

end Goflow.Producer
