import Goflow.Basic.Bytes
/-! producer_nf.go: DecodeUNumber / DecodeUNumberLE with the WriteUDecoded truncation to the
    destination width. The structure mirrors the Go code: `switch l { case 1,2,4,8: binary.*Endian.UintNN;
    default: if l < 8 { shift loop } else error }`. That all branches compute the big- or little-endian
    value is a theorem (Proofs/C08.lean), not part of the definition. -/
namespace Goflow.Producer

/-- `for i := range b { o |= uint64(b[i]) << uint(8*(uint(l)-iter-1)); iter++ }` -/
def shiftLoopBE (l : Nat) : Bytes → Nat → Nat → Nat
  | [], _, o => o
  | x :: xs, iter, o => shiftLoopBE l xs (iter + 1) (o ||| (x.toNat <<< (8 * (l - iter - 1))))

/-- `for i := range b { o |= uint64(b[i]) << uint(8*iter); iter++ }` -/
def shiftLoopLE : Bytes → Nat → Nat → Nat
  | [], _, o => o
  | x :: xs, iter, o => shiftLoopLE xs (iter + 1) (o ||| (x.toNat <<< (8 * iter)))

def decodeUNumberRaw (b : Bytes) : Res Nat :=
  let l := b.length
  if l = 1 ∨ l = 2 ∨ l = 4 ∨ l = 8 then .ok (beNat b)            -- binary.BigEndian.UintNN
  else if l < 8 then .ok (shiftLoopBE l b 0 0)
  else .error .bad

def decodeUNumberLERaw (b : Bytes) : Res Nat :=
  let l := b.length
  if l = 1 ∨ l = 2 ∨ l = 4 ∨ l = 8 then .ok (leNat b)            -- binary.LittleEndian.UintNN
  else if l < 8 then .ok (shiftLoopLE b 0 0)
  else .error .bad

/-- DecodeUNumber into a destination of `bits` bits (WriteUDecoded truncates: byte(o), uint16(o), …) -/
def decodeUNumber (bits : Nat) (b : Bytes) : Res Nat :=
  match decodeUNumberRaw b with
  | .ok v => .ok (v % 2 ^ bits)
  | .error e => .error e

def decodeUNumberLE (bits : Nat) (b : Bytes) : Res Nat :=
  match decodeUNumberLERaw b with
  | .ok v => .ok (v % 2 ^ bits)
  | .error e => .error e

end Goflow.Producer
