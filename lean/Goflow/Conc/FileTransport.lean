/-!
  C19 — file transport (transport/file/transport.go).

    Send:    RLock; w := d.w; [RUnlock;] Fprint(w, data+sep); [RUnlock]
    SIGHUP:  Lock; d.file.Close(); openFile(); Unlock

  `locked = true` writes while holding the read lock (after the `fix:` commit); `locked = false` is
  the pinned tree, which released the lock before writing. One `write` system call per message is a
  unit; a write on a closed file fails. Sender i sends message i once.
-/
namespace Goflow.Conc.FileTransport

inductive Pc where
  | idle
  | picked (gen : Nat)     -- holds the writer of generation `gen`, has not written yet
  | ok                     -- Send returned nil
  | failed                 -- Send returned an error (write on a closed file)
  deriving Repr, DecidableEq, Inhabited

structure St where
  cur : Nat                       -- generation of the file d.w points to
  closed : List Nat               -- generations already closed
  log : List (Nat × Nat)          -- (generation, message) of every successful write, in order
  senders : List Pc
  deriving Repr, DecidableEq, Inhabited

inductive Ev where
  | send (i : Nat)
  | rotate
  deriving Repr, DecidableEq, Inhabited

def init (n : Nat) : St := ⟨0, [], [], List.replicate n .idle⟩

def step (locked : Bool) (st : St) : Ev → St
  | .rotate => { st with closed := st.cur :: st.closed, cur := st.cur + 1 }
  | .send i =>
    match st.senders[i]? with
    | some .idle =>
      if locked then { st with log := st.log ++ [(st.cur, i)], senders := st.senders.set i .ok }
      else { st with senders := st.senders.set i (.picked st.cur) }
    | some (.picked g) =>
      if st.closed.contains g then { st with senders := st.senders.set i .failed }
      else { st with log := st.log ++ [(g, i)], senders := st.senders.set i .ok }
    | _ => st

def run (locked : Bool) (st : St) : List Ev → St
  | [] => st
  | e :: rest => run locked (step locked st e) rest

/-- the content of the file of generation g: the message units in write order -/
def fileOf (st : St) (g : Nat) : List Nat := (st.log.filter fun e => e.1 == g).map (·.2)

/-- everything written, old files then new ones in write order -/
def written (st : St) : List Nat := st.log.map (·.2)

/-- placements of `r` rotations among the steps of `n` one-shot senders (locked variant: one step each) -/
def placements (n r : Nat) : List (List Ev) :=
  let rec go : Nat → List Nat → Nat → List (List Ev)
    | 0, _, _ => [[]]
    | fuel + 1, todo, rots =>
      if todo.isEmpty ∧ rots = 0 then [[]] else
      (todo.flatMap fun i => (go fuel (todo.erase i) rots).map (Ev.send i :: ·)) ++
      (if rots > 0 then (go fuel todo (rots - 1)).map (Ev.rotate :: ·) else [])
  go (n + r) (List.range n) r

end Goflow.Conc.FileTransport
