/-!
  C16 — first contact with an exporter, MANY exporters.  The transition system of
  Goflow/Conc/GetOrCreate.lean over the whole map instead of one entry:

      RLock; sys, ok := m[key]; RUnlock          -- lookup          (one atomic step)
      if !ok { sys = factory()                   -- create, outside any lock (one step)
               Lock; <publish>; Unlock }         -- publish         (one atomic step)
      … sys.AddTemplate / AddSamplingRate …      -- use: the thread works on the system it holds

  `m` is `p.templates` (utils/pipe.go, key = `pkt.Src.String()`) or `p.sampling`
  (producer/proto/proto.go, key = `args.Src.Addr().String()`).  Every thread has its own key
  (`keys[i]`): threads with equal keys race on one exporter, threads with different keys race on
  different new exporters.  The map is an association list `List (Key × Nat)`; a thread is a list
  position; a schedule is the list of thread indices that take the next atomic step.

  Two publish variants:
  * `locked`   — the code of the repaired tree: under the write lock, re-check the thread's own key
                 in the CURRENT map; adopt the entry found, otherwise insert into the CURRENT map;
  * `cowStale` — the seeded change C16-7: a copy-on-write map.  The lookup keeps the snapshot of
                 the whole map it loaded; publish re-checks the thread's own key in the CURRENT map
                 (adopt if present) and otherwise publishes `snapshotTakenAtLookup ++ [(key, mine)]`
                 as the new map — the snapshot was taken BEFORE the factory call.
-/
namespace Goflow.Conc.GetOrCreateMulti

abbrev Key := Nat

/-- the exporter map: key ↦ system id (association list, first entry wins) -/
abbrev Map := List (Key × Nat)

inductive Variant where
  | locked
  | cowStale
  deriving Repr, DecidableEq, Inhabited

inductive Pc where
  | start                                   -- before the lookup
  | needCreate (snap : Map)                 -- lookup missed; `snap` = the map the lookup loaded
  | created (snap : Map) (mine : Nat)       -- holds a freshly created system, not yet published
  | holding (sys : Nat)                     -- will use `sys`
  | finished (sys : Nat)                    -- DecodeFlow returned; its announcement went into `sys`
  deriving Repr, DecidableEq, Inhabited

structure St where
  map : Map                    -- m
  next : Nat                   -- fresh system ids handed out by the factory
  keys : List Key              -- keys[i] = the exporter thread i works for (never changes)
  threads : List Pc
  items : List (Nat × Nat)     -- (system, thread): the template / rate thread announced, stored in system
  deriving Repr, DecidableEq, Inhabited

def init (keys : List Key) : St := ⟨[], 0, keys, List.replicate keys.length .start, []⟩

/-- the map a publishing thread installs when its own key is absent from the current map -/
def publishMap (v : Variant) (cur snap : Map) (k : Key) (mine : Nat) : Map :=
  match v with
  | .locked => cur ++ [(k, mine)]
  | .cowStale => snap ++ [(k, mine)]

/-- one atomic step of thread `i`; `none` when the thread has finished or does not exist -/
def step (v : Variant) (st : St) (i : Nat) : Option St :=
  match st.threads[i]?, st.keys[i]? with
  | some pc, some k =>
    match pc with
    | .start =>
      match st.map.lookup k with
      | some s => some { st with threads := st.threads.set i (.holding s) }
      | none => some { st with threads := st.threads.set i (.needCreate st.map) }
    | .needCreate snap =>
      some { st with next := st.next + 1, threads := st.threads.set i (.created snap st.next) }
    | .created snap mine =>
      match st.map.lookup k with
      | some s => some { st with threads := st.threads.set i (.holding s) }
      | none => some { st with map := publishMap v st.map snap k mine,
                               threads := st.threads.set i (.holding mine) }
    | .holding s =>
      some { st with threads := st.threads.set i (.finished s), items := (s, i) :: st.items }
    | .finished _ => none
  | _, _ => none

/-- run a schedule; steps of finished / unknown threads are skipped -/
def run (v : Variant) (st : St) : List Nat → St
  | [] => st
  | i :: rest =>
    match step v st i with
    | some st' => run v st' rest
    | none => run v st rest

/-- what a later datagram of exporter `k` sees: the items stored in the system published for `k` -/
def visible (st : St) (k : Key) : List Nat :=
  match st.map.lookup k with
  | some s => (st.items.filter fun e => e.1 == s).map (·.2)
  | none => []

/-- the property for one state: every thread that returned has its announcement visible under its key -/
def NothingLost (st : St) : Prop :=
  ∀ (i s : Nat) (k : Key), st.threads[i]? = some (Pc.finished s) → st.keys[i]? = some k → i ∈ visible st k

/-- the workers whose announcement is not visible under their key (executable form of `NothingLost`) -/
def lost (st : St) : List Nat :=
  (List.range st.threads.length).filter fun i =>
    match st.threads[i]?, st.keys[i]? with
    | some (.finished _), some k => !(visible st k).contains i
    | _, _ => false

end Goflow.Conc.GetOrCreateMulti
