import Goflow.Basic.Bytes
/-!
  C20 — the Kafka transport (transport/kafka/kafka.go) is a thin adapter over sarama's
  AsyncProducer: Send pushes one ProducerMessage{Topic, Key, Value} on Input(); Close calls
  producer.Close() and then stops the error forwarder. The producer is an abstract object
  with a stated contract (`Contract`); nothing about sarama itself is proved.
-/
namespace Goflow.Conc.KafkaAdapter
open Goflow

structure KMsg where
  topic : String
  key : Bytes
  value : Bytes
  deriving Repr, DecidableEq, Inhabited

/-- the adapter's state: what was pushed on Input(), in order, and whether Close was called -/
structure St where
  topic : String
  input : List KMsg := []
  closed : Bool := false
  deriving Repr, Inhabited

/-- KafkaDriver.Send -/
def send (st : St) (key data : Bytes) : St := { st with input := st.input ++ [⟨st.topic, key, data⟩] }

def sendAll (st : St) : List (Bytes × Bytes) → St
  | [] => st
  | (k, v) :: rest => sendAll (send st k v) rest

/-- the abstract producer: what the broker holds when Close returns, and the errors reported -/
structure Outcome where
  delivered : List (KMsg × Nat)      -- message and partition
  errors : List KMsg
  deriving Repr, Inhabited

/-- FNV-1a 32 over the key bytes, the hash sarama's HashPartitioner uses -/
def fnv1a (bs : Bytes) : Nat :=
  bs.foldl (fun h b => ((h ^^^ b.toNat) * 16777619) % 2 ^ 32) 2166136261

/-- sarama.NewHashPartitioner: |int32(fnv1a(key))| mod partitions -/
def hashPartition (key : Bytes) (partitions : Nat) : Nat :=
  let h := fnv1a key
  let signed : Int := if h < 2 ^ 31 then (h : Int) else (h : Int) - 2 ^ 32
  (signed.natAbs) % partitions

/-- The contract assumed of sarama's AsyncProducer (fault-free broker): when Close returns every
    message accepted on Input() has been delivered exactly once, unchanged; with the hash
    partitioner the partition is a function of the key bytes. -/
def Contract (hashing : Bool) (partitions : Nat) (input : List KMsg) (o : Outcome) : Prop :=
  o.errors = [] ∧ (o.delivered.map (·.1)).Perm input ∧
  (hashing = true → ∀ e ∈ o.delivered, e.2 = hashPartition e.1.key partitions)

end Goflow.Conc.KafkaAdapter
