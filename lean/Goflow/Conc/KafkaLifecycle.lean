import Goflow.Conc.KafkaAdapter
/-!
  C20 — lifecycles of the Kafka transport (transport/kafka/kafka.go).

  The registered driver is a singleton (`init()`, 314–319: `d := &KafkaDriver{errors: make(chan error)}`):
  `d.errors` lives as long as the process, everything else is per lifecycle:

    Init (123–285)   kafkaProducer, err := sarama.NewAsyncProducer(…); d.producer = kafkaProducer   254–258
                     d.q = make(chan bool)                                                          260
                     go func() { for { select {                                                     262–282
                        case msg := <-kafkaProducer.Errors():      (the producer of THIS Init: a local variable)
                            err := nil / &KafkaTransportError{msg}
                            select { case d.errors <- err: default: }                               270–273
                            if msg == nil { return }                                                275–277
                        case <-d.q: return } } }()
    Send (287–294)   d.producer.Input() <- &sarama.ProducerMessage{Topic, Key, Value}; return nil
    Close (296–300)  d.producer.Close(); close(d.q); return nil

  sarama (async_producer.go 359–382, 1234–1252): `Close()` = AsyncClose (shutdown: wait until nothing
  is in flight, then close(p.errors)) and `for event := range p.errors { errors = append(errors, event) }`
  — Close itself receives error events, in competition with the forwarder, until the channel is
  closed; its result is dropped by the adapter. `p.errors` is unbuffered: an error event is a
  rendezvous with one of the two receivers.

  cmd/goflow2/main.go 374–406: the reader of `Errors()` returns when it receives nil (or when main's
  own quit channel is closed).

  Part 1 is the call level (which producer receives what, which producer is closed); Part 2 the
  transition system with the producers' internals, the forwarders, Close's steps and the reader.
-/
namespace Goflow.Conc.KafkaLifecycle
open Goflow Goflow.Conc.KafkaAdapter

deriving instance DecidableEq for Goflow.Conc.KafkaAdapter.St

/-! ## Part 1 — call level: the singleton driver through several lifecycles -/

inductive Op where
  | init
  | send (key data : Bytes)
  | close
  deriving Repr, DecidableEq, Inhabited

/-- `done`: the producers of earlier Inits, oldest first; `cur`: `d.producer`;
    `onceDone`: the flag of a `sync.Once` around Close's body (only used by the variant `once = true`) -/
structure Driver where
  topic : String
  done : List St := []
  cur : Option St := none
  onceDone : Bool := false
  deriving Repr, DecidableEq, Inhabited

/-- every producer ever created, in creation order -/
def producers (d : Driver) : List St := d.done ++ d.cur.toList

/-- one call; `none` = the Go program panics (nil producer, send on the closed Input(), double close) -/
def applyOp (once : Bool) (d : Driver) : Op → Option Driver
  | .init => some { d with done := producers d, cur := some ⟨d.topic, [], false⟩ }
  | .send k v =>
    match d.cur with
    | some p => if p.closed then none else some { d with cur := some (KafkaAdapter.send p k v) }
    | none => none
  | .close =>
    match d.cur with
    | some p =>
      if once && d.onceDone then some d            -- once.Do(…): the body does not run a second time
      else if p.closed then none
      else some { d with cur := some { p with closed := true }, onceDone := true }
    | none => none

def runOps (once : Bool) (d : Driver) : List Op → Option Driver
  | [] => some d
  | o :: rest =>
    match applyOp once d o with
    | some d' => runOps once d' rest
    | none => none

/-- one lifecycle: Init, the Sends, Close -/
def lifecycleOps (msgs : List (Bytes × Bytes)) : List Op :=
  Op.init :: (msgs.map fun kv => Op.send kv.1 kv.2) ++ [Op.close]

def allOps (ls : List (List (Bytes × Bytes))) : List Op := ls.flatMap lifecycleOps

def mkMsg (topic : String) (kv : Bytes × Bytes) : KMsg := ⟨topic, kv.1, kv.2⟩

/-- the sarama contract with faults: when Close of a producer returns, every message handed to it
    before has been delivered or reported, exactly once. `KafkaAdapter.Contract` (fault-free broker) is
    the special case `errors = []`. -/
def ContractF (hashing : Bool) (partitions : Nat) (input : List KMsg) (o : Outcome) : Prop :=
  (o.delivered.map (·.1) ++ o.errors).Perm input ∧
  (hashing = true → ∀ e ∈ o.delivered, e.2 = hashPartition e.1.key partitions)

/-! ## Part 2 — the transition system -/

/-- `onceClose` / `blockingForward` are the two negative controls; Go is `false / false` -/
structure Cfg where
  hashing : Bool
  parts : Nat
  onceClose : Bool            -- Close's body under a sync.Once that outlives the producer (seeded change C20-9)
  blockingForward : Bool      -- Close forwards the errors producer.Close() returned with `d.errors <- err` (C20-8)
  deriving Repr, DecidableEq, Inhabited

/-- the forwarder goroutine of one Init -/
inductive FPc where
  | waiting                     -- in the outer select
  | got (e : Option KMsg)       -- received from Errors(): an event, or nil (`none`: the channel is closed)
  | exited
  deriving Repr, DecidableEq, Inhabited

/-- the call `d.Close()` of one lifecycle -/
inductive CPc where
  | notCalled
  | draining                    -- inside producer.Close(): shutdown requested, ranging over p.errors
  | flushed                     -- producer.Close() has returned
  | forwarding (errs : List KMsg)   -- (variant) `for _, e := range errs { d.errors <- e }`
  | returned
  deriving Repr, DecidableEq, Inhabited

structure Life where
  input : List KMsg := []              -- handed to Input() by Send, in order
  pending : List KMsg := []            -- in flight: accepted, neither delivered nor reported yet
  delivered : List (KMsg × Nat) := []  -- message and partition
  reported : List KMsg := []           -- error events handed to a receiver of p.errors
  collected : List KMsg := []          -- those Close itself received (the result of producer.Close())
  errClosed : Bool := false            -- p.errors is closed
  qClosed : Bool := false              -- d.q (of this Init) is closed
  fwd : FPc := .waiting
  close : CPc := .notCalled
  deriving Repr, DecidableEq, Inhabited

inductive Reader where
  | reading | stopped
  deriving Repr, DecidableEq, Inhabited

structure Sys where
  topic : String
  lives : List Life := []
  onceDone : Bool := false
  reader : Reader := .reading
  readerGot : List (Option KMsg) := []    -- what the reader received on d.errors (`none` = nil)
  deriving Repr, DecidableEq, Inhabited

/-- events inside one lifecycle -/
inductive LEv where
  | deliver (m : KMsg) (p : Nat)     -- sarama: the broker acknowledged m on partition p
  | failToFwd (m : KMsg)             -- sarama: error event for m, received by the forwarder
  | failToClose (m : KMsg)           -- sarama: error event for m, received by Close's range loop
  | errorsClosed                     -- sarama shutdown: nothing in flight → close(p.errors)
  | closeSeesEnd                     -- Close's range loop ends, producer.Close() returns
  | closeForward                     -- (variant) d.errors <- err, a rendezvous with the reader
  | closeQ                           -- close(d.q); return nil
  | fwdSeesEnd                       -- forwarder: `<-Errors()` on the closed channel yields nil
  | fwdQuit                          -- forwarder: `<-d.q`
  | fwdForward                       -- forwarder: `case d.errors <- err`, a rendezvous with the reader
  | fwdDrop                          -- forwarder: `default:`
  deriving Repr, DecidableEq, Inhabited

inductive Ev where
  | init | send (key data : Bytes) | closeCall     -- the application thread
  | life (l : Nat) (e : LEv)
  | readerQuit                                     -- main's `<-q` case (or any other reason to stop reading)
  deriving Repr, DecidableEq, Inhabited

/-- events that need the reader of `Errors()` to take part -/
def usesReader : Ev → Bool
  | .life _ .closeForward | .life _ .fwdForward | .readerQuit => true
  | _ => false

def afterForward (e : Option KMsg) : FPc := if e.isNone then .exited else .waiting

/-- one step of lifecycle `lf`; the second component is what is handed to the reader, if anything -/
def lifeStep (cfg : Cfg) (rd : Reader) (lf : Life) : LEv → Option (Life × Option (Option KMsg))
  | .deliver m p =>
    if lf.pending.contains m then
      some ({ lf with pending := lf.pending.erase m,
                      delivered := lf.delivered ++ [(m, if cfg.hashing then hashPartition m.key cfg.parts else p)] }, none)
    else none
  | .failToFwd m =>
    if lf.pending.contains m ∧ lf.fwd = .waiting then
      some ({ lf with pending := lf.pending.erase m, reported := lf.reported ++ [m], fwd := .got (some m) }, none)
    else none
  | .failToClose m =>
    if lf.pending.contains m ∧ lf.close = .draining then
      some ({ lf with pending := lf.pending.erase m, reported := lf.reported ++ [m], collected := lf.collected ++ [m] }, none)
    else none
  | .errorsClosed =>
    if lf.close = .draining ∧ lf.pending = [] ∧ lf.errClosed = false then some ({ lf with errClosed := true }, none) else none
  | .closeSeesEnd =>
    if lf.close = .draining ∧ lf.errClosed = true then
      some ({ lf with close := if cfg.blockingForward then .forwarding lf.collected else .flushed }, none)
    else none
  | .closeForward =>
    match lf.close with
    | .forwarding (e :: rest) => if rd = .reading then some ({ lf with close := .forwarding rest }, some (some e)) else none
    | _ => none
  | .closeQ =>
    if lf.close = .flushed ∨ lf.close = .forwarding [] then some ({ lf with qClosed := true, close := .returned }, none) else none
  | .fwdSeesEnd =>
    if lf.fwd = .waiting ∧ lf.errClosed = true then some ({ lf with fwd := .got none }, none) else none
  | .fwdQuit =>
    if lf.fwd = .waiting ∧ lf.qClosed = true then some ({ lf with fwd := .exited }, none) else none
  | .fwdForward =>
    match lf.fwd with
    | .got e => if rd = .reading then some ({ lf with fwd := afterForward e }, some e) else none
    | _ => none
  | .fwdDrop =>
    match lf.fwd with
    | .got e => some ({ lf with fwd := afterForward e }, none)
    | _ => none

/-- the reader receives `e`; nil makes it return -/
def toReader (s : Sys) : Option (Option KMsg) → Sys
  | none => s
  | some e => { s with readerGot := s.readerGot ++ [e], reader := if e.isNone then .stopped else s.reader }

/-- the lifecycle the application thread is in -/
def lastLife (s : Sys) : Option Life := s.lives[s.lives.length - 1]?

/-- replace the current lifecycle -/
def setLast (s : Sys) (lf : Life) : Sys := { s with lives := s.lives.set (s.lives.length - 1) lf }

def step (cfg : Cfg) (s : Sys) : Ev → Option Sys
  | .init =>
    match lastLife s with
    | none => some { s with lives := s.lives ++ [{}] }
    | some lf => if lf.close = .returned then some { s with lives := s.lives ++ [{}] } else none
  | .send k v =>
    match lastLife s with
    | some lf =>
      if lf.close = .notCalled then
        some (setLast s { lf with input := lf.input ++ [⟨s.topic, k, v⟩], pending := lf.pending ++ [⟨s.topic, k, v⟩] })
      else none
    | none => none
  | .closeCall =>
    match lastLife s with
    | some lf =>
      if lf.close = .notCalled then
        if cfg.onceClose && s.onceDone then
          some (setLast s { lf with close := .returned })
        else
          some { setLast s { lf with close := .draining } with onceDone := true }
      else none
    | none => none
  | .life l e =>
    match s.lives[l]? with
    | some lf =>
      match lifeStep cfg s.reader lf e with
      | some (lf', out) => some (toReader { s with lives := s.lives.set l lf' } out)
      | none => none
    | none => none
  | .readerQuit => if s.reader = .reading then some { s with reader := .stopped } else none

/-- a disabled event is skipped -/
def run (cfg : Cfg) (s : Sys) : List Ev → Sys
  | [] => s
  | e :: rest =>
    match step cfg s e with
    | some s' => run cfg s' rest
    | none => run cfg s rest

/-- the number of events of the schedule that were enabled when their turn came -/
def effSteps (cfg : Cfg) (s : Sys) : List Ev → Nat
  | [] => 0
  | e :: rest =>
    match step cfg s e with
    | some s' => effSteps cfg s' rest + 1
    | none => effSteps cfg s rest

def initSys (topic : String) : Sys := { topic := topic }

def goCfg (hashing : Bool) (parts : Nat) : Cfg := ⟨hashing, parts, false, false⟩

/-- what lifecycle `lf` produced, as an `Outcome` of its producer -/
def outcome (lf : Life) : Outcome := ⟨lf.delivered, lf.reported⟩

/-- `d.Close()` of the lifecycle has been called and has not returned -/
def inClose (lf : Life) : Bool :=
  match lf.close with
  | .draining | .flushed | .forwarding _ => true
  | _ => false

/-- lifecycle `l` is the current one and its Close is in progress -/
def closingAt (s : Sys) (l : Nat) : Prop :=
  s.lives.length = l + 1 ∧ ∃ lf, s.lives[l]? = some lf ∧ inClose lf = true

end Goflow.Conc.KafkaLifecycle
