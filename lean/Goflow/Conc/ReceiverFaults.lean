import Goflow.Conc.Receiver
/-!
  C18 (call level, with faults) — Start / Stop sequences of the UDP receiver (utils/udp.go) where a
  Start may FAIL to bind, and where every Start carries its own decoder.

  What the Go code does, statement by statement (line numbers of utils/udp.go):

    Start(addr, port, f)                                                        288–305
      select { case <-r.ready: r.ready = make(chan bool)                        289–291
               default: return "receiver is already started" }                  292–294   (nothing touched)
      r.decoders(r.workers, f)        workers × { wg.Add(1); decodersCnt++;     224–254
                                                  go worker(f) }                (f is captured by the closure)
      r.receivers(r.sockets, …)       per socket: wg.Add(1); go { defer wg.Done(); receive() }   257–285
                                      bind ok  → close(started), the goroutine stays in receiveRoutine
                                      bind err → rErr = err; close(started); return  (wg.Done runs)   270–276
                                      `if rErr != nil { break }`: no further socket is tried        259–261
      on error: r.Stop(); return err                                            300–303   (Stop's result is dropped)

    Stop()                                                                      308–322
      select { case <-r.q: default: close(r.q) }                                309–313
      decodersCnt × { r.dispatch <- nil }    each nil ends one worker → wg.Done 315–317
      (q closed: every live reader's socket is closed, receive returns → wg.Done)  145–151
      r.wg.Wait()                                                               319
      return r.init()                                                           321

    init()                                                                      108–119
      r.q = make(chan bool); r.decodersCnt = 0
      select { case <-r.ready: return "receiver is already stopped"; default: close(r.ready) }

  The model keeps the WaitGroup counter, `decodersCnt`, the live worker goroutines (each with the
  decoder it captured), the live readers and the nil sentinels left behind in the dispatch channel:
  a call whose `wg.Wait()` cannot return, or whose `dispatch <- nil` finds neither a worker nor room
  in the channel, HANGS (`Res.hang`). That no call ever hangs is part of the theorem.
-/
namespace Goflow.Conc.ReceiverFaults
open Goflow.Conc.Receiver

/-- `NewUDPReceiver` guarantees `sockets ≥ 1` and `workers ≥ 1`; the theorems do not need it -/
structure RCfg where
  workers : Nat
  sockets : Nat
  qcap : Nat
  deriving Repr, DecidableEq, Inhabited

/-- decoders are named by numbers -/
inductive CallF where
  | start (f : Nat)                 -- every bind succeeds
  | startFail (f : Nat) (k : Nat)   -- the first `min k (sockets-1)` binds succeed, the next one fails
  | stop
  deriving Repr, DecidableEq, Inhabited

inductive Res where
  | ok | err | hang
  deriving Repr, DecidableEq, Inhabited

structure SessSt where
  readyClosed : Bool          -- `ready` is closed  (= the receiver is stopped)
  qClosed : Bool              -- the quit channel `r.q` is closed
  decodersCnt : Nat
  wg : Nat                    -- WaitGroup counter
  workers : List Nat          -- live worker goroutines: the decoder each one captured
  readers : Nat               -- live socket readers
  stale : Nat                 -- nil sentinels sitting in the dispatch channel
  deriving Repr, DecidableEq, Inhabited

/-- NewUDPReceiver: fresh channels, then init(): `ready` closed -/
def initF : SessSt := ⟨true, false, 0, 0, [], 0, 0⟩

/-- `decoders(workers, f)`: per worker `wg.Add(1); decodersCnt += 1; go func(){ … decodeFunc … }` -/
def decodersF (cfg : RCfg) (s : SessSt) (f : Nat) : SessSt :=
  { s with wg := s.wg + cfg.workers, decodersCnt := s.decodersCnt + cfg.workers,
           workers := s.workers ++ List.replicate cfg.workers f }

/-- one socket whose bind succeeds: `wg.Add(1)`, the goroutine stays in `receiveRoutine` -/
def bindOk (s : SessSt) : SessSt := { s with wg := s.wg + 1, readers := s.readers + 1 }

/-- one socket whose bind fails: `wg.Add(1)`; the goroutine sets rErr, closes `started` and returns,
    its deferred `wg.Done()` runs -/
def bindFail (s : SessSt) : SessSt :=
  let s1 := { s with wg := s.wg + 1 }     -- r.wg.Add(1)
  { s1 with wg := s1.wg - 1 }             -- defer r.wg.Done()

def bindMany : Nat → SessSt → SessSt
  | 0, s => s
  | n + 1, s => bindMany n (bindOk s)

/-- the body of Stop up to and including `wg.Wait()`; `none` = the call never returns -/
def stopBody (cfg : RCfg) (s : SessSt) : Option SessSt :=
  -- select { case <-r.q: default: close(r.q) }
  let s1 := { s with qClosed := true }
  -- decodersCnt × dispatch <- nil : each is taken by a live worker, which returns (wg.Done) …
  let taken := min s1.decodersCnt s1.workers.length
  -- … the others need room in the channel
  let extra := s1.decodersCnt - taken
  if cfg.qcap < s1.stale + extra then none else
  let s2 := { s1 with workers := s1.workers.drop taken, wg := s1.wg - taken, stale := s1.stale + extra }
  -- q is closed: the sockets are closed, every reader returns (wg.Done)
  let s3 := { s2 with wg := s2.wg - s2.readers, readers := 0 }
  -- r.wg.Wait()
  if s3.wg ≠ 0 then none else some s3

/-- init(): fresh `q`, `decodersCnt = 0`, then the `ready` select; the flag is "returned an error" -/
def initBody (s : SessSt) : SessSt × Bool :=
  let s1 := { s with qClosed := false, decodersCnt := 0 }
  if s1.readyClosed then (s1, true) else ({ s1 with readyClosed := true }, false)

def callStepF (cfg : RCfg) (s : SessSt) : CallF → SessSt × Res
  | .stop =>
    match stopBody cfg s with
    | none => (s, .hang)
    | some s1 => let (s2, e) := initBody s1; (s2, if e then .err else .ok)
  | .start f =>
    if !s.readyClosed then (s, .err) else
    let s1 := decodersF cfg { s with readyClosed := false } f
    (bindMany cfg.sockets s1, .ok)
  | .startFail f k =>
    if !s.readyClosed then (s, .err) else
    let s1 := decodersF cfg { s with readyClosed := false } f
    let s2 := bindFail (bindMany (min k (cfg.sockets - 1)) s1)
    -- `r.Stop(); return err`
    match stopBody cfg s2 with
    | none => (s2, .hang)
    | some s3 => ((initBody s3).1, .err)

def runF (cfg : RCfg) (s : SessSt) : List CallF → SessSt × List Res
  | [] => (s, [])
  | c :: rest =>
    let (s1, r) := callStepF cfg s c
    let (sf, rs) := runF cfg s1 rest
    (sf, r :: rs)

/-! ### the specification: a receiver is stopped (`none`) or started with a decoder (`some f`) -/

def specStepF (sp : Option Nat) : CallF → Option Nat × Res
  | .start f => match sp with
    | none => (some f, .ok)
    | some g => (some g, .err)
  | .startFail _ _ => match sp with
    | none => (none, .err)          -- the bind error; the receiver stays stopped
    | some g => (some g, .err)      -- refused before anything is bound
  | .stop => match sp with
    | some _ => (none, .ok)
    | none => (none, .err)

def specRunF (sp : Option Nat) : List CallF → Option Nat × List Res
  | [] => (sp, [])
  | c :: rest =>
    let (sp1, r) := specStepF sp c
    let (spf, rs) := specRunF sp1 rest
    (spf, r :: rs)

/-- the fault-free calls of the old model, every Start with decoder 0 -/
def embed : Call → CallF
  | .start => .start 0
  | .stop => .stop

def resOfBool (e : Bool) : Res := if e then .err else .ok

end Goflow.Conc.ReceiverFaults
