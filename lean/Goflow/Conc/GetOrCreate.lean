/-!
  C16 — first contact with an exporter.  Transition system of
    NetFlowPipe.DecodeFlow (utils/pipe.go: `p.templates[key]`) and
    ProtoProducer.getSamplingRateSystem (producer/proto/proto.go: `p.sampling[key]`):

      RLock; sys, ok := m[key]; RUnlock          -- lookup
      if !ok { sys = factory()                   -- create (outside any lock)
               Lock; <publish>; Unlock }         -- publish
      … sys.AddTemplate / AddSamplingRate …      -- use: the thread works on the system it holds

  `publish` has two variants: the unconditional store `m[key] = sys` of the pinned tree
  (`recheck = false`) and re-check-then-adopt `if cur, ok := m[key]; ok { sys = cur } else { m[key] = sys }`
  (`recheck = true`, after the `fix:` commit). One key is modelled; threads are list positions;
  a schedule is the list of thread indices that take the next atomic step.
-/
namespace Goflow.Conc.GetOrCreate

inductive Pc where
  | start                      -- before the lookup
  | needCreate                 -- lookup missed
  | created (mine : Nat)       -- holds a freshly created system, not yet published
  | holding (sys : Nat)        -- will use `sys`
  | finished (sys : Nat)       -- DecodeFlow returned; its announcement went into `sys`
  deriving Repr, DecidableEq, Inhabited

structure St where
  map : Option Nat             -- m[key]
  next : Nat                   -- fresh system ids handed out by the factory
  threads : List Pc
  items : List (Nat × Nat)     -- (system, thread): the template / rate thread announced, stored in system
  deriving Repr, DecidableEq, Inhabited

def init (n : Nat) : St := ⟨none, 0, List.replicate n .start, []⟩

/-- one atomic step of thread `i`; `none` when the thread has finished or does not exist -/
def step (recheck : Bool) (st : St) (i : Nat) : Option St :=
  match st.threads[i]? with
  | none => none
  | some .start =>
    match st.map with
    | some s => some { st with threads := st.threads.set i (.holding s) }
    | none => some { st with threads := st.threads.set i .needCreate }
  | some .needCreate =>
    some { st with next := st.next + 1, threads := st.threads.set i (.created st.next) }
  | some (.created mine) =>
    match recheck, st.map with
    | true, some s => some { st with threads := st.threads.set i (.holding s) }
    | _, _ => some { st with map := some mine, threads := st.threads.set i (.holding mine) }
  | some (.holding s) =>
    some { st with threads := st.threads.set i (.finished s), items := (s, i) :: st.items }
  | some (.finished _) => none

/-- run a schedule; steps of finished / unknown threads are skipped -/
def run (recheck : Bool) (st : St) : List Nat → St
  | [] => st
  | i :: rest =>
    match step recheck st i with
    | some st' => run recheck st' rest
    | none => run recheck st rest

/-- what a later datagram of the exporter sees: the items stored in the published system -/
def visible (st : St) : List Nat :=
  match st.map with
  | some s => (st.items.filter fun e => e.1 == s).map (·.2)
  | none => []

/-- the property for one final state: every thread that returned has its announcement visible -/
def NothingLost (st : St) : Prop :=
  ∀ i s, st.threads[i]? = some (.finished s) → i ∈ visible st

/-- all interleavings of `n` threads × 4 steps each, for the schedule enumeration of the harness -/
def schedules : Nat → List Nat → List (List Nat)
  | 0, _ => [[]]
  | fuel + 1, remaining =>
    let choices := (List.range remaining.length).filter fun i => remaining.getD i 0 > 0
    if choices.isEmpty then [[]] else
    choices.flatMap fun i =>
      (schedules fuel (remaining.set i (remaining.getD i 0 - 1))).map (i :: ·)

end Goflow.Conc.GetOrCreate

namespace Goflow.Conc.GetOrCreate

/-- harness plans: `S i` starts worker i and lets it run until it is parked inside the factory
    callback (created, not yet published) or has returned; `R i` releases it and lets it return -/
inductive Ev where
  | S (i : Nat)
  | R (i : Nat)
  deriving Repr, DecidableEq, Inhabited

def runUntil (recheck : Bool) (stop : Pc → Bool) : Nat → St → Nat → St
  | 0, st, _ => st
  | fuel + 1, st, i =>
    match st.threads[i]? with
    | none => st
    | some pc =>
      if stop pc then st else
      match step recheck st i with
      | some st' => runUntil recheck stop fuel st' i
      | none => st

def isParkedOrDone : Pc → Bool
  | .created _ => true
  | .finished _ => true
  | _ => false
def isDone : Pc → Bool
  | .finished _ => true
  | _ => false

def runPlan (recheck : Bool) (st : St) : List Ev → St
  | [] => st
  | .S i :: rest => runPlan recheck (runUntil recheck isParkedOrDone 8 st i) rest
  | .R i :: rest => runPlan recheck (runUntil recheck isDone 8 st i) rest

/-- the workers whose announcement is not visible afterwards -/
def lost (st : St) : List Nat :=
  (List.range st.threads.length).filter fun i =>
    match st.threads[i]? with
    | some (.finished _) => !(visible st).contains i
    | _ => false

/-- all plans over n workers: every interleaving of S0..S(n-1), R0..R(n-1) with S i before R i -/
def plans (n : Nat) : List (List Ev) :=
  let rec go : Nat → List Nat → List Nat → List (List Ev)
    | 0, _, _ => [[]]
    | fuel + 1, notStarted, started =>
      if notStarted.isEmpty ∧ started.isEmpty then [[]] else
      (notStarted.flatMap fun i => (go fuel (notStarted.erase i) (started ++ [i])).map (Ev.S i :: ·)) ++
      (started.flatMap fun i => (go fuel notStarted (started.erase i)).map (Ev.R i :: ·))
  go (2 * n) (List.range n) []

def Ev.str : Ev → String
  | .S i => "S" ++ toString i
  | .R i => "R" ++ toString i

def parsePlan (s : String) : Option (List Ev) :=
  (s.splitOn ",").mapM fun t =>
    match t.toList with
    | 'S' :: ds => (String.ofList ds).toNat?.map Ev.S
    | 'R' :: ds => (String.ofList ds).toNat?.map Ev.R
    | _ => none

end Goflow.Conc.GetOrCreate
