/-!
  C17 / C18 — the UDP receiver (utils/udp.go): socket readers, the dispatch channel, decoder
  workers, Stop. Atomic steps are the channel operations and the calls the Go code makes:

    reader r :  pkt := pool.Get(); ReadFromUDP(pkt)                 read r
                select { dispatch <- pkt | <-q | default(drop) }    dispatch r / quit r / drop r
    worker w :  pkt := <-dispatch; nil => return                    take w
                decodeFunc(msg)  …  pool.Put(pkt)                   finish w
    Stop     :  close(q); decodersCnt × { dispatch <- nil }; wg.Wait()   stop / sendSentinel

  A datagram is a fresh id; a buffer is an id too (buffers are reused through the pool).
-/
namespace Goflow.Conc.Receiver

structure Cfg where
  blocking : Bool
  qcap : Nat            -- capacity of the dispatch channel (0 = synchronous hand-off)
  deriving Repr, DecidableEq, Inhabited

inductive RPc where
  | idle
  | holding (buf d : Nat)
  | exited
  deriving Repr, DecidableEq, Inhabited

inductive WPc where
  | idle
  | decoding (buf d : Nat)
  | exited
  deriving Repr, DecidableEq, Inhabited

inductive QItem where
  | pkt (buf d : Nat)
  | sentinel
  deriving Repr, DecidableEq, Inhabited

structure St where
  cfg : Cfg
  pool : List Nat               -- free buffers
  nextBuf : Nat
  nextId : Nat
  readers : List RPc
  workers : List WPc
  queue : List QItem
  qClosed : Bool                -- Stop has closed r.q
  toSend : Nat                  -- sentinels Stop still has to send
  readIds : List Nat            -- datagrams taken from the kernel (the `udp.read` hook events)
  started : List Nat            -- decoder calls started, in order
  decoded : List Nat            -- decoder calls completed
  dropped : List Nat            -- Dropped callback invocations
  lostAtStop : List Nat         -- in a reader's hand when it saw q closed
  preStop : List Nat            -- ghost: datagrams sitting in the queue when Stop was called
  sentinelTaken : Bool          -- ghost: some worker has consumed a sentinel
  deriving Repr, DecidableEq, Inhabited

inductive Ev where
  | read (r : Nat)
  | dispatch (r : Nat)
  | handoff (r w : Nat)          -- synchronous channel: reader r hands directly to idle worker w
  | drop (r : Nat)
  | quit (r : Nat)
  | take (w : Nat)
  | finish (w : Nat)
  | stop
  | sendSentinel
  | sentinelTo (w : Nat)         -- synchronous channel: Stop hands nil directly to idle worker w
  deriving Repr, DecidableEq, Inhabited

def init (cfg : Cfg) (readers workers : Nat) : St :=
  { cfg := cfg, pool := [], nextBuf := 0, nextId := 0, readers := List.replicate readers .idle,
    workers := List.replicate workers .idle, queue := [], qClosed := false, toSend := 0, readIds := [],
    started := [], decoded := [], dropped := [], lostAtStop := [], preStop := [], sentinelTaken := false }

def queueIds (q : List QItem) : List Nat := q.filterMap fun i => match i with | .pkt _ d => some d | .sentinel => none
def queueBufs (q : List QItem) : List Nat := q.filterMap fun i => match i with | .pkt b _ => some b | .sentinel => none
def readerIds (rs : List RPc) : List Nat := rs.filterMap fun p => match p with | .holding _ d => some d | _ => none
def readerBufs (rs : List RPc) : List Nat := rs.filterMap fun p => match p with | .holding b _ => some b | _ => none
def workerIds (ws : List WPc) : List Nat := ws.filterMap fun p => match p with | .decoding _ d => some d | _ => none
def workerBufs (ws : List WPc) : List Nat := ws.filterMap fun p => match p with | .decoding b _ => some b | _ => none

/-- one step; a disabled event leaves the state unchanged (`none`) -/
def step (st : St) : Ev → Option St
  | .read r =>
    match st.readers[r]? with
    | some .idle =>
      if st.qClosed then none else
      match st.pool with
      | b :: rest =>
        some { st with pool := rest, nextId := st.nextId + 1,
                       readers := st.readers.set r (.holding b st.nextId), readIds := st.nextId :: st.readIds }
      | [] =>
        some { st with nextBuf := st.nextBuf + 1, nextId := st.nextId + 1,
                       readers := st.readers.set r (.holding st.nextBuf st.nextId), readIds := st.nextId :: st.readIds }
    | _ => none
  | .dispatch r =>
    match st.readers[r]? with
    | some (.holding b d) =>
      if st.queue.length < st.cfg.qcap then
        some { st with readers := st.readers.set r .idle, queue := st.queue ++ [.pkt b d] }
      else none
    | _ => none
  | .handoff r w =>
    match st.readers[r]?, st.workers[w]? with
    | some (.holding b d), some .idle =>
      if st.cfg.qcap = 0 ∧ st.queue = [] then
        some { st with readers := st.readers.set r .idle, workers := st.workers.set w (.decoding b d),
                       started := st.started ++ [d] }
      else none
    | _, _ => none
  | .drop r =>
    match st.readers[r]? with
    | some (.holding b d) =>
      if !st.cfg.blocking ∧ st.cfg.qcap ≤ st.queue.length then
        some { st with readers := st.readers.set r .idle, dropped := d :: st.dropped, pool := b :: st.pool }
      else none
    | _ => none
  | .quit r =>
    if !st.qClosed then none else
    match st.readers[r]? with
    | some .idle => some { st with readers := st.readers.set r .exited }
    | some (.holding _ d) => some { st with readers := st.readers.set r .exited, lostAtStop := d :: st.lostAtStop }
    | _ => none
  | .take w =>
    match st.workers[w]?, st.queue with
    | some .idle, .pkt b d :: rest =>
      some { st with workers := st.workers.set w (.decoding b d), queue := rest, started := st.started ++ [d] }
    | some .idle, .sentinel :: rest =>
      some { st with workers := st.workers.set w .exited, queue := rest, sentinelTaken := true }
    | _, _ => none
  | .finish w =>
    match st.workers[w]? with
    | some (.decoding b d) =>
      some { st with workers := st.workers.set w .idle, decoded := d :: st.decoded, pool := b :: st.pool }
    | _ => none
  | .stop =>
    if st.qClosed then none else
    some { st with qClosed := true, toSend := (st.workers.filter (· != .exited)).length, preStop := queueIds st.queue }
  | .sendSentinel =>
    if st.toSend > 0 ∧ st.queue.length < st.cfg.qcap then
      some { st with toSend := st.toSend - 1, queue := st.queue ++ [.sentinel] }
    else none
  | .sentinelTo w =>
    match st.workers[w]? with
    | some .idle =>
      if st.toSend > 0 ∧ st.cfg.qcap = 0 ∧ st.queue = [] then
        some { st with toSend := st.toSend - 1, workers := st.workers.set w .exited, sentinelTaken := true }
      else none
    | _ => none

def run (st : St) : List Ev → St
  | [] => st
  | e :: rest =>
    match step st e with
    | some st' => run st' rest
    | none => run st rest

/-- every place a read datagram can be in -/
def places (st : St) : List Nat :=
  readerIds st.readers ++ queueIds st.queue ++ workerIds st.workers ++ st.decoded ++ st.dropped ++ st.lostAtStop

/-- every place a buffer can be in -/
def bufPlaces (st : St) : List Nat :=
  st.pool ++ readerBufs st.readers ++ queueBufs st.queue ++ workerBufs st.workers

/-- Stop has returned: sentinels sent, every reader and worker has exited -/
def stopped (st : St) : Bool :=
  st.qClosed && st.toSend == 0 && st.readers.all (· == .exited) && st.workers.all (· == .exited)

/-! ### Start / Stop call sequences (C18): the `ready` channel protocol

    NewUDPReceiver → init(): close(ready).   Start: `<-ready` succeeds iff closed → ready = make(chan)
    Stop: …; init(): `<-ready` succeeds iff closed → error "already stopped", else close(ready). -/

inductive Call where
  | start | stop
  deriving Repr, DecidableEq, Inhabited

/-- `readyClosed` after NewUDPReceiver is true (= stopped). Returns the new flag and whether the call errored. -/
def callStep (readyClosed : Bool) : Call → Bool × Bool
  | .start => if readyClosed then (false, false) else (false, true)
  | .stop => if readyClosed then (true, true) else (true, false)

def callResults (readyClosed : Bool) : List Call → List Bool
  | [] => []
  | c :: rest => let (rc, err) := callStep readyClosed c; err :: callResults rc rest

/-- the two channels the calls manipulate: `ready` (closed = stopped) and the quit channel `q` -/
structure CallSt where
  readyClosed : Bool
  qClosed : Bool
  deriving Repr, DecidableEq, Inhabited

/-- NewUDPReceiver → init(): fresh `q`, `ready` closed -/
def callInit : CallSt := ⟨true, false⟩

/-- init(): `r.q = make(chan bool)` first, then `select { case <-r.ready: error; default: close(r.ready) }` -/
def initStep (s : CallSt) : CallSt × Bool :=
  if s.readyClosed then ({ s with qClosed := false }, true) else ({ readyClosed := true, qClosed := false }, false)

/-- Start: `<-ready` succeeds iff closed → `ready = make`; Stop: close(q) (if open) … init() -/
def callStep2 (s : CallSt) : Call → CallSt × Bool
  | .start => if s.readyClosed then ({ s with readyClosed := false }, false) else (s, true)
  | .stop => initStep { s with qClosed := true }

def callRun2 (s : CallSt) : List Call → CallSt × List Bool
  | [] => (s, [])
  | c :: rest =>
    let (s', err) := callStep2 s c
    let (sf, errs) := callRun2 s' rest
    (sf, err :: errs)

/-- the specification: a receiver is started or stopped; Start on a started one and Stop on a
    stopped one report an error and change nothing -/
def specResults (started : Bool) : List Call → List Bool
  | [] => []
  | .start :: rest => if started then true :: specResults true rest else false :: specResults true rest
  | .stop :: rest => if started then false :: specResults false rest else true :: specResults false rest

end Goflow.Conc.Receiver
