import Goflow.Conc.FileTransport
/-!
  C19 with faults — the file transport (transport/file/transport.go) with a SIGHUP rotation whose
  reopen FAILS, the RWMutex made explicit, and the `transport.Send` wrapper.

    FileDriver.Send (79–87)                      SIGHUP handler (Init, 57–74)
      d.lock.RLock()            send i  idle→rlocked      case <-c:  d.lock.Lock()      hupLock
      w := d.w                  send i  rlocked→picked g            d.file.Close()     hupClose
      _, err := Fprint(w, …)    send i  picked g→wrote ok?          err := d.openFile() hupOpen ok?
      (defer) d.lock.RUnlock()  send i  wrote→ok/failed             d.lock.Unlock()    hupUnlock
      return err                                                    if err != nil { return }   (the goroutine ends)

    openFile (30–38): on error `d.file` / `d.w` are NOT assigned — the descriptor stays the one that
    was just closed; on success a new generation is current.

    transport.Send (transport/transport.go 51–56): `if err := driver.Send(…); err != nil { return &DriverTransportError{…} }; return nil`
    — the caller sees an error exactly when the driver returned one (`wrapperSend`).

  Lock discipline: `hupLock` needs that no sender holds the read lock; `RLock` needs that the
  handler does not hold the write lock. (Go's writer preference only removes behaviours.)
  A write on a closed descriptor fails and writes nothing (os.File.Write checks the closed flag
  before the system call); a successful write appends body and separator as one unit (one Fprint =
  one write(2) on an O_APPEND descriptor — the atomicity assumption of C19).
  Sender i sends message i once. A disabled event leaves the state unchanged.
-/
namespace Goflow.Conc.FileTransportFaults

/-- what a file consists of: message bodies and separators -/
inductive Tok where
  | body (i : Nat)
  | sep
  deriving Repr, DecidableEq, Inhabited

/-- the unit one Fprint writes: `string(data) + d.lineSeparator` -/
def unit (i : Nat) : List Tok := [.body i, .sep]

inductive SPc where
  | idle
  | rlocked                 -- holds the read lock
  | picked (g : Nat)        -- `w := d.w`: the descriptor of generation g
  | wrote (ok : Bool)       -- Fprint has returned (nil / error); the read lock is still held
  | ok                      -- transport.Send returned nil: the message is ACKNOWLEDGED
  | failed                  -- transport.Send returned an error
  deriving Repr, DecidableEq, Inhabited

inductive HPc where
  | waiting                 -- in `select { case <-c: … }`
  | locked                  -- d.lock.Lock() taken
  | closedOld               -- d.file.Close() done
  | reopened (ok : Bool)    -- d.openFile() returned
  | exited                  -- `if err != nil { return }`
  deriving Repr, DecidableEq, Inhabited

/-- variants of the code: Go is `⟨true, false⟩` -/
structure Variant where
  handlerExitsOnError : Bool     -- the handler goroutine returns after a failed reopen (Go: true)
  swallowClosed : Bool           -- the wrapper turns a driver error into nil (seeded change C19-10; Go: false)
  deriving Repr, DecidableEq, Inhabited

def go : Variant := ⟨true, false⟩

structure St where
  cur : Nat                       -- generation of the descriptor d.w / d.file point to
  closed : List Nat               -- generations whose descriptor has been closed
  out : List (Nat × Tok)          -- what the files contain: (generation, token), in write order
  log : List (Nat × Nat)          -- ghost: (generation, message) of every successful write
  senders : List SPc
  handler : HPc
  deriving Repr, DecidableEq, Inhabited

inductive Ev where
  | send (i : Nat)                -- sender i does its next statement
  | hupLock | hupClose | hupOpen (ok : Bool) | hupUnlock
  deriving Repr, DecidableEq, Inhabited

def init (n : Nat) : St := ⟨0, [], [], [], List.replicate n .idle, .waiting⟩

def holdsR : SPc → Bool
  | .rlocked | .picked _ | .wrote _ => true
  | _ => false

def holdsW : HPc → Bool
  | .locked | .closedOld | .reopened _ => true
  | _ => false

/-- transport.Send: the error the caller sees, given whether the driver returned one -/
def wrapperSend (v : Variant) (driverErr : Bool) : Bool := if v.swallowClosed then false else driverErr

def step (v : Variant) (st : St) : Ev → St
  | .send i =>
    match st.senders[i]? with
    | some .idle => if holdsW st.handler then st else { st with senders := st.senders.set i .rlocked }
    | some .rlocked => { st with senders := st.senders.set i (.picked st.cur) }
    | some (.picked g) =>
      if st.closed.contains g then { st with senders := st.senders.set i (.wrote false) }
      else { st with out := st.out ++ (unit i).map (fun t => (g, t)), log := st.log ++ [(g, i)],
                     senders := st.senders.set i (.wrote true) }
    | some (.wrote ok) =>
      { st with senders := st.senders.set i (if wrapperSend v (!ok) then .failed else .ok) }
    | _ => st
  | .hupLock =>
    match st.handler with
    | .waiting => if st.senders.all (fun p => !holdsR p) then { st with handler := .locked } else st
    | _ => st
  | .hupClose =>
    match st.handler with
    | .locked => { st with closed := st.cur :: st.closed, handler := .closedOld }
    | _ => st
  | .hupOpen ok =>
    match st.handler with
    | .closedOld => if ok then { st with cur := st.cur + 1, handler := .reopened true } else { st with handler := .reopened false }
    | _ => st
  | .hupUnlock =>
    match st.handler with
    | .reopened ok => { st with handler := if !ok && v.handlerExitsOnError then .exited else .waiting }
    | _ => st

def run (v : Variant) (st : St) : List Ev → St
  | [] => st
  | e :: rest => run v (step v st e) rest

/-- the messages of the file of generation g, in write order (ghost) -/
def fileOf (st : St) (g : Nat) : List Nat := (st.log.filter fun e => e.1 == g).map (·.2)

/-- the tokens the file of generation g contains -/
def fileToks (st : St) (g : Nat) : List Tok := (st.out.filter fun e => e.1 == g).map (·.2)

/-- everything written (ghost) -/
def written (st : St) : List Nat := st.log.map (·.2)

/-- a whole rotation as the handler performs it -/
def rotation (ok : Bool) : List Ev := [.hupLock, .hupClose, .hupOpen ok, .hupUnlock]

/-- a whole Send of sender i -/
def fullSend (i : Nat) : List Ev := [.send i, .send i, .send i, .send i]

end Goflow.Conc.FileTransportFaults
