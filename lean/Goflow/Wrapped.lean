import Goflow.Pipe
/-!
  cmd/goflow2/main.go: the two panic wrappers the collector puts around the pipes of utils/pipe.go.

  * main.go:157  `flowProducer = debug.WrapPanicProducer(flowProducer)` — utils/debug/producer.go:33-44:
    `Produce` runs the wrapped `Produce` under a deferred `recover()`; when a panic is caught the named
    results are `flowMessageSet = nil` (the assignment of line 42 never happened) and
    `err = &PanicErrorMessage{…}`, for which `errors.Is(err, debug.PanicError)` holds
    (utils/debug/debug.go:79). Everything a conversion does runs inside that call
    (producer/proto/proto.go:50-93: getSamplingRateSystem, ProcessMessage…Config — ConvertNetFlowDataSet,
    MapCustom, ParsePacket, GetBytes —, enrich).
  * main.go:310-312  `decodeFunc = debug.PanicDecoderWrapper(p.DecodeFlow)` — utils/debug/decoder.go:9-20:
    the same `recover()` around the whole of `DecodeFlow` (decoders, template store, Produce, Format, Send).
  * utils/udp.go:243-247: the worker hands the returned error to `logError` (a non-blocking send) and takes
    the next datagram from the queue.

  What survives a recovered panic is what had been written before it:
  * utils/pipe.go:154-167 registered the exporter's template system and :187/:196 decoded the datagram
    into it (AddTemplate writes through the shared object) before `Produce` is called at :223-227 — the
    templates of the datagram stay learned;
  * proto.go:62/70 `getSamplingRateSystem` registered the (possibly empty) sampling-rate system of the
    exporter address before the conversion; in ProcessMessageIPFIXConfig / ProcessMessageNetFlowV9Config
    (producer_nf.go:734-814) `SearchNetFlowDataSets` (:747 / :789) — the only place a mapping can panic:
    MapCustom at reflect.go:115, ParsePacket at producer_nf.go:633 with GetBytes / MapCustom at
    producer_packet.go:435-436 — runs BEFORE `SearchNetFlowOptionDataSets` (:752 / :793) and
    `AddSamplingRate` (:758 / :799), so a datagram whose conversion panics never updates a sampling
    rate, not even when it carries sampling options; for sFlow (producer_sf.go:34) there is no state at all;
  * pipe.go:229 `defer p.producer.Commit(flowMessageSet)` evaluates its argument when the `defer`
    statement runs, i.e. after `Produce` returned `nil`: the messages taken from the pool before the
    panic are not put back (they are garbage), nothing is formatted or sent (:230-232 returns the
    error). The message pool is not part of the model (every message starts from Reset()).

  `Pipe.netflowPipe` returns, on a conversion error `e`, the state `(st.setTemplates src o.store).setRates
  src.ip r.rates` with `r.rates` the rates it was given (`processNetflow` returns its input rates on every
  error). For `e = panic` this is exactly the list above: templates of the datagram, exporter address
  registered with unchanged rates. So the state component of the existing model needs no correction;
  `Proofs/C01Any.lean` proves that the structural definition below agrees with it (`decodeFlowW_eq`).

  The wrappers are modelled where they sit, not as a post-processing of `Pipe.decodeFlow`: the pipes are
  re-stated over an abstract producer (`ProducerI`, the model of `producer.ProducerInterface`), the producer
  wrapper is a function `ProducerI → ProducerI`, the decoder wrapper a function on the outcome of the pipe.
-/
namespace Goflow.Wrapped
open Goflow Goflow.Producer Goflow.Pipe

/-- outcome classes seen by the worker of utils/udp.go (the error value `decodeFunc` returns) -/
inductive ErrW where
  | eof | bad | tnf        -- returned errors of the pipe, passed through by both wrappers
  | recovered              -- `errors.Is(err, debug.PanicError)`: a panic caught by one of the wrappers
  | panic                  -- a panic that unwinds through the caller (kills the process)
  | diverge                -- fuel exhausted: the call would not return; `recover()` cannot help
  deriving DecidableEq, Repr, Inhabited

def ErrW.ofErr : Err → ErrW
  | .eof => .eof | .bad => .bad | .tnf => .tnf | .panic => .panic | .diverge => .diverge

/-- the deferred `if pErr := recover(); pErr != nil { err = &PanicErrorMessage{…} }` -/
def ErrW.recover : ErrW → ErrW
  | .panic => .recovered
  | e => e

structure ProduceOutW where
  msgs : List FlowMsg
  rates : Rates
  err : Option ErrW
  deriving Inhabited

/-- `producer.ProducerInterface.Produce`, by dynamic type of the decoded packet (proto.go:53-87). The
    enrich callbacks (receive time, sampler address) are total and are applied by the pipe below, as in
    `Goflow.Pipe`. -/
structure ProducerI where
  legacy : V5.Packet → Except ErrW (List FlowMsg)
  netflow : Netflow.Packet → Rates → ProduceOutW
  sflow : Sflow.Packet → Except ErrW (List FlowMsg)

/-- `*ProtoProducer` with the compiled configuration `cfg` -/
def plain (cfg : Config) : ProducerI where
  legacy p := .ok (processLegacy p)
  netflow p rates :=
    let r := processNetflow (some cfg) p rates
    ⟨r.msgs, r.rates, r.err.map ErrW.ofErr⟩
  sflow p :=
    match processSflow (some cfg) p with
    | .error e => .error (ErrW.ofErr e)
    | .ok ms => .ok ms

/-- a producer whose conversion always fails with a returned error and touches nothing: the reference
    for "what the decode step alone leaves behind" -/
def failing : ProducerI where
  legacy _ := .error .bad
  netflow _ rates := ⟨[], rates, some .bad⟩
  sflow _ := .error .bad

/-- `debug.WrapPanicProducer` (utils/debug/producer.go:33-44). After a recovered panic the message set
    is nil; the sampling rates are whatever the wrapped call had written when it panicked. -/
def wrapProducer (P : ProducerI) : ProducerI where
  legacy p :=
    match P.legacy p with
    | .error e => .error e.recover
    | .ok ms => .ok ms
  netflow p rates :=
    let r := P.netflow p rates
    match r.err with
    | some .panic => ⟨[], r.rates, some .recovered⟩
    | _ => r
  sflow p :=
    match P.sflow p with
    | .error e => .error e.recover
    | .ok ms => .ok ms

structure OutW where
  state : State
  msgs : List FlowMsg        -- in the order handed to format + transport
  err : Option ErrW
  deriving Inhabited

/-- NetFlowPipe.DecodeFlow (utils/pipe.go:145-238) over a producer; line for line `Pipe.netflowPipe` -/
def netflowPipeWith (P : ProducerI) (st : State) (src : Src) (recvNs : Nat) (payload : Bytes) : OutW :=
  let tpl := st.templatesOf src
  let st := st.setTemplates src tpl
  match readU 2 payload with
  | .error e => ⟨st, [], some (.ofErr e)⟩
  | .ok (version, b) =>
    let sa := unmap src.ip
    if version = 5 then
      match V5.decodeMessage b with
      | .error e => ⟨st, [], some (.ofErr e)⟩
      | .ok p =>
        match P.legacy p with
        | .error e => ⟨st, [], some e⟩
        | .ok ms => ⟨st, ms.map (stampRecv recvNs sa), none⟩
    else if version = 9 ∨ version = 10 then
      let o := if version = 9 then Netflow.decodeMessageNetFlow tpl b else Netflow.decodeMessageIPFIX tpl b
      let st := st.setTemplates src o.store
      match o.err with
      | some e => ⟨st, [], some (.ofErr e)⟩
      | none =>
        let r := P.netflow o.packet (st.ratesOf src.ip)
        let st := st.setRates src.ip r.rates
        match r.err with
        | some e => ⟨st, [], some e⟩
        | none => ⟨st, r.msgs.map (stampRecv recvNs sa), if o.tnf then some .tnf else none⟩
    else ⟨st, [], some .bad⟩

/-- SFlowPipe.DecodeFlow (utils/pipe.go:105-134) -/
def sflowPipeWith (P : ProducerI) (st : State) (recvNs : Nat) (payload : Bytes) : OutW :=
  match Sflow.decodeMessageVersion payload with
  | .error e => ⟨st, [], some (.ofErr e)⟩
  | .ok p =>
    match P.sflow p with
    | .error e => ⟨st, [], some e⟩
    | .ok ms => ⟨st, ms.map (stampSflow recvNs), none⟩

/-- AutoFlowPipe.DecodeFlow (utils/pipe.go:261-280) -/
def autoPipeWith (P : ProducerI) (st : State) (src : Src) (recvNs : Nat) (payload : Bytes) : OutW :=
  match readU 4 payload with
  | .error e => ⟨st, [], some (.ofErr e)⟩
  | .ok (proto, _) =>
    let nf := proto / 65536
    if proto = 5 then sflowPipeWith P st recvNs payload
    else if nf = 5 ∨ nf = 9 ∨ nf = 10 then netflowPipeWith P st src recvNs payload
    else ⟨st, [], some .bad⟩

def pipeWith (P : ProducerI) (k : Kind) (st : State) (src : Src) (recvNs : Nat) (payload : Bytes) : OutW :=
  match k with
  | .netflow => netflowPipeWith P st src recvNs payload
  | .sflow => sflowPipeWith P st recvNs payload
  | .auto => autoPipeWith P st src recvNs payload

/-- `debug.PanicDecoderWrapper` (utils/debug/decoder.go:9-20) applied to the outcome of `DecodeFlow`:
    whatever the pipe had written to its maps stays written; the error becomes a `*PanicErrorMessage`. -/
def recoverOut (o : OutW) : OutW :=
  match o.err with
  | some .panic => ⟨o.state, [], some .recovered⟩
  | _ => o

/-- the pipe as main.go builds it, before the decoder wrapper: `Producer: debug.WrapPanicProducer(…)` -/
def decodeFlowP (k : Kind) (cfg : Config) (st : State) (src : Src) (recvNs : Nat) (payload : Bytes) : OutW :=
  pipeWith (wrapProducer (plain cfg)) k st src recvNs payload

/-- **the decode function the UDP workers call** (main.go:310-312 over main.go:157): both wrappers -/
def decodeFlowW (k : Kind) (cfg : Config) (st : State) (src : Src) (recvNs : Nat) (payload : Bytes) : OutW :=
  recoverOut (decodeFlowP k cfg st src recvNs payload)

/-- the same datagram through a pipe whose producer refuses every packet: the state it leaves is the
    work of the decode step alone (exporter registered, templates learned, no sampling rate written).
    Independent of the configuration. -/
def decodeFlowF (k : Kind) (st : State) (src : Src) (recvNs : Nat) (payload : Bytes) : OutW :=
  pipeWith failing k st src recvNs payload

/-- the simple description of the wrapper layer: the outcome of `Pipe.decodeFlow` with `panic` turned
    into `recovered` (and no messages) -/
def wrapOut (o : Out) : OutW :=
  ⟨o.state, if o.err = some .panic then [] else o.msgs, o.err.map fun e => (ErrW.ofErr e).recover⟩

/-- a history of datagrams, each through its own kind of pipe, the state threaded by the wrapped
    decode function. In main.go every listen address has its own pipe object (own template map) and all
    share the producer (sampling rates); one `State` threaded through entries of all kinds is the more
    general situation (an `AutoFlowPipe` is exactly that), and every theorem about histories holds for
    every start state. -/
def runW (cfg : Config) (st : State) (hist : List (Kind × Src × Nat × Bytes)) : State :=
  hist.foldl (fun s h => (decodeFlowW h.1 cfg s h.2.1 h.2.2.1 h.2.2.2).state) st

/-- canonical first line of the `pktw` op (datagram through the real wrappers): as `pkt`, with the class
    `err:recovered` for `errors.Is(err, debug.PanicError)` -/
def resLineW : Option ErrW → String
  | none => "res ok"
  | some .eof => "res err"
  | some .bad => "res err"
  | some .tnf => "res err:template-not-found"
  | some .recovered => "res err:recovered"
  | some .panic => "res panic"
  | some .diverge => "res timeout"

end Goflow.Wrapped
