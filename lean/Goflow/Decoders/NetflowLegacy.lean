import Goflow.Basic.Fields
import Goflow.Basic.Dump
/-!
  Model of decoders/netflowlegacy (NetFlow v5): DecodeMessageVersion / DecodeMessage.
-/
namespace Goflow.V5

structure Header where
  count : Nat
  sysUptime : Nat
  unixSecs : Nat
  unixNSecs : Nat
  flowSequence : Nat
  engineType : Nat
  engineId : Nat
  samplingInterval : Nat
  deriving Repr, DecidableEq, Inhabited

def Header.widths : List Nat := [2, 4, 4, 4, 4, 1, 1, 2]
def Header.toList (h : Header) : List Nat :=
  [h.count, h.sysUptime, h.unixSecs, h.unixNSecs, h.flowSequence, h.engineType, h.engineId, h.samplingInterval]
def Header.ofList : List Nat → Option Header
  | [a, b, c, d, e, f, g, h] => some ⟨a, b, c, d, e, f, g, h⟩
  | _ => none

structure Record where
  srcAddr : Nat
  dstAddr : Nat
  nextHop : Nat
  input : Nat
  output : Nat
  dPkts : Nat
  dOctets : Nat
  first : Nat
  last : Nat
  srcPort : Nat
  dstPort : Nat
  pad1 : Nat
  tcpFlags : Nat
  proto : Nat
  tos : Nat
  srcAS : Nat
  dstAS : Nat
  srcMask : Nat
  dstMask : Nat
  pad2 : Nat
  deriving Repr, DecidableEq, Inhabited

def Record.widths : List Nat := [4, 4, 4, 2, 2, 4, 4, 4, 4, 2, 2, 1, 1, 1, 1, 2, 2, 1, 1, 2]
def Record.toList (r : Record) : List Nat :=
  [r.srcAddr, r.dstAddr, r.nextHop, r.input, r.output, r.dPkts, r.dOctets, r.first, r.last,
   r.srcPort, r.dstPort, r.pad1, r.tcpFlags, r.proto, r.tos, r.srcAS, r.dstAS, r.srcMask, r.dstMask, r.pad2]
def Record.ofList : List Nat → Option Record
  | [a, b, c, d, e, f, g, h, i, j, k, l, m, n, o, p, q, r, s, t] =>
    some ⟨a, b, c, d, e, f, g, h, i, j, k, l, m, n, o, p, q, r, s, t⟩
  | _ => none

structure Packet where
  version : Nat
  header : Header
  records : List Record
  deriving Repr, DecidableEq, Inhabited

/-- one iteration body of the record loop: the 20-field BinaryDecoder call -/
def readRecord (b : Bytes) : Res (Record × Bytes) :=
  match readFields Record.widths b with
  | .error e => .error e
  | .ok (vs, b') =>
    match Record.ofList vs with
    | some r => .ok (r, b')
    | none => .error .panic        -- unreachable: readFields returns |widths| values

/-- `for i := 0; i < Count && payload.Len() >= 48; i++ { … }` — structural in the remaining count.
    Returns the records that were actually read. -/
def readRecords : Nat → Bytes → Res (List Record)
  | 0, _ => .ok []
  | n + 1, b =>
    if 48 ≤ b.length then
      match readRecord b with
      | .error e => .error e
      | .ok (r, b') =>
        match readRecords n b' with
        | .error e => .error e
        | .ok rs => .ok (r :: rs)
    else .ok []

/-- netflowlegacy.DecodeMessage (the version has been consumed by the caller).
    The Records slice holds exactly the records read (after the `fix:` commit). -/
def decodeMessage (b : Bytes) : Res Packet :=
  match readFields Header.widths b with
  | .error e => .error e
  | .ok (vs, b') =>
    match Header.ofList vs with
    | none => .error .panic
    | some h =>
      match readRecords h.count b' with
      | .error e => .error e
      | .ok rs => .ok ⟨5, h, rs⟩

/-- netflowlegacy.DecodeMessageVersion -/
def decodeMessageVersion (b : Bytes) : Res Packet :=
  match readU 2 b with
  | .error e => .error e
  | .ok (v, b') => if v ≠ 5 then .error .bad else decodeMessage b'

/-- The pinned-tree behaviour (before the fix): `Records` is pre-sized from `Count`, so the
    slots that were never filled stay as zero records. Kept for Proofs/Findings. -/
def zeroRecord : Record := ⟨0,0,0,0,0,0,0,0,0,0,0,0,0,0,0,0,0,0,0,0⟩
def decodeMessage_pinned (b : Bytes) : Res Packet :=
  match decodeMessage b with
  | .error e => .error e
  | .ok p => .ok { p with records := p.records ++ List.replicate (p.header.count - p.records.length) zeroRecord }

def Header.names : List String :=
  ["Count", "SysUptime", "UnixSecs", "UnixNSecs", "FlowSequence", "EngineType", "EngineId", "SamplingInterval"]
def Record.names : List String :=
  ["SrcAddr", "DstAddr", "NextHop", "Input", "Output", "DPkts", "DOctets", "First", "Last", "SrcPort",
   "DstPort", "Pad1", "TCPFlags", "Proto", "Tos", "SrcAS", "DstAS", "SrcMask", "DstMask", "Pad2"]

def Record.toD (r : Record) : D := D.named "RecordsNetFlowV5" Record.names (r.toList.map D.n)
def Packet.toD (p : Packet) : D :=
  .s "PacketNetFlowV5" ((("Version", D.n p.version) :: Header.names.zip (p.header.toList.map D.n))
     ++ [("Records", D.l (p.records.map Record.toD))])

end Goflow.V5
