import Goflow.Basic.Fields
import Goflow.Basic.Dump
/-!
  Model of decoders/netflow (NetFlow v9 / IPFIX): netflow.go, templates.go, packet.go.

  Conventions (DESIGN.md §6): `payload.Next(n)` is `nextN` (returns fewer bytes when short),
  BinaryRead is `readU`/`readFields` (fails with `eof` when short). Loops whose termination is
  not structural take `fuel`; running out of fuel is the outcome `diverge`.
-/
namespace Goflow.Netflow

structure Field where
  penProvided : Bool
  type : Nat
  length : Nat
  pen : Nat
  deriving Repr, DecidableEq, Inhabited

structure TemplateRecord where
  templateId : Nat
  fieldCount : Nat
  fields : List Field
  deriving Repr, DecidableEq, Inhabited

structure NFv9OptionsTemplateRecord where
  templateId : Nat
  scopeLength : Nat
  optionLength : Nat
  scopes : List Field
  options : List Field
  deriving Repr, DecidableEq, Inhabited

structure IPFIXOptionsTemplateRecord where
  templateId : Nat
  fieldCount : Nat
  scopeFieldCount : Nat
  options : List Field
  scopes : List Field
  deriving Repr, DecidableEq, Inhabited

/-- what the template system stores (`interface{}` with three dynamic types) -/
inductive Template where
  | data (r : TemplateRecord)
  | v9opts (r : NFv9OptionsTemplateRecord)
  | ipfixopts (r : IPFIXOptionsTemplateRecord)
  deriving Repr, DecidableEq, Inhabited

/-- `Value interface{}`: `none` is the nil interface of a DataField that was never filled -/
structure DataField where
  penProvided : Bool
  type : Nat
  pen : Nat
  value : Option Bytes
  deriving Repr, DecidableEq, Inhabited

structure DataRecord where
  values : List DataField
  deriving Repr, DecidableEq, Inhabited

structure OptionsDataRecord where
  scopesValues : List DataField
  optionsValues : List DataField
  deriving Repr, DecidableEq, Inhabited

inductive FlowSet where
  | template (id len : Nat) (records : List TemplateRecord)
  | v9opts (id len : Nat) (records : List NFv9OptionsTemplateRecord)
  | ipfixopts (id len : Nat) (records : List IPFIXOptionsTemplateRecord)
  | data (id len : Nat) (records : List DataRecord)
  | optsData (id len : Nat) (records : List OptionsDataRecord)
  | raw (id len : Nat) (bytes : Bytes)
  deriving Repr, DecidableEq, Inhabited

/-- NFv9Packet / IPFIXPacket. `hdr` are the header fields after the version, in wire order:
    v9: count, systemUptime, unixSeconds, sequenceNumber, sourceId;
    IPFIX: length, exportTime, sequenceNumber, observationDomainId. -/
structure Packet where
  version : Nat
  hdr : List Nat
  flowSets : List FlowSet
  deriving Repr, DecidableEq, Inhabited

/-! ### template store (templates.go: BasicTemplateSystem) -/

/-- `templateKey`: (version << 48) | (obsDomainId << 16) | templateId on uint64 -/
def templateKey (version obsDomainId templateId : Nat) : Nat :=
  version * 2 ^ 48 + obsDomainId * 2 ^ 16 + templateId

/-- map[uint64]interface{} as an association list without duplicate keys -/
abbrev Store := List (Nat × Template)

def Store.get (s : Store) (k : Nat) : Option Template := s.lookup k
def Store.add (s : Store) (k : Nat) (t : Template) : Store := (k, t) :: s.filter (fun e => e.1 != k)

/-! ### template sets -/

/-- DecodeTemplateSet inner loop over `FieldCount` fields (structural in the count) -/
def decodeTemplateFields (version : Nat) : Nat → Bytes → Res (List Field × Bytes)
  | 0, b => .ok ([], b)
  | n + 1, b =>
    match readFields [2, 2] b with
    | .error e => .error e
    | .ok (vs, b1) =>
      match vs with
      | [t, l] =>
        if version = 10 ∧ t ≥ 0x8000 then
          match readU 4 b1 with
          | .error e => .error e
          | .ok (pen, b2) =>
            match decodeTemplateFields version n b2 with
            | .error e => .error e
            | .ok (fs, b3) => .ok (⟨true, t - 0x8000, l, pen⟩ :: fs, b3)
        else
          match decodeTemplateFields version n b1 with
          | .error e => .error e
          | .ok (fs, b3) => .ok (⟨false, t, l, 0⟩ :: fs, b3)
      | _ => .error .panic

/-- DecodeTemplateSet: `for payload.Len() >= 4 { … }` -/
def decodeTemplateSet (version : Nat) : Nat → Bytes → Res (List TemplateRecord)
  | 0, _ => .error .diverge
  | fuel + 1, b =>
    if 4 ≤ b.length then
      match readFields [2, 2] b with
      | .error e => .error e
      | .ok (vs, b1) =>
        match vs with
        | [tid, fc] =>
          match decodeTemplateFields version fc b1 with
          | .error e => .error e
          | .ok (fs, b2) =>
            match decodeTemplateSet version fuel b2 with
            | .error e => .error e
            | .ok rs => .ok (⟨tid, fc, fs⟩ :: rs)
        | _ => .error .panic
    else .ok []

/-- DecodeField(payload, &field, pen): the enterprise bit is cleared from the element id
    (after the `fix:` commit; the pinned tree left it set). -/
def decodeField (pen : Bool) (b : Bytes) : Res (Field × Bytes) :=
  match readFields [2, 2] b with
  | .error e => .error e
  | .ok (vs, b1) =>
    match vs with
    | [t, l] =>
      if pen ∧ t ≥ 0x8000 then
        match readU 4 b1 with
        | .error e => .error e
        | .ok (p, b2) => .ok (⟨true, t - 0x8000, l, p⟩, b2)
      else .ok (⟨false, t, l, 0⟩, b1)
    | _ => .error .panic

def decodeFieldsN (pen : Bool) : Nat → Bytes → Res (List Field × Bytes)
  | 0, b => .ok ([], b)
  | n + 1, b =>
    match decodeField pen b with
    | .error e => .error e
    | .ok (f, b1) =>
      match decodeFieldsN pen n b1 with
      | .error e => .error e
      | .ok (fs, b2) => .ok (f :: fs, b2)

/-- DecodeNFv9OptionsTemplateSet -/
def decodeNFv9OptionsTemplateSet : Nat → Bytes → Res (List NFv9OptionsTemplateRecord)
  | 0, _ => .error .diverge
  | fuel + 1, b =>
    if 4 ≤ b.length then
      match readFields [2, 2, 2] b with
      | .error e => .error e
      | .ok (vs, b1) =>
        match vs with
        | [tid, sl, ol] =>
          match decodeFieldsN false (sl / 4) b1 with
          | .error e => .error e
          | .ok (scopes, b2) =>
            match decodeFieldsN false (ol / 4) b2 with
            | .error e => .error e
            | .ok (opts, b3) =>
              match decodeNFv9OptionsTemplateSet fuel b3 with
              | .error e => .error e
              | .ok rs => .ok (⟨tid, sl, ol, scopes, opts⟩ :: rs)
        | _ => .error .panic
    else .ok []

/-- DecodeIPFIXOptionsTemplateSet -/
def decodeIPFIXOptionsTemplateSet : Nat → Bytes → Res (List IPFIXOptionsTemplateRecord)
  | 0, _ => .error .diverge
  | fuel + 1, b =>
    if 4 ≤ b.length then
      match readFields [2, 2, 2] b with
      | .error e => .error e
      | .ok (vs, b1) =>
        match vs with
        | [tid, fc, sfc] =>
          match decodeFieldsN true sfc b1 with
          | .error e => .error e
          | .ok (scopes, b2) =>
            if fc < sfc then .error .bad else
            match decodeFieldsN true (fc - sfc) b2 with
            | .error e => .error e
            | .ok (opts, b3) =>
              match decodeIPFIXOptionsTemplateSet fuel b3 with
              | .error e => .error e
              | .ok rs => .ok (⟨tid, fc, sfc, opts, scopes⟩ :: rs)
        | _ => .error .panic
    else .ok []

/-! ### data sets -/

/-- GetTemplateSize: the smallest number of bytes one record can occupy. A variable-length
    field (length 0xffff) occupies at least its one-byte length prefix (after the `fix:` commit;
    the pinned tree counted 0 for it). -/
def templateSize (fields : List Field) : Nat :=
  (fields.map fun f => if f.length = 0xffff then 1 else f.length).foldr (· + ·) 0

def templateSize_pinned (fields : List Field) : Nat :=
  (fields.map fun f => if f.length = 0xffff then 0 else f.length).foldr (· + ·) 0

/-- the field loop of DecodeDataSetUsingFields -/
def decodeFieldValues : List Field → Bytes → Res (List DataField × Bytes)
  | [], b => .ok ([], b)
  | f :: fs, b =>
    let lenRes : Res (Nat × Bytes) :=
      if f.length = 0xffff then
        match readU 1 b with
        | .error e => .error e
        | .ok (l8, b1) =>
          if l8 = 0xff then readU 2 b1 else .ok (l8, b1)
      else .ok (f.length, b)
    match lenRes with
    | .error e => .error e
    | .ok (n, b1) =>
      let (v, b2) := nextN n b1
      match decodeFieldValues fs b2 with
      | .error e => .error e
      | .ok (dfs, b3) => .ok (⟨f.penProvided, f.type, f.pen, some v⟩ :: dfs, b3)

/-- the zero DataField of `make([]DataField, n)` -/
def zeroDataField : DataField := ⟨false, 0, 0, none⟩

/-- DecodeDataSetUsingFields -/
def decodeDataSetUsingFields (fields : List Field) (b : Bytes) : Res (List DataField × Bytes) :=
  if templateSize fields ≤ b.length then decodeFieldValues fields b
  else .ok (List.replicate fields.length zeroDataField, b)

/-- DecodeDataSet: `for payload.Len() >= listFieldsSize { … }`; a template whose records
    occupy no bytes is rejected (after the `fix:` commit; the pinned tree looped forever). -/
def decodeDataSetLoop (fields : List Field) : Nat → Bytes → Res (List DataRecord)
  | 0, _ => .error .diverge
  | fuel + 1, b =>
    if templateSize fields ≤ b.length then
      match decodeDataSetUsingFields fields b with
      | .error e => .error e
      | .ok (vs, b1) =>
        match decodeDataSetLoop fields fuel b1 with
        | .error e => .error e
        | .ok rs => .ok (⟨vs⟩ :: rs)
    else .ok []

def decodeDataSet (fields : List Field) (fuel : Nat) (b : Bytes) : Res (List DataRecord) :=
  if templateSize fields = 0 then .error .bad else decodeDataSetLoop fields fuel b

/-- DecodeOptionsDataSet -/
def decodeOptionsDataSetLoop (scopes options : List Field) : Nat → Bytes → Res (List OptionsDataRecord)
  | 0, _ => .error .diverge
  | fuel + 1, b =>
    if templateSize scopes + templateSize options ≤ b.length then
      match decodeDataSetUsingFields scopes b with
      | .error e => .error e
      | .ok (sv, b1) =>
        match decodeDataSetUsingFields options b1 with
        | .error e => .error e
        | .ok (ov, b2) =>
          match decodeOptionsDataSetLoop scopes options fuel b2 with
          | .error e => .error e
          | .ok rs => .ok (⟨sv, ov⟩ :: rs)
    else .ok []

def decodeOptionsDataSet (scopes options : List Field) (fuel : Nat) (b : Bytes) : Res (List OptionsDataRecord) :=
  if templateSize scopes + templateSize options = 0 then .error .bad
  else decodeOptionsDataSetLoop scopes options fuel b

/-! ### sets and messages -/

def addTemplates (version dom : Nat) (s : Store) : List (Nat × Template) → Store
  | [] => s
  | (tid, t) :: rest => addTemplates version dom (s.add (templateKey version dom tid) t) rest

/-- Outcome of one DecodeMessageCommonFlowSet call: the flow set (if any), whether the error
    is "template not found", the store afterwards and the rest of the payload.
    A fatal error is `Except.error`. -/
structure SetOut where
  flowSet : FlowSet
  tnf : Bool
  store : Store
  rest : Bytes

/-- DecodeMessageCommonFlowSet -/
def decodeFlowSet (fuel version dom : Nat) (s : Store) (b : Bytes) : Res SetOut :=
  match readFields [2, 2] b with
  | .error e => .error e
  | .ok (vs, b1) =>
    match vs with
    | [id, len] =>
      if len < 4 then .error .bad else
      let (body, rest) := nextN (len - 4) b1
      if id = 0 ∧ version = 9 ∨ id = 2 ∧ version = 10 then
        match decodeTemplateSet version fuel body with
        | .error e => .error e
        | .ok rs => .ok ⟨.template id len rs, false,
            addTemplates version dom s (rs.map fun r => (r.templateId, Template.data r)), rest⟩
      else if id = 1 ∧ version = 9 then
        match decodeNFv9OptionsTemplateSet fuel body with
        | .error e => .error e
        | .ok rs => .ok ⟨.v9opts id len rs, false,
            addTemplates version dom s (rs.map fun r => (r.templateId, Template.v9opts r)), rest⟩
      else if id = 3 ∧ version = 10 then
        match decodeIPFIXOptionsTemplateSet fuel body with
        | .error e => .error e
        | .ok rs => .ok ⟨.ipfixopts id len rs, false,
            addTemplates version dom s (rs.map fun r => (r.templateId, Template.ipfixopts r)), rest⟩
      else if id ≥ 256 then
        match s.get (templateKey version dom id) with
        | none => .ok ⟨.raw id len body, true, s, rest⟩
        | some (.data t) =>
          match decodeDataSet t.fields fuel body with
          | .error e => .error e
          | .ok rs => .ok ⟨.data id len rs, false, s, rest⟩
        | some (.ipfixopts t) =>
          match decodeOptionsDataSet t.scopes t.options fuel body with
          | .error e => .error e
          | .ok rs => .ok ⟨.optsData id len rs, false, s, rest⟩
        | some (.v9opts t) =>
          match decodeOptionsDataSet t.scopes t.options fuel body with
          | .error e => .error e
          | .ok rs => .ok ⟨.optsData id len rs, false, s, rest⟩
      else .error .bad
    | _ => .error .panic

/-- Result of a whole message: flow sets decoded, whether a template-not-found error was
    joined, and the store afterwards. On a fatal error the store still carries the templates
    of the sets decoded before it (`err` = some class). -/
structure MsgOut where
  flowSets : List FlowSet
  tnf : Bool
  store : Store
  err : Option Err
  deriving Inhabited

/-- DecodeMessageCommon. `i` counts iterations (v9: `i < size`), `startLen` is the payload
    length at entry (`read = startLen - len`, compared as uint16 for IPFIX). -/
def decodeSets (version dom size startLen : Nat) : Nat → Nat → Store → Bytes → MsgOut
  | 0, _, s, _ => ⟨[], false, s, some .diverge⟩
  | fuel + 1, i, s, b =>
    let read := startLen - b.length
    if ((i < size ∧ version = 9) ∨ (read % 65536 < size ∧ version = 10)) ∧ 0 < b.length then
      match decodeFlowSet (b.length + 2) version dom s b with
      | .error e => ⟨[], false, s, some e⟩
      | .ok o =>
        let r := decodeSets version dom size startLen fuel (i + 1) o.store o.rest
        ⟨o.flowSet :: r.flowSets, o.tnf || r.tnf, r.store, r.err⟩
    else ⟨[], false, s, none⟩

structure DecodeOut where
  packet : Packet
  tnf : Bool
  store : Store
  err : Option Err
  deriving Inhabited

/-- DecodeMessageNetFlow (version consumed by the caller) -/
def decodeMessageNetFlow (s : Store) (b : Bytes) : DecodeOut :=
  match readFields [2, 4, 4, 4, 4] b with
  | .error e => ⟨⟨9, [], []⟩, false, s, some e⟩
  | .ok (vs, b1) =>
    match vs with
    | [count, _, _, _, sourceId] =>
      let r := decodeSets 9 sourceId count b1.length (b1.length + 2) 0 s b1
      ⟨⟨9, vs, r.flowSets⟩, r.tnf, r.store, r.err⟩
    | _ => ⟨⟨9, [], []⟩, false, s, some .panic⟩

/-- DecodeMessageIPFIX: size = uint16(Length - 16) -/
def decodeMessageIPFIX (s : Store) (b : Bytes) : DecodeOut :=
  match readFields [2, 4, 4, 4] b with
  | .error e => ⟨⟨10, [], []⟩, false, s, some e⟩
  | .ok (vs, b1) =>
    match vs with
    | [length, _, _, dom] =>
      let size := (length + 65536 - 16) % 65536
      let r := decodeSets 10 dom size b1.length (b1.length + 2) 0 s b1
      ⟨⟨10, vs, r.flowSets⟩, r.tnf, r.store, r.err⟩
    | _ => ⟨⟨10, [], []⟩, false, s, some .panic⟩

/-- DecodeMessageVersion -/
def decodeMessageVersion (s : Store) (b : Bytes) : DecodeOut :=
  match readU 2 b with
  | .error e => ⟨⟨0, [], []⟩, false, s, some e⟩
  | .ok (v, b1) =>
    if v = 9 then decodeMessageNetFlow s b1
    else if v = 10 then decodeMessageIPFIX s b1
    else ⟨⟨v, [], []⟩, false, s, some .bad⟩

/-- the error class the Go caller sees: a fatal error wins, otherwise the joined template-not-found -/
def DecodeOut.outcome (o : DecodeOut) : Option Err :=
  match o.err with
  | some e => some e
  | none => if o.tnf then some .tnf else none

/-! ### canonical dump -/

def Field.toD (f : Field) : D :=
  .s "Field" [("PenProvided", .b f.penProvided), ("Type", .n f.type), ("Length", .n f.length), ("Pen", .n f.pen)]

def DataField.toD (f : DataField) : D :=
  .s "DataField" [("PenProvided", .b f.penProvided), ("Type", .n f.type), ("Pen", .n f.pen),
    ("Value", match f.value with | some v => .h v | none => .nil)]

def hdrD (id len : Nat) : String × D := ("FlowSetHeader", .s "FlowSetHeader" [("Id", .n id), ("Length", .n len)])

def FlowSet.toD : FlowSet → D
  | .template id len rs => .s "TemplateFlowSet" [hdrD id len, ("Records", .l (rs.map fun r =>
      .s "TemplateRecord" [("TemplateId", .n r.templateId), ("FieldCount", .n r.fieldCount), ("Fields", .l (r.fields.map Field.toD))]))]
  | .v9opts id len rs => .s "NFv9OptionsTemplateFlowSet" [hdrD id len, ("Records", .l (rs.map fun r =>
      .s "NFv9OptionsTemplateRecord" [("TemplateId", .n r.templateId), ("ScopeLength", .n r.scopeLength),
        ("OptionLength", .n r.optionLength), ("Scopes", .l (r.scopes.map Field.toD)), ("Options", .l (r.options.map Field.toD))]))]
  | .ipfixopts id len rs => .s "IPFIXOptionsTemplateFlowSet" [hdrD id len, ("Records", .l (rs.map fun r =>
      .s "IPFIXOptionsTemplateRecord" [("TemplateId", .n r.templateId), ("FieldCount", .n r.fieldCount),
        ("ScopeFieldCount", .n r.scopeFieldCount), ("Options", .l (r.options.map Field.toD)), ("Scopes", .l (r.scopes.map Field.toD))]))]
  | .data id len rs => .s "DataFlowSet" [hdrD id len, ("Records", .l (rs.map fun r =>
      .s "DataRecord" [("Values", .l (r.values.map DataField.toD))]))]
  | .optsData id len rs => .s "OptionsDataFlowSet" [hdrD id len, ("Records", .l (rs.map fun r =>
      .s "OptionsDataRecord" [("ScopesValues", .l (r.scopesValues.map DataField.toD)), ("OptionsValues", .l (r.optionsValues.map DataField.toD))]))]
  | .raw id len bs => .s "RawFlowSet" [hdrD id len, ("Records", .h bs)]

def v9HdrNames : List String := ["Count", "SystemUptime", "UnixSeconds", "SequenceNumber", "SourceId"]
def ipfixHdrNames : List String := ["Length", "ExportTime", "SequenceNumber", "ObservationDomainId"]

def Packet.toD (p : Packet) : D :=
  if p.version = 9 then
    .s "NFv9Packet" ((("Version", D.n 9) :: v9HdrNames.zip (p.hdr.map D.n)) ++ [("FlowSets", .l (p.flowSets.map FlowSet.toD))])
  else
    .s "IPFIXPacket" ((("Version", D.n 10) :: ipfixHdrNames.zip (p.hdr.map D.n)) ++ [("FlowSets", .l (p.flowSets.map FlowSet.toD))])

end Goflow.Netflow
