import Goflow.Basic.Fields
import Goflow.Basic.Dump
/-!
  Model of decoders/sflow (sFlow v5): sflow.go, packet.go, datastructure.go.
-/
namespace Goflow.Sflow

/-! ### mixed fixed layouts: big-endian words and raw byte runs in one BinaryDecoder call -/

inductive Item where
  | u (w : Nat)        -- unsigned big-endian integer of w bytes
  | b (n : Nat)        -- []byte of n bytes (IP / MAC)
  deriving Repr, DecidableEq, Inhabited

inductive V where
  | n (v : Nat)
  | b (bs : Bytes)
  deriving Repr, DecidableEq, Inhabited

def readItems : List Item → Bytes → Res (List V × Bytes)
  | [], b => .ok ([], b)
  | .u w :: is, b =>
    match readU w b with
    | .error e => .error e
    | .ok (v, b1) =>
      match readItems is b1 with
      | .error e => .error e
      | .ok (vs, b2) => .ok (V.n v :: vs, b2)
  | .b n :: is, b =>
    match takeN n b with
    | .error e => .error e
    | .ok (x, b1) =>
      match readItems is b1 with
      | .error e => .error e
      | .ok (vs, b2) => .ok (V.b x :: vs, b2)

def V.nat : V → Nat
  | .n v => v
  | .b _ => 0
def V.bytes : V → Bytes
  | .n _ => []
  | .b x => x

/-! ### data structures -/

inductive FlowData where
  | raw (vals : List Nat) (headerData : Bytes)          -- protocol frameLength stripped originalLength
  | fixed (kind : Nat) (vals : List V)                  -- SampledEthernet/IPv4/IPv6, ExtendedSwitch, EgressQueue
  | router (ipVersion : Nat) (ip : Bytes) (srcMask dstMask : Nat)
  | gateway (ipVersion : Nat) (ip : Bytes) (hd : List Nat)   -- AS SrcAS SrcPeerAS ASDestinations
      (pathType pathLen : Nat) (path : List Nat) (commLen : Nat) (comm : List Nat) (localPref : Nat)
  | acl (number : Nat) (name : Bytes) (direction : Nat)
  | function (symbol : Bytes)
  | unknown (data : Bytes)
  | none                                                 -- nil interface of a record slot never filled
  deriving Repr, DecidableEq, Inhabited

inductive CounterData where
  | ifc (vals : List Nat)
  | eth (vals : List Nat)
  | unknown (data : Bytes)
  | none
  deriving Repr, DecidableEq, Inhabited

structure FlowRecord where
  dataFormat : Nat
  length : Nat
  data : FlowData
  deriving Repr, DecidableEq, Inhabited

structure CounterRecord where
  dataFormat : Nat
  length : Nat
  data : CounterData
  deriving Repr, DecidableEq, Inhabited

structure SampleHeader where
  format : Nat
  length : Nat
  seq : Nat
  sourceIdType : Nat
  sourceIdValue : Nat
  deriving Repr, DecidableEq, Inhabited

inductive Sample where
  | flow (h : SampleHeader) (vals : List Nat) (records : List FlowRecord)      -- rate pool drops input output count
  | counter (h : SampleHeader) (count : Nat) (records : List CounterRecord)
  | expFlow (h : SampleHeader) (vals : List Nat) (records : List FlowRecord)   -- rate pool drops inFmt inVal outFmt outVal count
  | drop (h : SampleHeader) (vals : List Nat) (records : List FlowRecord)      -- drops input output reason count
  | none
  deriving Repr, DecidableEq, Inhabited

structure Packet where
  version : Nat
  ipVersion : Nat
  agentIP : Bytes
  hdr : List Nat          -- subAgentId sequenceNumber uptime samplesCount
  samples : List Sample
  deriving Repr, DecidableEq, Inhabited

/-! ### records -/

def layoutOf (kind : Nat) : Option (List Item) :=
  if kind = 2 then some [.u 4, .b 6, .b 6, .u 4]
  else if kind = 3 then some [.u 4, .u 4, .b 4, .b 4, .u 4, .u 4, .u 4, .u 4]
  else if kind = 4 then some [.u 4, .u 4, .b 16, .b 16, .u 4, .u 4, .u 4, .u 4]
  else if kind = 1001 then some [.u 4, .u 4, .u 4, .u 4]
  else if kind = 1036 then some [.u 4]
  else none

/-- DecodeIP -/
def decodeIP (b : Bytes) : Res (Nat × Bytes × Bytes) :=
  match readU 4 b with
  | .error e => .error e
  | .ok (v, b1) =>
    let n := if v = 1 then 4 else if v = 2 then 16 else 0
    if n = 0 then .error .bad
    else if n ≤ b1.length then .ok (v, b1.take n, b1.drop n)
    else .error .bad

/-- BinaryRead of a `*string`: 4-byte length, the bytes, then the XDR padding to a multiple of
    4 that is present is skipped (after the `fix:` commit; the pinned tree left it in the buffer). -/
def readString (b : Bytes) : Res (Bytes × Bytes) :=
  match readU 4 b with
  | .error e => .error e
  | .ok (n, b1) =>
    match takeN n b1 with
    | .error e => .error e
    | .ok (s, b2) => .ok (s, b2.drop ((4 - n % 4) % 4))

/-- the AS-path / communities part: `len` words guarded by the cap and the plausibility check -/
def readCapped (len : Nat) (b : Bytes) : Res (List Nat × Bytes) :=
  if len > 1000 then .error .bad
  else if len + 4 > b.length then .error .bad       -- int(len) > payload.Len()-4
  else readWords 4 len b

/-- DecodeFlowRecord -/
def decodeFlowRecord (fmt len : Nat) (b : Bytes) : Res FlowRecord :=
  if fmt = 1 then
    match readFields [4, 4, 4, 4] b with
    | .error e => .error e
    | .ok (vs, b1) => .ok ⟨fmt, len, .raw vs b1⟩
  else if fmt = 1002 then
    match decodeIP b with
    | .error e => .error e
    | .ok (v, ip, b1) =>
      match readFields [4, 4] b1 with
      | .error e => .error e
      | .ok (vs, _) =>
        match vs with
        | [s, d] => .ok ⟨fmt, len, .router v ip s d⟩
        | _ => .error .panic
  else if fmt = 1003 then
    match decodeIP b with
    | .error e => .error e
    | .ok (v, ip, b1) =>
      match readFields [4, 4, 4, 4] b1 with
      | .error e => .error e
      | .ok (hd, b2) =>
        let asDest := hd.getD 3 0
        let pathRes : Res ((Nat × Nat × List Nat) × Bytes) :=
          if asDest ≠ 0 then
            match readFields [4, 4] b2 with
            | .error e => .error e
            | .ok (tl, b3) =>
              match tl with
              | [pt, pl] =>
                match readCapped pl b3 with
                | .error e => .error e
                | .ok (path, b4) => .ok ((pt, pl, path), b4)
              | _ => .error .panic
          else .ok ((0, 0, []), b2)
        match pathRes with
        | .error e => .error e
        | .ok ((pt, pl, path), b4) =>
          match readU 4 b4 with
          | .error e => .error e
          | .ok (cl, b5) =>
            match readCapped cl b5 with
            | .error e => .error e
            | .ok (comm, b6) =>
              match readU 4 b6 with
              | .error e => .error e
              | .ok (lp, _) => .ok ⟨fmt, len, .gateway v ip hd pt pl path cl comm lp⟩
  else if fmt = 1037 then
    match readU 4 b with
    | .error e => .error e
    | .ok (num, b1) =>
      match readString b1 with
      | .error e => .error e
      | .ok (name, b2) =>
        match readU 4 b2 with
        | .error e => .error e
        | .ok (dir, _) => .ok ⟨fmt, len, .acl num name dir⟩
  else if fmt = 1038 then
    match readString b with
    | .error e => .error e
    | .ok (sym, _) => .ok ⟨fmt, len, .function sym⟩
  else
    match layoutOf fmt with
    | some lay =>
      match readItems lay b with
      | .error e => .error e
      | .ok (vs, _) => .ok ⟨fmt, len, .fixed fmt vs⟩
    | none => .ok ⟨fmt, len, .unknown b⟩

def ifCountersW : List Nat := [4, 4, 8, 4, 4, 8, 4, 4, 4, 4, 4, 4, 8, 4, 4, 4, 4, 4, 4]
def ethCountersW : List Nat := [4, 4, 4, 4, 4, 4, 4, 4, 4, 4, 4, 4, 4]

/-- DecodeCounterRecord -/
def decodeCounterRecord (fmt len : Nat) (b : Bytes) : Res CounterRecord :=
  if fmt = 1 then
    match readFields ifCountersW b with
    | .error e => .error e
    | .ok (vs, _) => .ok ⟨fmt, len, .ifc vs⟩
  else if fmt = 2 then
    match readFields ethCountersW b with
    | .error e => .error e
    | .ok (vs, _) => .ok ⟨fmt, len, .eth vs⟩
  else .ok ⟨fmt, len, .unknown b⟩

/-- the record loop of DecodeSample, `i < recordsCount && payload.Len() >= 8`, generic in the
    record decoder; returns the records actually decoded -/
def recordLoop {α} (dec : Nat → Nat → Bytes → Res α) : Nat → Bytes → Res (List α)
  | 0, _ => .ok []
  | n + 1, b =>
    if 8 ≤ b.length then
      match readFields [4, 4] b with
      | .error e => .error e
      | .ok (vs, b1) =>
        match vs with
        | [fmt, len] =>
          if len > b1.length then .ok []
          else
            match dec fmt len (b1.take len) with
            | .error e => .error e
            | .ok r =>
              match recordLoop dec n (b1.drop len) with
              | .error e => .error e
              | .ok rs => .ok (r :: rs)
        | _ => .error .panic
    else .ok []

def zeroFlowRecord : FlowRecord := ⟨0, 0, .none⟩
def zeroCounterRecord : CounterRecord := ⟨0, 0, .none⟩

/-- `Records = make([]T, count)` then indexed assignment: slots never reached stay zero -/
def padTo {α} (n : Nat) (z : α) (xs : List α) : List α := xs ++ List.replicate (n - xs.length) z

/-- DecodeSample. All four record counts are capped at 1000 before the `make`
    (the expanded flow sample only after the `fix:` commit). -/
def decodeSample (format length : Nat) (b : Bytes) : Res Sample :=
  match readU 4 b with
  | .error e => .error e
  | .ok (seq, b1) =>
    let srcRes : Res ((Nat × Nat) × Bytes) :=
      if format = 1 ∨ format = 2 then
        match readU 4 b1 with
        | .error e => .error e
        | .ok (sid, b2) => .ok ((sid / 2 ^ 24, sid % 2 ^ 24), b2)
      else if format = 3 ∨ format = 4 ∨ format = 5 then
        match readFields [4, 4] b1 with
        | .error e => .error e
        | .ok (vs, b2) =>
          match vs with
          | [t, v] => .ok ((t, v), b2)
          | _ => .error .panic
      else .error .bad
    match srcRes with
    | .error e => .error e
    | .ok ((st, sv), b2) =>
      let h : SampleHeader := ⟨format, length, seq, st, sv⟩
      if format = 1 then
        match readFields [4, 4, 4, 4, 4, 4] b2 with
        | .error e => .error e
        | .ok (vs, b3) =>
          let cnt := vs.getD 5 0
          if cnt > 1000 then .error .bad else
          match recordLoop decodeFlowRecord cnt b3 with
          | .error e => .error e
          | .ok rs => .ok (.flow h vs (padTo cnt zeroFlowRecord rs))
      else if format = 2 ∨ format = 4 then
        match readU 4 b2 with
        | .error e => .error e
        | .ok (cnt, b3) =>
          if cnt > 1000 then .error .bad else
          match recordLoop decodeCounterRecord cnt b3 with
          | .error e => .error e
          | .ok rs => .ok (.counter h cnt (padTo cnt zeroCounterRecord rs))
      else if format = 3 then
        match readFields [4, 4, 4, 4, 4, 4, 4, 4] b2 with
        | .error e => .error e
        | .ok (vs, b3) =>
          let cnt := vs.getD 7 0
          if cnt > 1000 then .error .bad else
          match recordLoop decodeFlowRecord cnt b3 with
          | .error e => .error e
          | .ok rs => .ok (.expFlow h vs (padTo cnt zeroFlowRecord rs))
      else
        match readFields [4, 4, 4, 4, 4] b2 with
        | .error e => .error e
        | .ok (vs, b3) =>
          let cnt := vs.getD 4 0
          if cnt > 1000 then .error .bad else
          match recordLoop decodeFlowRecord cnt b3 with
          | .error e => .error e
          | .ok rs => .ok (.drop h vs (padTo cnt zeroFlowRecord rs))

/-- the sample loop of DecodeMessage -/
def sampleLoop : Nat → Bytes → Res (List Sample)
  | 0, _ => .ok []
  | n + 1, b =>
    if 8 ≤ b.length then
      match readFields [4, 4] b with
      | .error e => .error e
      | .ok (vs, b1) =>
        match vs with
        | [fmt, len] =>
          if len > b1.length then .ok []
          else
            match decodeSample fmt len (b1.take len) with
            | .error e => .error e
            | .ok s =>
              match sampleLoop n (b1.drop len) with
              | .error e => .error e
              | .ok ss => .ok (s :: ss)
        | _ => .error .panic
    else .ok []

/-- DecodeMessage (version consumed) -/
def decodeMessage (b : Bytes) : Res Packet :=
  match readU 4 b with
  | .error e => .error e
  | .ok (ipv, b1) =>
    let n := if ipv = 1 then 4 else if ipv = 2 then 16 else 0
    if n = 0 then .error .bad else
    match takeN n b1 with
    | .error e => .error e
    | .ok (ip, b2) =>
      match readFields [4, 4, 4, 4] b2 with
      | .error e => .error e
      | .ok (hd, b3) =>
        let cnt := hd.getD 3 0
        if cnt > 1000 then .error .bad else
        match sampleLoop cnt b3 with
        | .error e => .error e
        | .ok ss => .ok ⟨5, ipv, ip, hd, padTo cnt Sample.none ss⟩

/-- DecodeMessageVersion -/
def decodeMessageVersion (b : Bytes) : Res Packet :=
  match readU 4 b with
  | .error e => .error e
  | .ok (v, b1) => if v ≠ 5 then .error .bad else decodeMessage b1

/-! ### canonical dump -/

def nsD (vs : List Nat) : List D := vs.map D.n
def vD : V → D
  | .n v => .n v
  | .b x => .h x

def FlowData.toD : FlowData → D
  | .raw vs hd => D.named "SampledHeader" ["Protocol", "FrameLength", "Stripped", "OriginalLength", "HeaderData"] (nsD vs ++ [.h hd])
  | .fixed kind vs =>
    let ds := vs.map vD
    if kind = 2 then D.named "SampledEthernet" ["Length", "SrcMac", "DstMac", "EthType"] ds
    else if kind = 3 then
      .s "SampledIPv4" [("SampledIPBase", D.named "SampledIPBase" ["Length", "Protocol", "SrcIP", "DstIP", "SrcPort", "DstPort", "TcpFlags"] (ds.take 7)),
        ("Tos", (ds.getD 7 .nil))]
    else if kind = 4 then
      .s "SampledIPv6" [("SampledIPBase", D.named "SampledIPBase" ["Length", "Protocol", "SrcIP", "DstIP", "SrcPort", "DstPort", "TcpFlags"] (ds.take 7)),
        ("Priority", (ds.getD 7 .nil))]
    else if kind = 1001 then D.named "ExtendedSwitch" ["SrcVlan", "SrcPriority", "DstVlan", "DstPriority"] ds
    else D.named "EgressQueue" ["Queue"] ds
  | .router v ip s d => .s "ExtendedRouter" [("NextHopIPVersion", .n v), ("NextHop", .h ip), ("SrcMaskLen", .n s), ("DstMaskLen", .n d)]
  | .gateway v ip hd pt pl path cl comm lp =>
    .s "ExtendedGateway" ([("NextHopIPVersion", .n v), ("NextHop", .h ip)] ++
      ["AS", "SrcAS", "SrcPeerAS", "ASDestinations"].zip (nsD hd) ++
      [("ASPathType", .n pt), ("ASPathLength", .n pl), ("ASPath", .l (nsD path)), ("CommunitiesLength", .n cl),
       ("Communities", .l (nsD comm)), ("LocalPref", .n lp)])
  | .acl n name d => .s "ExtendedACL" [("Number", .n n), ("Name", .h name), ("Direction", .n d)]
  | .function s => .s "ExtendedFunction" [("Symbol", .h s)]
  | .unknown d => .s "RawRecord" [("Data", .h d)]
  | .none => .nil

def ifCounterNames : List String :=
  ["IfIndex", "IfType", "IfSpeed", "IfDirection", "IfStatus", "IfInOctets", "IfInUcastPkts", "IfInMulticastPkts",
   "IfInBroadcastPkts", "IfInDiscards", "IfInErrors", "IfInUnknownProtos", "IfOutOctets", "IfOutUcastPkts",
   "IfOutMulticastPkts", "IfOutBroadcastPkts", "IfOutDiscards", "IfOutErrors", "IfPromiscuousMode"]
def ethCounterNames : List String :=
  ["Dot3StatsAlignmentErrors", "Dot3StatsFCSErrors", "Dot3StatsSingleCollisionFrames", "Dot3StatsMultipleCollisionFrames",
   "Dot3StatsSQETestErrors", "Dot3StatsDeferredTransmissions", "Dot3StatsLateCollisions", "Dot3StatsExcessiveCollisions",
   "Dot3StatsInternalMacTransmitErrors", "Dot3StatsCarrierSenseErrors", "Dot3StatsFrameTooLongs",
   "Dot3StatsInternalMacReceiveErrors", "Dot3StatsSymbolErrors"]

def CounterData.toD : CounterData → D
  | .ifc vs => D.named "IfCounters" ifCounterNames (nsD vs)
  | .eth vs => D.named "EthernetCounters" ethCounterNames (nsD vs)
  | .unknown d => .s "RawRecord" [("Data", .h d)]
  | .none => .nil

def recHdrD (f l : Nat) : String × D := ("Header", .s "RecordHeader" [("DataFormat", .n f), ("Length", .n l)])
def FlowRecord.toD (r : FlowRecord) : D := .s "FlowRecord" [recHdrD r.dataFormat r.length, ("Data", r.data.toD)]
def CounterRecord.toD (r : CounterRecord) : D := .s "CounterRecord" [recHdrD r.dataFormat r.length, ("Data", r.data.toD)]

def SampleHeader.toD (h : SampleHeader) : String × D :=
  ("Header", .s "SampleHeader" [("Format", .n h.format), ("Length", .n h.length), ("SampleSequenceNumber", .n h.seq),
    ("SourceIdType", .n h.sourceIdType), ("SourceIdValue", .n h.sourceIdValue)])

def Sample.toD : Sample → D
  | .flow h vs rs => .s "FlowSample" ([h.toD] ++ ["SamplingRate", "SamplePool", "Drops", "Input", "Output", "FlowRecordsCount"].zip (nsD vs)
      ++ [("Records", .l (rs.map FlowRecord.toD))])
  | .counter h c rs => .s "CounterSample" [h.toD, ("CounterRecordsCount", .n c), ("Records", .l (rs.map CounterRecord.toD))]
  | .expFlow h vs rs => .s "ExpandedFlowSample" ([h.toD] ++
      ["SamplingRate", "SamplePool", "Drops", "InputIfFormat", "InputIfValue", "OutputIfFormat", "OutputIfValue", "FlowRecordsCount"].zip (nsD vs)
      ++ [("Records", .l (rs.map FlowRecord.toD))])
  | .drop h vs rs => .s "DropSample" ([h.toD] ++ ["Drops", "Input", "Output", "Reason", "FlowRecordsCount"].zip (nsD vs)
      ++ [("Records", .l (rs.map FlowRecord.toD))])
  | .none => .nil

def Packet.toD (p : Packet) : D :=
  .s "Packet" ([("Version", D.n p.version), ("IPVersion", .n p.ipVersion), ("AgentIP", .h p.agentIP)] ++
    ["SubAgentId", "SequenceNumber", "Uptime", "SamplesCount"].zip (nsD p.hdr) ++ [("Samples", .l (p.samples.map Sample.toD))])

end Goflow.Sflow
