import Goflow.Gen.Config
import Goflow.Gen.History
import Goflow.Gen.C08
import Goflow.Gen.C14
/-!
  C13 generator: formatter configurations × messages with arbitrary values (`fmt` ops) and traffic
  of the C03–C10 kinds through pipes that print every message in the three forms (`pktf` ops).

  Oracle lines (evaluated by the runner against the implementation's output, independently of the
  formatter model):
    @fmt                      every JSON form is valid (json.Valid and the json driver's own json.Marshal),
                              every binary stream of two frames splits into two equal messages
    @jsonkeys k1,k2,…         the JSON object has exactly these keys in this order
    @pbnum key:num:s|p|a …    the JSON value under `key` equals protobuf field `num` of the binary form
                              (scalar, packed list, repeated varint)
    @render key=kind:raw …    the JSON string under `key` is the documented rendering of `raw`
                              (ip / mac / dt / dtn), computed by the runner with Python's own libraries
    @agree                    the text form carries the same values as the JSON form
-/
namespace Goflow.Gen.C13
open Goflow Goflow.Gen Goflow.Gen.Config Goflow.Format Goflow.Producer

/-- (number, wire type) pairs of the well-formed unknown section -/
def carried (unk : Bytes) : List (Nat × Nat) := (parseUnknown (unk.length + 1) unk).map fun (n, w, _) => (n, w)

def finalName (raw : RawConfig) (s : String) : String :=
  match raw.rename.lookup s with
  | some r => if r.isEmpty then s else (String.fromUTF8? (ByteArray.mk r.toArray)).getD s
  | none => s

def columnOf (s : String) : Option Column := flowMessageColumns.find? fun c => c.protoName = s

/-- documented default renderings used by the oracle (README / docs/protocols.md examples) -/
def documentedDefault (s : String) : Option String :=
  if ["src_addr", "dst_addr", "sampler_address", "next_hop", "bgp_next_hop"].contains s then some "ip"
  else if ["src_mac", "dst_mac"].contains s then some "mac" else none

def codeDefaultHas (c : Column) : Bool := (Goflow.Generated.defaultRenderers.lookup c.goName).isSome

def oracleLines (raw : RawConfig) (m : FlowMsg) : List String :=
  let fields := if raw.fields.isEmpty then defaultFields else raw.fields
  let car := carried m.unk
  let isCustom (s : String) := raw.protobuf.find? (fun p => p.name = s)
  let present := fields.filter fun s =>
    match isCustom s with
    | some p => car.any fun (n, _) => n = p.index
    | none => true
  let keys := present.map fun s => hexStr (finalName raw s)
  let configured (s : String) : Option String := raw.render.lookup s
  -- protobuf agreement for plain numbers
  let pbnum := present.filterMap fun s =>
    match isCustom s with
    | some p =>
      let ws := (car.filter fun (n, _) => n = p.index).map (·.2)
      if ws.all (· = 0) ∧ (configured s = none ∨ configured s = some "none") then
        some (hexStr (finalName raw s) ++ ":" ++ toString p.index ++ ":" ++ (if p.array then "a" else "s"))
      else none
    | none =>
      match columnOf s with
      | some c =>
        if c.goName = "Type" ∨ c.goName = "LayerStack" then none
        else if (configured s = none ∧ !codeDefaultHas c) ∨ configured s = some "none" then
          if c.kind = "u32" ∨ c.kind = "u64" then some (hexStr (finalName raw s) ++ ":" ++ toString c.num ++ ":s")
          else if c.kind = "listU32" then some (hexStr (finalName raw s) ++ ":" ++ toString c.num ++ ":p")
          else none
        else none
      | none => none
  -- documented renderings
  let render := present.filterMap fun s =>
    match columnOf s with
    | none => none
    | some c =>
      let r := match configured s with | some r => some r | none => documentedDefault s
      let key := hexStr (finalName raw s)
      match r with
      | some "ip" => if c.kind = "bytes" then some (key ++ "=ip:" ++ hexOf ((m.getBytes c.goName).getD [])) else none
      | some "mac" => if c.kind = "u64" then some (key ++ "=mac:" ++ toString ((m.getNum c.goName).getD 0)) else none
      | some "datetime" => if c.kind = "u64" ∨ (c.kind = "u32" ∧ c.goName ≠ "Type") then some (key ++ "=dt:" ++ toString ((m.getNum c.goName).getD 0)) else none
      | some "datetimenano" => if c.kind = "u64" then some (key ++ "=dtn:" ++ toString ((m.getNum c.goName).getD 0)) else none
      | _ => none
  ["expect @fmt", "expect @jsonkeys " ++ ",".intercalate keys] ++
  (if pbnum.isEmpty then [] else ["expect @pbnum " ++ " ".intercalate pbnum]) ++
  (if render.isEmpty then [] else ["expect @render " ++ " ".intercalate render]) ++
  ["expect @agree"]

def genRound (i : Nat) (msgs : Nat) : G (List String) := do
  let pb ← genProtobuf 0 4
  let raw ← if i % 5 = 0 then pure ({} : RawConfig) else genFormatter pb
  let cid := "f" ++ toString (i % 3)
  let mut out : List String := [cfgOp cid raw]
  match compile raw initialIsSlice with
  | .error _ => pure (out ++ ["expect @res err"])
  | .ok _ =>
    for _ in [0:msgs] do
      let m ← genMsg pb (← pick [0, 10, 30, 60, 100])
      out := out ++ (fmtOp cid m :: oracleLines raw m)
    pure out

/-- traffic through a pipe whose producer carries a generated formatter -/
def genTraffic (i : Nat) : G (List String) := do
  let raw ← genFormatter [] 0
  let cid := "t" ++ toString (i % 2)
  let hist ← History.genMixed "auto" 6
  -- genMixed's header resets and declares the pipes over c0: rewrite it to the generated configuration
  let body := hist.filter fun l => !(l.startsWith "reset" ∨ l.startsWith "cfg " ∨ l.startsWith "pipe " ∨ l.startsWith "expect")
  let body := body.map fun l => if l.startsWith "pkt " then "pktf " ++ (l.drop 4).toString else l
  pure ([cfgOp cid raw, "reset", "pipe nf netflow " ++ cid, "pipe auto flow " ++ cid, "pipe sf sflow " ++ cid] ++
    body.flatMap fun l => if l.startsWith "pktf " then [l, "expect @fmt", "expect @agree"] else [l])

/-- the JSON recogniser of the model against encoding/json on texts near the boundary of the grammar:
    fixed edge cases and mutations (flip, delete, insert, truncate) of generated JSON forms -/
def jsonEdgeCases : List String :=
  ["0", "-0", "01", "1.", "1.5", "-", "1e", "1e+", "1E-7", "1.0e10", ".5", "+1", "0x10", "[]", "[1,]", "[,1]", "[1 2]", "[ 1 , 2 ]",
   "{}", "{\"a\":1,}", "{\"a\" 1}", "{a:1}", "{\"a\":}", "{\"a\":1}x", " {\"a\":[1,{\"b\":null}]} ", "\"\\u12\"", "\"\\u12aF\"",
   "\"\\x\"", "\"a\nb\"", "\"tab\tx\"", "true", "tru", "falsee", "null", "nul", "", " ", "[[[[[[[[[[]]]]]]]]]]", "{\"a\":{\"a\":{\"a\":{}}}}",
   "\"\\\"", "\"", "\"\\/\"", "[\"a\",\"b\"]", "{\"k\":\"v\",\"k\":2}", "1 2", "[1]]", "-1.25e-3", "-a", "0.0", "00", "1e5.5"]

def genJsonRound (i : Nat) : G (List String) := do
  let mut out : List String := jsonEdgeCases.map fun s => "call jsonvalid " ++ hexOf (str s)
  let pb ← genProtobuf 0 3
  let raw ← genFormatter pb 0
  match compile raw initialIsSlice with
  | .error _ => pure out
  | .ok c =>
    for _ in [0:10] do
      let m ← genMsg pb (← pick [10, 40, 100])
      let js := formatJSON c.fmt m
      out := out ++ ["call jsonvalid " ++ hexOf js]
      for _ in [0:6] do
        let k ← below (js.length + 1)
        let mutated ← match (← below 4) with
          | 0 => pure (js.take k ++ js.drop (k + 1))
          | 1 => do pure (js.take k ++ [← pick [0x22, 0x5c, 0x2c, 0x7b, 0x7d, 0x5b, 0x5d, 0x3a, 0x30, 0x2e, 0x65, 0x2d, 0x20, 0x0a, 0x00, 0x75]] ++ js.drop k)
          | 2 => pure (js.take k)
          | _ => do pure (js.take k ++ [← pick [0x22, 0x5c, 0x2c, 0x7d, 0x5d, 0x31, 0x00, 0x1f, 0x7f, 0xff]] ++ js.drop (k + 1))
        out := out ++ ["call jsonvalid " ++ hexOf mutated]
    let _ := i
    pure out

def gen (n : Nat) : G (List String) := do
  let mut out : List String := []
  for i in [0:n] do
    if i % 8 = 1 then out := out ++ (← genJsonRound i)
    else if i % 8 = 5 then out := out ++ (← C14.genElemRound i)      -- custom fields written by the mapper, all forms printed
    else if i % 4 = 3 then out := out ++ (← genTraffic i)
    else out := out ++ (← genRound i 6)
  pure out

end Goflow.Gen.C13
