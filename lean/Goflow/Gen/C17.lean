import Goflow.Gen.Prng
import Goflow.Conc.Receiver
namespace Goflow.Gen.C17
open Goflow Goflow.Gen

def expectLine : String := "expect res ok dup=0 both=0 corrupt=0 unaccounted=0 blockingdrops=0 stop=ok leak=0 rebind=1 errsrc=0"

def gen (k : Nat) : G (List String) := do
  let mut out : List String := []
  for _ in [0:k] do
    let sockets ← range 1 4
    let workers ← range 1 8
    let q ← pick [0, 1, 8, 1000]
    let blocking ← bool
    let beh ← pick ["instant", "slow", "gated", "error", "panic"]
    let n ← pick [50, 200, 600]
    out := out ++ ["udp " ++ toString sockets ++ " " ++ toString workers ++ " " ++ toString q ++ " " ++
      (if blocking then "1" else "0") ++ " " ++ beh ++ " " ++ toString n, expectLine]
  -- a drop callback that keeps its message for a moment, on one P (non-blocking, small queue, several sockets: many drops)
  for (sk, wk, q) in [(2, 1, 1), (3, 2, 0), (4, 1, 8)] do
    out := out ++ ["udp " ++ toString sk ++ " " ++ toString wk ++ " " ++ toString q ++ " 0 gated1 400", expectLine]
  pure out
end Goflow.Gen.C17
