import Goflow.Gen.History
import Goflow.Spec.FieldTable
import Goflow.Basic.MsgDump
/-! C08 generator: records over the documented element ids at every legal width, in random
    template order, at most one writer per output column; expectation from Spec.FieldTable. -/
namespace Goflow.Gen.C08
open Goflow Goflow.Gen Goflow.Gen.History Goflow.Spec.Netflow Goflow.Spec.FieldTable

def shuffle {α} [Inhabited α] (xs : List α) : G (List α) := do
  let mut rest := xs
  let mut out := []
  for _ in [0:xs.length] do
    let i ← below rest.length
    out := rest.getD i default :: out
    rest := rest.eraseIdx i
  pure out

/-- choose the fields of one template: (id, width) -/
def genFieldsFor (version : Nat) : G (List (Nat × Nat)) := do
  let mut out : List (Nat × Nat) := []
  let v6 ← bool
  -- address family group (writers of etype agree)
  if (← chance 2 3) then
    if (← chance 4 5) then out := out ++ [(if v6 then 27 else 8, if v6 then 16 else 4)]
    if (← chance 4 5) then out := out ++ [(if v6 then 28 else 12, if v6 then 16 else 4)]
    if (← chance 1 4) then out := out ++ [(60, 1)]
  let use312 ← if version = 10 then chance 1 8 else pure false
  for (name, alts) in groups do
    if (← chance 1 2) then
      if use312 ∧ (name = "bytes" ∨ name = "packets") then pure ()
      else
        let (id, ws) ← pick alts
        out := out ++ [(id, ← pick ws)]
  if use312 then out := out ++ [(312, ← pick [1, 2, 4, 8])]
  -- separate icmp type / code instead of the combined element
  if !(out.any fun e => e.1 = 32 ∨ e.1 = 139) then
    if (← chance 1 3) then out := out ++ [(← pick [176, 178], ← pick [1, 2])]
    if (← chance 1 3) then out := out ++ [(← pick [177, 179], ← pick [1, 2])]
  -- mpls label stack sections
  let nl ← below 5
  for i in [0:min nl 3] do
    if (← chance 3 4) then out := out ++ [(70 + i, ← pick [3, 4])]
  -- times
  if version = 9 then
    if (← chance 2 3) then out := out ++ [(22, 4)]
    if (← chance 2 3) then out := out ++ [(21, 4)]
  else
    if (← chance 2 3) then out := out ++ [← pick [(150, 4), (150, 8), (152, 8), (154, 8), (156, 8), (158, 4), (158, 8)]]
    if (← chance 2 3) then out := out ++ [← pick [(151, 4), (151, 8), (153, 8), (155, 8), (157, 8), (159, 4), (159, 8)]]
  if out.isEmpty then out := [(1, 4)]
  shuffle out

def genValue (id w : Nat) : G Bytes := do
  if id = 60 then pure [← pick [4, 6, 4, 6, 0]]
  else
    -- boundary values for every field (all-zero addresses such as 0.0.0.0 / ::, all-ones) besides random ones
    match (← below 8) with
    | 0 => pure (List.replicate w 0)
    | 1 => pure (List.replicate w 255)
    | _ => bytesOf w

def genCase (i : Nat) : G (List String) := do
  let version ← pick [9, 10]
  let exps ← genExporters
  let e ← pick exps
  let recv := 1700000000000000000 + i
  let fields ← genFieldsFor version
  let tid ← range 256 300
  let tpl : List SField := fields.map fun (id, w) => ⟨id, w, none⟩
  let nrec ← range 1 4
  let mut recs : List (List SValue) := []
  let mut refs : List Record := []
  for _ in [0:nrec] do
    let mut vals : List SValue := []
    let mut r : Record := []
    for (id, w) in fields do
      let b ← genValue id w
      vals := vals ++ [⟨b, false⟩]
      r := r ++ [(id, b)]
    -- address family consistency with element 60
    recs := recs ++ [vals]
    refs := refs ++ [r]
  let fixup (r : Record) : Record := r   -- values are arbitrary; 60 is only generated alongside matching families or alone
  let m0 : Msg := ⟨version, 0, ← bitsVal 32, ← bitsVal 32, ← bitsVal 32, ← bitsVal 32, [.template [(tid, tpl)] 0, .data tid tpl recs 0]⟩
  let m := { m0 with count := nrec + 1 }
  let h : Hdr := ⟨version, if version = 9 then m.uptime else 0, m.time, m.seq, m.domain⟩
  -- when element 60 accompanies addresses its value must name the same family: drop cases where it does not
  let consistent := refs.all fun r =>
    match val r 60 with
    | some (x :: _) =>
      let v4 := (val r 8).isSome || (val r 12).isSome
      let v6 := (val r 27).isSome || (val r 28).isSome
      (!v4 && !v6) || (v4 && x = 4) || (v6 && x = 6)
    | _ => true
  if !consistent then pure [] else
  let exp := refs.map fun r => (stamp h 0 recv e.ip (refRecord h (fixup r))).dump
  pure (header ++ [pktLine "nf" e recv (encode m), "expect res ok n=" ++ toString nrec] ++ exp.map ("expect " ++ ·))

def genV5Case (i : Nat) : G (List String) := do
  let exps ← genExporters
  let e ← pick exps
  let recv := 1700000000000000000 + i
  let k ← range 1 5
  let rs ← listOf k C05.genRecord
  let h ← C05.genHeader k
  let exp := rs.map fun r => (refV5 h.sysUptime h.unixSecs h.unixNSecs h.flowSequence h.samplingInterval r.toList recv e.ip).dump
  pure (header ++ [pktLine "nf" e recv (Spec.V5.encode h rs), "expect res ok n=" ++ toString k] ++ exp.map ("expect " ++ ·))

def gen (n : Nat) : G (List String) := do
  let mut out : List String := []
  for i in [0:n] do
    out := out ++ (← if i % 5 = 4 then genV5Case i else genCase i)
  pure out
end Goflow.Gen.C08
