import Goflow.Gen.Prng
import Goflow.Gen.Malformed
import Goflow.Spec.Netflow
/-! Generators of abstract NetFlow v9 / IPFIX messages (specification side), reused by
    C01 C02 C03 C06 C07 C08 C11 C12. -/
namespace Goflow.Gen.Netflow
open Goflow Goflow.Gen Goflow.Spec.Netflow

/-- what the generator knows about one (version, domain) scope of one exporter -/
inductive Known where
  | data (fields : List SField)
  | opts (scopes options : List SField)
  deriving Inhabited

abbrev KnownMap := List (Nat × Known)    -- template id ↦ layout

def genFieldLen (version : Nat) : G Nat := do
  let k ← below 20
  if k = 0 then pure 0
  else if k = 1 ∧ version = 10 then pure 0xffff
  else if k < 10 then pick [1, 2, 4, 8, 16]
  else range 1 64

def genSField (version : Nat) : G SField := do
  let id ← if (← chance 1 4) then range 1 0x7fff else range 1 400
  let len ← genFieldLen version
  let ent ← if version = 10 ∧ (← chance 1 5) then (do pure (some (← bitsVal 32))) else pure none
  pure ⟨id, len, ent⟩

def minSize (fs : List SField) : Nat :=
  (fs.map fun f => if f.length = 0xffff then 1 else f.length).foldr (· + ·) 0

/-- 1..40 fields, biased small; at least one field occupies bytes -/
def genFields (version : Nat) (lo : Nat := 1) : G (List SField) := do
  let n ← if (← chance 1 10) then range lo 40 else range lo 6
  let fs ← listOf n (genSField version)
  if minSize fs = 0 then
    pure (fs ++ [⟨1, 4, none⟩])
  else pure fs

def genValue (f : SField) : G SValue := do
  if f.length = 0xffff then
    let big ← chance 1 12
    let n ← if big then range 255 300 else range 0 40
    let bs ← bytesOf n
    let long ← if n ≥ 255 then pure true else chance 1 4
    pure ⟨bs, long⟩
  else
    let bs ← bytesOf f.length
    pure ⟨bs, false⟩

def genRecordVals (fs : List SField) : G (List SValue) := do
  let mut out := []
  for f in fs do
    out := (← genValue f) :: out
  pure out.reverse

def freshTid : G Nat := do
  if (← chance 1 8) then range 256 65535 else range 256 262

def genPad (maxPad : Nat) : G Nat := do
  if maxPad = 0 then pure 0 else
  if (← chance 1 2) then pure 0 else range 0 (min 3 maxPad)

def genTemplateSet (version : Nat) (known : KnownMap) : G (SSet × KnownMap) := do
  let n ← if (← chance 1 6) then range 2 4 else pure 1
  let mut recs := []
  let mut kn := known
  for _ in [0:n] do
    let tid ← freshTid
    let fs ← genFields version
    recs := recs ++ [(tid, fs)]
    kn := (tid, Known.data fs) :: kn.filter (fun e => e.1 != tid)
  let pad ← genPad 3
  pure (.template recs pad, kn)

def genOptsTemplateSet (version : Nat) (known : KnownMap) : G (SSet × KnownMap) := do
  let tid ← freshTid
  let ns ← range 0 3
  let scopes ← listOf ns (genSField version)
  let opts ← genFields version 1
  let kn := (tid, Known.opts scopes opts) :: known.filter (fun e => e.1 != tid)
  -- v9: option template records are padded to 4 bytes by their own length fields, set padding ≤ 3
  let pad ← genPad 3
  if version = 9 then pure (.v9opts [(tid, scopes, opts)] pad, kn)
  else pure (.ipfixopts [(tid, scopes, opts)] pad, kn)

def genDataSet (tid : Nat) (k : Known) (maxRecords : Nat := 60) : G SSet := do
  match k with
  | .data fs =>
    let sz := max 1 (minSize fs)
    let want ← if (← chance 1 8) then range 0 maxRecords else range 0 5
    let n := min want (1200 / sz + 1)
    let recs ← listOf n (genRecordVals fs)
    let pad ← genPad (minSize fs - 1)
    pure (.data tid fs recs pad)
  | .opts scopes options =>
    let sz := max 1 (minSize scopes + minSize options)
    let want ← if (← chance 1 8) then range 0 20 else range 0 3
    let n := min want (1200 / sz + 1)
    let recs ← listOf n (do pure (← genRecordVals scopes, ← genRecordVals options))
    let pad ← genPad (minSize scopes + minSize options - 1)
    pure (.optsData tid scopes options recs pad)

/-- a well-formed message of 1..8 sets over the templates known so far (and the ones it announces) -/
def genMsg (version domain : Nat) (known : KnownMap) : G (Msg × KnownMap) := do
  let nsets ← if (← chance 1 5) then range 1 8 else range 1 3
  let mut sets : List SSet := []
  let mut kn := known
  for _ in [0:nsets] do
    let k ← below 10
    if kn.isEmpty ∨ k < 3 then
      let (s, kn') ← genTemplateSet version kn
      sets := sets ++ [s]; kn := kn'
    else if k < 4 then
      let (s, kn') ← genOptsTemplateSet version kn
      sets := sets ++ [s]; kn := kn'
    else
      let (tid, kk) ← pick kn
      let s ← genDataSet tid kk
      sets := sets ++ [s]
  let m0 : Msg := ⟨version, 0, ← bitsVal 32, ← bitsVal 32, ← bitsVal 32, domain, sets⟩
  let m := { m0 with count := max (totalRecords m0) sets.length }
  pure (m, kn)

end Goflow.Gen.Netflow
