import Goflow.Gen.Config
import Goflow.Gen.History
import Goflow.Gen.Frame
import Goflow.Spec.Bits
/-!
  C14 generator: mapping files × traffic.

    (a) bit extraction: single calls against the bit-list reference (`expect out`), and digests over
        *every* buffer of 1 / 2 (/ 3) bytes for a given offset, length and mode
    (b) NetFlow v9 / IPFIX element mappings (with / without PEN, both endiannesses, both spellings of
        the endianness key) into custom protobuf fields and existing columns by their documented names
    (c) layer mappings over the frames of the C10 grammar (all layer names and aliases of
        docs/mapping.md, encap on / off), through the dissector and through an sFlow pipe
    (d) the partition key as a function of exactly the key fields
-/
namespace Goflow.Gen.C14
open Goflow Goflow.Gen Goflow.Gen.Config Goflow.Format Goflow.Producer Goflow.Spec.Bits

/-! ### (a) -/

def digestOf (n : Nat) (off len : Nat) (shift : Bool) : Nat :=
  (List.range (256 ^ n)).foldl (fun h i =>
    let outb : Bytes := match extract (encBE n i) off len shift with
      | some b => UInt8.ofNat b.length :: b
      | none => [0]
    outb.foldl (fun h x => ((h ^^^ x.toNat) * 1099511628211) % 2 ^ 64) h) 14695981039346656037

def genGetBytes (i : Nat) : G (List String) := do
  let mut out : List String := []
  for _ in [0:30] do
    let d ← bytesOf (← pick [0, 1, 1, 2, 2, 3, 3, 4, 6])
    let off ← pick [0, 0, 1, 3, 4, 7, 8, 9, 12, 15, 16, 17, 23, 24, 31, 32, 40, 48, 49]
    let len ← pick [0, 1, 2, 3, 4, 7, 8, 9, 12, 15, 16, 17, 24, 31, 32, 33, 40, 64, 128]
    let sh ← bool
    let exp := match extract d off len sh with | some b => hexOf b | none => "-"
    out := out ++ ["call getbytes " ++ hexOf d ++ " " ++ toString off ++ " " ++ toString len ++ " " ++ (if sh then "1" else "0"),
                   "expect res ok", "expect out " ++ exp]
  -- every buffer of one byte / two bytes
  for _ in [0:12] do
    let off ← range 0 12
    let len ← range 0 17
    let sh ← bool
    out := out ++ ["call getbytesall 1 " ++ toString off ++ " " ++ toString len ++ " " ++ (if sh then "1" else "0"),
                   "expect res ok", "expect digest " ++ toString (digestOf 1 off len sh)]
  for _ in [0:(if i % 12 = 0 then 6 else 2)] do
    let off ← range 0 20
    let len ← range 0 25
    let sh ← bool
    out := out ++ ["call getbytesall 2 " ++ toString off ++ " " ++ toString len ++ " " ++ (if sh then "1" else "0"),
                   "expect res ok", "expect digest " ++ toString (digestOf 2 off len sh)]
  -- every buffer of three bytes: correspondence only (the reference digest is too slow to generate;
  -- Proofs/C14.lean relates model and reference for every buffer)
  if i % 126 = 84 then
    out := out ++ ["call getbytesall 3 " ++ toString (← range 0 28) ++ " " ++ toString (← range 1 25) ++ " " ++ (if (← bool) then "1" else "0")]
  pure out

/-! ### (b) -/

structure Dest where
  name : String            -- as written in the file
  goName : String          -- column, or "" for a custom field
  kind : String            -- column kind, or "varint" / "string"
  pb : Option PbField
  deriving Inhabited

def existingDests : List Dest :=
  [⟨"in_if", "InIf", "u32", none⟩, ⟨"out_if", "OutIf", "u32", none⟩, ⟨"src_as", "SrcAs", "u32", none⟩, ⟨"dst_as", "DstAs", "u32", none⟩,
   ⟨"bytes", "Bytes", "u64", none⟩, ⟨"packets", "Packets", "u64", none⟩, ⟨"src_vlan", "SrcVlan", "u32", none⟩,
   ⟨"ip_ttl", "IpTtl", "u32", none⟩, ⟨"next_hop", "NextHop", "bytes", none⟩, ⟨"bgp_next_hop", "BgpNextHop", "bytes", none⟩,
   ⟨"forwarding_status", "ForwardingStatus", "u32", none⟩, ⟨"dst_mac", "DstMac", "u64", none⟩]

def customDest (p : PbField) : Dest := ⟨p.name, "", if p.type = "varint" then "varint" else "string", some p⟩

def numericMax (d : Dest) : Nat := if d.kind = "u32" then 4 else 8
def isNumeric (d : Dest) : Bool := d.kind = "u32" ∨ d.kind = "u64" ∨ d.kind = "varint"

def decodeEndian (endian : String) (v : Bytes) : Nat := if endian = "little" then leNat v else beNat v

/-- what one mapped value adds to the message: unknown-field bytes or a column value -/
inductive Effect where
  | unk (b : Bytes)
  | col (goName : String) (val : String)

def effectOf (d : Dest) (endian : String) (v : Bytes) : Effect :=
  match d.pb with
  | some p =>
    if d.kind = "varint" then .unk (appendTag p.index 0 ++ appendVarint (decodeEndian endian v))
    else .unk (appendTag p.index 2 ++ appendVarint v.length ++ v)
  | none =>
    if d.kind = "bytes" then .col d.goName (hexOf v)
    else .col d.goName (toString (decodeEndian endian v))

/-- fold effects in order into the `@col` items: the unknown section is the concatenation; a column keeps the last value -/
def colItems (es : List Effect) : List String :=
  let unk := es.foldl (fun acc e => match e with | .unk b => acc ++ b | _ => acc) []
  let cols := es.foldl (fun (acc : List (String × String)) e =>
    match e with
    | .col g v => (g, v) :: acc.filter (fun x => x.1 != g)
    | _ => acc) []
  ("unk=" ++ (if unk.isEmpty then "0" else hexOf unk)) :: cols.reverse.map fun (g, v) => g ++ "=" ++ (if v = "-" then "0" else v)

structure ElemMap where
  penProvided : Bool
  pen : Nat
  type : Nat
  dest : Dest
  endian : String
  shortKey : Bool
  deriving Inhabited

def genElemMaps (pb : List PbField) (version : Nat) : G (List ElemMap) := do
  let n ← range 0 6
  let existing ← shuffle existingDests
  let mut out : List ElemMap := []
  let mut usedExisting := 0
  for i in [0:n] do
    let pp ← if version = 10 then chance 1 2 else pure false
    -- enterprise number 0 with the enterprise bit is not the IANA registry: its own key
    let pen ← if pp then pick [0, 0, 9, 2636, 29305, 68172, 65536, 4294967295] else pure 0
    -- an enterprise statement may use the element id of an IANA statement of the same file (different keys)
    let shared ← chance 1 2
    let earlier := (out.filter fun m => !m.penProvided).map (·.type)
    let cand ← if pp ∧ shared ∧ !earlier.isEmpty then pick earlier else pure (100 + i)
    let type := if pp then (if out.any (fun m => m.penProvided ∧ m.pen = pen ∧ m.type = cand) then 100 + i else cand) else 400 + i
    let useCustom ← chance 2 3
    let dest ← if useCustom ∧ !pb.isEmpty then (do pure (customDest (← pick pb))) else do
      usedExisting := usedExisting + 1
      pure (existing.getD (usedExisting - 1) default)
    out := out ++ [⟨pp, pen, type, dest, ← pick ["", "big", "little", "little"], ← bool⟩]
  pure out

def toRawMap (m : ElemMap) : RawMap :=
  { penProvided := m.penProvided, pen := m.pen, type := m.type, destination := m.dest.name, endian := m.endian, shortKey := m.shortKey }

open Goflow.Spec.Netflow Goflow.Gen.History in
def genElemRound (i : Nat) : G (List String) := do
  let version ← pick [9, 10]
  let pb ← genProtobuf 1 6
  let maps ← genElemMaps pb version
  -- the other protocol's section carries unrelated statements that must not apply
  let decoy : List RawMap := [{ type := 400, destination := (pb.getD 0 default).name }, { type := 401, destination := "out_if" }]
  let fmt0 ← genFormatter pb 0
  -- statements shadowed by a later one with the same key (another destination): only the last one counts
  let mut shadow : List RawMap := []
  for m in maps do
    if (← chance 1 5) then
      shadow := shadow ++ [{ toRawMap m with destination := ← pick ["out_if", "in_if", (pb.getD 0 default).name] }]
  let raw : RawConfig := { fmt0 with
    ipfix := if version = 10 then shadow ++ maps.map toRawMap else decoy,
    v9 := if version = 9 then shadow ++ maps.map toRawMap else decoy }
  let cid := "m" ++ toString (i % 3)
  let exps ← genExporters
  let e ← pick exps
  let recv := 1700000000000000000 + i
  -- template: mapped elements (most of them), look-alikes that no statement matches, plain ones
  let mut fields : List (SField × Option ElemMap) := []
  for m in maps do
    if (← chance 4 5) then
      let w ← if isNumeric m.dest then range 1 (numericMax m.dest) else range 1 20
      fields := fields ++ [(⟨m.type, w, if m.penProvided then some m.pen else none⟩, some m)]
  for m in maps do
    if version = 10 ∧ (← chance 1 2) then
      -- same element id under another enterprise number (or none): not matched
      let coin ← chance 2 3
      -- (another enterprise number: the next one, or one that differs only above its low 16 bits)
      let far ← chance 1 2
      let other : Option Nat := if m.penProvided then some (if far then (m.pen + 65536) % 4294967296 else (m.pen + 1) % 4294967296) else (if coin then some 0 else some 77)
      -- … unless another statement of the file has exactly that key
      if !(maps.any fun m' => m'.penProvided ∧ some m'.pen = other ∧ m'.type = m.type) then
        fields := fields ++ [(⟨m.type, ← range 1 8, other⟩, none)]
  -- now and then the template lists a mapped element twice: the destination is written twice in one flow
  if (← chance 1 3) then
    match fields.head? with
    | some (f, some m) =>
      let w ← if isNumeric m.dest then range 1 (numericMax m.dest) else range 1 20
      fields := fields ++ [(⟨f.id, w, f.ent⟩, some m)]
    | _ => pure ()
  fields := fields ++ [(⟨430, 4, none⟩, none), (⟨8, 4, none⟩, none)]
  fields ← shuffle fields
  let tid ← range 256 300
  let tpl := fields.map (·.1)
  let nrec ← range 1 3
  let mut recs : List (List SValue) := []
  let mut oracles : List String := []
  for r in [0:nrec] do
    let mut vals : List SValue := []
    let mut effects : List Effect := []
    for (f, m?) in fields do
      let b ← if (← chance 1 6) then pure (List.replicate f.length 255) else bytesOf f.length
      vals := vals ++ [⟨b, false⟩]
      match m? with
      | some m => effects := effects ++ [effectOf m.dest m.endian b]
      | none => pure ()
    recs := recs ++ [vals]
    -- columns that are mapping destinations but not carried stay at their zero value
    let untouched := (maps.filter fun m => m.dest.pb.isNone ∧ !(fields.any fun (_, m?) => match m? with | some m' => m'.dest.goName = m.dest.goName | none => false)).map
      fun m => m.dest.goName ++ "=0"
    oracles := oracles ++ ["expect @col " ++ toString r ++ " " ++ " ".intercalate (colItems effects ++ untouched)]
  -- a second template without any mapped element: unaffected traffic
  let tid2 := tid + 50
  let tpl2 : List SField := [⟨8, 4, none⟩, ⟨12, 4, none⟩, ⟨431, 2, none⟩]
  let recs2 : List (List SValue) := [[⟨← bytesOf 4, false⟩, ⟨← bytesOf 4, false⟩, ⟨← bytesOf 2, false⟩]]
  let m0 : Msg := ⟨version, 0, ← bitsVal 32, ← bitsVal 32, ← bitsVal 32, ← bitsVal 32,
    [.template [(tid, tpl), (tid2, tpl2)] 0, .data tid tpl recs 0, .data tid2 tpl2 recs2 0]⟩
  let m := { m0 with count := nrec + 3 }
  let plainCols := (existingDests.map fun d => d.goName ++ "=0")
  match compile raw initialIsSlice with
  | .error _ => pure [cfgOp cid raw, "expect @res err"]
  | .ok _ =>
    pure ([cfgOp cid raw, "expect @res ok", "reset", "pipe nf netflow " ++ cid,
           "pktf nf " ++ hexOf e.ip ++ " " ++ toString e.port ++ " " ++ toString recv ++ " " ++ hexOf (encode m),
           "expect @res ok", "expect @count " ++ toString (nrec + 1)] ++ oracles ++
          ["expect @col " ++ toString nrec ++ " unk=0 " ++ " ".intercalate plainCols, "expect @fmt", "expect @agree"])

open Goflow.Spec.Netflow Goflow.Gen.History in
/-- two readers of the same bytes: a little-endian statement on an element that also feeds its regular column, and a
    little-endian and a big-endian statement over the same bits of a layer (also through an alias key of the layer): every
    reader sees the bytes of the datagram, whatever another statement did with them before -/
def genAliasRound (i : Nat) : G (List String) := do
  let version ← pick [9, 10]
  let pbs : List PbField := [⟨"le_a", 2100, "varint", false⟩, ⟨"be_b", 2101, "varint", false⟩, ⟨"arr_c", 2102, "varint", true⟩]
  let elem ← pick [(7, "SrcPort", 2), (11, "DstPort", 2), (10, "InIf", 4), (14, "OutIf", 2), (1, "Bytes", 8), (2, "Packets", 3)]
  let (eid, col, w) := elem
  let em : RawMap := { type := eid, destination := "le_a", endian := "little" }
  let base : RawConfig := {}
  let raw : RawConfig := { base with protobuf := pbs, ipfix := [em], v9 := [em], layers := [{ layer := "udp", offset := 0, length := 16, destination := "le_a", endian := "little" },
               { layer := "udp", offset := 0, length := 16, destination := "be_b" },
               { layer := "4", offset := 16, length := 16, destination := "arr_c", endian := "little" },
               { layer := "udp", offset := 16, length := 16, destination := "arr_c", endian := "little" }] }
  let cid := "al" ++ toString (i % 2)
  let e : Exporter := ⟨[10, 0, 0, 88], 2055⟩
  let v ← bytesOf w
  let other ← bytesOf 4
  let tpl : List SField := [⟨eid, w, none⟩, ⟨8, 4, none⟩]
  let m0 : Msg := ⟨version, 0, 1, 2, 3, 4, [.template [(256, tpl)] 0, .data 256 tpl [[⟨v, false⟩, ⟨other, false⟩]] 0]⟩
  -- Ethernet / IPv4 / UDP with chosen ports
  let sp ← range 1024 65535
  let dp ← pick [53, 443, 2000, 40000]
  let frame : Bytes := (← bytesOf 12) ++ [0x08, 0x00, 0x45, 0, 0, 28] ++ (← bytesOf 2) ++ [0, 0, 64, 17, 0, 0] ++ (← bytesOf 8) ++
    encBE 2 sp ++ encBE 2 dp ++ [0, 8, 0, 0]
  let le (x : Nat) : Nat := (x % 256) * 256 + x / 256
  let unkFrame := appendTag 2100 0 ++ appendVarint (le sp) ++ (appendTag 2101 0 ++ appendVarint sp) ++
    (appendTag 2102 0 ++ appendVarint (le dp)) ++ (appendTag 2102 0 ++ appendVarint (le dp))
  pure [cfgOp cid raw, "expect @res ok", "reset", "pipe nf netflow " ++ cid,
        "pktf nf " ++ hexOf e.ip ++ " " ++ toString e.port ++ " 1700000000000000000 " ++ hexOf (encode { m0 with count := 2 }),
        "expect @res ok", "expect @count 1",
        "expect @col 0 unk=" ++ hexOf (appendTag 2100 0 ++ appendVarint (leNat v)) ++ " " ++ col ++ "=" ++ toString (beNat v) ++
          " SrcAddr=" ++ hexOf other,
        "call parsepacket " ++ cid ++ " " ++ hexOf frame, "expect @res ok",
        "expect @col 0 unk=" ++ hexOf unkFrame ++ " SrcPort=" ++ toString sp ++ " DstPort=" ++ toString dp]

/-! ### (c) -/

open Goflow.Spec.Frame in
def layerKeys (stackValue : Nat) : List String :=
  if stackValue = LS_Ethernet then ["ethernet", "2"]
  else if stackValue = LS_Dot1Q then ["dot1q"]
  else if stackValue = LS_MPLS then ["mpls"]
  else if stackValue = LS_IPv4 then ["ipv4", "ip", "3"]
  else if stackValue = LS_IPv6 then ["ipv6", "ip", "3"]
  else if stackValue = LS_TCP then ["tcp", "4"]
  else if stackValue = LS_UDP then ["udp", "4"]
  else if stackValue = LS_ICMP then ["icmp"]
  else if stackValue = LS_ICMPv6 then ["icmpv6"]
  else if stackValue = LS_GRE then ["gre"]
  else if stackValue = LS_Route then ["ipv6eh_routing"]
  else if stackValue = LS_Frag then ["ipv6eh_fragment"]
  else []

/-- the per-packet keys of a layer: the ethertype (decimal and 4-digit hex) or the IP protocol number that selected
    it, read from the header in front of it (RFC layouts: the last two bytes of an Ethernet / 802.1Q header, the
    protocol type of GRE, the version nibble behind an MPLS stack, protocol / next-header of IPv4 / IPv6 / extension
    headers) -/
def selectorKeys (d : Bytes) (prev : Option (Nat × Nat)) (start : Nat) : List String :=
  open Goflow.Spec.Frame in
  let b (i : Nat) : Nat := (d.getD i 0).toNat
  let et (v : Nat) : List String := ["etype" ++ toString v, "etype0x" ++ Producer.hex4 v]
  match prev with
  | none => []
  | some (sv, pstart) =>
    if sv = LS_Ethernet ∨ sv = LS_Dot1Q then et (b (start - 2) * 256 + b (start - 1))
    else if sv = LS_GRE then et (b (pstart + 2) * 256 + b (pstart + 3))
    else if sv = LS_MPLS then (if b start / 16 = 4 then et 0x0800 else if b start / 16 = 6 then et 0x86dd else [])
    else if sv = LS_IPv4 then ["proto" ++ toString (b (pstart + 9))]
    else if sv = LS_IPv6 then ["proto" ++ toString (b (pstart + 6))]
    else if sv = LS_Route ∨ sv = LS_Frag then ["proto" ++ toString (b pstart)]
    else []

def selectorLayerNames : List String :=
  ["etype0x0800", "etype2048", "etype0x86dd", "etype34525", "etype0x8100", "etype33024", "etype0x8847", "etype0x0000", "etype0",
   "etype221", "etype0x00dd", "proto6", "proto17", "proto47", "proto4", "proto41", "proto58", "proto1", "proto44", "proto43"]

def documentedLayerNames : List String :=
  ["ethernet", "2", "dot1q", "mpls", "ipv4", "ipv6", "ip", "3", "tcp", "udp", "4", "icmp", "icmpv6", "gre", "ipv6eh_routing", "ipv6eh_fragment"]

/-- (keys, start offset in bytes, encapsulated) for every layer of a frame: a layer is encapsulated
    when it follows a GRE header or is an IP header directly inside another IP (or IPv6 extension) header -/
def layerTable (layers : List (Nat × Nat × Nat)) (d : Bytes := []) : List (List String × Nat × Bool) :=
  open Goflow.Spec.Frame in
  let rec go (ls : List (Nat × Nat × Nat)) (start : Nat) (enc : Bool) (prev : Option Nat) (pstart : Nat := 0) : List (List String × Nat × Bool) :=
    match ls with
    | [] => []
    | (sv, size, _) :: rest =>
      let isIP := sv = LS_IPv4 ∨ sv = LS_IPv6
      let prevIPish := match prev with
        | some p => p = LS_IPv4 ∨ p = LS_IPv6 ∨ p = LS_Route ∨ p = LS_Frag
        | none => false
      let prevGre := prev = some LS_GRE
      let enc' := enc || prevGre || (isIP && prevIPish)
      (layerKeys sv ++ (if d.isEmpty then [] else selectorKeys d (prev.map fun p => (p, pstart)) start), start, enc') ::
        go rest (start + size) enc' (some sv) start
  go layers 0 false none

structure LayerMap where
  layer : String
  encap : Bool
  offset : Nat
  length : Nat
  dest : Dest
  endian : String
  deriving Inhabited

/-- destinations: custom fields, columns the dissector does not write itself (ip_ttl and dst_mac are written by the IP and Ethernet
    parsers after the layer's statements were applied), and the two bytes columns that take the extracted slice as it is -/
def genLayerMaps (pb : List PbField) : G (List LayerMap) := do
  let n ← range 0 6
  let mut out : List LayerMap := []
  for _ in [0:n] do
    let dest ← if (← chance 2 3) ∧ !pb.isEmpty then (do pure (customDest (← pick pb))) else if (← chance 1 3) then pick ((existingDests.drop 8).take 2) else pick (existingDests.filter fun d => d.name ≠ "ip_ttl" ∧ d.name ≠ "dst_mac")
    let length ← if isNumeric dest then pick ([1, 3, 4, 7, 8, 12, 16, 24, 32, 33, 48, 64].filter (· ≤ 8 * numericMax dest))
                 else pick [1, 8, 16, 32, 64, 100, 128]
    out := out ++ [⟨← (do if (← chance 1 4) then pick selectorLayerNames else pick documentedLayerNames), ← chance 1 3, ← pick [0, 0, 4, 8, 9, 16, 32, 64, 72, 96, 128, 160, 200, 256], length, dest, ← pick ["", "big", "little"]⟩]
  pure out

open Goflow.Spec.Frame Goflow.Gen.Frame in
def genLayerRound (i : Nat) : G (List String) := do
  let pb ← genProtobuf 1 6
  let maps ← genLayerMaps pb
  let fmt0 ← genFormatter pb 0
  let raw : RawConfig := { fmt0 with layers := maps.map fun m =>
    { layer := m.layer, encap := m.encap, offset := m.offset, length := m.length, destination := m.dest.name, endian := m.endian, shortKey := i % 2 = 0 } }
  let cid := "l" ++ toString (i % 3)
  match compile raw initialIsSlice with
  | .error _ => pure [cfgOp cid raw, "expect @res err"]
  | .ok _ =>
    let mut out : List String := [cfgOp cid raw, "expect @res ok"]
    for _ in [0:4] do
      let f ← genFrame
      let d := bytes f
      let (_, layers) := facts f
      let table := layerTable layers d
      let mut effects : List Effect := []
      for (keys, start, enc) in table do
        for key in keys do
          for m in maps do
            if m.layer = key ∧ m.encap = enc then
              let v := (extract d (8 * start + m.offset) m.length true).getD []
              effects := effects ++ [effectOf m.dest m.endian v]
      let items := colItems effects
      out := out ++ ["call parsepacket " ++ cid ++ " " ++ hexOf d, "expect @res ok", "expect @col 0 " ++ " ".intercalate items]
      -- the same frame cut exactly at a layer boundary: only the layers inside the capture are mapped — a header
      -- that is not there contributes nothing (no zero-valued custom field, no empty string)
      let sizes := layers.map (·.2.1)
      let bounds := (List.range (sizes.length + 1)).map fun i => (sizes.take i).foldl (· + ·) 0
      let cutAt ← pick bounds
      if cutAt < d.length then
        let mut effectsCut : List Effect := []
        let mut start := 0
        for ((keys, st, enc), (_, size, _)) in table.zip layers do
          let _ := st
          if start + size ≤ cutAt then
            for key in keys do
              for m in maps do
                if m.layer = key ∧ m.encap = enc then
                  let v := (extract (d.take cutAt) (8 * start + m.offset) m.length true).getD []
                  effectsCut := effectsCut ++ [effectOf m.dest m.endian v]
          start := start + size
        out := out ++ ["call parsepacket " ++ cid ++ " " ++ hexOf (d.take cutAt), "expect @res ok",
                       "expect @col 0 " ++ " ".intercalate (colItems effectsCut)]
    pure out

/-! ### (d) -/

def genKeyRound (i : Nat) : G (List String) := do
  let pb ← genProtobuf 0 3
  let fmt0 ← genFormatter pb 0
  let names := defaultFields.filter fun n => n ≠ "layer_stack"
  let key ← subset names (← range 1 4)
  let raw : RawConfig := { fmt0 with key := key }
  let cid := "k" ++ toString (i % 2)
  match compile raw initialIsSlice with
  | .error _ => pure [cfgOp cid raw, "expect @res err"]
  | .ok _ =>
    let mut out : List String := [cfgOp cid raw, "expect @res ok"]
    let keyCols := flowMessageColumns.filter fun c => key.contains c.protoName
    for _ in [0:6] do
      let m1 ← genMsg pb 50
      let m2 ← genMsg pb 50
      -- m2 agrees with m1 exactly on the key columns
      let m2same := keyCols.foldl (fun (m : FlowMsg) c =>
        if c.kind = "u32" ∨ c.kind = "u64" then m.setNum c.goName ((m1.getNum c.goName).getD 0)
        else if c.kind = "bytes" then m.setBytes c.goName ((m1.getBytes c.goName).getD [])
        else if c.kind = "listU32" then m.setNums c.goName ((m1.getNums c.goName).getD [])
        else m.setBytess c.goName ((m1.getBytess c.goName).getD [])) m2
      out := out ++ ["keypair " ++ cid ++ ((m1.dump.drop 3).toString) ++ " |" ++ ((m2same.dump.drop 3).toString), "expect @keyeq"]
      -- change one key column (a number) in a copy of m1: the key changes
      match keyCols.find? fun c => (c.kind = "u32" ∨ c.kind = "u64") ∧ c.goName ≠ "Type" with
      | some c =>
        let v := (m1.getNum c.goName).getD 0
        let m3 := m1.setNum c.goName (if v = 0 then 1 else v - 1)
        out := out ++ ["keypair " ++ cid ++ ((m1.dump.drop 3).toString) ++ " |" ++ ((m3.dump.drop 3).toString), "expect @keyne"]
      | none => pure ()
    pure out

/-! ### (e) configurations are isolated from each other -/

/-- a configuration that registers a tunnel parser on a UDP port is compiled; frames to that port are then dissected under the
    configuration-less default and under another configuration without ports: the registration belongs to the configuration it was
    written in (expected: what the dissector gives for the frame when no port is registered anywhere) -/
def genPortsRound (i : Nat) : G (List String) := do
  let port ← pick [6081, 4789, 6082]
  let withPorts : RawConfig :=
    { protobuf := [⟨"vni_x", 2001, "varint", false⟩], ports := [⟨"udp", "dst", port, "geneve"⟩],
      layers := [{ layer := "udp" ++ toString port, encap := true, offset := 32, length := 24, destination := "vni_x" }] }
  let plain : RawConfig := { protobuf := [⟨"other", 2002, "varint", false⟩] }
  let mut out : List String := [cfgOp ("pp" ++ toString (i % 2)) withPorts, "expect @res ok", "cfg pz none", cfgOp "pq" plain, "expect @res ok"]
  for _ in [0:3] do
    let inner : Bytes := (← bytesOf 12) ++ [0x08, 0x00] ++
      [0x45, 0, 0, 28] ++ (← bytesOf 2) ++ [0, 0, 64, 17, 0, 0] ++ (← bytesOf 8) ++ encBE 2 1000 ++ encBE 2 2000 ++ [0, 8, 0, 0]
    let gnv : Bytes := [0, 0, 0x65, 0x58] ++ encBE 3 (← bitsVal 24) ++ [0]
    let udpLen := 8 + gnv.length + inner.length
    let d : Bytes := (← bytesOf 12) ++ [0x08, 0x00] ++
      [0x45, 0] ++ encBE 2 (20 + udpLen) ++ (← bytesOf 2) ++ [0, 0, 63, 17, 0, 0] ++ (← bytesOf 8) ++
      encBE 2 (← range 1024 60000) ++ encBE 2 port ++ encBE 2 udpLen ++ [0, 0] ++ gnv ++ inner
    match Producer.parsePacket {} FlowMsg.empty d with
    | .ok m =>
      out := out ++ ["call parsepacket pz " ++ hexOf d, "expect res ok", "expect " ++ m.dump,
                     "call parsepacket pq " ++ hexOf d, "expect res ok", "expect " ++ m.dump]
    | .error _ => pure ()
  pure out

def gen (n : Nat) : G (List String) := do
  let mut out : List String := []
  for i in [0:n] do
    if i % 10 = 9 then
      out := out ++ (← genPortsRound i)
      continue
    let r := i % 7
    if r = 0 then out := out ++ (← genGetBytes i) ++ (← genAliasRound i)
    else if r = 1 ∨ r = 2 ∨ r = 3 then out := out ++ (← genElemRound i)
    else if r = 4 ∨ r = 5 then out := out ++ (← genLayerRound i)
    else out := out ++ (← genKeyRound i)
  pure out

end Goflow.Gen.C14
