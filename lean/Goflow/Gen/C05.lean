import Goflow.Gen.Prng
import Goflow.Spec.V5
import Goflow.Producer.Raw
/-! Generator for C05: headers and record lists (0..30), exact datagrams, truncations
    (k complete records + a partial one) and header counts around k. -/
namespace Goflow.Gen.C05
open Goflow Goflow.Gen Goflow.V5

def genHeader (count : Nat) : G Header := do
  pure ⟨count, ← bitsVal 32, ← bitsVal 32, ← bitsVal 32, ← bitsVal 32, ← bitsVal 8, ← bitsVal 8, ← bitsVal 16⟩

def genRecord : G Record := do
  pure ⟨← bitsVal 32, ← bitsVal 32, ← bitsVal 32, ← bitsVal 16, ← bitsVal 16, ← bitsVal 32, ← bitsVal 32,
        ← bitsVal 32, ← bitsVal 32, ← bitsVal 16, ← bitsVal 16, ← bitsVal 8, ← bitsVal 8, ← bitsVal 8, ← bitsVal 8,
        ← bitsVal 16, ← bitsVal 16, ← bitsVal 8, ← bitsVal 8, ← bitsVal 16⟩

def expectOk (p : Packet) : List String :=
  ["expect res ok", "expect v5 " ++ p.toD.render]

/-- one case: the op line and the specification's expectation -/
def genCase : G (List String) := do
  let k ← range 0 30
  let rs ← listOf k genRecord
  let mode ← below 10
  if mode < 4 then
    -- exact datagram
    let h ← genHeader k
    let d := Spec.V5.encode h rs
    -- the same datagram as it reaches the decoder in production: through the NetFlow pipe (one message per record)
    -- … and through the auto-detecting pipe (`flow://`), which tells v5 from sFlow by the first word; and as the raw producer
    -- prints the decoded packet (`-produce raw -format json`)
    let pipe ← pick ["nf", "auto"]
    pure (["call v5 " ++ hexOf d] ++ expectOk ⟨5, h, rs⟩ ++
          ["pkt " ++ pipe ++ " 0a000001 2055 1700000000000000000 " ++ hexOf d, "expect @res ok", "expect @count " ++ toString k] ++
          (if mode < 2 then ["call rawv5 " ++ hexOf d, "expect res ok", "expect json " ++ Raw.rawJsonV5 ⟨5, h, rs⟩] else []))
  else
    -- k complete records, a partial one (0..47 bytes), header count c ∈ {k-1,k,k+1,30,65535,random}
    let cm ← below 8
    let c ← match cm with
      | 0 => pure (k - 1)
      | 1 => pure k
      | 2 => pure (k + 1)
      | 3 => pure 30
      | 4 => pure 65535
      -- counts whose product with the record size passes a 16-bit or 32-bit boundary (48·1366 > 2^16)
      | 5 => pick [1365, 1366, 2731, 4096, 4097, 8192, 32768, 43691, 65534]
      | 6 => (do pure (1366 + (← below 60000)))
      | _ => range 0 40
    let h ← genHeader c
    let plen ← below 48
    let p ← bytesOf plen
    let d := Spec.V5.encode h rs ++ p
    -- … also into a packet value that is reused from call to call
    pure (["call v5 " ++ hexOf d] ++ expectOk ⟨5, h, rs.take (min c k)⟩ ++ ["call v5r " ++ hexOf d] ++ expectOk ⟨5, h, rs.take (min c k)⟩)

def gen (n : Nat) : G (List String) := do
  let mut out : List String := ["reset", "cfg c0 none", "pipe nf netflow c0", "pipe auto flow c0"]
  for _ in [0:n] do
    out := out ++ (← genCase)
  pure out

end Goflow.Gen.C05
