import Goflow.Gen.History
import Goflow.Gen.C09
import Goflow.Gen.C08
import Goflow.Gen.C14
/-! C12 generator: prefix histories of every protocol (valid, malformed, failing half-way in the
    producer) on one producer and message pool, with the pool poisoned by fully populated messages
    before each probe. The model has no pool, so any leak shows as a correspondence failure; the
    probe's specification-side expectation is what a fresh process yields. -/
namespace Goflow.Gen.C12
open Goflow Goflow.Gen Goflow.Gen.History Goflow.Spec.Netflow

/-- a datagram whose conversion fails after some messages were taken from the pool:
    a template with a numeric element of illegal width 9 as its last data set -/
def failingDatagram (version dom : Nat) : G Bytes := do
  let good : List SField := [⟨8, 4, none⟩, ⟨12, 4, none⟩, ⟨1, 4, none⟩]
  -- the failing record first fills scalar, repeated and address columns, then hits the illegal width
  let bad : List SField := [⟨58, 2, none⟩, ⟨56, 6, none⟩, ⟨70, 3, none⟩, ⟨47, 4, none⟩, ⟨32, 2, none⟩, ⟨18, 4, none⟩, ⟨138, 4, none⟩, ⟨2, 9, none⟩]
  let r1 ← listOf 3 (Netflow.genRecordVals good)
  let r2 ← listOf 1 (Netflow.genRecordVals bad)
  let m0 : Msg := ⟨version, 0, 1000, 1700000000, 7, dom, [.template [(400, good), (401, bad)] 0, .data 400 good r1 0, .data 401 bad r2 0]⟩
  pure (encode { m0 with count := 6 })

/-- flows with custom (mapped) fields printed as JSON / text, followed on the same producer and pool by
    flows that carry none: nothing of the earlier flows may show up in any output form of the later ones -/
def genFormatted (i : Nat) : G (List String) := do
  let round ← C14.genElemRound i
  let mut out := round
  if round.any (·.startsWith "pktf ") then
    for j in [0:3] do
      let v5 ← C08.genV5Case (i + 2000 + j)
      let pk := (v5.filter (·.startsWith "pkt nf ")).map fun l => "pktf nf " ++ (l.drop 7).toString
      out := out ++ pk.flatMap fun l => [l, "expect @res ok", "expect @fmt", "expect @agree"]
      if j = 1 then
        -- the custom-field datagram once more (its templates are known by now), then plain flows again
        out := out ++ (round.filter (·.startsWith "pktf ")).flatMap fun l => [l, "expect @fmt"]
  pure out

/-- now and then the format refuses a message that is not the first of its datagram: the messages in front of it were
    delivered, the datagram's outcome is the refusal — and every message of the datagram goes back to the pool once -/
def withRefusals (pipe : String) : List String → G (List String)
  | p :: r :: c :: rest => do
    let n := ((c.drop 14).toString).toNat!
    if p.startsWith "pkt " ∧ (r = "expect @res ok" ∨ r = "expect @res err:template-not-found") ∧ c.startsWith "expect @count " ∧ n ≥ 2 ∧ (← chance 1 4) then
      let k ← range 2 n
      pure (["failat " ++ pipe ++ " " ++ toString k, p, "expect @res err", "expect @count " ++ toString (k - 1)] ++ (← withRefusals pipe rest))
    else
      pure (p :: (← withRefusals pipe (r :: c :: rest)))
  | l => pure l

def gen (n : Nat) : G (List String) := do
  let mut out : List String := []
  for i in [0:n] do
    if i % 4 = 3 then
      out := out ++ (← genFormatted i)
      continue
    let pipe := if i % 2 = 0 then "nf" else "auto"
    out := out ++ header
    let len ← range 3 25
    let hist ← withRefusals pipe (← genMixed pipe len 15)
    let e : Exporter := ⟨[10, 9, 9, 9], 4000⟩
    let fd ← failingDatagram 10 77
    -- poison, run the history (poisoning again in the middle), a failing datagram, then poison and probe
    -- split the history at an op boundary (its `expect` lines stay with their `pkt` line)
    let mid := hist.length / 2
    let cut := match (List.range hist.length).find? (fun i => i ≥ mid ∧ (hist.getD i "").startsWith "pkt ") with
      | some i => i
      | none => hist.length
    out := out ++ ["poison " ++ pipe ++ " 40"] ++ hist.take cut ++ ["poison " ++ pipe ++ " 40"] ++ hist.drop cut
    -- a probe right after the datagram that failed half-way (the pool's most recent objects are the ones it touched) …
    let early ← C08.genV5Case (i + 1000)
    let early := (early.filter fun l => l.startsWith "pkt " || l.startsWith "expect ").map fun l =>
      if l.startsWith "pkt nf " ∧ pipe = "auto" then "pkt auto " ++ (l.drop 7).toString else l
    out := out ++ [pktLine pipe e 1700000000000000001 fd, "expect @res err", "expect @count 0"] ++ early
    -- … and the same again with the pool poisoned in between
    out := out ++ [pktLine pipe e 1700000000000000002 fd, "expect @res err", "expect @count 0", "poison " ++ pipe ++ " 64"]
    -- probes: one datagram of each kind; C08's / C09's expectations are those of a fresh process
    let probe ← if i % 3 = 0 then C09.genCase i else if i % 3 = 1 then C08.genCase i else C08.genV5Case i
    -- drop the probe's own header (it would reset the pool state): keep only pkt + expect lines, rerouted to this pipe
    let probe := probe.filter fun l => l.startsWith "pkt " || l.startsWith "expect "
    let probe := probe.map fun l =>
      if l.startsWith "pkt sf " then "pkt auto " ++ (l.drop 7).toString
      else if l.startsWith "pkt nf " ∧ pipe = "auto" then "pkt auto " ++ (l.drop 7).toString
      else l
    out := out ++ probe
  pure out
end Goflow.Gen.C12
