import Goflow.Gen.Sflow
namespace Goflow.Gen.C04
open Goflow Goflow.Gen Goflow.Gen.Sflow Goflow.Spec.Sflow

def genCase : G (List String) := do
  let d ← genDatagram
  pure ["call sf " ++ hexOf (encode d), "expect res ok", "expect sf " ++ (expected d).toD.render, "expect rawjson ok"]

def gen (n : Nat) : G (List String) := do
  let mut out : List String := []
  for _ in [0:n] do
    out := out ++ (← genCase)
  pure out
end Goflow.Gen.C04
