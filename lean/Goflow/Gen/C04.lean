import Goflow.Gen.Sflow
namespace Goflow.Gen.C04
open Goflow Goflow.Gen Goflow.Gen.Sflow Goflow.Spec.Sflow

def genCase : G (List String) := do
  let d ← genDatagram
  pure ["call sf " ++ hexOf (encode d), "expect res ok", "expect sf " ++ (expected d).toD.render, "expect rawjson ok"]

/-- a record of an unknown type whose declared length is not a multiple of four (an agent that does not pad), followed by an
    extended switch record: the unknown record is skipped by exactly its declared length, the record behind it is decoded from
    the byte after it. No specification-side expectation (the datagram is not XDR): the model's decoder, which is the translated
    Go decoder (Proofs/C04Trans2.lean), says what comes out. -/
def genUnaligned : G (List String) := do
  let ulen ← pick [1, 2, 3, 5, 6, 7, 9, 13]
  let udata ← bytesOf ulen
  let fmt ← pick [9999, 1005, 2000, 4096 + 7]
  let sw : Bytes := words [1001, 16, ← w32, ← w32, ← w32, ← w32]
  let recs : Bytes := words [fmt, ulen] ++ udata ++ sw
  let body : Bytes := words [← w32, 7, ← w32, ← w32, ← w32, ← w32, ← w32, 2] ++ recs
  let d : Bytes := words [5, 1] ++ [10, 0, 0, 1] ++ words [0, 1, 2, 1] ++ words [1, body.length] ++ body
  pure ["call sf " ++ hexOf d]

def gen (n : Nat) : G (List String) := do
  let mut out : List String := []
  for i in [0:n] do
    out := out ++ (← genCase)
    if i % 25 = 24 then out := out ++ (← genUnaligned)
  pure out
end Goflow.Gen.C04
