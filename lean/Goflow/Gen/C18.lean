import Goflow.Gen.Prng
import Goflow.Conc.Receiver
import Goflow.Conc.ReceiverFaults
namespace Goflow.Gen.C18
open Goflow Goflow.Gen Goflow.Conc.Receiver Goflow.Conc.ReceiverFaults

/-- 'S' Start, 'T' Stop, 'F' a Start while a foreign socket (without SO_REUSEPORT) holds the port -/
def seqs (alphabet : List Char) : Nat → List (List Char)
  | 0 => [[]]
  | n + 1 => (seqs alphabet n).flatMap fun s => alphabet.map (· :: s)

def callsOf (cs : List Char) : List CallF :=
  (cs.zip (List.range cs.length)).map fun (c, i) => if c = 'S' then .start (i + 1) else if c = 'F' then .startFail (i + 1) 0 else .stop

/-- the specification: a receiver is stopped or started; Start on a started one, Stop on a stopped one and a Start that
    cannot bind report an error and change nothing -/
def specLine (cs : List Char) : String :=
  "res ok results=" ++ ",".intercalate (((specRunF none (callsOf cs)).2).map fun r => match r with | .ok => "0" | _ => "1") ++
    " corrupt=0 leak=0 rebind=1 dead=0 stolen=0"

/-- every Start/Stop sequence of length 1..maxLen, on rotating receiver configurations; sequences with failing Starts;
    plus drain runs -/
def gen (maxLen : Nat) : G (List String) := do
  let mut out : List String := []
  let cfgs := ["1 1 0 1", "2 4 8 0", "4 8 1000 1", "1 2 1 0", "3 3 0 0"]
  let mut i := 0
  for len in [1:maxLen + 1] do
    for s in seqs ['S', 'T'] len do
      let cfg := cfgs.getD (i % cfgs.length) "1 1 8 1"
      i := i + 1
      out := out ++ ["updown " ++ cfg ++ " " ++ String.ofList s, "expect " ++ specLine s]
  -- every sequence of up to min maxLen 4 calls with at least one Start that cannot bind, and longer random ones
  for len in [1:min maxLen 4 + 1] do
    for s in (seqs ['S', 'T', 'F'] len).filter (·.contains 'F') do
      let cfg := cfgs.getD (i % cfgs.length) "1 1 8 1"
      i := i + 1
      out := out ++ ["updown " ++ cfg ++ " " ++ String.ofList s, "expect " ++ specLine s]
  for _ in [0:2 * maxLen] do
    let s ← listOf (← range 5 12) (pick ['S', 'T', 'F', 'F', 'S', 'T'])
    let cfg ← pick cfgs
    out := out ++ ["updown " ++ cfg ++ " " ++ String.ofList s, "expect " ++ specLine s]
  -- many Start / Stop cycles under continuous traffic on the synchronous configurations (blocking, queue size 0): a reader
  -- that picks a datagram up while Stop is in progress must not keep Stop from returning
  for cfg in ["1 1 0 1", "2 2 0 1", "1 4 0 1", "2 1 1 1"] do
    let cyc : List Char := (List.replicate 25 ['S', 'T']).flatten
    out := out ++ ["updown " ++ cfg ++ " " ++ String.ofList cyc, "expect " ++ specLine cyc]
  -- a Start that cannot bind its port (held by a socket without SO_REUSEPORT)
  for cfg in ["1 1 8 0", "2 2 0 1", "4 2 100 1"] do
    out := out ++ ["startbusy " ++ cfg, "expect res ok busy=err later=ok alive=yes stop=ok"]
  for (sk, wk, q, k) in [(1, 1, 1000, 40), (2, 4, 1000, 200), (1, 8, 64, 50), (4, 2, 1000, 300)] do
    out := out ++ ["drain " ++ toString sk ++ " " ++ toString wk ++ " " ++ toString q ++ " " ++ toString k, "expect res ok stop=ok undecoded=0"]
  pure out
end Goflow.Gen.C18
