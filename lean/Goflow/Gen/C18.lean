import Goflow.Gen.Prng
import Goflow.Conc.Receiver
namespace Goflow.Gen.C18
open Goflow Goflow.Gen Goflow.Conc.Receiver

def seqs : Nat → List (List Call)
  | 0 => [[]]
  | n + 1 => (seqs n).flatMap fun s => [Call.start :: s, Call.stop :: s]

def callStr (cs : List Call) : String := String.ofList (cs.map fun c => match c with | .start => 'S' | .stop => 'T')

def specLine (cs : List Call) : String :=
  "res ok results=" ++ ",".intercalate ((specResults false cs).map fun e => if e then "1" else "0") ++ " corrupt=0 leak=0 rebind=1 dead=0 stolen=0"

/-- every Start/Stop sequence of length 1..maxLen, on rotating receiver configurations; plus drain runs -/
def gen (maxLen : Nat) : G (List String) := do
  let mut out : List String := []
  let cfgs := ["1 1 0 1", "2 4 8 0", "4 8 1000 1", "1 2 1 0", "3 3 0 0"]
  let mut i := 0
  for len in [1:maxLen + 1] do
    for s in seqs len do
      let cfg := cfgs.getD (i % cfgs.length) "1 1 8 1"
      i := i + 1
      out := out ++ ["updown " ++ cfg ++ " " ++ callStr s, "expect " ++ specLine s]
  -- many Start / Stop cycles under continuous traffic on the synchronous configurations (blocking, queue size 0): a reader
  -- that picks a datagram up while Stop is in progress must not keep Stop from returning
  for cfg in ["1 1 0 1", "2 2 0 1", "1 4 0 1", "2 1 1 1"] do
    let cyc : List Call := (List.replicate 25 [Call.start, Call.stop]).flatten
    out := out ++ ["updown " ++ cfg ++ " " ++ callStr cyc, "expect " ++ specLine cyc]
  -- a Start that cannot bind its port (held by a socket without SO_REUSEPORT)
  for cfg in ["1 1 8 0", "2 2 0 1", "4 2 100 1"] do
    out := out ++ ["startbusy " ++ cfg, "expect res ok busy=err later=ok alive=yes stop=ok"]
  for (sk, wk, q, k) in [(1, 1, 1000, 40), (2, 4, 1000, 200), (1, 8, 64, 50), (4, 2, 1000, 300)] do
    out := out ++ ["drain " ++ toString sk ++ " " ++ toString wk ++ " " ++ toString q ++ " " ++ toString k, "expect res ok stop=ok undecoded=0"]
  pure out
end Goflow.Gen.C18
