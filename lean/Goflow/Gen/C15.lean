import Goflow.Gen.History
import Goflow.Gen.Frame
import Goflow.Gen.Config
/-! C15 generator: a sequential prologue announces templates and sampling rates; then data-only
    datagrams of every protocol from several exporters are staged and processed in parallel. -/
namespace Goflow.Gen.C15
open Goflow Goflow.Gen Goflow.Gen.History Goflow.Gen.Netflow Goflow.Spec.Netflow

/-- a configuration that registers one tunnel parser on two UDP ports and maps a bit range of the tunnel header under
    the per-packet port key (`udp6081` / `udp6082`) to two different custom fields: the key list of a parser is
    extended per packet, so two workers dissecting frames to the two ports at the same time must not see each other's key -/
def portsConfig : Format.RawConfig :=
  { protobuf := [⟨"vni_a", 2001, "varint", false⟩, ⟨"vni_b", 2002, "varint", false⟩],
    ports := [⟨"udp", "dst", 6081, "geneve"⟩, ⟨"udp", "dst", 6082, "geneve"⟩],
    layers := [{ layer := "udp6081", encap := true, offset := 32, length := 24, destination := "vni_a" },
               { layer := "udp6082", encap := true, offset := 32, length := 24, destination := "vni_b" }] }

/-- Ethernet / IPv4 / UDP to `dport` / Geneve (VNI) / inner Ethernet / IPv4 / UDP -/
def geneveFrame (dport vni : Nat) : G Bytes := do
  let inner : Bytes := (← bytesOf 12) ++ [0x08, 0x00] ++
    [0x45, 0, 0, 28] ++ (← bytesOf 2) ++ [0, 0, 64, 17, 0, 0] ++ (← bytesOf 8) ++ encBE 2 1000 ++ encBE 2 2000 ++ [0, 8, 0, 0]
  let gnv : Bytes := [0, 0, 0x65, 0x58] ++ encBE 3 vni ++ [0]
  let udpLen := 8 + gnv.length + inner.length
  pure ((← bytesOf 12) ++ [0x08, 0x00] ++
    [0x45, 0] ++ encBE 2 (20 + udpLen) ++ (← bytesOf 2) ++ [0, 0, 63, 17, 0, 0] ++ (← bytesOf 8) ++
    encBE 2 (← range 1024 60000) ++ encBE 2 dport ++ encBE 2 udpLen ++ [0, 0] ++ gnv ++ inner)

def gen (k : Nat) : G (List String) := do
  let mut out : List String := []
  for i in [0:k] do
    let pipe := if i % 2 = 0 then "nf" else "auto"
    out := out ++ header ++ [Format.cfgOp "cp" portsConfig, "pipe sfp sflow cp"]
    let exps ← genExporters
    let mut clock := 1700000000000000000
    -- prologue: per exporter, version: a data template, an options template with a sampling element, a rate
    let mut scopes : List (Nat × Nat × Nat × Nat × List SField × Nat) := []    -- exporter idx, version, domain, tid, layout, rate
    for ei in [0:exps.length] do
      for version in [9, 10] do
        let dom ← range 1 3
        let tid ← range 256 260
        let fs ← genFields version
        let otid := tid + 10
        -- the sampling state is per exporter address (not port), version and domain: two sockets of one address
        -- announce one and the same rate, so that a refresh in the parallel part changes nothing
        let rate0 ← range 1 100000
        let ip := (exps.getD ei default).ip
        let rate := match scopes.find? (fun sc => (exps.getD sc.1 default).ip == ip ∧ sc.2.1 == version ∧ sc.2.2.1 == dom) with
          | some sc => sc.2.2.2.2.2
          | none => rate0
        let sets : List SSet := [.template [(tid, fs)] 0,
          (if version = 9 then .v9opts [(otid, [], [⟨34, 4, none⟩])] 0 else .ipfixopts [(otid, [], [⟨34, 4, none⟩])] 0),
          .optsData otid [] [⟨34, 4, none⟩] [([], [⟨encBE 4 rate, false⟩])] 0]
        let m : Msg := ⟨version, 3, 1000, 1700000000, 1, dom, sets⟩
        clock := clock + 1000
        out := out ++ [pktLine pipe (exps.getD ei default) clock (encode m)]
        scopes := scopes ++ [(ei, version, dom, tid, fs, rate)]
    -- parallel part: data only
    let n ← range 20 80
    for _ in [0:n] do
      clock := clock + 1000
      let kind ← below 10
      if kind < (if pipe = "nf" then 6 else 4) then
        let (ei, version, dom, tid, fs, rate) ← pick scopes
        let s ← genDataSet tid (.data fs) 8
        -- exporters resend their templates and sampling options periodically: the same template / the same rate
        -- again, next to the data, while other workers cut data sets of the same exporter with it
        let refresh ← below 6
        let otid := tid + 10
        let pre : List SSet := if refresh = 0 then [.template [(tid, fs)] 0]
          else if refresh = 1 then [.template [(tid, fs)] 0,
            (if version = 9 then .v9opts [(otid, [], [⟨34, 4, none⟩])] 0 else .ipfixopts [(otid, [], [⟨34, 4, none⟩])] 0),
            .optsData otid [] [⟨34, 4, none⟩] [([], [⟨encBE 4 rate, false⟩])] 0]
          else []
        let m0 : Msg := ⟨version, 0, ← bitsVal 32, ← bitsVal 32, ← bitsVal 32, dom, pre ++ [s]⟩
        let m := { m0 with count := max (totalRecords m0) 1 }
        out := out ++ ["stage " ++ ((pktLine pipe (exps.getD ei default) clock (encode m)).drop 4).toString]
      else if kind < 6 ∨ pipe = "nf" then
        let e ← pick exps
        if (← chance 1 2) then
          -- sFlow datagrams on the pipe with the port configuration: frames to both registered ports
          -- every sample a flow sample with one raw Ethernet header: the workers spend their time in the dissector
          let ns ← range 2 8
          let samples ← listOf ns (do
            let f ← geneveFrame (← pick [6081, 6082, 6082, 6081, 53]) (← range 1 0xffffff)
            pure (Spec.Sflow.SSample.flow (← bitsVal 32) (← bitsVal 8) (← bitsVal 24) (← listOf 5 (bitsVal 32))
              [Spec.Sflow.SRecord.rawHeader 1 (← bitsVal 32) (← bitsVal 32) f]))
          let dg : Spec.Sflow.Datagram := ⟨← bytesOf 4, ← bitsVal 32, ← bitsVal 32, ← bitsVal 32, samples⟩
          out := out ++ ["stage " ++ ((pktLine "sfp" e clock (Spec.Sflow.encode dg)).drop 4).toString]
        else
        out := out ++ ["stage " ++ ((pktLine pipe e clock (← v5Datagram)).drop 4).toString]
      else
        let e ← pick exps
        -- sampled headers are real layered frames (Ethernet / 802.1Q / MPLS / IPv4 / IPv6 / tunnels), so that the
        -- workers run the dissector's parser chain concurrently
        let dg ← Sflow.genDatagram (frame := do pure (Spec.Frame.bytes (← Frame.genFrame))) (flowOnly := true)
        out := out ++ ["stage " ++ ((pktLine pipe e clock (Spec.Sflow.encode dg)).drop 4).toString]
    let g ← pick [2, 4, 8, 16, 32]
    out := out ++ ["par " ++ toString g]
  -- announcements of one known exporter by several workers at the same moment, on the real stores (race-detector build):
  -- every announcement must be there afterwards (parallel processing = some sequential order)
  out := out ++ ["race tplstress 200 -", "expect res ok lost=[]", "race ratestress 200 -", "expect res ok lost=[]"]
  pure out
end Goflow.Gen.C15
