import Goflow.Gen.Prng
import Goflow.Spec.Frame
/-! Generator of layered frames (C10 grammar) and of the per-capture-length oracle lines. -/
namespace Goflow.Gen.Frame
open Goflow Goflow.Gen Goflow.Spec.Frame

def genL4 (v6 : Bool) : G L4 := do
  let k ← below 10
  if k < 3 then do
    let nopt ← if (← chance 1 3) then range 1 3 else pure 0
    pure (.tcp (← bitsVal 16) (← bitsVal 16) (← bitsVal 32) (← bitsVal 32) (5 + nopt) (← bitsVal 8) (← bitsVal 16) (← bytesOf (4 * nopt)))
  else if k < 6 then do
    -- avoid ports that would select a registered tunnel parser in configurations with ports
    pure (.udp (← range 1024 60000) (← range 1024 60000))
  else if k < 8 then
    if v6 then pure (.icmpv6 (← bitsVal 8) (← bitsVal 8)) else pure (.icmp (← bitsVal 8) (← bitsVal 8))
  else do
    let p ← pick [2, 50, 51, 89, 132, 253]
    pure (.other p (← bytesOf (← range 0 12)))

def genLabels : G (List (Nat × Nat)) := do
  let n ← range 1 4
  listOf n (do pure (← range 16 (2 ^ 20 - 1), ← bitsVal 8))

mutual
partial def genIP (depth : Nat) : G IP := do
  let v6 ← bool
  let pl ← genPayload depth v6
  if v6 then
    let ext ← match (← below 4) with
      | 0 => do pure (V6Ext.fragment (← bitsVal 13) (← below 8) (← bitsVal 32))
      | 1 => do
        let n ← range 0 4
        pure (V6Ext.srh (← bitsVal 8) (if n = 0 then 0 else n - 1) (← listOf n (bytesOf 16)))
      | _ => pure V6Ext.none
    pure (.v6 (← bitsVal 8) (← bitsVal 20) (← bitsVal 8) (← bytesOf 16) (← bytesOf 16) ext pl)
  else
    pure (.v4 (← bitsVal 8) (← bitsVal 16) (← below 8) (← bitsVal 13) (← bitsVal 8) (← bytesOf 4) (← bytesOf 4) pl)
partial def genPayload (depth : Nat) (v6 : Bool) : G Payload := do
  let k ← below 10
  if depth > 0 ∧ k = 0 then do
    let inner ← genIP (depth - 1)
    -- GRE carries IP directly or an MPLS stack (RFC 4023) in front of it
    if (← chance 1 3) then pure (.gre (.mpls (← genLabels) inner)) else pure (.gre (.ip inner))
  else if depth > 0 ∧ k = 1 then do
    pure (.ipip (← genIP (depth - 1)))
  else do pure (.l4 (← genL4 v6))
end

def genFrame : G Frame := do
  let nv ← match (← below 6) with | 0 => pure 1 | 1 => pure 2 | _ => pure 0
  let vlans ← listOf nv (range 1 4095)
  let k ← below 10
  let pl ← if k < 2 then do pure (EtherPayload.mpls (← genLabels) (← genIP 1))
    else if k = 2 then do pure (EtherPayload.raw (← pick [0x0806, 0x88cc, 0x9000]) (← bytesOf (← range 0 30)))
    else do pure (EtherPayload.ip (← genIP 1))
  pure ⟨← bitsVal 48, ← bitsVal 48, vlans, pl⟩

def tvStr : TV → String
  | .n v => toString v
  | .b v => hexOf v
  | .ns v => "[" ++ ",".intercalate (v.map toString) ++ "]"
  | .bs v => "[" ++ ",".intercalate (v.map hexOf) ++ "]"

def tvZero : TV → Bool
  | .n v => v = 0
  | .b v => v.isEmpty
  | .ns v => v.isEmpty
  | .bs v => v.isEmpty

/-- oracle line for capture length `k`: columns whose header lies inside the capture must carry
    the true value (`=`), the others may be absent or carry a true value (`?=`, lists: prefix `^=`) -/
def oracleLine (f : Frame) (k : Nat) (full : Bool) : String :=
  let (fs, layers) := facts f
  let l2types : List Nat := (if f.vlans.isEmpty then [] else [0x8100]) ++
    (match f.payload with | .mpls .. => [0x8847] | _ => [])
  let items := fs.map fun ft =>
    let isList := match ft.val with | .ns _ => true | .bs _ => true | _ => false
    if ft.col = "Etype" then
      if ft.ext ≤ k then "Etype=" ++ tvStr ft.val
      else "Etype?=" ++ "|".intercalate ((l2types ++ [match ft.val with | .n v => v | _ => 0]).map toString)
    else if ft.col = "VlanId" then
      if ft.ext ≤ k then "VlanId=" ++ tvStr ft.val else "VlanId?=" ++ "|".intercalate (f.vlans.map toString)
    else if ft.ext ≤ k then ft.col ++ "=" ++ tvStr ft.val
    else if isList then ft.col ++ "^=" ++ tvStr ft.val
    else ft.col ++ "?=" ++ tvStr ft.val
  let stack := "[" ++ ",".intercalate (layers.map fun l => toString l.1) ++ "]"
  let sizes := "[" ++ ",".intercalate (layers.map fun l => toString l.2.1) ++ "]"
  let layerItems := if full then ["LayerStack=" ++ stack, "LayerSize=" ++ sizes] else ["LayerStack^=" ++ stack, "LayerSize%=" ++ sizes]
  "@msg 0 " ++ " ".intercalate (items ++ layerItems)

end Goflow.Gen.Frame
