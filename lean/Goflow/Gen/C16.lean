import Goflow.Conc.GetOrCreate
namespace Goflow.Gen.C16
open Goflow.Conc.GetOrCreate

/-- every plan for 2 and 3 workers, for both per-exporter states (template systems of the pipe,
    sampling-rate systems of the producer); expectation: nothing is lost -/
def gen (_ : Nat) : List String :=
  (([2, 3].flatMap fun n => (plans n).map fun p => (n, p)).flatMap fun (n, p) =>
    ["tpl", "rate"].flatMap fun kind =>
      ["race " ++ kind ++ " " ++ toString n ++ " " ++ ",".intercalate (p.map Ev.str), "expect res ok lost=[]"]) ++
  -- first contact with a datagram that is refused after it announced a template: worker 0 is parked a second time
  -- after the publication of the exporter's template system, while the others announce theirs
  (["S0,R0,S1,R1,R0", "S0,S1,R0,R1,R0", "S0,S1,R1,R0,R0", "S1,S0,R1,R0,R0", "S1,S0,R0,R1,R0", "S0,R0,R0,S1,R1", "S1,R1,S0,R0,R0"].flatMap fun p =>
    ["race tplbad 2 " ++ p, "expect res ok lost=[]"]) ++
  (["S0,R0,S1,S2,R1,R2,R0", "S0,S1,S2,R0,R1,R2,R0", "S1,S0,S2,R1,R0,R2,R0", "S0,S1,R0,R1,S2,R2,R0", "S2,S0,R0,S1,R2,R1,R0"].flatMap fun p =>
    ["race tplbad 3 " ++ p, "expect res ok lost=[]"]) ++
  -- atomicity of an announcement on the instrumented template system of cmd/goflow2: at every step of a worker that
  -- re-announces template 256 (as the other kind of template, or as the same), another worker's data set of 256 is
  -- never "template not found"
  (["o2d", "d2o", "same"].flatMap fun m => ["race tplatomic " ++ m ++ " -", "expect res ok lost=[]"]) ++
  -- first contacts of different exporters at the same moment (template systems per address and port, sampling systems per address)
  (([2, 3].flatMap fun n => (plans n).map fun p => (n, p)).flatMap fun (n, p) =>
    ["tplx", "ratex"].flatMap fun kind =>
      ["race " ++ kind ++ " " ++ toString n ++ " " ++ ",".intercalate (p.map Ev.str), "expect res ok lost=[]"]) ++
  -- several workers announcing for one KNOWN exporter at the same moment, unscheduled, on the real stores
  ["race tplstress 300 -", "expect res ok lost=[]", "race ratestress 300 -", "expect res ok lost=[]"]
end Goflow.Gen.C16
