import Goflow.Conc.GetOrCreate
namespace Goflow.Gen.C16
open Goflow.Conc.GetOrCreate

/-- every plan for 2 and 3 workers, for both per-exporter states (template systems of the pipe,
    sampling-rate systems of the producer); expectation: nothing is lost -/
def gen (_ : Nat) : List String :=
  (([2, 3].flatMap fun n => (plans n).map fun p => (n, p)).flatMap fun (n, p) =>
    ["tpl", "rate"].flatMap fun kind =>
      ["race " ++ kind ++ " " ++ toString n ++ " " ++ ",".intercalate (p.map Ev.str), "expect res ok lost=[]"])
end Goflow.Gen.C16
