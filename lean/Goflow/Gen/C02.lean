import Goflow.Gen.C01
/-! C02 generator: adversarial datagrams — every 16/32-bit word overwritten with the boundary values
    {0,1,1000,1001,65535,2^31-1,2^32-1}, templates of 0..64 fields (lengths 0..64 and variable) followed
    by data — each decoded and produced with the allocation measured against the property's budget. -/
namespace Goflow.Gen.C02
open Goflow Goflow.Gen Goflow.Gen.History Goflow.Spec.Netflow

def allocLine (pipe : String) (e : Exporter) (recv : Nat) (d : Bytes) (widest : Nat) : String :=
  "allocpkt " ++ ((pktLine pipe e recv d).drop 4).toString ++ " " ++ toString widest

/-- overwrite the 2- or 4-byte word at `off` with `v` -/
def overwrite (d : Bytes) (off w v : Nat) : Bytes := (setBytesAt d off (encBE w v)).take d.length

def widthOf (sets : List SSet) : Nat :=
  (sets.map fun s => match s with
    | .template rs _ => (rs.map (·.2.length)).foldr max 0
    | .data _ tpl _ _ => tpl.length
    | .optsData _ sc op _ _ => sc.length + op.length
    | .v9opts rs _ => (rs.map fun r => r.2.1.length + r.2.2.length).foldr max 0
    | .ipfixopts rs _ => (rs.map fun r => r.2.1.length + r.2.2.length).foldr max 0).foldr max 0

def gen (n : Nat) : G (List String) := do
  let mut out : List String := []
  for i in [0:n] do
    out := out ++ header
    let e : Exporter := ⟨[10, 0, 0, 7], 2055⟩
    let mut clock := 1700000000000000000 + i
    -- (a) a wide template (0..64 fields) and a data set for it, then the same with every word inflated
    let version ← pick [9, 10]
    let nf ← pick [0, 1, 5, 20, 40, 64]
    let fs ← listOf nf (Netflow.genSField version)
    let tid ← range 256 300
    let recs ← listOf (← range 0 6) (Netflow.genRecordVals fs)
    let m0 : Msg := ⟨version, 0, 1, 2, 3, 4, [.template [(tid, fs)] 0, .data tid fs recs 0]⟩
    let m := { m0 with count := max (totalRecords m0) 2 }
    let d := encode m
    let pipe := if i % 2 = 0 then "nf" else "auto"
    out := out ++ [allocLine pipe e clock d (nf + 1)]
    for _ in [0:12] do
      clock := clock + 1
      let off ← below d.length
      let w ← pick [2, 4]
      let v ← pick boundaryVals
      out := out ++ [allocLine pipe e clock (overwrite d off w v) 65]
    -- (b) sFlow datagrams with inflated counts and lengths
    let dg ← Sflow.genDatagram
    let sd := Spec.Sflow.encode dg
    for _ in [0:12] do
      clock := clock + 1
      let off ← below (sd.length / 4)
      let v ← pick boundaryVals
      out := out ++ [allocLine "auto" e clock (overwrite sd (4 * off) 4 v) 0]
    out := out ++ [allocLine "auto" e clock (← C01.giantCount) 0, allocLine "sf" e clock (← C01.giantCount) 0]
    -- (c) NetFlow v5 with count 65535 and a few records
    let v5 ← v5Datagram
    out := out ++ [allocLine "nf" e clock (overwrite v5 2 2 65535) 0]
    -- (e) many small sets, each claiming the largest count a 16-bit field can hold: the budget is per datagram,
    --     not per set (truncated template / options-template sets of 8 or 10 bytes, up to the 9000-byte buffer)
    let ver2 ← pick [9, 10]
    let nsets ← pick [30, 200, 800, 1100]
    let kind ← below 3
    let setId := if ver2 = 9 then (if kind = 0 then 0 else 1) else (if kind = 0 then 2 else 3)
    let one : Bytes := if kind = 0 then encBE 2 setId ++ encBE 2 8 ++ encBE 2 (256 + i % 100) ++ encBE 2 65535
      else encBE 2 setId ++ encBE 2 10 ++ encBE 2 (256 + i % 100) ++ encBE 2 65535 ++ encBE 2 (if kind = 1 then 65535 else 1)
    let hdr : Bytes := if ver2 = 9 then encBE 2 9 ++ encBE 2 nsets ++ encBE 4 1 ++ encBE 4 2 ++ encBE 4 3 ++ encBE 4 4
      else encBE 2 10 ++ encBE 2 (16 + nsets * one.length) ++ encBE 4 2 ++ encBE 4 3 ++ encBE 4 4
    let many : Bytes := (hdr ++ (List.replicate nsets one).flatten).take 9000
    out := out ++ [allocLine pipe e clock many 0]
    -- (g) many header-only data sets of templates nobody announced (each reports template-not-found: the error of the datagram
    --     must not grow faster than the datagram), and many 7-byte data sets of a known template with one variable-length
    --     element, each record announcing 65535 absent bytes in the three-byte length form
    let ver3 ← pick [9, 10]
    let nset ← pick [600, 1500, 2240]
    let tiny : Bytes := (List.range nset).flatMap fun j => encBE 2 (256 + j % 3000) ++ encBE 2 4
    let hdr3 : Bytes := if ver3 = 9 then encBE 2 9 ++ encBE 2 nset ++ encBE 4 1 ++ encBE 4 2 ++ encBE 4 3 ++ encBE 4 77
      else encBE 2 10 ++ encBE 2 (16 + tiny.length) ++ encBE 4 2 ++ encBE 4 3 ++ encBE 4 77
    out := out ++ [allocLine pipe e clock (hdr3 ++ tiny) 0]
    let vtid := 700 + i % 50
    let vtpl : Msg := ⟨10, 0, 1, 2, 3, 78, [.template [(vtid, [⟨1300, 0xffff, none⟩])] 0]⟩
    out := out ++ [allocLine pipe e clock (encode { vtpl with count := 1 }) 2]
    let nv ← pick [100, 700, 1280]
    let oneV : Bytes := encBE 2 vtid ++ encBE 2 7 ++ [0xff, 0xff, 0xff]
    let vbody : Bytes := (List.replicate nv oneV).flatten
    out := out ++ [allocLine pipe e clock (encBE 2 10 ++ encBE 2 (16 + vbody.length) ++ encBE 4 2 ++ encBE 4 3 ++ encBE 4 78 ++ vbody) 2]
    -- (f) the largest sFlow datagrams the receive buffer holds, made of minimal samples each claiming 1000 records
    --     (the cap): 448 counter samples of 20 bytes / 224 flow samples of 40 bytes
    let many2 : Bytes ← (do
      if (← bool) then
        let one : Bytes := encBE 4 2 ++ encBE 4 12 ++ encBE 4 1 ++ encBE 4 7 ++ encBE 4 1000
        let k ← pick [448, 448, 100, 447]
        pure (encBE 4 5 ++ encBE 4 1 ++ [10, 0, 0, 1] ++ encBE 4 0 ++ encBE 4 1 ++ encBE 4 2 ++ encBE 4 k ++ (List.replicate k one).flatten)
      else
        let one : Bytes := encBE 4 1 ++ encBE 4 32 ++ encBE 4 1 ++ encBE 4 7 ++ encBE 4 10 ++ encBE 4 0 ++ encBE 4 0 ++ encBE 4 1 ++ encBE 4 2 ++ encBE 4 1000
        let k ← pick [224, 224, 50]
        pure (encBE 4 5 ++ encBE 4 1 ++ [10, 0, 0, 1] ++ encBE 4 0 ++ encBE 4 1 ++ encBE 4 2 ++ encBE 4 k ++ (List.replicate k one).flatten))
    out := out ++ [allocLine (if i % 2 = 0 then "sf" else "auto") e clock many2 0]
    -- (h) sampled headers of tunnels: a chain of IPv4 headers carrying IPv4 (protocol 4), each with a header-length nibble
    --     from {0, 1, 4, 5, 6, 15} (0 is not a length a header can have; the walk over the layers must still advance)
    let depth ← range 1 6
    let mut chain : Bytes := []
    for _ in [0:depth] do
      let ihl ← pick [0, 0, 1, 4, 5, 6, 15]
      let nxt ← pick [4, 4, 4, 41, 47, 6]
      chain := chain ++ [0x40 + ihl, 0] ++ encBE 2 (← range 0 1500) ++ (← bytesOf 4) ++ [64, nxt] ++ (← bytesOf 10)
    let tail ← bytesOf (← range 0 40)
    let tframe : Bytes := (← bytesOf 12) ++ [0x08, 0x00] ++ chain ++ tail
    let tdg : Spec.Sflow.Datagram := ⟨[10, 0, 0, 1], 0, 1, 2, [.flow 1 0 7 [10, 0, 0, 1, 2] [.rawHeader 1 tframe.length 0 tframe]]⟩
    out := out ++ [allocLine (if i % 2 = 0 then "sf" else "auto") e clock (Spec.Sflow.encode tdg) 0]
    -- (i) an exporter that has announced thousands of templates (three datagrams of 1100 one-field templates each), then
    --     refreshes 400 of them: what a datagram costs depends on its own length, not on how much the exporter said before
    let hv ← pick [9, 10]
    let e2 : Exporter := ⟨[10, 0, 0, 8], 2055⟩
    let tplDatagram (first k dom : Nat) : Bytes :=
      let recs : Bytes := (List.range k).flatMap fun j => encBE 2 (256 + first + j) ++ encBE 2 1 ++ encBE 2 (1001 + j % 7) ++ encBE 2 4
      let set : Bytes := encBE 2 (if hv = 9 then 0 else 2) ++ encBE 2 (4 + recs.length) ++ recs
      if hv = 9 then encBE 2 9 ++ encBE 2 k ++ encBE 4 1 ++ encBE 4 2 ++ encBE 4 3 ++ encBE 4 dom ++ set
      else encBE 2 10 ++ encBE 2 (16 + set.length) ++ encBE 4 2 ++ encBE 4 3 ++ encBE 4 dom ++ set
    if i % 4 = 0 then
      for h in [0:3] do
        out := out ++ [allocLine pipe e2 clock (tplDatagram (1100 * h) 1100 9) 2]
      out := out ++ [allocLine pipe e2 clock (tplDatagram (← range 0 2800) 400 9) 2]
    -- (j) an IPFIX template that names the frame-section element (315) many times with length 0 next to one one-byte field, and a
    --     datagram full of one-byte records: every record runs the packet dissector once per 315 field, on no bytes at all
    if i % 3 = 0 then
      let n315 ← pick [16, 40, 63]
      let ftid := 900 + i % 50
      let ftpl : List SField := (List.replicate n315 (⟨315, 0, none⟩ : SField)) ++ [⟨1300, 1, none⟩]
      let ftm : Msg := ⟨10, 0, 1, 2, 3, 79, [.template [(ftid, ftpl)] 0]⟩
      out := out ++ [allocLine pipe e clock (encode { ftm with count := 1 }) (n315 + 1)]
      let nrec ← pick [500, 4000, 8900]
      let fbody : Bytes := encBE 2 ftid ++ encBE 2 (4 + nrec) ++ (← bytesOf nrec)
      out := out ++ [allocLine pipe e clock (encBE 2 10 ++ encBE 2 (16 + fbody.length) ++ encBE 4 2 ++ encBE 4 3 ++ encBE 4 79 ++ fbody) (n315 + 1)]
    -- (d) degenerate templates
    out := out ++ [allocLine "nf" e clock (← C01.degenerate 10) 1, allocLine "nf" e clock (← C01.degenerate 9) 1]
  pure out
end Goflow.Gen.C02
