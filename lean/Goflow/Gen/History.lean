import Goflow.Gen.Netflow
import Goflow.Gen.Sflow
import Goflow.Gen.C05
/-! Histories of datagrams through the pipes: several exporters, domains, versions, protocols. -/
namespace Goflow.Gen.History
open Goflow Goflow.Gen

structure Exporter where
  ip : Bytes
  port : Nat
  deriving Inhabited

def genExporters : G (List Exporter) := do
  let nips ← range 1 4
  let mut out := []
  for i in [0:nips] do
    let ip ← match (← below 4) with
      -- link-local exporters: the same address reached through different interfaces (zones) is a different exporter
      | 3 => pure ([0xfe, 0x80] ++ List.replicate 13 0 ++ [UInt8.ofNat (i / 2 + 1)] ++ (if i % 2 = 0 then "eth0" else "eth1").toUTF8.toList)
      | 0 => pure [10, 0, 0, UInt8.ofNat (i + 1)]
      | 1 => pure ([0x20, 0x01, 0x0d, 0xb8] ++ List.replicate 11 0 ++ [UInt8.ofNat (i + 1)])
      | _ => pure (List.replicate 10 0 ++ [0xff, 0xff, 192, 0, 2, UInt8.ofNat (i + 1)])   -- IPv4-mapped
    let nports ← range 1 3
    for j in [0:nports] do
      out := out ++ [⟨ip, 2000 + j⟩]
  pure out

def pktLine (pipe : String) (e : Exporter) (recv : Nat) (d : Bytes) : String :=
  "pkt " ++ pipe ++ " " ++ hexOf e.ip ++ " " ++ toString e.port ++ " " ++ toString recv ++ " " ++ hexOf d

def header : List String :=
  ["reset", "cfg c0 none", "pipe nf netflow c0", "pipe auto flow c0", "pipe sf sflow c0"]

/-- scope key of the generator's knowledge: exporter index, version, domain -/
abbrev Scope := Nat × Nat × Nat

def v5Datagram : G Bytes := do
  -- mostly small; now and then the largest datagrams the format allows (30 records = 1464 bytes)
  let k ← if (← chance 1 10) then pick [29, 30, 30] else range 0 8
  let rs ← listOf k C05.genRecord
  let h ← C05.genHeader k
  pure (Spec.V5.encode h rs)

/-- a mixed history on one pipe (`nf` or `auto`), `n` datagrams; with `malformedPct` percent of the
    datagrams mutated -/
def genMixed (pipe : String) (n : Nat) (malformedPct : Nat := 0) : G (List String) := do
  let exps ← genExporters
  let domains ← listOf 3 (bitsVal 32)
  let mut known : List (Scope × Netflow.KnownMap) := []
  let mut out : List String := []
  let mut clock := 1700000000000000000
  for _ in [0:n] do
    let ei ← below exps.length
    let e := exps.getD ei default
    clock := clock + (← range 1 1000000000)
    let proto ← below 10
    -- the datagram and, for well-formed ones, the number of flow records it carries (specification side)
    let willMutate := (← below 100) < malformedPct
    let mut tnf := false
    let (d, nflows) ← if proto < 6 then do
        let version ← pick [9, 10]
        let dom ← pick domains
        let sc : Scope := (ei, version, dom)
        let kn := (known.lookup sc).getD []
        let (m, kn') ← Netflow.genMsg version dom kn
        -- a mutated datagram may or may not get its templates learned: forget the scope, so that later
        -- messages re-announce what they use
        known := (sc, if willMutate then [] else kn') :: known.filter (fun x => x.1 != sc)
        -- now and then one to three data sets of templates nobody announced sit among the others: the datagram reports
        -- "template not found" (once, however many there are), the records of the other sets are delivered
        let nstray ← if !willMutate ∧ (← chance 1 6) then range 1 3 else pure 0
        let mut sets := m.sets
        for j in [0:nstray] do
          match ((List.range 40).map (· + 60000 + 40 * j)).find? (fun t => (kn'.lookup t).isNone) with
          | some t =>
            let s := Spec.Netflow.SSet.data t [⟨1, 4, none⟩] [[⟨← bytesOf 4, false⟩]] 0
            let pos ← below (sets.length + 1)
            sets := sets.take pos ++ [s] ++ sets.drop pos
            tnf := true
          | none => pure ()
        let m1 := { m with sets := sets }
        let m2 := { m1 with count := max (Spec.Netflow.totalRecords m1) sets.length }
        pure (Spec.Netflow.encode m2, Spec.Netflow.flowRecords m)
      else if proto < 8 ∨ pipe = "nf" then do
        -- mostly small; now and then the largest datagrams the format allows (30 records = 1464 bytes)
        let k ← if (← chance 1 8) then pick [29, 30, 30] else range 0 8
        let rs ← listOf k C05.genRecord
        let h ← C05.genHeader k
        pure (Spec.V5.encode h rs, k)
      else do
        let dg ← Sflow.genDatagram
        -- now and then the first sample is of another enterprise (data_format = enterprise << 12 | format, enterprise ≠ 0):
        -- not one of the standard samples, whatever its low 12 bits say — the collector refuses the datagram
        if !dg.samples.isEmpty ∧ dg.agent.length = 4 ∧ !willMutate ∧ (← chance 1 6) then
          let d0 := Spec.Sflow.encode dg
          let fmtOff := 28
          let low := beNat ((d0.drop fmtOff).take 4)
          let ent ← pick [1, 9, 4413, 0xfffff]
          let d1 := d0.take fmtOff ++ encBE 4 (ent * 4096 + low % 4096) ++ d0.drop (fmtOff + 4)
          out := out ++ [pktLine pipe e clock d1, "expect @res err", "expect @count 0"]
          continue
        pure (Spec.Sflow.encode dg, Spec.Sflow.flowSamples dg)
    if willMutate then
      let d' ← mutate d
      -- truncated / inflated datagrams never yield more messages than the intact one carries records
      out := out ++ [pktLine pipe e clock d'] ++ (if d'.length < d.length ∧ d.take d'.length == d' then ["expect @maxcount " ++ toString nflows] else [])
    else
      out := out ++ [pktLine pipe e clock d, (if tnf then "expect @res err:template-not-found" else "expect @res ok"), "expect @count " ++ toString nflows]
  pure out

end Goflow.Gen.History
