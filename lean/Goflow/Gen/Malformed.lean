import Goflow.Gen.Prng
/-! The malformed stream: derived from well-formed datagrams by truncation, bit flips and
    count/length inflation at chosen offsets. -/
namespace Goflow.Gen

/-- the interesting values for a 16/32-bit count or length field -/
def boundaryVals : List Nat := [0, 1, 1000, 1001, 65535, 2^31 - 1, 2^32 - 1, 100000, 16777215, 99999999]

def setBytesAt (d : Bytes) (off : Nat) (v : Bytes) : Bytes :=
  d.take off ++ v ++ d.drop (off + v.length)

/-- mutate a datagram: truncate, flip a bit, or overwrite a 2/4-byte word with a boundary value -/
def mutate (d : Bytes) : G Bytes := do
  let m ← below 4
  if d.isEmpty then pure d else
  match m with
  | 0 => do let k ← below (d.length + 1); pure (d.take k)
  | 1 => do
    let i ← below d.length
    let bit ← below 8
    pure (d.set i ((d.getD i 0) ^^^ (UInt8.ofNat (2 ^ bit))))
  | 2 => do
    let i ← below d.length
    let v ← pick boundaryVals
    pure ((setBytesAt d i (encBE 2 v)).take d.length)
  | _ => do
    let i ← below d.length
    let v ← pick boundaryVals
    pure ((setBytesAt d i (encBE 4 v)).take d.length)

end Goflow.Gen
