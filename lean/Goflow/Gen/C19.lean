import Goflow.Gen.Prng
namespace Goflow.Gen.C19
open Goflow Goflow.Gen

def expectLine : String := "expect res ok failed=[] missing=[] dup=[] junk=0"

/-- plans: senders that pick / write around 0..5 rotations, including a rotation placed exactly
    between picking the writer and writing -/
def genPlan : G (Nat × List String) := do
  let n ← range 2 8
  let nrot ← range 0 5
  -- event pool: P0..Pn-1, W0..Wn-1 (W after P), ROT × nrot, randomly interleaved
  let mut pending : List Nat := List.range n      -- not yet started
  let mut picked : List Nat := []
  let mut rots := nrot
  let mut out : List String := []
  for _ in [0:(2 * n + nrot)] do
    let k ← below 3
    if k = 0 ∧ !pending.isEmpty then
      let i ← pick pending
      pending := pending.erase i
      picked := picked ++ [i]
      out := out ++ ["P" ++ toString i]
    else if k = 1 ∧ !picked.isEmpty then
      let i ← pick picked
      picked := picked.erase i
      out := out ++ ["W" ++ toString i]
    else if rots > 0 then
      rots := rots - 1
      out := out ++ ["ROT"]
    else if !pending.isEmpty then
      let i ← pick pending
      pending := pending.erase i
      picked := picked ++ [i]
      out := out ++ ["P" ++ toString i]
    else if !picked.isEmpty then
      let i ← pick picked
      picked := picked.erase i
      out := out ++ ["W" ++ toString i]
  pure (n, out)

def gen (k : Nat) : G (List String) := do
  -- the canonical window first: pick, rotate, write
  let mut out : List String := ["file 1 0a P0,ROT,W0", expectLine, "file 2 0a P0,P1,ROT,W1,ROT,W0", expectLine,
    "file 3 - P0,ROT,P1,W0,ROT,W1,P2,W2", expectLine, "file 2 0d0a7c P1,ROT,ROT,W1,P0,W0", expectLine]
  for _ in [0:k] do
    let (n, plan) ← genPlan
    let sep ← pick ["0a", "-", "0d0a", "7c7c7c", "0a250a", "2525", "25730a"]
    out := out ++ ["file " ++ toString n ++ " " ++ sep ++ " " ++ ",".intercalate plan, expectLine]
  -- a rotation whose reopen fails (a directory sits at the path): nothing that was acknowledged may be missing
  out := out ++ ["filefault 20 0a", "expect @head res ok lostacked=0", "filefault 5 0d0a", "expect @head res ok lostacked=0",
                 "filefault " ++ toString (← range 1 60) ++ " 7c7c7c", "expect @head res ok lostacked=0"]
  -- unscheduled concurrent senders with message sizes up to 33 KB, rotations in between
  for _ in [0:(k / 4 + 1)] do
    let w ← pick [4, 8, 16, 32]
    let per ← pick [20, 40, 80]
    let sep ← pick ["0a", "0d0a", "7c7c7c", "2564"]
    out := out ++ ["filestress " ++ toString w ++ " " ++ toString per ++ " " ++ toString (← range 0 4) ++ " " ++ sep,
                   "expect res ok failed=0 missing=0 dup=0 junk=0"]
  pure out
end Goflow.Gen.C19
