import Goflow.Gen.Prng
import Goflow.Gen.Malformed
import Goflow.Spec.Sflow
/-! Generators of abstract sFlow v5 datagrams (specification side), reused by C01 C02 C04 C07 C09 C12. -/
namespace Goflow.Gen.Sflow
open Goflow Goflow.Gen Goflow.Spec.Sflow

def genIP : G Bytes := do
  match (← below 8) with
  | 0 => pure (List.replicate 10 0 ++ [0xff, 0xff] ++ (← bytesOf 4))      -- IPv4-mapped IPv6: stays 16 bytes
  | 1 => if (← bool) then pure (List.replicate 4 0) else pure (List.replicate 16 0)
  | 2 | 3 | 4 => bytesOf 4
  | _ => bytesOf 16

def w32 : G Nat := bitsVal 32

/-- a flow record; `frame` supplies raw-header payloads (defaults to random bytes) -/
def genRecord (frame : G Bytes) : G SRecord := do
  let k ← below 14
  match k with
  | 0 | 1 | 2 => do
    let h ← frame
    let proto ← if (← chance 4 5) then pure 1 else range 0 20
    pure (.rawHeader proto (← w32) (← w32) h)
  | 3 => pure (.ethernet (← w32) (← bytesOf 6) (← bytesOf 6) (← w32))
  | 4 => pure (.ipv4 (← w32) (← w32) (← bytesOf 4) (← bytesOf 4) (← w32) (← w32) (← w32) (← w32))
  | 5 => pure (.ipv6 (← w32) (← w32) (← bytesOf 16) (← bytesOf 16) (← w32) (← w32) (← w32) (← w32))
  | 6 => pure (.extSwitch (← w32) (← w32) (← w32) (← w32))
  | 7 => pure (.extRouter (← genIP) (← w32) (← w32))
  | 8 | 9 => do
    let path ← if (← chance 1 3) then pure none else do
      let n ← if (← chance 1 6) then range 0 50 else range 0 4
      pure (some (← w32, ← listOf n w32))
    let nc ← if (← chance 1 6) then range 0 50 else range 0 3
    pure (.extGateway (← genIP) (← w32) (← if (← chance 1 3) then pure 0 else w32) (← w32) path (← listOf nc w32) (← w32))
  | 10 => pure (.egressQueue (← w32))
  | 11 => do
    let n ← range 0 40
    pure (.acl (← w32) (← bytesOf n) (← range 0 2))
  | 12 => do
    let n ← range 0 40
    pure (.function (← bytesOf n))
  | _ => do
    -- records of other enterprises (data_format = enterprise << 12 | format) whose low 12 bits equal a standard structure
    -- number are not that structure: skipped by their length like any unknown record
    let f ← pick [0, 5, 1004, 1005, 1006, 1007, 1008, 1012, 1035, 1039, 2000, 4294967295,
                  4413 * 4096 + 1001, 8800 * 4096 + 1002, 4096 + 1, 4096 + 3, 9 * 4096 + 4, 4096 + 1003, 0xfffff * 4096 + 2]
    let n ← range 0 14
    pure (.unknown f (← bytesOf (4 * n)))

def genCRecord : G SCRecord := do
  let k ← below 4
  match k with
  | 0 | 1 => do
    let vs ← Goflow.Sflow.ifCountersW.mapM (fun w => bitsVal (8 * w))
    pure (.ifc vs)
  | 2 => do
    let vs ← Goflow.Sflow.ethCountersW.mapM (fun w => bitsVal (8 * w))
    pure (.eth vs)
  | _ => do
    let f ← pick [0, 3, 4, 5, 1001, 2000, 4096 + 1, 4413 * 4096 + 2]
    let n ← range 0 24
    pure (.unknown f (← bytesOf (4 * n)))

def defaultFrame : G Bytes := do
  let n ← if (← chance 1 5) then range 0 256 else range 0 64
  bytesOf n

def genSample (frame : G Bytes) (flowOnly : Bool := false) : G SSample := do
  let k ← if flowOnly then below 2 else below 7
  let nrec ← if (← chance 1 6) then range 0 8 else range 0 3
  let seq ← w32
  match k with
  | 0 | 5 => pure (.flow seq (← bitsVal 8) (← bitsVal 24) (← listOf 5 w32) (← listOf nrec (genRecord frame)))
  | 1 | 6 => pure (.expFlow seq (← w32) (← w32) (← listOf 7 w32) (← listOf nrec (genRecord frame)))
  | 2 => pure (.counter seq (← bitsVal 8) (← bitsVal 24) (← listOf nrec genCRecord))
  | 3 => pure (.expCounter seq (← w32) (← w32) (← listOf nrec genCRecord))
  | _ => pure (.drop seq (← w32) (← w32) (← listOf 4 w32) (← listOf nrec (genRecord frame)))

def genDatagram (frame : G Bytes := defaultFrame) (flowOnly : Bool := false) (maxSamples : Nat := 12) : G Datagram := do
  let n ← if (← chance 1 6) then range 0 maxSamples else range 0 3
  pure ⟨← genIP, ← w32, ← w32, ← w32, ← listOf n (genSample frame flowOnly)⟩

end Goflow.Gen.Sflow
