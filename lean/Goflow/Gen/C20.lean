import Goflow.Gen.Prng
namespace Goflow.Gen.C20
open Goflow Goflow.Gen

def gen (k : Nat) : G (List String) := do
  -- the canonical cases first: hashing on with several keys (one of them the empty key), hashing on with the empty
  -- key only, hashing off, a flush threshold far below the message size
  let okLine := "expect res ok delivered=ok corrupt=0 partitions=ok closed=ok errors=n/a"
  let mut out : List String := ["kafka 60 1 10000 none 3", okLine, "kafka 40 1 1000000 none 1", okLine,
    "kafka 50 0 10000 none 2", okLine, "kafka 30 1 100 none 4", okLine]
  for i in [0:k] do
    let n ← pick [1, 7, 50, 400, 2000]
    let hashing ← bool
    let flush ← pick [100, 10000, 1000000]
    let keys ← range 1 6
    let fault := if i % 4 = 2 then "produce-error" else if i % 4 = 3 then "broker-closed" else "none"
    let n := if fault = "none" then n else min n 50
    out := out ++ ["kafka " ++ toString n ++ " " ++ (if hashing then "1" else "0") ++ " " ++ toString flush ++ " " ++ fault ++ " " ++ toString keys,
      "expect res ok delivered=ok corrupt=0 partitions=ok closed=ok errors=" ++ (if fault = "none" then "n/a" else "seen")]
  pure out
end Goflow.Gen.C20
