import Goflow.Gen.Prng
namespace Goflow.Gen.C20
open Goflow Goflow.Gen

def gen (k : Nat) : G (List String) := do
  let mut out : List String := []
  for i in [0:k] do
    let n ← pick [1, 7, 50, 400, 2000]
    let hashing ← bool
    let flush ← pick [100, 10000, 1000000]
    let keys ← range 1 6
    let fault := if i % 4 = 2 then "produce-error" else if i % 4 = 3 then "broker-closed" else "none"
    let n := if fault = "none" then n else min n 50
    out := out ++ ["kafka " ++ toString n ++ " " ++ (if hashing then "1" else "0") ++ " " ++ toString flush ++ " " ++ fault ++ " " ++ toString keys,
      "expect res ok delivered=ok corrupt=0 partitions=ok closed=ok errors=" ++ (if fault = "none" then "n/a" else "seen")]
  pure out
end Goflow.Gen.C20
