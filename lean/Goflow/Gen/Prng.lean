import Goflow.Basic.Bytes
/-! splitmix64 and small combinators: every random choice of every generator derives from one
    seed, so a disagreement replays exactly. -/
namespace Goflow.Gen

structure Rng where
  s : UInt64
  deriving Inhabited

def Rng.next (r : Rng) : UInt64 × Rng :=
  let s := r.s + 0x9E3779B97F4A7C15
  let z := s
  let z := (z ^^^ (z >>> 30)) * 0xBF58476D1CE4E5B9
  let z := (z ^^^ (z >>> 27)) * 0x94D049BB133111EB
  (z ^^^ (z >>> 31), ⟨s⟩)

abbrev G := StateM Rng

def u64 : G Nat := do
  let r ← get
  let (v, r') := r.next
  set r'
  pure v.toNat

/-- uniform in [0, n) (n > 0; modulo bias is irrelevant here) -/
def below (n : Nat) : G Nat := do
  let v ← u64
  pure (if n = 0 then 0 else v % n)

/-- uniform in [lo, hi] -/
def range (lo hi : Nat) : G Nat := do
  let v ← below (hi - lo + 1)
  pure (lo + v)

def bool : G Bool := do pure ((← below 2) = 1)

/-- true with probability num/den -/
def chance (num den : Nat) : G Bool := do pure ((← below den) < num)

def pick {α} [Inhabited α] (xs : List α) : G α := do
  let i ← below xs.length
  pure (xs.getD i default)

/-- a value of `bits` bits, biased towards boundary values -/
def bitsVal (bits : Nat) : G Nat := do
  let k ← below 10
  let top := 2 ^ bits
  match k with
  | 0 => pure 0
  | 1 => pure (top - 1)
  | 2 => pure 1
  | 3 => pure (top / 2)
  | _ => do let v ← u64; pure (v % top)

def listOf {α} (n : Nat) (g : G α) : G (List α) := do
  let mut out := []
  for _ in [0:n] do
    out := (← g) :: out
  pure out.reverse

def bytesOf (n : Nat) : G Bytes := listOf n (do pure (UInt8.ofNat (← below 256)))

def run {α} (seed : Nat) (g : G α) : α := (g.run ⟨UInt64.ofNat (seed * 2654435761 + 12345)⟩).1

end Goflow.Gen
