import Goflow.Gen.History
import Goflow.Gen.Config
/-! C11 generator: histories with sampling announcements in options data (elements 305 / 50 / 34,
    4-byte encoding). The oracle is a reference map keyed by (exporter IP, version, domain). -/
namespace Goflow.Gen.C11
open Goflow Goflow.Gen Goflow.Gen.History Goflow.Gen.Netflow Goflow.Spec.Netflow

structure Scope where
  data : Option (Nat × List SField) := none       -- data template id and layout known to this exporter (ip,port)
  opts : Option (Nat × List SField × List SField) := none
  deriving Inhabited

def dataTpl : List SField := [⟨1001, 4, none⟩, ⟨1002, 2, none⟩]

def genOptsLayout (version : Nat) : G (List SField × List SField) := do
  -- scope fields: none, an IANA one, or (IPFIX) an enterprise-specific one — its enterprise number sits between the field
  -- specifiers like that of an option field
  let scopes ← listOf (← range 0 1) (do
    if version = 10 ∧ (← chance 1 3) then pure (⟨← range 1 300, 4, some (← range 1 60000)⟩ : SField) else pure (⟨1, 4, none⟩ : SField))
  -- option fields: a subset of the three sampling elements plus unrelated ones, in random order
  let ids ← pick [[305], [50], [34], [34, 50], [50, 305], [34, 305], [1005, 34], [50, 1006, 305], [1007]]
  let fs0 : List SField := ids.map fun id => ⟨id, 4, none⟩
  -- unrelated elements of other widths around the sampling element: a variable-length one (IPFIX: samplerName 84,
  -- interfaceName 82), short and long fixed ones
  let mut fs := fs0
  if version = 10 ∧ (← chance 1 2) then
    let pos ← below (fs.length + 1)
    let id ← pick [84, 82, 1010]
    fs := fs.take pos ++ [⟨id, 0xffff, none⟩] ++ fs.drop pos
  if (← chance 1 3) then
    let pos ← below (fs.length + 1)
    let len ← pick [1, 2, 3, 6, 8, 16]
    fs := fs.take pos ++ [⟨1011, len, none⟩] ++ fs.drop pos
  pure (scopes, fs)

/-- rate announced by an options record: 305, then 50, then 34 -/
def recordRate (opts : List SField) (vals : List SValue) : Option Nat :=
  let pairs := opts.zip vals
  let find (id : Nat) := (pairs.find? fun p => p.1.id = id ∧ p.1.ent.isNone).map fun p => beNat p.2.bytes
  match find 305 with
  | some v => some v
  | none => match find 50 with
    | some v => some v
    | none => find 34

def genHistory (pipe : String) (n : Nat) : G (List String) := do
  let exps ← genExporters
  let domains ← listOf 2 (bitsVal 32)
  let mut scopes : List ((Nat × Nat × Nat) × Scope) := []          -- (exporter index, version, domain)
  let mut rates : List ((Bytes × Nat × Nat) × Nat) := []           -- (ip, version, domain) ↦ rate
  let mut out : List String := []
  let mut clock := 1700000000000000000
  for _ in [0:n] do
    let ei ← below exps.length
    let e := exps.getD ei default
    clock := clock + 1000
    let version ← pick [9, 10]
    let dom ← pick domains
    let key := (ei, version, dom)
    let rkey := (e.ip, version, dom)
    let mut sc := (scopes.lookup key).getD {}
    let mut sets : List SSet := []
    let mut nflows := 0
    let mut announced : Option Nat := none
    -- templates first (when missing or sometimes re-announced)
    if sc.data.isNone ∨ (← chance 1 5) then
      let tid ← range 256 258
      sets := sets ++ [.template [(tid, dataTpl)] 0]
      sc := { sc with data := some (tid, dataTpl) }
    if sc.opts.isNone ∨ (← chance 1 4) then
      -- IPFIX: now and then the same template id, element ids and widths as before with one element moved between the
      -- IANA registry and an enterprise one (element 34 of a vendor is not samplingInterval, and the other way round)
      let toggled : Option (Nat × List SField × List SField) ← (do
        match sc.opts with
        | some (tid, s, o) =>
          if version = 10 ∧ !o.isEmpty ∧ (← chance 1 2) then
            let i ← below o.length
            let pen ← range 1 60000
            let o' := (List.range o.length).zip o |>.map fun (j, f) =>
              if j = i then ({ f with ent := if f.ent.isNone then some pen else none } : SField) else f
            pure (some (tid, s, o'))
          else pure none
        | none => pure none)
      let tid ← match toggled with | some t => pure t.1 | none => range 300 302
      let (s, o) ← match toggled with | some t => pure t.2 | none => genOptsLayout version
      -- now and then the set describes a second options template behind the sampling one (an interface table, say), with as
      -- many fields or fewer: the sampling template is stored with its own field list
      let extra : List (Nat × List SField × List SField) ← (do
        if (← chance 1 3) then
          let n2 ← range 1 (max 1 o.length)
          let o2 ← listOf n2 (do pure (⟨← range 1100 1200, ← pick [1, 2, 4, 8], none⟩ : SField))
          pure [(310 + (← below 4), s, o2)]
        else pure [])
      sets := sets ++ [if version = 9 then .v9opts ((tid, s, o) :: extra) 0 else .ipfixopts ((tid, s, o) :: extra) 0]
      sc := { sc with opts := some (tid, s, o) }
    -- at most one sampling record per message, before or after the data set
    let optsFirst ← bool
    let withOpts ← chance 1 2
    let mkOpts : G (List SSet) := do
      match sc.opts with
      | some (tid, s, o) =>
        let sv ← genRecordVals s
        let ov0 ← genRecordVals o
        -- announced intervals: random ones and the boundary values (0 = "no sampling" after a rate was known, 1, all ones)
        let ov ← ov0.mapM fun (v : SValue) => do
          match (← below 6) with
          | 0 => pure (⟨List.replicate v.bytes.length 0, v.long⟩ : SValue)
          | 1 => pure (⟨encBE v.bytes.length 1, v.long⟩ : SValue)
          | 2 => pure (⟨List.replicate v.bytes.length 255, v.long⟩ : SValue)
          | _ => pure v
        pure [.optsData tid s o [(sv, ov)] 0]
      | none => pure []
    let mkData : G (List SSet × Nat) := do
      match sc.data with
      | some (tid, tpl) =>
        let k ← range 0 3
        let rs ← listOf k (genRecordVals tpl)
        pure ([.data tid tpl rs 0], k)
      | none => pure ([], 0)
    let os ← if withOpts then mkOpts else pure []
    for s in os do
      match s with
      | .optsData _ _ o [(_, ov)] _ => announced := recordRate o ov
      | _ => pure ()
    let (ds, k) ← mkData
    nflows := k
    sets := sets ++ (if optsFirst then os ++ ds else ds ++ os)
    -- now and then a data set of a template nobody announced sits in front: the datagram reports
    -- "template not found", the announcement and the flows of the other sets still count
    let strayFirst ← chance 1 7
    if strayFirst then
      sets := [SSet.data 999 [⟨1, 4, none⟩] [[⟨← bytesOf 4, false⟩]] 0] ++ sets
    let m0 : Msg := ⟨version, 0, ← bitsVal 32, ← bitsVal 32, ← bitsVal 32, dom, sets⟩
    let m := { m0 with count := max (totalRecords m0) sets.length }
    scopes := (key, sc) :: scopes.filter (fun x => x.1 != key)
    let rate := match announced with
      | some v => v
      | none => (rates.lookup rkey).getD 0
    match announced with
    | some v => rates := (rkey, v) :: rates.filter (fun x => x.1 != rkey)
    | none => pure ()
    out := out ++ [pktLine pipe e clock (encode m), (if strayFirst then "expect @res err:template-not-found" else "expect @res ok"), "expect @count " ++ toString nflows,
                   "expect @col * SamplingRate=" ++ toString rate]
  pure out

/-- a mapping file that sends an element of the data records (1001, in both protocols) to the `sampling_rate` column, as the
    `field: 34` example of docs/protocols.md does: the column of a flow is still the rate the exporter announced (the mapped value is
    written first, the announced rate is stamped on every message of the datagram afterwards) -/
def mappedRateConfig : Format.RawConfig :=
  { ipfix := [{ type := 1001, destination := "sampling_rate" }], v9 := [{ type := 1001, destination := "sampling_rate" }] }

def gen (n : Nat) : G (List String) := do
  let mut out : List String := []
  for i in [0:n] do
    let pipe := if i % 2 = 0 then "nf" else "auto"
    let hdr := if i % 3 = 2 then ["reset", Format.cfgOp "cm" mappedRateConfig, "pipe nf netflow cm", "pipe auto flow cm", "pipe sf sflow cm"] else header
    out := out ++ hdr ++ (← genHistory pipe (← range 10 50))
  pure out
end Goflow.Gen.C11
