import Goflow.Gen.Netflow
/-! Generator for C03: well-formed v9/IPFIX messages against a fresh store, and short histories
    (templates in an earlier message) — with the specification's expected decode. -/
namespace Goflow.Gen.C03
open Goflow Goflow.Gen Goflow.Gen.Netflow Goflow.Spec.Netflow

def opFor (sid : Nat) (m : Msg) : List String :=
  ["call nf " ++ toString sid ++ " " ++ hexOf (encode m),
   "expect res ok",
   "expect nf " ++ (expected m).toD.render,
   -- … and the raw producer's JSON of the packet says exactly what the packet holds
   "expect rawjson ok"]

def genCase (sid : Nat) : G (List String) := do
  let version ← pick [9, 10]
  let domain ← bitsVal 32
  let nmsgs ← if (← chance 1 3) then range 2 3 else pure 1
  let mut known : KnownMap := []
  let mut out : List String := []
  for _ in [0:nmsgs] do
    let (m, kn) ← genMsg version domain known
    known := kn
    out := out ++ opFor sid m
  pure out

def gen (n : Nat) : G (List String) := do
  let mut out : List String := []
  for i in [0:n] do
    out := out ++ (← genCase i)
  pure out

end Goflow.Gen.C03
