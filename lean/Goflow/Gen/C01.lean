import Goflow.Gen.History
import Goflow.Gen.Frame
import Goflow.Gen.C11
import Goflow.Gen.C14
/-! C01 generator: the malformed stream through every entry point — the three pipes and the exported
    Decode* / ParsePacket functions — derived from well-formed datagrams by truncation, bit flips and
    count/length inflation, plus targeted degenerate inputs (templates without fields or with only
    zero-length fields followed by data, giant counts, random bytes). The only oracle is the outcome
    class: a result or a returned error, never panic / timeout / oom. -/
namespace Goflow.Gen.C01
open Goflow Goflow.Gen Goflow.Gen.History Goflow.Spec.Netflow

def u16 (v : Nat) : Bytes := encBE 2 v
def u32 (v : Nat) : Bytes := encBE 4 v

/-- degenerate templates: no fields / only zero-length fields, then a data set for them -/
def degenerate (version : Nat) : G Bytes := do
  let tid ← range 256 300
  let nf ← pick [0, 0, 1, 3]
  let tplBody := u16 tid ++ u16 nf ++ (List.replicate nf (u16 1 ++ u16 0)).flatten
  let dataLen ← pick [0, 1, 4, 60]
  let data ← bytesOf dataLen
  let tplSet := u16 (if version = 9 then 0 else 2) ++ u16 (4 + tplBody.length) ++ tplBody
  let dataSet := u16 tid ++ u16 (4 + dataLen) ++ data
  let body := tplSet ++ dataSet
  if version = 9 then pure (u16 9 ++ u16 2 ++ u32 1 ++ u32 2 ++ u32 3 ++ u32 4 ++ body)
  else pure (u16 10 ++ u16 (16 + body.length) ++ u32 2 ++ u32 3 ++ u32 4 ++ body)

/-- sFlow datagram with an (expanded) flow sample whose record count is a boundary value -/
def giantCount : G Bytes := do
  let cnt ← pick boundaryVals
  let fmt ← pick [1, 3, 5, 2, 4]
  let body : Bytes :=
    if fmt = 3 then u32 1 ++ u32 0 ++ u32 1 ++ u32 10 ++ u32 0 ++ u32 0 ++ u32 0 ++ u32 1 ++ u32 0 ++ u32 2 ++ u32 cnt
    else if fmt = 1 then u32 1 ++ u32 1 ++ u32 10 ++ u32 0 ++ u32 0 ++ u32 1 ++ u32 2 ++ u32 cnt
    else if fmt = 5 then u32 1 ++ u32 0 ++ u32 1 ++ u32 0 ++ u32 1 ++ u32 2 ++ u32 3 ++ u32 cnt
    else if fmt = 2 then u32 1 ++ u32 1 ++ u32 cnt
    else u32 1 ++ u32 0 ++ u32 1 ++ u32 cnt
  let ns ← pick [1, 1, 1000, 1001, 4294967295]
  pure (u32 5 ++ u32 1 ++ [10, 0, 0, 1] ++ u32 0 ++ u32 1 ++ u32 2 ++ u32 ns ++ u32 fmt ++ u32 body.length ++ body)

def gen (n : Nat) : G (List String) := do
  let mut out : List String := []
  for i in [0:n] do
    out := out ++ header
    let e : Exporter := ⟨[10, 0, 0, 9], 2055⟩
    -- targeted degenerate inputs on all entry points
    for version in [9, 10] do
      let d ← degenerate version
      out := out ++ [pktLine "nf" e (1700000000000000000 + i) d, pktLine "auto" e (1700000000000000000 + i) d, "call nf " ++ toString i ++ " " ++ hexOf d]
    let g ← giantCount
    out := out ++ [pktLine "sf" e 1 g, pktLine "auto" e 1 g, "call sf " ++ hexOf g]
    -- mutated histories on the pipes
    out := out ++ (← genMixed "nf" 12 70) ++ (← genMixed "auto" 12 70)
    -- exported decoders on mutated / random bytes
    for _ in [0:6] do
      let d0 ← match (← below 4) with
        | 0 => v5Datagram
        | 1 => do let (m, _) ← Netflow.genMsg (← pick [9, 10]) 1 []; pure (encode m)
        | 2 => do pure (Spec.Sflow.encode (← Sflow.genDatagram))
        | _ => bytesOf (← range 0 80)
      let d ← mutate d0
      out := out ++ ["call v5 " ++ hexOf d, "call nf x" ++ toString i ++ " " ++ hexOf d, "call sf " ++ hexOf d]
    -- sampling announcements (including interval 0 after a rate is known) followed by more traffic
    out := out ++ (← C11.genHistory (if i % 2 = 0 then "nf" else "auto") 14)
    -- mapping files with layer statements: complete, truncated and mutated frames through the dissector
    let round ← C14.genLayerRound i
    for l in round do
      out := out ++ [l]
      match l.splitOn " " with
      | ["call", "parsepacket", cid, hex] =>
        match parseHex hex with
        | some b =>
          for _ in [0:3] do
            out := out ++ ["call parsepacket " ++ cid ++ " " ++ hexOf (b.take (← below (b.length + 1)))]
          out := out ++ ["call parsepacket " ++ cid ++ " " ++ hexOf (← mutate b)]
        | none => pure ()
      | _ => pure ()
    -- ParsePacket on truncated / mutated frames
    for _ in [0:4] do
      let f ← Frame.genFrame
      let b ← mutate (Spec.Frame.bytes f)
      out := out ++ ["call parsepacket c0 " ++ hexOf b]
  -- strip the specification-side expectations of the reused generators: only safety is judged here
  pure (out.filter fun l => !l.startsWith "expect ")
end Goflow.Gen.C01
