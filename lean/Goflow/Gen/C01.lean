import Goflow.Gen.History
import Goflow.Gen.Frame
import Goflow.Gen.C11
import Goflow.Gen.C14
/-! C01 generator: the malformed stream through every entry point — the three pipes and the exported
    Decode* / ParsePacket functions — derived from well-formed datagrams by truncation, bit flips and
    count/length inflation, plus targeted degenerate inputs (templates without fields or with only
    zero-length fields followed by data, giant counts, random bytes). The only oracle is the outcome
    class: a result or a returned error, never panic / timeout / oom. -/
namespace Goflow.Gen.C01
open Goflow Goflow.Gen Goflow.Gen.History Goflow.Spec.Netflow

def u16 (v : Nat) : Bytes := encBE 2 v
def u32 (v : Nat) : Bytes := encBE 4 v

/-- degenerate templates: no fields / only zero-length fields, then a data set for them -/
def degenerate (version : Nat) : G Bytes := do
  let tid ← range 256 300
  let nf ← pick [0, 0, 1, 3]
  let tplBody := u16 tid ++ u16 nf ++ (List.replicate nf (u16 1 ++ u16 0)).flatten
  let dataLen ← pick [0, 1, 4, 60]
  let data ← bytesOf dataLen
  let tplSet := u16 (if version = 9 then 0 else 2) ++ u16 (4 + tplBody.length) ++ tplBody
  let dataSet := u16 tid ++ u16 (4 + dataLen) ++ data
  let body := tplSet ++ dataSet
  if version = 9 then pure (u16 9 ++ u16 2 ++ u32 1 ++ u32 2 ++ u32 3 ++ u32 4 ++ body)
  else pure (u16 10 ++ u16 (16 + body.length) ++ u32 2 ++ u32 3 ++ u32 4 ++ body)

/-- sFlow datagram with an (expanded) flow sample whose record count is a boundary value -/
def giantCount : G Bytes := do
  let cnt ← pick boundaryVals
  let fmt ← pick [1, 3, 5, 2, 4]
  let body : Bytes :=
    if fmt = 3 then u32 1 ++ u32 0 ++ u32 1 ++ u32 10 ++ u32 0 ++ u32 0 ++ u32 0 ++ u32 1 ++ u32 0 ++ u32 2 ++ u32 cnt
    else if fmt = 1 then u32 1 ++ u32 1 ++ u32 10 ++ u32 0 ++ u32 0 ++ u32 1 ++ u32 2 ++ u32 cnt
    else if fmt = 5 then u32 1 ++ u32 0 ++ u32 1 ++ u32 0 ++ u32 1 ++ u32 2 ++ u32 3 ++ u32 cnt
    else if fmt = 2 then u32 1 ++ u32 1 ++ u32 cnt
    else u32 1 ++ u32 0 ++ u32 1 ++ u32 cnt
  let ns ← pick [1, 1, 1000, 1001, 4294967295]
  pure (u32 5 ++ u32 1 ++ [10, 0, 0, 1] ++ u32 0 ++ u32 1 ++ u32 2 ++ u32 ns ++ u32 fmt ++ u32 body.length ++ body)

/-- mapping files the loader accepts although they cannot be applied: negative bit offsets / lengths in layer
    statements, destinations that are unexported members of the message (`sizeCache`, `unknownFields`). The pipes are
    wired as cmd/goflow2/main.go wires them (`pipew`: producer behind WrapPanicProducer, decoder behind
    PanicDecoderWrapper): a datagram that trips over such a statement comes back as an error (`err:recovered`) and the
    datagrams after it are processed as usual. -/
def genInsane (i : Nat) : G (List String) := do
  let dests := ["sizeCache", "unknownFields", "state", "in_if", "vni_x"]
  let nl ← range 1 3
  let layers ← listOf nl (do
    pure ({ layer := ← pick ["ipv4", "ipv6", "ip", "udp", "tcp", "ethernet", "dot1q", "mpls", "4"], encap := ← chance 1 4,
            offset := Int.ofNat (← pick [0, 8, 16, 32]) - Int.ofNat (← pick [0, 0, 1, 8, 120, 200, 400, 100000]),
            length := Int.ofNat (← pick [8, 16, 32]) - Int.ofNat (← pick [0, 0, 0, 9, 40]),
            destination := ← pick dests } : Format.RawMap))
  let elems ← listOf (← range 0 2) (do
    pure ({ type := ← pick [400, 401, 1, 8], destination := ← pick dests, endian := ← pick ["", "little"] } : Format.RawMap))
  let raw : Format.RawConfig := { protobuf := [⟨"vni_x", 3000, "varint", false⟩], layers := layers, ipfix := elems, v9 := elems }
  let cid := "ins" ++ toString (i % 2)
  let mut out : List String := [Format.cfgOp cid raw, "pipew wn netflow " ++ cid, "pipew ws sflow " ++ cid, "pipew wa flow " ++ cid]
  let e : Exporter := ⟨[10, 0, 0, 77], 2055⟩
  let mut clock := 1700000000000000000 + i
  -- sFlow datagrams whose raw headers are real layered frames (complete and cut)
  for _ in [0:6] do
    clock := clock + 1000
    let dg ← Sflow.genDatagram (frame := do
      let b := Spec.Frame.bytes (← Frame.genFrame)
      if (← chance 1 3) then pure (b.take (← below (b.length + 1))) else pure b) (flowOnly := true)
    out := out ++ [pktLine (← pick ["ws", "wa"]) e clock (Spec.Sflow.encode dg)]
  -- v9 / IPFIX: a template with the mapped elements, data for it, then a plain template and data (must be processed as usual)
  for version in [9, 10] do
    clock := clock + 1000
    let tpl : List SField := [⟨400, 4, none⟩, ⟨401, 2, none⟩, ⟨1, 4, none⟩, ⟨8, 4, none⟩]
    let recs ← listOf 2 (Netflow.genRecordVals tpl)
    let m0 : Msg := ⟨version, 0, 1, 2, 3, 5, [.template [(300, tpl)] 0, .data 300 tpl recs 0]⟩
    out := out ++ [pktLine (← pick ["wn", "wa"]) e clock (encode { m0 with count := 3 })]
    clock := clock + 1000
    let tpl2 : List SField := [⟨12, 4, none⟩, ⟨2, 4, none⟩]
    let recs2 ← listOf 2 (Netflow.genRecordVals tpl2)
    let m1 : Msg := ⟨version, 0, 1, 2, 3, 5, [.template [(301, tpl2)] 0, .data 301 tpl2 recs2 0]⟩
    out := out ++ [pktLine "wn" e clock (encode { m1 with count := 3 }), pktLine "wa" e clock (encode { m1 with count := 3 })]
  pure out

def gen (n : Nat) : G (List String) := do
  let mut out : List String := []
  for i in [0:n] do
    out := out ++ header
    let e : Exporter := ⟨[10, 0, 0, 9], 2055⟩
    -- targeted degenerate inputs on all entry points
    for version in [9, 10] do
      let d ← degenerate version
      out := out ++ [pktLine "nf" e (1700000000000000000 + i) d, pktLine "auto" e (1700000000000000000 + i) d, "call nf " ++ toString i ++ " " ++ hexOf d]
    let g ← giantCount
    out := out ++ [pktLine "sf" e 1 g, pktLine "auto" e 1 g, "call sf " ++ hexOf g]
    -- mutated histories on the pipes
    out := out ++ (← genMixed "nf" 12 70) ++ (← genMixed "auto" 12 70)
    -- exported decoders on mutated / random bytes
    for _ in [0:6] do
      let d0 ← match (← below 4) with
        | 0 => v5Datagram
        | 1 => do let (m, _) ← Netflow.genMsg (← pick [9, 10]) 1 []; pure (encode m)
        | 2 => do pure (Spec.Sflow.encode (← Sflow.genDatagram))
        | _ => bytesOf (← range 0 80)
      let d ← mutate d0
      -- the three decoders directly (the NetFlow and sFlow ones print the raw producer's JSON of what they decoded as well), and the
      -- raw producer's JSON of a v5 packet
      out := out ++ ["call v5 " ++ hexOf d, "call nf x" ++ toString i ++ " " ++ hexOf d, "call sf " ++ hexOf d, "call rawv5 " ++ hexOf d]
    -- sampling announcements (including interval 0 after a rate is known) followed by more traffic
    out := out ++ (← C11.genHistory (if i % 2 = 0 then "nf" else "auto") 14)
    -- mapping files with layer statements: complete, truncated and mutated frames through the dissector
    let round ← C14.genLayerRound i
    for l in round do
      out := out ++ [l]
      match l.splitOn " " with
      | ["call", "parsepacket", cid, hex] =>
        match parseHex hex with
        | some b =>
          for _ in [0:3] do
            out := out ++ ["call parsepacket " ++ cid ++ " " ++ hexOf (b.take (← below (b.length + 1)))]
          out := out ++ ["call parsepacket " ++ cid ++ " " ++ hexOf (← mutate b)]
        | none => pure ()
      | _ => pure ()
    -- accepted but inapplicable mapping files through the pipes wired with main.go's panic wrappers
    out := out ++ (← genInsane i)
    -- IPv6 routing headers at the edges of their one-byte length field (a header of 8 + 8·L bytes, L up to 255), chained
    -- (next header 43 again), in captures shorter and longer than the header
    for _ in [0:3] do
      let l ← pick [31, 63, 127, 255, 30, 32, 0, 1]
      let typ ← pick [4, 0, 2, 4]
      let rh : Bytes := [43, UInt8.ofNat l, UInt8.ofNat typ, UInt8.ofNat (← below 4), UInt8.ofNat (← below 3), 0, 0, 0]
      let tail ← bytesOf (← pick [0, 8, 40, 248, 256, 300])
      let fr : Bytes := (← bytesOf 12) ++ [0x86, 0xdd, 0x60, 0, 0, 0, 0, 8, 43, 64] ++ (← bytesOf 32) ++ rh ++ tail
      out := out ++ ["call parsepacket c0 " ++ hexOf fr]
      let dg : Spec.Sflow.Datagram := ⟨[10, 0, 0, 9], 1, 2, 3, [.flow 1 0 5 [100, 1, 0, 3, 4] [.rawHeader 1 1000 0 fr]]⟩
      out := out ++ [pktLine "sf" e 1 (Spec.Sflow.encode dg)]
    -- ParsePacket on truncated / mutated frames
    for _ in [0:4] do
      let f ← Frame.genFrame
      let b ← mutate (Spec.Frame.bytes f)
      out := out ++ ["call parsepacket c0 " ++ hexOf b]
  -- strip the specification-side expectations of the reused generators: only safety is judged here
  pure (out.filter fun l => !l.startsWith "expect ")
end Goflow.Gen.C01
