import Goflow.Gen.History
import Goflow.Gen.Frame
import Goflow.Spec.SflowMap
import Goflow.Basic.MsgDump
import Goflow.Pipe
namespace Goflow.Gen.C09
open Goflow Goflow.Gen Goflow.Gen.History Goflow.Spec.Sflow Goflow.Spec.SflowMap

/-- records with frames remembered for raw Ethernet headers -/
def genRecordF : G (SRecord × Option Spec.Frame.Frame) := do
  if (← chance 2 5) then
    let f ← Frame.genFrame
    pure (.rawHeader 1 (← Sflow.w32) (← Sflow.w32) (Spec.Frame.bytes f), some f)
  else
    let r ← Sflow.genRecord Sflow.defaultFrame
    match r with
    | .rawHeader p fl st h => pure (.rawHeader (if p = 1 then 11 else p) fl st h, none)   -- non-Ethernet header protocols
    | r => pure (r, none)

def genSampleF : G (SSample × List (Option Spec.Frame.Frame)) := do
  let n ← range 0 5
  let rs ← listOf n genRecordF
  let recs := rs.map (·.1)
  let frames := rs.map (·.2)
  let seq ← Sflow.w32
  match (← below 5) with
  | 0 | 1 => pure (.flow seq (← bitsVal 8) (← bitsVal 24) (← listOf 5 Sflow.w32) recs, frames)
  | 2 | 3 => pure (.expFlow seq (← Sflow.w32) (← Sflow.w32) (← listOf 7 Sflow.w32) recs, frames)
  | _ => do
    let s ← Sflow.genSample Sflow.defaultFrame
    match s with
    | .flow .. => pure (.counter seq 0 1 [], [])
    | .expFlow .. => pure (.counter seq 0 1 [], [])
    | s => pure (s, [])

def genCase (i : Nat) : G (List String) := do
  let exps ← genExporters
  let e ← pick exps
  let recv := 1700000000000000000 + i
  let n ← range 0 5
  let ss ← listOf n genSampleF
  let dg : Datagram := ⟨← Sflow.genIP, ← Sflow.w32, ← Sflow.w32, ← Sflow.w32, ss.map (·.1)⟩
  let exp := ss.filterMap fun (s, fr) => (refSample dg.agent dg.seq recv s fr).map FlowMsg.dump
  let pipe := if i % 2 = 0 then "sf" else "auto"
  -- a raw header record that announces a shorter header than it carries (the header-length word of the record, sloppy
  -- agents): only the announced bytes were captured — ParseSampledHeaderConfig cuts the header data to the announced length
  -- and dissects that. The reference mapping knows whole frames only: what such a datagram is expected to give is the
  -- conversion model's answer (Pipe.sflowPipe, which is the reference mapping on every datagram left alone: Proofs/C09)
  let d0 := encode dg
  let (d, exp) ← (do
    match dg.samples with
    | .flow _ _ _ _ (.rawHeader 1 _ _ h :: _) :: _ =>
      if h.length ≥ 15 ∧ (← chance 1 2) then
        let off := (if dg.agent.length = 4 then 28 else 40) + 40 + 8 + 12
        let k ← pick [0, 14, h.length - 1, h.length - 3, h.length / 2]
        let d1 := d0.take off ++ encBE 4 k ++ d0.drop (off + 4)
        let o := Pipe.sflowPipe {} default recv d1
        if o.err.isNone then pure (d1, o.msgs.map FlowMsg.dump) else pure (d0, exp)
      else pure (d0, exp)
    | _ => pure (d0, exp))
  pure (header ++ [pktLine pipe e recv d, "expect res ok n=" ++ toString exp.length] ++ exp.map ("expect " ++ ·))

def gen (n : Nat) : G (List String) := do
  let mut out : List String := []
  for i in [0:n] do
    out := out ++ (← genCase i)
  pure out
end Goflow.Gen.C09
