import Goflow.Gen.Prng
import Goflow.Format.Twin
/-! Generated mapping files (formatter part and mapping part) and generated messages with
    arbitrary field values, shared by the C13 and C14 generators. -/
namespace Goflow.Gen.Config
open Goflow Goflow.Gen Goflow.Format Goflow.Producer

def shuffle {α} [Inhabited α] (xs : List α) : G (List α) := do
  let mut rest := xs
  let mut out := []
  for _ in [0:xs.length] do
    let i ← below rest.length
    out := rest.getD i default :: out
    rest := rest.eraseIdx i
  pure out

def subset {α} [Inhabited α] (xs : List α) (k : Nat) : G (List α) := do
  pure ((← shuffle xs).take k)

def customNames : List String := ["cust_a", "flowid", "vendor_str", "x1", "arrV", "tag", "label_s", "n64"]

/-- 0..k declared protobuf fields: distinct names and indices in 1000..5000 -/
def genProtobuf (lo hi : Nat) : G (List PbField) := do
  let k ← range lo hi
  let names ← subset customNames k
  let mut out : List PbField := []
  let mut used : List Nat := []
  for n in names do
    let mut idx ← range 1000 5000
    if used.contains idx then idx := idx + 5001
    used := idx :: used
    out := out ++ [⟨n, idx, ← pick ["varint", "string", "varint", "string", "bytes"], ← chance 1 3⟩]
  pure out

def rendererIdsLegal : List String := ["none", "ip", "mac", "etype", "proto", "datetime", "datetimenano", "string"]

/-- formatter section. `errPct` percent of the configurations carry one statement the loader rejects. -/
def genFormatter (pb : List PbField) (errPct : Nat := 8) : G RawConfig := do
  let protoNames := defaultFields
  let custom := pb.map (·.name)
  let shape ← below 4
  let fields ← match shape with
    | 0 => pure []
    | 1 => do pure ((← subset protoNames (← range 1 10)) ++ custom)
    | 2 => do shuffle ((← subset protoNames (← range 0 14)) ++ custom ++ (if (← bool) then ["icmp_name"] else []))
    | _ => do pure (protoNames ++ custom ++ ["icmp_name"])
  let known := if fields.isEmpty then protoNames ++ custom else fields
  let key ← subset (known.filter (· ≠ "icmp_name")) (← pick [0, 0, 1, 2, 3])
  let renameKeys ← subset known (← pick [0, 0, 1, 2, 3])
  let mut rename : List (String × Bytes) := []
  let newNames ← shuffle ["a", "Flow.Src", "x-y", "ts", "bytes_total", "k9", "SRC"]
  for (k, i) in renameKeys.zipIdx do
    rename := rename ++ [(k, str (newNames.getD i "z"))]
  let renderKeys ← subset (known.filter (· ≠ "icmp_name")) (← pick [0, 1, 2, 4, 6])
  let mut render : List (String × String) := []
  for k in renderKeys do
    render := render ++ [(k, ← pick rendererIdsLegal)]
  let mut raw : RawConfig := { fields := fields, key := key, render := render, rename := rename, protobuf := pb }
  if (← below 100) < errPct then
    match (← below 4) with
    | 0 => raw := { raw with fields := raw.fields ++ ["no_such_field"] }
    | 1 => raw := { raw with key := raw.key ++ ["no_such_key"] }
    | 2 => raw := { raw with render := raw.render.filter (fun e => e.1 != "bytes") ++ [("bytes", ← pick ["network", "type", "bogus"])] }
    | _ => raw := { raw with ports := [⟨"udp", ← pick ["dst", "up"], 4789, ← pick ["nosuchparser", "vxlan"]⟩] }
  pure raw

/-! ### messages -/

def genAddr : G Bytes := do
  match (← below 10) with
  | 0 => pure []
  | 1 => pure [0, 0, 0, 0]
  | 2 => pure (List.replicate 16 0)
  | 3 => do pure (List.replicate 10 0 ++ [0xff, 0xff] ++ (← bytesOf 4))        -- IPv4-mapped
  | 4 => do bytesOf (← pick [1, 3, 5, 8, 15, 17, 20])                         -- neither 4 nor 16
  | 5 => do pure ((← bytesOf 2) ++ List.replicate 12 0 ++ (← bytesOf 2))     -- one long zero run
  | 6 => do pure ([0x20, 0x01, 0x0d, 0xb8, 0, 0, 0, 1] ++ [0, 0, 0, 0] ++ [0, 0] ++ (← bytesOf 2))
  | 7 => bytesOf 4
  | _ => bytesOf 16

/-- a string-like byte sequence: mostly text, with the bytes that break naive JSON writers -/
def genText : G Bytes := do
  match (← below 8) with
  | 0 => pure []
  | 1 => pure (str "plain-text_01")
  | 2 => pure (str "say \"hi\"")
  | 3 => pure (str "back\\slash")
  | 4 => pure (str "line1\nline2\ttab")
  | 5 => do bytesOf (← range 1 12)
  | 6 => pure (str "café <b>&amp;</b>  ")
  | _ => do pure (str "x" ++ [← pick [0, 1, 0x1f, 0x7f, 0x80, 0xc3, 0xff, 0x08, 0x0c]] ++ str "y")

def timeVals : List Nat :=
  [0, 1, 1700000000, 2 ^ 31, 2 ^ 32 - 1, 253402300799, 253402300800, 2 ^ 40, 1700000000123456789, 2 ^ 62, 2 ^ 63 - 1, 2 ^ 63, 2 ^ 64 - 1]

def genNum (bits : Nat) : G Nat := do
  if bits = 64 ∧ (← chance 1 4) then pick timeVals else bitsVal bits

/-- one value for an unknown (custom) field as it is carried on the wire -/
def genCustomValue (p : PbField) : G Bytes := do
  let asVarint := if (← chance 1 12) then p.type ≠ "varint" else p.type = "varint"
  if asVarint then do pure (appendTag p.index 0 ++ appendVarint (← genNum 64))
  else do
    let v ← genText
    pure (appendTag p.index 2 ++ appendVarint v.length ++ v)

/-- a message with arbitrary values; `density` in percent is the share of columns set -/
def genMsg (pb : List PbField) (density : Nat) : G FlowMsg := do
  let mut m := FlowMsg.empty
  for c in flowMessageColumns do
    if (← below 100) < density then
      if c.goName = "Type" then m := m.setNum c.goName (← below 7)
      else if c.goName = "LayerStack" then
        m := m.setNums c.goName (← listOf (← below 5) (pick [0, 1, 2, 3, 4, 5, 6, 7, 8, 9, 10, 11, 12, 13, 99, 50]))
      else if c.goName = "Proto" then m := m.setNum c.goName (← pick [0, 1, 6, 17, 58, 47, 145, 146, 200, 253, 255, 256, 2 ^ 32 - 1])
      else if c.goName = "Etype" then m := m.setNum c.goName (← pick [0, 0x800, 0x806, 0x86dd, 0x8100, 2 ^ 32 - 1])
      else if c.goName = "IcmpType" then m := m.setNum c.goName (← pick [0, 3, 8, 11, 128, 129, 135, 255])
      else if c.goName = "SrcNet" ∨ c.goName = "DstNet" then m := m.setNum c.goName (← pick [0, 1, 8, 24, 31, 32, 33, 64, 127, 128, 129, 2 ^ 32 - 1])
      else if c.kind = "u32" then m := m.setNum c.goName (← genNum 32)
      else if c.kind = "u64" then m := m.setNum c.goName (← genNum 64)
      else if c.kind = "bytes" then m := m.setBytes c.goName (← genAddr)
      else if c.kind = "listU32" then m := m.setNums c.goName (← listOf (← below 4) (genNum 32))
      else m := m.setBytess c.goName (← listOf (← below 4) genAddr)
  let mut unk : Bytes := []
  for p in pb do
    if (← chance 2 3) then
      let k ← if p.array then range 1 3 else pick [1, 1, 1, 2]
      for _ in [0:k] do
        unk := unk ++ (← genCustomValue p)
  if (← chance 1 6) then unk := unk ++ appendTag 7777 0 ++ appendVarint 5      -- a field nobody declared
  pure { m with unk := unk }

def fmtOp (cid : String) (m : FlowMsg) : String := "fmt " ++ cid ++ ((m.dump.drop 3).toString)

end Goflow.Gen.Config
