import Goflow.Gen.Frame
import Goflow.Spec.Sflow
import Goflow.Spec.Netflow
namespace Goflow.Gen.C10
open Goflow Goflow.Gen Goflow.Gen.Frame Goflow.Spec.Frame

/-- every capture length of one frame (or a sample of them for long frames) -/
def genCase (allCuts : Bool) : G (List String) := do
  let f ← genFrame
  let b := bytes f
  let cuts ← if allCuts then pure (List.range (b.length + 1)) else do
    let n ← range 3 8
    let cs ← listOf n (below (b.length + 1))
    pure (b.length :: cs)
  -- each capture directly through the dissector, and as the raw Ethernet header record of an sFlow flow sample through the
  -- sFlow pipe (the record's bytes are XDR-padded to a multiple of four on the wire; the dissector must see exactly the capture)
  let viaSflow (k : Nat) : String :=
    let dg : Spec.Sflow.Datagram := ⟨[10, 0, 0, 1], 0, 1, 2, [.flow 1 0 7 [1, 2, 3, 4, 5] [.rawHeader 1 1500 0 (b.take k)]]⟩
    "pkt sf 0a000001 6343 1700000000000000000 " ++ hexOf (Spec.Sflow.encode dg)
  -- … and as the frame section (element 315, variable length) of an IPFIX record that lists a byte counter in front of it: the
  -- counter says nothing about how much of the frame was captured
  let viaIpfix (k : Nat) : List String :=
    let tpl : List Spec.Netflow.SField := [⟨1, 4, none⟩, ⟨315, 0xffff, none⟩]
    let mt : Spec.Netflow.Msg := ⟨10, 0, 1, 1700000000, 7, 5, [.template [(400, tpl)] 0]⟩
    let md : Spec.Netflow.Msg := ⟨10, 0, 2, 1700000000, 8, 5, [.data 400 tpl [[⟨encBE 4 20, false⟩, ⟨b.take k, k ≥ 255⟩]] 0]⟩
    ["pkt nf 0a000002 2055 1700000000000000000 " ++ hexOf (Spec.Netflow.encode { mt with count := 1 }),
     "pkt nf 0a000002 2055 1700000000000000001 " ++ hexOf (Spec.Netflow.encode { md with count := 1 })]
  let ipfixCols := " Type~ TimeReceivedNs~ SequenceNum~ SamplerAddress~ TimeFlowStartNs~ TimeFlowEndNs~ Bytes~ Packets~ ObservationDomainId~"
  let sampleCols := " Type~ TimeReceivedNs~ SequenceNum~ SamplingRate~ SamplerAddress~ TimeFlowStartNs~ TimeFlowEndNs~ Bytes~ Packets~ InIf~ OutIf~"
  pure (cuts.flatMap fun k =>
    ["call parsepacket c0 " ++ hexOf (b.take k), "expect " ++ oracleLine f k (k == b.length),
     viaSflow k, "expect " ++ oracleLine f k (k == b.length) ++ sampleCols] ++
    (if k == b.length ∨ k % 7 == 3 then viaIpfix k ++ ["expect " ++ oracleLine f k (k == b.length) ++ ipfixCols] else []))

def gen (n : Nat) : G (List String) := do
  let mut out : List String := ["cfg c0 none", "pipe sf sflow c0", "pipe nf netflow c0"]
  for i in [0:n] do
    out := out ++ (← genCase (i % 3 == 0))
  pure out
end Goflow.Gen.C10
