import Goflow.Gen.Frame
namespace Goflow.Gen.C10
open Goflow Goflow.Gen Goflow.Gen.Frame Goflow.Spec.Frame

/-- every capture length of one frame (or a sample of them for long frames) -/
def genCase (allCuts : Bool) : G (List String) := do
  let f ← genFrame
  let b := bytes f
  let cuts ← if allCuts then pure (List.range (b.length + 1)) else do
    let n ← range 3 8
    let cs ← listOf n (below (b.length + 1))
    pure (b.length :: cs)
  pure (cuts.flatMap fun k =>
    ["call parsepacket c0 " ++ hexOf (b.take k), "expect " ++ oracleLine f k (k == b.length)])

def gen (n : Nat) : G (List String) := do
  let mut out : List String := ["cfg c0 none"]
  for i in [0:n] do
    out := out ++ (← genCase (i % 3 == 0))
  pure out
end Goflow.Gen.C10
