import Goflow.Gen.History
/-! C06 generator: interleaved histories over exporters × versions × domains × template ids with
    redefinitions, options templates reusing ids, data before/after its template, data for ids known
    only in another scope, and malformed datagrams in between. The oracle is the reference store
    keyed by (exporter, version, domain, id) kept by the generator itself. -/
namespace Goflow.Gen.C06
open Goflow Goflow.Gen Goflow.Gen.History Goflow.Gen.Netflow Goflow.Spec.Netflow

def smallTid : G Nat := range 256 259

def withdrawn : Known → Bool
  | .data [] => true
  | _ => false

def genScopedMsg (version dom : Nat) (kn : KnownMap) (foreign : List Nat) : G (Msg × KnownMap × Nat × Bool) := do
  let nsets ← range 1 4
  let mut sets : List SSet := []
  let mut known := kn
  let mut count := 0
  let mut tnf := false
  for _ in [0:nsets] do
    let k ← below 10
    if k < 3 then
      -- (re)definition of a small id with a fresh layout
      let tid ← smallTid
      -- now and then the same element ids and widths as before, one element moved between the IANA and an
      -- enterprise registry (IPFIX): the latest announcement still wins
      let fs ← (do
        match known.lookup tid with
        | some (.data old) =>
          if version = 10 ∧ !old.isEmpty ∧ (← chance 1 2) then
            let i ← below old.length
            let pen ← bitsVal 32
            pure (togglePen old i pen)
          else genFields version
        | _ => genFields version)
      sets := sets ++ [.template [(tid, fs)] 0]
      known := (tid, Known.data fs) :: known.filter (fun e => e.1 != tid)
    else if k < 4 then
      let tid ← smallTid
      let scopes ← listOf (← range 0 2) (genSField version)
      let opts ← genFields version
      sets := sets ++ [if version = 9 then .v9opts [(tid, scopes, opts)] 0 else .ipfixopts [(tid, scopes, opts)] 0]
      known := (tid, Known.opts scopes opts) :: known.filter (fun e => e.1 != tid)
    else if k < 8 ∧ !(known.filter (fun e => !withdrawn e.2)).isEmpty then
      let (tid, kk) ← pick (known.filter (fun e => !withdrawn e.2))
      let s ← genDataSet tid kk 6
      match s with
      | .data _ _ rs _ => count := count + rs.length
      | _ => pure ()
      sets := sets ++ [s]
    else
      -- a data set whose id is not known in this scope (maybe known elsewhere)
      let tid ← if foreign.isEmpty ∨ (← bool) then smallTid else pick foreign
      if (known.lookup tid).isNone then
        let n ← range 0 24
        sets := sets ++ [.data tid [⟨1, n, none⟩] [[⟨← bytesOf n, false⟩]] 0]
        tnf := true
  let m0 : Msg := ⟨version, 0, ← bitsVal 32, ← bitsVal 32, ← bitsVal 32, dom, sets⟩
  pure ({ m0 with count := max (totalRecords m0) sets.length }, known, count, tnf)

/-- the marker template (id 300): element 1 (octetDeltaCount → Bytes) in 4 bytes and element 2; announced again and
    again with element 1 moved between the IANA registry and an enterprise one (same id, same width). A flow cut
    with the latest announcement carries the counter exactly when the latest announcement was the IANA one. -/
def markerTid : Nat := 300

def genMarkerMsg (version dom : Nat) (kn : KnownMap) : G (Msg × KnownMap × List String) := do
  let cur : Option (List SField) := match kn.lookup markerTid with | some (.data fs) => some fs | _ => none
  let announce ← if cur.isNone then pure true else chance 2 3
  let curEnt : Option Nat := match cur with | some (f :: _) => f.ent | _ => none
  let newEnt : Option Nat ← if version = 10 ∧ (curEnt.isNone ∨ cur.isNone) ∧ (← chance 2 3) then (do pure (some (1 + (← below 60000)))) else pure none
  -- now and then the announcement is a withdrawal (field count 0): it replaces the layout like any other
  -- announcement, and a data set of the id is refused from then on until a layout is announced again
  let withdraw ← if announce ∧ cur.isSome ∧ cur != some [] then chance 1 5 else pure false
  let fs : List SField := if announce then (if withdraw then [] else [⟨1, 4, newEnt⟩, ⟨2, 4, none⟩]) else cur.getD []
  let kn' := if announce then (markerTid, Known.data fs) :: kn.filter (fun e => e.1 != markerTid) else kn
  let v ← range 1 0xfffffff0
  let nrec ← range 1 3
  let recs : List (List SValue) := List.replicate nrec [⟨encBE 4 v, false⟩, ⟨encBE 4 7, false⟩]
  -- the announcement before or after an unrelated set, the data after it (same message) or in a later one
  let withData ← chance 2 3
  let sets : List SSet := (if announce then [.template [(markerTid, fs)] 0] else []) ++ (if withData ∨ !announce then [.data markerTid fs recs 0] else [])
  let m0 : Msg := ⟨version, 0, ← bitsVal 32, ← bitsVal 32, ← bitsVal 32, dom, sets⟩
  let m := { m0 with count := max (totalRecords m0) sets.length }
  let hasData := withData ∨ !announce
  let expectBytes := match fs with | f :: _ => if f.ent.isNone then v else 0 | _ => 0
  let exp := if fs.isEmpty ∧ hasData then ["expect @res err", "expect @count 0"] else
    ["expect @res ok", "expect @count " ++ toString (if hasData then nrec else 0)] ++
    (if hasData then ["expect @col * Bytes=" ++ toString expectBytes ++ " Packets=7"] else [])
  pure (m, kn', exp)

def genHistory (pipe : String) (n : Nat) : G (List String) := do
  let exps ← genExporters
  -- observation domains / source ids that share their low 16 bits, their high 16 bits, or differ in one bit only
  let b ← bitsVal 32
  let domains ← pick [[b, (b + 65536) % 2 ^ 32, (b + 3 * 65536) % 2 ^ 32], [b, b ^^^ 1, b ^^^ 0x8000], [b, b ^^^ 0x80000000, (b + 65536) % 2 ^ 32],
                      [b % 65536, b % 65536 + 65536, b % 65536 + 0x7fff0000]]
  let mut known : List (Scope × KnownMap) := []
  let mut out : List String := []
  let mut clock := 1700000000000000000
  for _ in [0:n] do
    let ei ← below exps.length
    let e := exps.getD ei default
    clock := clock + 1000
    if (← chance 1 10) then
      -- malformed datagram in between: must not disturb the stores (beyond templates it validly carries)
      let junk ← bytesOf (← range 0 40)
      out := out ++ [pktLine pipe e clock ([0, 9] ++ junk)]
    else
      let version ← pick [9, 10]
      let dom ← pick domains
      let sc : Scope := (ei, version, dom)
      let kn := (known.lookup sc).getD []
      let foreign := (known.filter (fun x => x.1 != sc)).flatMap (fun x => x.2.map (·.1))
      if (← chance 1 5) then
        let (m, kn', exp) ← genMarkerMsg version dom kn
        known := (sc, kn') :: known.filter (fun x => x.1 != sc)
        out := out ++ [pktLine pipe e clock (encode m)] ++ exp
        continue
      -- a template set whose second record is cut short by the set length: the set is refused as a whole — its first,
      -- complete record is NOT learned (a data set of that id right afterwards still finds no template)
      if (← chance 1 12) then
        match ((List.range 30).map (· + 700)).find? (fun t => (kn.lookup t).isNone) with
        | some t =>
          let rec1 : Bytes := encBE 2 t ++ encBE 2 2 ++ encBE 2 1 ++ encBE 2 4 ++ encBE 2 2 ++ encBE 2 4
          let rec2 : Bytes := encBE 2 (t + 40) ++ encBE 2 3 ++ encBE 2 1 ++ encBE 2 4
          let set : Bytes := encBE 2 (if version = 9 then 0 else 2) ++ encBE 2 (4 + rec1.length + rec2.length) ++ rec1 ++ rec2
          let hdr (body : Bytes) (cnt : Nat) : Bytes :=
            if version = 9 then encBE 2 9 ++ encBE 2 cnt ++ encBE 4 1 ++ encBE 4 2 ++ encBE 4 3 ++ encBE 4 dom ++ body
            else encBE 2 10 ++ encBE 2 (16 + body.length) ++ encBE 4 2 ++ encBE 4 3 ++ encBE 4 dom ++ body
          let dataSet : Bytes := encBE 2 t ++ encBE 2 12 ++ (← bytesOf 8)
          out := out ++ [pktLine pipe e clock (hdr set 2), "expect @res err", "expect @count 0",
                         pktLine pipe e (clock + 1) (hdr dataSet 1), "expect @res err:template-not-found", "expect @count 0"]
          continue
        | none => pure ()
      let (m, kn', count, tnf) ← genScopedMsg version dom kn foreign
      known := (sc, kn') :: known.filter (fun x => x.1 != sc)
      -- an IPFIX message whose last set is broken (reserved id, impossible length): the datagram is refused,
      -- what its earlier template sets announced is known from now on all the same — also when this is
      -- the first datagram the exporter ever sent
      if version = 10 ∧ (← chance 1 8) then
        let d := encode m
        let broken := (d.take 2) ++ encBE 2 (d.length + 4) ++ (d.drop 4) ++ [0x00, 0x05, 0x00, 0x02]
        out := out ++ [pktLine pipe e clock broken, "expect @res err", "expect @count 0"]
        continue
      out := out ++ [pktLine pipe e clock (encode m),
        "expect @res " ++ (if tnf then "err:template-not-found" else "ok"),
        "expect @count " ++ toString count]
  pure out

def gen (n : Nat) : G (List String) := do
  let mut out : List String := []
  for i in [0:n] do
    let pipe := if i % 2 = 0 then "nf" else "auto"
    out := out ++ header ++ (← genHistory pipe (← range 10 60))
  pure out
end Goflow.Gen.C06
