import Goflow.Gen.History
/-! C07 generator: mixed histories through the netflow and auto pipes; the oracle is the count
    of messages per datagram (computed on the specification side for well-formed datagrams). -/
namespace Goflow.Gen.C07
open Goflow Goflow.Gen Goflow.Gen.History

def gen (n : Nat) : G (List String) := do
  let mut out : List String := []
  for i in [0:n] do
    let pipe := if i % 2 = 0 then "nf" else "auto"
    let len ← range 5 30
    out := out ++ header ++ (← genMixed pipe len (if i % 4 = 3 then 20 else 0))
  pure out
end Goflow.Gen.C07
