import Goflow.Pipe
/-!
  C02 — allocation cost model.

  Instrumented twins of the three decoder models, of the producers and of the pipes: every function
  below follows the control flow of the function it is named after (it *calls* the decoder model for
  every control decision: what is read, where the decode fails, what is left of the payload) and
  returns the number of bytes the Go code requests from the allocator on that path, site by site, in
  the order the Go code does it. In particular a `make([]T, count)` is charged BEFORE the elements
  are read, so a datagram that fails half way has paid for it.

  Accounting rules (amd64, Go 1.23):
  * `make([]T, n)`                      n × unsafe.Sizeof(T)           (sizes below are `unsafe.Sizeof`, computed from the structs)
  * `x = append(x, e)` in a loop        11/2 × Sizeof(e) per appended element. Go's growslice doubles up to 256 elements
                                        and then grows by 1.25×+192; the sum of all backing arrays ever allocated for a slice
                                        that ends with n elements is < 5.1 × n × Sizeof(e) (measured over every n ≤ 9000 and
                                        element sizes 4…56: maximum 5.08); we charge 5.5.
  * a struct stored in an `interface{}`  its size (runtime.convT); a `[]byte` stored in an interface: its 24-byte header
  * `bytes.NewBuffer`                    48 (40-byte struct, size class 48)
  * `protoMessagePool.Get()`             576 (a new ProtoProducerMessage: the pool is empty after a GC)
  Size-class rounding of the allocator and the fixed per-datagram overhead (buffer, packet struct,
  error values, first contact of an exporter) are not itemised: the latter is `pipeFixed`.

  Sites (Go file:line ↦ charge):
    decoders/netflow/netflow.go
      :164 make([]Field, FieldCount)                       12·count                 (16-bit count, before the reads)
      :61 :71 make([]Field, ScopeLength/4 | OptionLength/4) 12·count each           (second only after the first was read)
      :117 :131 make([]Field, ScopeFieldCount | rest)      12·count each
      :185 / :81 :141 records = append(records, …)         176 / 308 per template record
      :205 make([]DataField, len(listFields))              24·width per record, + 24·width boxed values (:241 Value: value)
      :292 / :269 records = append(records, record)        132 per data record / 264 per options record
      :329 :350 :370 :390 :415 bytes.NewBuffer             48 per set
      :339 :359 :379 :399 :414 :436 :447 :458 flowSet = …  32 per set (struct boxed into interface{}), raw + decoded for data sets
      :343 :363 :383 :403 templates.AddTemplate            160 per template; Prometheus store: 640 re-announced, 3072 new
      :423 &FlowError + :306 errors.Join                   112 per set without template
      :304 flowSets = append(flowSets, flowSet)            88 per set
    decoders/netflowlegacy/netflow.go
      :48 make([]RecordsNetFlowV5, Count)                  48·count                 (16-bit count, before the reads)
      :51 record := RecordsNetFlowV5{} (escapes)           48 per record read
    decoders/sflow/sflow.go
      :520 :525 make([]byte, 4 | 16)                       16
      :546 make([]interface{}, SamplesCount)               16·count                 (count ≤ 1000 checked first)
      :555 bytes.NewBuffer, header escapes                 72 per sample
      :408 :419 :439 :456 make([]Record, recordsCount)     24·count                 (count ≤ 1000 checked first)
      :409 :420 :440 :457 sample = …                       80 (largest sample struct boxed)
      :470 bytes.NewBuffer, header escapes                 72 per record
      :100 :102 :196 :197 :211 :212 :231 :232 make([]byte) 16 / 32 per record
      :295 :316 make([]uint32, ASPathLength | Communities) 4·count                  (count ≤ 1000 and count ≤ len−4 checked first)
      :193 … :349 flowRecord.Data = …                      the decoded struct boxed: 40 / 80 / 40 / 120 / 32 / 16 / 24
      :146 :166 :170 counterRecord.Data = …                88 / 52 / 24
      utils.go:55 *data = string(buf)                      the string's length
    producer/proto
      producer_nf.go:650, producer_sf.go:121, producer_nflegacy.go:47 protoMessagePool.Get()   576 per record / flow sample
      producer_nf.go:656 :669, producer_sf.go:14 :126, producer_nflegacy.go:50 append          88 each
      producer_nf.go:700-726 SplitNetFlowSets / SplitIPFIXSets append                          176 per set
      config_impl.go:176 fmt.Sprintf key of the mapping lookup                                 72 per field of every record
      producer_nf.go:550 :552 MplsIp = append(MplsIp, v)                                       132 per such field
      producer_nf.go:524 :533 :544 make([]uint32, 1|2|3)                                       16 per such field
      producer_nf.go:88 bytes.NewBuffer in NetFlowPopulate                                     144 per options record
      producer_packet.go ParsePacket (maps :406 :407, appends :446 :564 :565 :725)            448 + 12·len for a frame of ≥ 14 bytes
      producer_nflegacy.go:19 :22 :25 make([]byte, 4)                                          24 per record

  The producer side is charged per decoded record; custom mappings of a configuration are not
  itemised (the calibration runs use the default configuration): `cfg` is carried only so that
  `pipeCost` has the signature of `Pipe.decodeFlow`.
-/
namespace Goflow.Cost

/-! ### sizes -/
def szField : Nat := 12                 -- netflow.Field {bool; uint16; uint16; uint32}
def szDataField : Nat := 24             -- netflow.DataField {bool; uint16; uint32; interface{}}
def szSliceBox : Nat := 24              -- DataField.Value = payload.Next(n): slice header boxed
def appTemplateRecord : Nat := 176      -- 11/2 × 32   netflow.TemplateRecord
def appOptsTemplateRecord : Nat := 308  -- 11/2 × 56   NFv9OptionsTemplateRecord / IPFIXOptionsTemplateRecord
def appDataRecord : Nat := 132          -- 11/2 × 24   netflow.DataRecord
def appOptsDataRecord : Nat := 264      -- 11/2 × 48   netflow.OptionsDataRecord
def appIface : Nat := 88                -- 11/2 × 16   []interface{} / []producer.ProducerMessage
def appSet : Nat := 176                 -- 11/2 × 32   []DataFlowSet etc. in SplitNetFlowSets
def appBytes : Nat := 132               -- 11/2 × 24   [][]byte (MplsIp)
def szSetBox : Nat := 32                -- TemplateFlowSet / DataFlowSet / RawFlowSet / … stored in interface{}
def szBuffer : Nat := 48                -- bytes.NewBuffer
def szTnf : Nat := 112                  -- &FlowError{} (48) + errors.Join (64)
def szMsg : Nat := 576                  -- ProtoProducerMessage
def szV5Record : Nat := 48              -- netflowlegacy.RecordsNetFlowV5
def szFlowRecord : Nat := 24            -- sflow.FlowRecord / sflow.CounterRecord {RecordHeader; interface{}}
def szSampleBox : Nat := 80             -- the largest of FlowSample 72, CounterSample 48, ExpandedFlowSample 80, DropSample 64
def szSampleFixed : Nat := 72           -- per sample: bytes.NewBuffer 48 + escaping SampleHeader 24
def szRecordFixed : Nat := 72           -- per record: bytes.NewBuffer 48 + escaping RecordHeader 8, 16 spare
/-- AddTemplate: the record boxed into interface{} (32…56) and the amortised growth of the map
    (208-byte buckets of 8 entries, doubled on growth): 160. The Prometheus wrapper of the `flow` pipe
    adds the label map and three strconv strings (a re-announced template: 640 in all) and, for a
    template id the exporter had not announced before, the metric child with its label pairs and the
    amortised growth of the registry's maps (3072 in all; measured 1455…2996). -/
def tplAdd (prom isNew : Bool) : Nat := if prom then (if isNew then 3072 else 640) else 160
/-- NetFlowMapper.Map builds its key with fmt.Sprintf for every field of every record -/
def szMapKey : Nat := 72
/-- NetFlowPopulate: bytes.NewBuffer per looked-up option (305, 50, 34) -/
def optsRecordProd : Nat := 144
/-- ParsePacket on a frame of at least an Ethernet header: the two call maps, LayerStack / LayerSize /
    MplsLabel / MplsTtl appends (at most two 4-byte appends per 4 bytes of frame, ×5.5, rounded up) -/
def parseFixed : Nat := 448
def parsePerByte : Nat := 12
/-- per datagram: bytes.Buffer(s), the key string, packet structs, first contact of an exporter
    (template system, sampling system, their maps and locks), the error chain of a failed decode -/
def pipeFixed : Nat := 8192

/-! ### caps of the decoders -/
def cap16 : Nat := 65535
def cap1000 : Nat := 1000

end Goflow.Cost

/-! ## NetFlow v9 / IPFIX -/
namespace Goflow.Netflow
open Goflow Goflow.Cost

/-- DecodeTemplateSet: `make([]Field, FieldCount)` is charged before the fields are read -/
def templateSetCost (version : Nat) : Nat → Bytes → Nat
  | 0, _ => 0
  | fuel + 1, b =>
    if 4 ≤ b.length then
      match readFields [2, 2] b with
      | .error _ => 0
      | .ok (vs, b1) =>
        match vs with
        | [_, fc] =>
          fc * szField +
          (match decodeTemplateFields version fc b1 with
           | .error _ => 0
           | .ok (_, b2) => appTemplateRecord + templateSetCost version fuel b2)
        | _ => 0
    else 0

/-- DecodeNFv9OptionsTemplateSet: two makes, the second only after the scopes were read -/
def v9OptsSetCost : Nat → Bytes → Nat
  | 0, _ => 0
  | fuel + 1, b =>
    if 4 ≤ b.length then
      match readFields [2, 2, 2] b with
      | .error _ => 0
      | .ok (vs, b1) =>
        match vs with
        | [_, sl, ol] =>
          (sl / 4) * szField +
          (match decodeFieldsN false (sl / 4) b1 with
           | .error _ => 0
           | .ok (_, b2) =>
             (ol / 4) * szField +
             (match decodeFieldsN false (ol / 4) b2 with
              | .error _ => 0
              | .ok (_, b3) => appOptsTemplateRecord + v9OptsSetCost fuel b3))
        | _ => 0
    else 0

/-- DecodeIPFIXOptionsTemplateSet -/
def ipfixOptsSetCost : Nat → Bytes → Nat
  | 0, _ => 0
  | fuel + 1, b =>
    if 4 ≤ b.length then
      match readFields [2, 2, 2] b with
      | .error _ => 0
      | .ok (vs, b1) =>
        match vs with
        | [_, fc, sfc] =>
          sfc * szField +
          (match decodeFieldsN true sfc b1 with
           | .error _ => 0
           | .ok (_, b2) =>
             if fc < sfc then 0 else
             (fc - sfc) * szField +
             (match decodeFieldsN true (fc - sfc) b2 with
              | .error _ => 0
              | .ok (_, b3) => appOptsTemplateRecord + ipfixOptsSetCost fuel b3))
        | _ => 0
    else 0

/-- DecodeDataSetUsingFields: `make([]DataField, len(listFields))`, then — when the record is
    decoded — one boxed slice header per field -/
def usingFieldsCost (fields : List Field) (b : Bytes) : Nat :=
  fields.length * szDataField + (if templateSize fields ≤ b.length then fields.length * szSliceBox else 0)

/-- DecodeDataSet loop. `g` is what the producer will allocate for the record just decoded
    (`fun _ => 0` for the decoder alone). -/
def dataSetLoopCost (g : List DataField → Nat) (fields : List Field) : Nat → Bytes → Nat
  | 0, _ => 0
  | fuel + 1, b =>
    if templateSize fields ≤ b.length then
      usingFieldsCost fields b +
      (match decodeDataSetUsingFields fields b with
       | .error _ => 0
       | .ok (vs, b1) => appDataRecord + g vs + dataSetLoopCost g fields fuel b1)
    else 0

def dataSetCost (g : List DataField → Nat) (fields : List Field) (fuel : Nat) (b : Bytes) : Nat :=
  if templateSize fields = 0 then 0 else dataSetLoopCost g fields fuel b

/-- DecodeOptionsDataSet loop; `go` is the producer's share per options record -/
def optsDataLoopCost (go : Nat) (scopes options : List Field) : Nat → Bytes → Nat
  | 0, _ => 0
  | fuel + 1, b =>
    if templateSize scopes + templateSize options ≤ b.length then
      usingFieldsCost scopes b +
      (match decodeDataSetUsingFields scopes b with
       | .error _ => 0
       | .ok (_, b1) =>
         usingFieldsCost options b1 +
         (match decodeDataSetUsingFields options b1 with
          | .error _ => 0
          | .ok (_, b2) => appOptsDataRecord + go + optsDataLoopCost go scopes options fuel b2))
    else 0

def optsDataSetCost (go : Nat) (scopes options : List Field) (fuel : Nat) (b : Bytes) : Nat :=
  if templateSize scopes + templateSize options = 0 then 0 else optsDataLoopCost go scopes options fuel b

/-- `templates.AddTemplate` for every record of a decoded template set, in order (the store evolves:
    a template id announced twice in one set is new only the first time) -/
def addTemplatesCost (prom : Bool) (version dom : Nat) (s : Store) : List (Nat × Template) → Nat
  | [] => 0
  | (tid, t) :: rest =>
    tplAdd prom (s.get (templateKey version dom tid)).isNone +
    addTemplatesCost prom version dom (s.add (templateKey version dom tid) t) rest

/-- what the producer's share of a datagram is made of: per data record, per options record, per set -/
structure Share where
  record : List DataField → Nat
  opt : Nat
  set : Nat

def Share.none : Share := ⟨fun _ => 0, 0, 0⟩

/-- DecodeMessageCommonFlowSet: bytes.NewBuffer over the body, the decoded set boxed into the
    `interface{}` result, templates boxed and added to the exporter's template system -/
def flowSetCost (G : Share) (prom : Bool) (fuel version dom : Nat) (s : Store) (b : Bytes) : Nat :=
  match readFields [2, 2] b with
  | .error _ => 0
  | .ok (vs, b1) =>
    match vs with
    | [id, len] =>
      if len < 4 then 0 else
      let body := (nextN (len - 4) b1).1
      if id = 0 ∧ version = 9 ∨ id = 2 ∧ version = 10 then
        szBuffer + templateSetCost version fuel body +
        (match decodeTemplateSet version fuel body with
         | .error _ => 0
         | .ok rs => szSetBox + addTemplatesCost prom version dom s (rs.map fun r => (r.templateId, Template.data r)))
      else if id = 1 ∧ version = 9 then
        szBuffer + v9OptsSetCost fuel body +
        (match decodeNFv9OptionsTemplateSet fuel body with
         | .error _ => 0
         | .ok rs => szSetBox + addTemplatesCost prom version dom s (rs.map fun r => (r.templateId, Template.v9opts r)))
      else if id = 3 ∧ version = 10 then
        szBuffer + ipfixOptsSetCost fuel body +
        (match decodeIPFIXOptionsTemplateSet fuel body with
         | .error _ => 0
         | .ok rs => szSetBox + addTemplatesCost prom version dom s (rs.map fun r => (r.templateId, Template.ipfixopts r)))
      else if id ≥ 256 then
        szSetBox + szBuffer +
        (match s.get (templateKey version dom id) with
         | none => szTnf
         | some (.data t) => dataSetCost G.record t.fields fuel body + szSetBox
         | some (.ipfixopts t) => optsDataSetCost G.opt t.scopes t.options fuel body + szSetBox
         | some (.v9opts t) => optsDataSetCost G.opt t.scopes t.options fuel body + szSetBox)
      else 0
    | _ => 0

/-- DecodeMessageCommon: `flowSets = append(flowSets, flowSet)` per decoded set -/
def setsCost (G : Share) (prom : Bool) (version dom size startLen : Nat) : Nat → Nat → Store → Bytes → Nat
  | 0, _, _, _ => 0
  | fuel + 1, i, s, b =>
    let read := startLen - b.length
    if ((i < size ∧ version = 9) ∨ (read % 65536 < size ∧ version = 10)) ∧ 0 < b.length then
      flowSetCost G prom (b.length + 2) version dom s b +
      (match decodeFlowSet (b.length + 2) version dom s b with
       | .error _ => 0
       | .ok o => appIface + G.set + setsCost G prom version dom size startLen fuel (i + 1) o.store o.rest)
    else 0

/-- DecodeMessageNetFlow / DecodeMessageIPFIX (version consumed by the caller) -/
def messageCost (G : Share) (prom : Bool) (s : Store) (version : Nat) (b : Bytes) : Nat :=
  if version = 9 then
    match readFields [2, 4, 4, 4, 4] b with
    | .error _ => 0
    | .ok (vs, b1) =>
      match vs with
      | [count, _, _, _, sourceId] => setsCost G prom 9 sourceId count b1.length (b1.length + 2) 0 s b1
      | _ => 0
  else if version = 10 then
    match readFields [2, 4, 4, 4] b with
    | .error _ => 0
    | .ok (vs, b1) =>
      match vs with
      | [length, _, _, dom] =>
        setsCost G prom 10 dom ((length + 65536 - 16) % 65536) b1.length (b1.length + 2) 0 s b1
      | _ => 0
  else 0

/-- bytes allocated by decoding the v9 / IPFIX message `b` (after the version word) against the
    exporter's template store; `prom`: the store is the Prometheus-instrumented one -/
def decodeCost (prom : Bool) (s : Store) (version : Nat) (b : Bytes) : Nat :=
  messageCost Share.none prom s version b

/-! ### the widest template a datagram can reference -/

def Template.width : Template → Nat
  | .data r => r.fields.length
  | .v9opts r => r.scopes.length + r.options.length
  | .ipfixopts r => r.scopes.length + r.options.length

/-- the widest template of a store -/
def storeWidth (s : Store) : Nat := (s.map fun e => e.2.width).foldr max 0

/-- the widest template of the exporter's store at any set boundary while the datagram is decoded:
    the store it arrives at, and the stores after each template set it announces (until the decode ends).
    A data set is decoded with the template the store holds when the set begins, so this is an upper bound
    of "the widest template the datagram references". -/
def setsWidest (version dom size startLen : Nat) : Nat → Nat → Store → Bytes → Nat
  | 0, _, s, _ => storeWidth s
  | fuel + 1, i, s, b =>
    let read := startLen - b.length
    if ((i < size ∧ version = 9) ∨ (read % 65536 < size ∧ version = 10)) ∧ 0 < b.length then
      match decodeFlowSet (b.length + 2) version dom s b with
      | .error _ => storeWidth s
      | .ok o => max (storeWidth s) (setsWidest version dom size startLen fuel (i + 1) o.store o.rest)
    else storeWidth s

def messageWidest (s : Store) (version : Nat) (b : Bytes) : Nat :=
  if version = 9 then
    match readFields [2, 4, 4, 4, 4] b with
    | .error _ => 0
    | .ok (vs, b1) =>
      match vs with
      | [count, _, _, _, sourceId] => setsWidest 9 sourceId count b1.length (b1.length + 2) 0 s b1
      | _ => 0
  else if version = 10 then
    match readFields [2, 4, 4, 4] b with
    | .error _ => 0
    | .ok (vs, b1) =>
      match vs with
      | [length, _, _, dom] => setsWidest 10 dom ((length + 65536 - 16) % 65536) b1.length (b1.length + 2) 0 s b1
      | _ => 0
  else 0

end Goflow.Netflow

/-! ## NetFlow v5 -/
namespace Goflow.V5
open Goflow Goflow.Cost

/-- the record loop; `g` is the producer's share per record -/
def readRecordsCost (g : Nat) : Nat → Bytes → Nat
  | 0, _ => 0
  | n + 1, b =>
    if 48 ≤ b.length then
      match readRecord b with
      | .error _ => 0
      | .ok (_, b') => szV5Record + g + readRecordsCost g n b'      -- `record := RecordsNetFlowV5{}` escapes
    else 0

/-- netflowlegacy.DecodeMessage: `make([]RecordsNetFlowV5, Count)` before the loop -/
def messageCost (g : Nat) (b : Bytes) : Nat :=
  match readFields Header.widths b with
  | .error _ => 0
  | .ok (vs, b') =>
    match Header.ofList vs with
    | none => 0
    | some h => h.count * szV5Record + readRecordsCost g h.count b'

/-- bytes allocated by decoding the v5 message `b` (after the version word) -/
def decodeCost (b : Bytes) : Nat := messageCost 0 b

end Goflow.V5

/-! ## sFlow -/
namespace Goflow.Sflow
open Goflow Goflow.Cost

/-- the `make([]uint32, len)` of the AS path / the communities: only after the cap and the
    plausibility check of `readCapped` -/
def cappedCost (len : Nat) (b : Bytes) : Nat :=
  if len > cap1000 then 0 else if len + 4 > b.length then 0 else 4 * len

/-- a `*string`: the bytes are copied when they are all there -/
def stringCost (b : Bytes) : Nat :=
  match readU 4 b with
  | .error _ => 0
  | .ok (n, b1) => if n ≤ b1.length then n else 0

/-- ExtendedGateway, the AS path: its `make` and what is left of the payload behind it -/
def gatewayPath (hd : List Nat) (b2 : Bytes) : Nat × Res Bytes :=
  if hd.getD 3 0 ≠ 0 then
    match readFields [4, 4] b2 with
    | .error e => (0, .error e)
    | .ok (tl, b3) =>
      match tl with
      | [_, pl] =>
        (cappedCost pl b3,
         match readCapped pl b3 with
         | .error e => .error e
         | .ok (_, b4) => .ok b4)
      | _ => (0, .error .panic)
  else (0, .ok b2)

/-- ExtendedGateway behind the AS path: the communities' `make`, then the struct boxed (120) -/
def gatewayTailCost (b4 : Bytes) : Nat :=
  match readU 4 b4 with
  | .error _ => 0
  | .ok (cl, b5) =>
    cappedCost cl b5 +
    (match readCapped cl b5 with
     | .error _ => 0
     | .ok (_, b6) =>
       match readU 4 b6 with
       | .error _ => 0
       | .ok _ => 120)

/-- DecodeFlowRecord: address slices, AS path and communities, strings, and the decoded struct boxed
    into `FlowRecord.Data` -/
def flowRecordCost (fmt _len : Nat) (b : Bytes) : Nat :=
  if fmt = 1 then
    match readFields [4, 4, 4, 4] b with
    | .error _ => 0
    | .ok _ => 40                                   -- SampledHeader
  else if fmt = 1002 then
    16 +                                            -- DecodeIP: make([]byte, 4 | 16)
    (match decodeIP b with
     | .error _ => 0
     | .ok (_, _, b1) =>
       match readFields [4, 4] b1 with
       | .error _ => 0
       | .ok _ => 40)                               -- ExtendedRouter
  else if fmt = 1003 then
    16 +
    (match decodeIP b with
     | .error _ => 0
     | .ok (_, _, b1) =>
       match readFields [4, 4, 4, 4] b1 with
       | .error _ => 0
       | .ok (hd, b2) =>
         (gatewayPath hd b2).1 +
         (match (gatewayPath hd b2).2 with
          | .error _ => 0
          | .ok b4 => gatewayTailCost b4))
  else if fmt = 1037 then
    match readU 4 b with
    | .error _ => 0
    | .ok (_, b1) =>
      stringCost b1 +
      (match readString b1 with
       | .error _ => 0
       | .ok (_, b2) =>
         match readU 4 b2 with
         | .error _ => 0
         | .ok _ => 32)                             -- ExtendedACL
  else if fmt = 1038 then
    stringCost b +
    (match readString b with
     | .error _ => 0
     | .ok _ => 16)                                 -- ExtendedFunction
  else
    match layoutOf fmt with
    | some lay =>
      32 +                                          -- the two address slices (2×6, 2×4, 2×16) made before the read
      (match readItems lay b with
       | .error _ => 0
       | .ok _ => 80)                               -- SampledEthernet 64, SampledIPv4/6 80, ExtendedSwitch 16, EgressQueue 4
    | none => 24                                    -- RawRecord

/-- DecodeCounterRecord -/
def counterRecordCost (fmt _len : Nat) (b : Bytes) : Nat :=
  if fmt = 1 then
    match readFields ifCountersW b with
    | .error _ => 0
    | .ok _ => 88                                   -- IfCounters
  else if fmt = 2 then
    match readFields ethCountersW b with
    | .error _ => 0
    | .ok _ => 52                                   -- EthernetCounters
  else 24                                           -- RawRecord

/-- the record loop of DecodeSample; `g` is the producer's share for a decoded record -/
def recordLoopCost {α} (dec : Nat → Nat → Bytes → Res α) (cost : Nat → Nat → Bytes → Nat) (g : α → Nat) :
    Nat → Bytes → Nat
  | 0, _ => 0
  | n + 1, b =>
    if 8 ≤ b.length then
      match readFields [4, 4] b with
      | .error _ => 0
      | .ok (vs, b1) =>
        match vs with
        | [fmt, len] =>
          if len > b1.length then 0
          else
            szRecordFixed + cost fmt len (b1.take len) +
            (match dec fmt len (b1.take len) with
             | .error _ => 0
             | .ok r => g r + recordLoopCost dec cost g n (b1.drop len))
        | _ => 0
    else 0

/-- the producer's share of a sample: per decoded flow record, and per flow / expanded flow sample -/
structure Share where
  record : FlowRecord → Nat
  sample : Nat

def Share.none : Share := ⟨fun _ => 0, 0⟩

/-- the count-dependent part of DecodeSample: `make([]Record, cnt)` behind the cap, the sample struct
    boxed into the `interface{}` result, then the record loop. `capped = false` is the variant
    WITHOUT the cap (negative control only). -/
def recordsCost {α} (capped : Bool) (dec : Nat → Nat → Bytes → Res α) (cost : Nat → Nat → Bytes → Nat)
    (g : α → Nat) (cnt : Nat) (b : Bytes) : Nat :=
  if capped ∧ cnt > cap1000 then 0
  else cnt * szFlowRecord + szSampleBox + recordLoopCost dec cost g (min cnt cap1000) b

/-- DecodeSample, the data source: one packed word (formats 1, 2) or two words (3, 4, 5) -/
def sampleSrc (format : Nat) (b1 : Bytes) : Res ((Nat × Nat) × Bytes) :=
  if format = 1 ∨ format = 2 then
    match readU 4 b1 with
    | .error e => .error e
    | .ok (sid, b2) => .ok ((sid / 2 ^ 24, sid % 2 ^ 24), b2)
  else if format = 3 ∨ format = 4 ∨ format = 5 then
    match readFields [4, 4] b1 with
    | .error e => .error e
    | .ok (vs, b2) =>
      match vs with
      | [t, v] => .ok ((t, v), b2)
      | _ => .error .panic
  else .error .bad

/-- DecodeSample behind the data source: the fixed fields of the sample kind, then `recordsCost` -/
def sampleBodyCost (capped : Bool) (G : Share) (format : Nat) (b2 : Bytes) : Nat :=
  if format = 1 then
    match readFields [4, 4, 4, 4, 4, 4] b2 with
    | .error _ => 0
    | .ok (vs, b3) => G.sample + recordsCost true decodeFlowRecord flowRecordCost G.record (vs.getD 5 0) b3
  else if format = 2 ∨ format = 4 then
    match readU 4 b2 with
    | .error _ => 0
    | .ok (cnt, b3) => recordsCost true decodeCounterRecord counterRecordCost (fun _ => 0) cnt b3
  else if format = 3 then
    match readFields [4, 4, 4, 4, 4, 4, 4, 4] b2 with
    | .error _ => 0
    | .ok (vs, b3) => G.sample + recordsCost capped decodeFlowRecord flowRecordCost G.record (vs.getD 7 0) b3
  else
    match readFields [4, 4, 4, 4, 4] b2 with
    | .error _ => 0
    | .ok (vs, b3) => recordsCost true decodeFlowRecord flowRecordCost (fun _ => 0) (vs.getD 4 0) b3

/-- DecodeSample -/
def sampleCostWith (capped : Bool) (G : Share) (format : Nat) (b : Bytes) : Nat :=
  match readU 4 b with
  | .error _ => 0
  | .ok (_, b1) =>
    match sampleSrc format b1 with
    | .error _ => 0
    | .ok (_, b2) => sampleBodyCost capped G format b2

def sampleCost (G : Share) (format : Nat) (b : Bytes) : Nat := sampleCostWith true G format b

/-- the sample loop of DecodeMessage -/
def sampleLoopCost (capped : Bool) (G : Share) : Nat → Bytes → Nat
  | 0, _ => 0
  | n + 1, b =>
    if 8 ≤ b.length then
      match readFields [4, 4] b with
      | .error _ => 0
      | .ok (vs, b1) =>
        match vs with
        | [fmt, len] =>
          if len > b1.length then 0
          else
            szSampleFixed + sampleCostWith capped G fmt (b1.take len) +
            (match decodeSample fmt len (b1.take len) with
             | .error _ => 0
             | .ok _ => sampleLoopCost capped G n (b1.drop len))
        | _ => 0
    else 0

/-- DecodeMessageVersion + DecodeMessage: the agent address, `make([]interface{}, SamplesCount)`
    behind the cap, the samples -/
def messageCostWith (capped : Bool) (G : Share) (b : Bytes) : Nat :=
  match readU 4 b with
  | .error _ => 0
  | .ok (v, b0) =>
    if v ≠ 5 then 0 else
    match readU 4 b0 with
    | .error _ => 0
    | .ok (ipv, b1) =>
      let n := if ipv = 1 then 4 else if ipv = 2 then 16 else 0
      if n = 0 then 0 else
      16 +
      (match takeN n b1 with
       | .error _ => 0
       | .ok (_, b2) =>
         match readFields [4, 4, 4, 4] b2 with
         | .error _ => 0
         | .ok (hd, b3) =>
           let cnt := hd.getD 3 0
           if cnt > cap1000 then 0 else
           cnt * 16 + sampleLoopCost capped G cnt b3)

/-- bytes allocated by decoding the sFlow datagram `b` -/
def decodeCost (b : Bytes) : Nat := messageCostWith true Share.none b

/-- NEGATIVE CONTROL: the same accounting with the `> 1000` cap of the EXPANDED flow sample's record
    count removed, as in the pinned tree before commit aff12d8 (the make is then sized by the 32-bit
    count of the datagram) -/
def decodeCostUncapped (b : Bytes) : Nat := messageCostWith false Share.none b

end Goflow.Sflow

/-! ## producers -/
namespace Goflow.Producer
open Goflow Goflow.Cost

/-- ParsePacket (sFlow raw header record, IPFIX dataLinkFrameSection) -/
def parseCost (v : Bytes) : Nat := if v.length < 14 then 0 else parseFixed + parsePerByte * v.length

/-- what a `case` body of ConvertNetFlowDataSet can allocate -/
def actionCost (v : Bytes) : Option Action → Nat
  | some .mplsIp => appBytes                       -- flowMessage.MplsIp = append(flowMessage.MplsIp, v)
  | some (.mplsLabel _) => 16                      -- make([]uint32, 1 | 2 | 3)
  | some .frameSection => parseCost v
  | _ => 0

/-- one field of one record in ConvertNetFlowDataSet: the key of the custom-mapping lookup, the action -/
def fieldProdCost (version : Nat) (df : Netflow.DataField) : Nat :=
  match df.value with
  | none => 0
  | some v => szMapKey + (if df.penProvided then 0 else actionCost v (lookupAction version df.type))

def fieldsProdCost (version : Nat) : List Netflow.DataField → Nat
  | [] => 0
  | df :: rest => fieldProdCost version df + fieldsProdCost version rest

/-- one data record: a pooled message, its place in the per-set and in the per-datagram message list -/
def recordProdCost (version : Nat) (vs : List Netflow.DataField) : Nat :=
  szMsg + 2 * appIface + fieldsProdCost version vs

def recordsProdCost (version : Nat) : List Netflow.DataRecord → Nat
  | [] => 0
  | r :: rs => recordProdCost version r.values + recordsProdCost version rs

/-- ProcessMessageNetFlowV9Config / ProcessMessageIPFIXConfig on a decoded packet:
    SplitNetFlowSets copies every set into a typed list, one message per data record,
    NetFlowPopulate on the options records -/
def netflowProduceCost (p : Netflow.Packet) : Nat :=
  p.flowSets.length * appSet + recordsProdCost p.version (dataRecordsOf p.flowSets) +
  (optionRecordsOf p.flowSets).length * optsRecordProd

def netflowShare (version : Nat) : Netflow.Share := ⟨recordProdCost version, optsRecordProd, appSet⟩

/-- one record of a flow sample in SearchSFlowSampleConfig: only a raw Ethernet header allocates; what is dissected is
    the header data cut to the announced length (`data = data[:n]` is a reslice, no allocation) -/
def sflowRecordProdCost (r : Sflow.FlowRecord) : Nat :=
  match r.data with
  | .raw vals hd => if vals.getD 0 0 = 1 then parseCost (hd.take (vals.getD 3 0)) else 0
  | _ => 0

def sflowRecordsProdCost : List Sflow.FlowRecord → Nat
  | [] => 0
  | r :: rs => sflowRecordProdCost r + sflowRecordsProdCost rs

/-- one sample: flow and expanded flow samples get a pooled message and a place in two lists -/
def sampleProdCost : Sflow.Sample → Nat
  | .flow _ _ recs => szMsg + 2 * appIface + sflowRecordsProdCost recs
  | .expFlow _ _ recs => szMsg + 2 * appIface + sflowRecordsProdCost recs
  | _ => 0

def samplesProdCost : List Sflow.Sample → Nat
  | [] => 0
  | s :: ss => sampleProdCost s + samplesProdCost ss

/-- ProcessMessageSFlowConfig on a decoded packet -/
def sflowProduceCost (p : Sflow.Packet) : Nat := samplesProdCost p.samples

def sflowShare : Sflow.Share := ⟨sflowRecordProdCost, szMsg + 2 * appIface⟩

/-- one v5 record: a pooled message, three 4-byte address slices (8-byte size class), its place in the list -/
def v5RecordProd : Nat := szMsg + 24 + appIface

/-- ProcessMessageNetFlowLegacy on a decoded packet -/
def legacyProduceCost (p : V5.Packet) : Nat := p.records.length * v5RecordProd

end Goflow.Producer

/-! ## pipes -/
namespace Goflow.Pipe
open Goflow Goflow.Cost Goflow.Producer

/-- NetFlowPipe.DecodeFlow: decode, then — unless the decode failed fatally — Produce -/
def netflowPipeCost (prom : Bool) (st : State) (src : Src) (payload : Bytes) : Nat :=
  let tpl := st.templatesOf src
  pipeFixed +
  (match readU 2 payload with
   | .error _ => 0
   | .ok (version, b) =>
     if version = 5 then
       V5.decodeCost b +
       (match V5.decodeMessage b with
        | .error _ => 0
        | .ok p => legacyProduceCost p)
     else if version = 9 ∨ version = 10 then
       let o := if version = 9 then Netflow.decodeMessageNetFlow tpl b else Netflow.decodeMessageIPFIX tpl b
       Netflow.decodeCost prom tpl version b +
       (match o.err with
        | some _ => 0
        | none => netflowProduceCost o.packet)
     else 0)

/-- SFlowPipe.DecodeFlow -/
def sflowPipeCost (payload : Bytes) : Nat :=
  pipeFixed + Sflow.decodeCost payload +
  (match Sflow.decodeMessageVersion payload with
   | .error _ => 0
   | .ok p => sflowProduceCost p)

/-- AutoFlowPipe.DecodeFlow -/
def autoPipeCost (st : State) (src : Src) (payload : Bytes) : Nat :=
  match readU 4 payload with
  | .error _ => pipeFixed
  | .ok (proto, _) =>
    let nf := proto / 65536
    if proto = 5 then sflowPipeCost payload
    else if nf = 5 ∨ nf = 9 ∨ nf = 10 then netflowPipeCost true st src payload
    else pipeFixed

/-- bytes allocated by `DecodeFlow` of a pipe of kind `k` for the datagram `d` from `src`, in state `st`.
    The `flow` (auto) pipe is wired with the Prometheus-instrumented template system, the `netflow`
    pipe with the plain one (cmd/goflow2/main.go, harness/cmd/impl/pipe.go). -/
def pipeCost (k : Kind) (_cfg : Config) (st : State) (src : Src) (d : Bytes) : Nat :=
  match k with
  | .netflow => netflowPipeCost false st src d
  | .sflow => sflowPipeCost d
  | .auto => autoPipeCost st src d

/-- the width of the widest template the datagram can reference (0 for sFlow and NetFlow v5):
    the widest template of the exporter's store while `d` is decoded — see `Netflow.setsWidest` -/
def widest (k : Kind) (st : State) (src : Src) (d : Bytes) : Nat :=
  let nf : Nat :=
    match readU 2 d with
    | .error _ => 0
    | .ok (version, b) => Netflow.messageWidest (st.templatesOf src) version b
  match k with
  | .netflow => nf
  | .sflow => 0
  | .auto => nf

/-- the budget of property C02 -/
def budget (len widest : Nat) : Nat := 16 * 2 ^ 20 + 256 * len * (1 + widest)

end Goflow.Pipe
