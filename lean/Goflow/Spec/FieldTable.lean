import Goflow.Generated.FlowMessage
import Goflow.Basic.Bytes
/-!
  Specification side for C08: the documented mapping of NetFlow v9 / IPFIX information elements
  to flow-message columns (docs/protocols.md, IANA IPFIX registry), written column by column as
  "the value of the field with id … if the record carries one" — independent of the order of the
  template and of the producer's switch statement.
-/
namespace Goflow.Spec.FieldTable
open Goflow

structure Hdr where
  version : Nat      -- 9 or 10
  uptime : Nat       -- v9 sysUptime (ms); 0 for IPFIX
  time : Nat         -- export time / unix seconds
  seq : Nat
  domain : Nat
  deriving Repr, Inhabited

abbrev Record := List (Nat × Bytes)       -- (element id, value bytes), non-enterprise fields only

def val (r : Record) (id : Nat) : Option Bytes := r.lookup id

/-- first element id of the list that the record carries -/
def firstOf (r : Record) : List Nat → Option Bytes
  | [] => none
  | id :: ids => match val r id with | some v => some v | none => firstOf r ids

/-- unsigned big-endian reading of any width 1..8 at full value, then stored in a column of `bits` bits -/
def num (bits : Nat) (v : Option Bytes) : Nat :=
  match v with
  | some b => beNat b % 2 ^ bits
  | none => 0

def M64 : Nat := 2 ^ 64

/-- flow start / end: the documented clock rules -/
def timeOf (h : Hdr) (r : Record) (start : Bool) : Nat :=
  let base := h.time * 1000000000
  if h.version = 9 then
    -- export time minus (uptime − switched) milliseconds, modulo 2^64
    match val r (if start then 22 else 21) with
    | some b => (base + M64 * 1000001 - h.uptime * 1000000 + (beNat b % 2 ^ 32) * 1000000) % M64
    | none => base
  else
    let ids : List (Nat × Nat) := if start then [(150, 1000000000), (152, 1000000), (154, 1000), (156, 1)]
      else [(151, 1000000000), (153, 1000000), (155, 1000), (157, 1)]
    match ids.find? (fun e => (val r e.1).isSome) with
    | some (id, mult) => (num 64 (val r id) * mult) % M64
    | none =>
      match val r (if start then 158 else 159) with
      | some b => (base + M64 * 1000 - (beNat b % M64) * 1000) % M64
      | none => base

/-- the reference mapping of one record (before the packet-level stamps) -/
def refRecord (h : Hdr) (r : Record) : FlowMsg :=
  let v4 := (val r 8).isSome || (val r 12).isSome
  let v6 := (val r 27).isSome || (val r 28).isSome
  let ipver := match val r 60 with | some (x :: _) => x.toNat | _ => 0
  let etype := if v6 then 0x86dd else if v4 then 0x800 else if ipver = 4 then 0x800 else if ipver = 6 then 0x86dd else 0
  let tc := firstOf r [32, 139]
  let labels : List Nat :=
    let l0 := val r 70; let l1 := val r 71; let l2 := val r 72
    let n := if l2.isSome then 3 else if l1.isSome then 2 else if l0.isSome then 1 else 0
    ([l0, l1, l2].take n).map fun v => num 32 v / 16
  let m : FlowMsg := { type_ := if h.version = 9 then 3 else 4, timeFlowStartNs := timeOf h r true, timeFlowEndNs := timeOf h r false }
  let m := { m with bytes := num 64 (firstOf r [1, 23, 312]), packets := if (val r 312).isSome then 1 else num 64 (firstOf r [2, 24]) }
  let m := { m with srcAddr := (firstOf r [8, 27]).getD [], dstAddr := (firstOf r [12, 28]).getD [], etype := etype }
  let m := { m with proto := num 32 (val r 4), srcPort := num 32 (val r 7), dstPort := num 32 (val r 11) }
  let m := { m with inIf := num 32 (val r 10), outIf := num 32 (val r 14), srcMac := num 64 (firstOf r [56, 81]), dstMac := num 64 (firstOf r [80, 57]) }
  let m := { m with srcVlan := num 32 (val r 58), vlanId := num 32 (val r 58), dstVlan := num 32 (val r 59) }
  let m := { m with ipTos := num 32 (val r 5), forwardingStatus := num 32 (val r 89), ipTtl := num 32 (val r 52), tcpFlags := num 32 (val r 6) }
  let m := { m with icmpType := (match tc with | some b => (beNat b % 65536) / 256 | none => num 32 (firstOf r [176, 178])) }
  let m := { m with icmpCode := (match tc with | some b => (beNat b % 65536) % 256 | none => num 32 (firstOf r [177, 179])) }
  let m := { m with ipv6FlowLabel := num 32 (val r 31), fragmentId := num 32 (val r 54), fragmentOffset := num 32 (val r 88), ipFlags := num 32 (val r 197) / 32 }
  let m := { m with srcAs := num 32 (val r 16), dstAs := num 32 (val r 17), nextHop := (firstOf r [15, 62]).getD [], bgpNextHop := (firstOf r [18, 63]).getD [] }
  let m := { m with srcNet := num 32 (firstOf r [9, 29]), dstNet := num 32 (firstOf r [13, 30]) }
  let m := { m with mplsLabel := labels, mplsIp := (match firstOf r [47, 140] with | some v => [v] | none => []) }
  { m with observationPointId := num 32 (val r 138) }

/-- packet-level stamps: sequence number, domain, sampling rate, receive time, exporter address
    (IPv4-mapped IPv6 sources are reported as IPv4) -/
def stamp (h : Hdr) (rate recvNs : Nat) (exporter : Bytes) (m : FlowMsg) : FlowMsg :=
  let sa := if exporter.length = 16 ∧ exporter.take 12 = List.replicate 10 0 ++ [0xff, 0xff] then exporter.drop 12 else exporter
  { m with sequenceNum := h.seq, observationDomainId := h.domain, samplingRate := rate, timeReceivedNs := recvNs, samplerAddress := sa }

/-- the documented element ids of the property statement, with what they write
    (column group, legal widths); one group = one output column (or a set written together) -/
def groups : List (String × List (Nat × List Nat)) := [
  ("bytes", [(1, [1,2,3,4,5,6,7,8]), (23, [1,2,3,4,5,6,7,8])]),
  ("packets", [(2, [1,2,3,4,5,6,7,8]), (24, [1,2,3,4,5,6,7,8])]),
  ("proto", [(4, [1,2,3,4,5,6,7,8])]), ("tos", [(5, [1,2,3,4,5,6,7,8])]), ("tcpflags", [(6, [1,2,3,4,5,6,7,8])]),
  ("sport", [(7, [1,2,3,4,5,6,7,8])]), ("dport", [(11, [1,2,3,4,5,6,7,8])]),
  ("inif", [(10, [1,2,3,4,5,6,7,8])]), ("outif", [(14, [1,2,3,4,5,6,7,8])]),
  ("srcas", [(16, [1,2,3,4,5,6,7,8])]), ("dstas", [(17, [1,2,3,4,5,6,7,8])]),
  ("srcnet", [(9, [1,2,3,4]), (29, [1,2,3,4])]), ("dstnet", [(13, [1,2,3,4]), (30, [1,2,3,4])]),
  ("nexthop", [(15, [4]), (62, [16])]), ("bgpnexthop", [(18, [4]), (63, [16])]),
  ("flowlabel", [(31, [1,2,3,4])]), ("ttl", [(52, [1,2,4])]), ("fragid", [(54, [1,2,3,4])]),
  ("srcmac", [(56, [6,8]), (81, [6,8])]), ("dstmac", [(80, [6,8]), (57, [6,8])]),
  ("srcvlan", [(58, [1,2,4])]), ("dstvlan", [(59, [1,2,4])]),
  ("icmp", [(32, [2]), (139, [2])]),
  ("mplsip", [(47, [4]), (140, [16])]),
  ("fragoff", [(88, [1,2,3,4])]), ("fwd", [(89, [1,2,4])]), ("obspoint", [(138, [1,2,4,8])]),
  ("ipflags", [(197, [1,2,4])])
]

end Goflow.Spec.FieldTable

namespace Goflow.Spec.FieldTable
open Goflow

/-- NetFlow v5 (docs/protocols.md column "NetFlow v5"; Cisco format description):
    times = export time − (sysUptime − first/last) ms, the difference taken on 32 bits -/
def refV5 (uptime secs nsecs seq sampling : Nat) (r : List Nat) (recvNs : Nat) (exporter : Bytes) : FlowMsg :=
  -- r: srcaddr dstaddr nexthop input output dPkts dOctets first last srcport dstport pad1 tcp_flags prot tos src_as dst_as src_mask dst_mask pad2
  let g (i : Nat) := r.getD i 0
  let base := secs * 1000000000 + nsecs
  let t (x : Nat) := (base + M64 * 1000000 - ((uptime + 2 ^ 32 - x) % 2 ^ 32) * 1000000) % M64
  let m : FlowMsg := { type_ := 2, timeFlowStartNs := t (g 7), timeFlowEndNs := t (g 8), etype := 0x800 }
  let m := { m with srcAddr := encBE 4 (g 0), dstAddr := encBE 4 (g 1), nextHop := encBE 4 (g 2), inIf := g 3, outIf := g 4 }
  let m := { m with packets := g 5, bytes := g 6, srcPort := g 9, dstPort := g 10, tcpFlags := g 12, proto := g 13, ipTos := g 14 }
  let m := { m with srcAs := g 15, dstAs := g 16, srcNet := g 17, dstNet := g 18 }
  let h : Hdr := ⟨5, uptime, secs, seq, 0⟩
  stamp h (sampling % 2 ^ 14) recvNs exporter m

end Goflow.Spec.FieldTable
