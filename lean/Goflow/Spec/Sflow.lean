import Goflow.Decoders.Sflow
/-!
  Specification side for sFlow v5 (sflow.org SFLOW-DATAGRAM5 / SFLOW-STRUCTS5 / sflow_drops):
  abstract datagrams, an XDR encoder written from the structure definitions, and the decode a
  correct collector must produce. Nothing here looks at the Go decoder.
-/
namespace Goflow.Spec.Sflow
open Goflow Goflow.Sflow

inductive SRecord where
  | rawHeader (protocol frameLength stripped : Nat) (header : Bytes)
  | ethernet (length : Nat) (src dst : Bytes) (etype : Nat)
  | ipv4 (length protocol : Nat) (src dst : Bytes) (sport dport flags tos : Nat)
  | ipv6 (length protocol : Nat) (src dst : Bytes) (sport dport flags prio : Nat)
  | extSwitch (srcVlan srcPrio dstVlan dstPrio : Nat)
  | extRouter (nextHop : Bytes) (srcMask dstMask : Nat)
  | extGateway (nextHop : Bytes) (as srcAs srcPeerAs : Nat) (path : Option (Nat × List Nat))
      (communities : List Nat) (localPref : Nat)
  | egressQueue (q : Nat)
  | acl (number : Nat) (name : Bytes) (direction : Nat)
  | function (symbol : Bytes)
  | unknown (fmt : Nat) (data : Bytes)            -- data length is a multiple of 4
  deriving Repr, DecidableEq, Inhabited

inductive SCRecord where
  | ifc (vals : List Nat)       -- 19 values on widths ifCountersW
  | eth (vals : List Nat)       -- 13 values
  | unknown (fmt : Nat) (data : Bytes)
  deriving Repr, DecidableEq, Inhabited

inductive SSample where
  | flow (seq srcType srcValue : Nat) (vals : List Nat) (records : List SRecord)       -- rate pool drops input output
  | expFlow (seq srcType srcValue : Nat) (vals : List Nat) (records : List SRecord)    -- rate pool drops inFmt inVal outFmt outVal
  | counter (seq srcType srcValue : Nat) (records : List SCRecord)
  | expCounter (seq srcType srcValue : Nat) (records : List SCRecord)
  | drop (seq srcType srcValue : Nat) (vals : List Nat) (records : List SRecord)       -- drops input output reason
  deriving Repr, Inhabited

structure Datagram where
  agent : Bytes          -- 4 or 16 bytes
  subAgent : Nat
  seq : Nat
  uptime : Nat
  samples : List SSample
  deriving Repr, Inhabited

/-! ### XDR encoder -/

def u32 (v : Nat) : Bytes := encBE 4 v
def padLen (n : Nat) : Nat := (4 - n % 4) % 4
def pad (n : Nat) : Bytes := List.replicate (padLen n) 0
/-- XDR variable-length opaque / string -/
def xdrOpaque (d : Bytes) : Bytes := u32 d.length ++ d ++ pad d.length
def xdrAddr (ip : Bytes) : Bytes := u32 (if ip.length = 4 then 1 else 2) ++ ip
def words (vs : List Nat) : Bytes := vs.flatMap u32

def recFormat : SRecord → Nat
  | .rawHeader .. => 1 | .ethernet .. => 2 | .ipv4 .. => 3 | .ipv6 .. => 4
  | .extSwitch .. => 1001 | .extRouter .. => 1002 | .extGateway .. => 1003
  | .egressQueue _ => 1036 | .acl .. => 1037 | .function _ => 1038 | .unknown f _ => f

def recBody : SRecord → Bytes
  | .rawHeader p fl st h => u32 p ++ u32 fl ++ u32 st ++ xdrOpaque h
  | .ethernet l s d t => u32 l ++ s ++ d ++ u32 t
  | .ipv4 l p s d sp dp f t => u32 l ++ u32 p ++ s ++ d ++ u32 sp ++ u32 dp ++ u32 f ++ u32 t
  | .ipv6 l p s d sp dp f t => u32 l ++ u32 p ++ s ++ d ++ u32 sp ++ u32 dp ++ u32 f ++ u32 t
  | .extSwitch a b c d => u32 a ++ u32 b ++ u32 c ++ u32 d
  | .extRouter nh s d => xdrAddr nh ++ u32 s ++ u32 d
  | .extGateway nh a sa spa path comm lp =>
    xdrAddr nh ++ u32 a ++ u32 sa ++ u32 spa ++
    (match path with
     | none => u32 0
     | some (t, asns) => u32 1 ++ u32 t ++ u32 asns.length ++ words asns) ++
    u32 comm.length ++ words comm ++ u32 lp
  | .egressQueue q => u32 q
  | .acl n name d => u32 n ++ xdrOpaque name ++ u32 d
  | .function s => xdrOpaque s
  | .unknown _ d => d

def encRecord (r : SRecord) : Bytes :=
  let body := recBody r
  u32 (recFormat r) ++ u32 body.length ++ body

def crecFormat : SCRecord → Nat
  | .ifc _ => 1 | .eth _ => 2 | .unknown f _ => f
def crecBody : SCRecord → Bytes
  | .ifc vs => encFields ifCountersW vs
  | .eth vs => encFields ethCountersW vs
  | .unknown _ d => d
def encCRecord (r : SCRecord) : Bytes :=
  let body := crecBody r
  u32 (crecFormat r) ++ u32 body.length ++ body

def sampleFormat : SSample → Nat
  | .flow .. => 1 | .counter .. => 2 | .expFlow .. => 3 | .expCounter .. => 4 | .drop .. => 5

def sampleBody : SSample → Bytes
  | .flow seq st sv vals recs =>
    u32 seq ++ u32 (st * 2 ^ 24 + sv) ++ words vals ++ u32 recs.length ++ recs.flatMap encRecord
  | .expFlow seq st sv vals recs =>
    u32 seq ++ u32 st ++ u32 sv ++ words vals ++ u32 recs.length ++ recs.flatMap encRecord
  | .counter seq st sv recs =>
    u32 seq ++ u32 (st * 2 ^ 24 + sv) ++ u32 recs.length ++ recs.flatMap encCRecord
  | .expCounter seq st sv recs =>
    u32 seq ++ u32 st ++ u32 sv ++ u32 recs.length ++ recs.flatMap encCRecord
  | .drop seq st sv vals recs =>
    u32 seq ++ u32 st ++ u32 sv ++ words vals ++ u32 recs.length ++ recs.flatMap encRecord

def encSample (s : SSample) : Bytes :=
  let body := sampleBody s
  u32 (sampleFormat s) ++ u32 body.length ++ body

def encode (d : Datagram) : Bytes :=
  u32 5 ++ xdrAddr d.agent ++ u32 d.subAgent ++ u32 d.seq ++ u32 d.uptime ++ u32 d.samples.length ++
    d.samples.flatMap encSample

/-! ### expected decode -/

def ipv (ip : Bytes) : Nat := if ip.length = 4 then 1 else 2

def expData : SRecord → FlowData
  | .rawHeader p fl st h => .raw [p, fl, st, h.length] (h ++ pad h.length)
  | .ethernet l s d t => .fixed 2 [.n l, .b s, .b d, .n t]
  | .ipv4 l p s d sp dp f t => .fixed 3 [.n l, .n p, .b s, .b d, .n sp, .n dp, .n f, .n t]
  | .ipv6 l p s d sp dp f t => .fixed 4 [.n l, .n p, .b s, .b d, .n sp, .n dp, .n f, .n t]
  | .extSwitch a b c d => .fixed 1001 [.n a, .n b, .n c, .n d]
  | .extRouter nh s d => .router (ipv nh) nh s d
  | .extGateway nh a sa spa path comm lp =>
    match path with
    | none => .gateway (ipv nh) nh [a, sa, spa, 0] 0 0 [] comm.length comm lp
    | some (t, asns) => .gateway (ipv nh) nh [a, sa, spa, 1] t asns.length asns comm.length comm lp
  | .egressQueue q => .fixed 1036 [.n q]
  | .acl n name d => .acl n name d
  | .function s => .function s
  | .unknown _ d => .unknown d

def expRecord (r : SRecord) : FlowRecord := ⟨recFormat r, (recBody r).length, expData r⟩

def expCRecord (r : SCRecord) : CounterRecord :=
  ⟨crecFormat r, (crecBody r).length,
    match r with | .ifc vs => .ifc vs | .eth vs => .eth vs | .unknown _ d => .unknown d⟩

def expSample (s : SSample) : Sample :=
  let len := (sampleBody s).length
  match s with
  | .flow seq st sv vals recs => .flow ⟨1, len, seq, st, sv⟩ (vals ++ [recs.length]) (recs.map expRecord)
  | .expFlow seq st sv vals recs => .expFlow ⟨3, len, seq, st, sv⟩ (vals ++ [recs.length]) (recs.map expRecord)
  | .counter seq st sv recs => .counter ⟨2, len, seq, st, sv⟩ recs.length (recs.map expCRecord)
  | .expCounter seq st sv recs => .counter ⟨4, len, seq, st, sv⟩ recs.length (recs.map expCRecord)
  | .drop seq st sv vals recs => .drop ⟨5, len, seq, st, sv⟩ (vals ++ [recs.length]) (recs.map expRecord)

def expected (d : Datagram) : Packet :=
  ⟨5, ipv d.agent, d.agent, [d.subAgent, d.seq, d.uptime, d.samples.length], d.samples.map expSample⟩

/-- number of flow / expanded flow samples (the flow records of C07) -/
def flowSamples (d : Datagram) : Nat :=
  (d.samples.filter fun s => match s with | .flow .. => true | .expFlow .. => true | _ => false).length

end Goflow.Spec.Sflow
