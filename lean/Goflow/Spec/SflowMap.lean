import Goflow.Spec.Sflow
import Goflow.Spec.Frame
/-!
  Specification side for C09: what a flow message of an sFlow flow / expanded flow sample carries
  (docs/protocols.md column "sFlow"), written from the abstract sample.
-/
namespace Goflow.Spec.SflowMap
open Goflow Goflow.Spec.Sflow Goflow.Spec.Frame

/-- apply the true values of a fully captured frame (C10) to the message -/
def applyFrame (f : Frame) (m : FlowMsg) : FlowMsg :=
  let (fs, layers) := facts f
  let m := fs.foldl (fun m ft =>
    match ft.val with
    | .n v => m.setNum ft.col v
    | .b v => m.setBytes ft.col v
    | .ns v => m.setNums ft.col v
    | .bs v => m.setBytess ft.col ((m.getBytess ft.col).getD [] ++ v)) m
  { m with layerStack := m.layerStack ++ layers.map (·.1), layerSize := m.layerSize ++ layers.map (·.2.1) }

def applyRecord (m : FlowMsg) (r : SRecord × Option Frame) : FlowMsg :=
  match r.1 with
  | .rawHeader proto fl _ _ =>
    let m := { m with bytes := fl }
    if proto = 1 then (match r.2 with | some f => applyFrame f m | none => m) else m
  | .ipv4 l p s d sp dp _ tos =>
    { m with srcAddr := s, dstAddr := d, bytes := l, proto := p, srcPort := sp, dstPort := dp, ipTos := tos, etype := 0x800 }
  | .ipv6 l p s d sp dp _ prio =>
    { m with srcAddr := s, dstAddr := d, bytes := l, proto := p, srcPort := sp, dstPort := dp, ipTos := prio, etype := 0x86dd }
  | .extSwitch sv _ dv _ => { m with srcVlan := sv, dstVlan := dv }
  | .extRouter nh s d => { m with nextHop := nh, srcNet := s, dstNet := d }
  | .extGateway nh as sa _ path comm _ =>
    let p : List Nat := match path with | some (_, l) => l | none => []
    let m := { m with bgpNextHop := nh, bgpCommunities := comm, asPath := p }
    -- destination AS = last AS of the path, next-hop AS = first; without a path the router's AS
    let m := match p.getLast? with
      | some l => { m with dstAs := l, nextHopAs := p.headD 0 }
      | none => { m with dstAs := as }
    { m with srcAs := if sa > 0 then sa else as }
  | _ => m

/-- the message of one flow / expanded flow sample -/
def refSample (agent : Bytes) (dgSeq recvNs : Nat) (s : SSample) (frames : List (Option Frame)) : Option FlowMsg :=
  let mk (rate inIf outIf : Nat) (recs : List SRecord) : FlowMsg :=
    let m : FlowMsg := { type_ := 1, samplingRate := rate, inIf := inIf, outIf := outIf, packets := 1 }
    let m := (recs.zip frames).foldl applyRecord m
    { m with samplerAddress := agent, sequenceNum := dgSeq, timeReceivedNs := recvNs, timeFlowStartNs := recvNs, timeFlowEndNs := recvNs }
  match s with
  | .flow _ _ _ vals recs => some (mk (vals.getD 0 0) (vals.getD 3 0) (vals.getD 4 0) recs)
  | .expFlow _ _ _ vals recs => some (mk (vals.getD 0 0) (vals.getD 4 0) (vals.getD 6 0) recs)
  | _ => none

end Goflow.Spec.SflowMap
