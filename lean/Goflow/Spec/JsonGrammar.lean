import Goflow.Basic.Bytes
/-!
# RFC 8259 as a declarative grammar over bytes

`Goflow.Spec.Json.valid` is an executable recogniser; this file is the grammar it is meant to recognise,
written as inductive predicates over byte lists so that it can be compared with RFC 8259 §2–§7 line by
line. Nothing here computes: there is no fuel, no "rest of input", only `++`.

Two conventions, both stated where they apply:

* **layout of whitespace** (§2). The RFC attaches `ws` to both sides of the six structural characters
  and to both ends of a JSON text. We use the equivalent presentation of json.org / ECMA-404:
  an *element* is `ws value ws`, array items and member values are elements, a member name is
  `ws string ws`, and an empty object / array is `{ ws }` / `[ ws ]`. The two presentations generate the same
  language (each `ws` of the RFC lands in exactly one of these places).
* **bytes, not code points** (§7, §8.1). The alphabet is `UInt8`. `unescaped` is "any byte ≥ 0x20 other
  than `"` and `\`": the ASCII part is the RFC's `%x20-21 / %x23-5B / %x5D-7F`, and bytes ≥ 0x80 stand for
  the UTF-8 encodings of `%x80-10FFFF`. Well-formedness of UTF-8 is *not* demanded — this is what Go's
  `json.Valid` accepts, and it is the only place where the grammar is wider than RFC 8259.
-/
namespace Goflow.Spec.JsonGrammar
open Goflow

/-- `[ P ]` of ABNF: nothing, or one `P` -/
inductive Opt (P : Bytes → Prop) : Bytes → Prop
  | none : Opt P []
  | some {bs : Bytes} : P bs → Opt P bs

/-! ## §2 whitespace

    ws = *( %x20 / %x09 / %x0A / %x0D ) -/

inductive WsByte : UInt8 → Prop
  | space : WsByte 0x20
  | tab   : WsByte 0x09
  | lf    : WsByte 0x0a
  | cr    : WsByte 0x0d

inductive Ws : Bytes → Prop
  | nil : Ws []
  | cons {b : UInt8} {w : Bytes} : WsByte b → Ws w → Ws (b :: w)

/-! ## §6 numbers

    number        = [ minus ] int [ frac ] [ exp ]
    decimal-point = %x2E       ; .
    digit1-9      = %x31-39    ; 1-9
    e             = %x65 / %x45 ; e E
    exp           = e [ minus / plus ] 1*DIGIT
    frac          = decimal-point 1*DIGIT
    int           = zero / ( digit1-9 *DIGIT )
    minus         = %x2D ; -      plus = %x2B ; +      zero = %x30 ; 0 -/

/-- DIGIT = %x30-39 -/
def Digit (b : UInt8) : Prop := 0x30 ≤ b ∧ b ≤ 0x39
/-- digit1-9 = %x31-39 -/
def Digit19 (b : UInt8) : Prop := 0x31 ≤ b ∧ b ≤ 0x39

/-- `*DIGIT` -/
inductive Digits0 : Bytes → Prop
  | nil : Digits0 []
  | cons {d : UInt8} {ds : Bytes} : Digit d → Digits0 ds → Digits0 (d :: ds)

/-- `1*DIGIT` -/
inductive Digits1 : Bytes → Prop
  | mk {d : UInt8} {ds : Bytes} : Digit d → Digits0 ds → Digits1 (d :: ds)

inductive Minus : Bytes → Prop
  | mk : Minus [0x2d]

/-- `minus / plus` -/
inductive Sign : Bytes → Prop
  | minus : Sign [0x2d]
  | plus  : Sign [0x2b]

/-- `int = zero / ( digit1-9 *DIGIT )`: no leading zeros -/
inductive JInt : Bytes → Prop
  | zero : JInt [0x30]
  | nonzero {d : UInt8} {ds : Bytes} : Digit19 d → Digits0 ds → JInt (d :: ds)

/-- `frac = decimal-point 1*DIGIT` -/
inductive Frac : Bytes → Prop
  | mk {ds : Bytes} : Digits1 ds → Frac (0x2e :: ds)

/-- `exp = e [ minus / plus ] 1*DIGIT` -/
inductive Exp : Bytes → Prop
  | lower {s ds : Bytes} : Opt Sign s → Digits1 ds → Exp (0x65 :: (s ++ ds))
  | upper {s ds : Bytes} : Opt Sign s → Digits1 ds → Exp (0x45 :: (s ++ ds))

/-- `number = [ minus ] int [ frac ] [ exp ]` -/
inductive JNumber : Bytes → Prop
  | mk {m i f e : Bytes} : Opt Minus m → JInt i → Opt Frac f → Opt Exp e → JNumber (m ++ i ++ f ++ e)

/-! ## §7 strings

    string    = quotation-mark *char quotation-mark
    char      = unescaped /
                escape ( %x22 / %x5C / %x2F / %x62 / %x66 / %x6E / %x72 / %x74 / %x75 4HEXDIG )
    escape    = %x5C     quotation-mark = %x22
    unescaped = %x20-21 / %x23-5B / %x5D-10FFFF   (here: bytes, see the header) -/

/-- HEXDIG, both cases (RFC 8259 §7: "the hexadecimal letters A through F can be uppercase or lowercase") -/
def HexDig (b : UInt8) : Prop := Digit b ∨ (0x41 ≤ b ∧ b ≤ 0x46) ∨ (0x61 ≤ b ∧ b ≤ 0x66)

/-- the byte after `\` in a two-character escape: `"` `\` `/` `b` `f` `n` `r` `t` -/
inductive SimpleEscape : UInt8 → Prop
  | quote     : SimpleEscape 0x22
  | backslash : SimpleEscape 0x5c
  | slash     : SimpleEscape 0x2f
  | b         : SimpleEscape 0x62
  | f         : SimpleEscape 0x66
  | n         : SimpleEscape 0x6e
  | r         : SimpleEscape 0x72
  | t         : SimpleEscape 0x74

/-- a byte that stands for itself inside a string: not a control byte, not `"`, not `\` -/
def Unescaped (b : UInt8) : Prop := 0x20 ≤ b ∧ b ≠ 0x22 ∧ b ≠ 0x5c

inductive JChar : Bytes → Prop
  | unescaped {b : UInt8} : Unescaped b → JChar [b]
  | escape {e : UInt8} : SimpleEscape e → JChar [0x5c, e]
  | unicode {a b c d : UInt8} : HexDig a → HexDig b → HexDig c → HexDig d → JChar [0x5c, 0x75, a, b, c, d]

/-- `*char` -/
inductive JChars : Bytes → Prop
  | nil : JChars []
  | cons {c cs : Bytes} : JChar c → JChars cs → JChars (c ++ cs)

inductive JString : Bytes → Prop
  | mk {cs : Bytes} : JChars cs → JString (0x22 :: (cs ++ [0x22]))

/-! ## §3 values, §4 objects, §5 arrays

    value  = false / null / true / object / array / number / string
    object = begin-object [ member *( value-separator member ) ] end-object
    member = string name-separator value
    array  = begin-array [ value *( value-separator value ) ] end-array

    with the whitespace of the structural characters placed as described in the header:

    object   = "{" ws "}"  /  "{" members "}"
    members  = member *( "," member )
    member   = ws string ws ":" element
    array    = "[" ws "]"  /  "[" elements "]"
    elements = element *( "," element )
    element  = ws value ws -/

mutual
inductive JValue : Bytes → Prop
  | object {bs : Bytes} : JObject bs → JValue bs
  | array  {bs : Bytes} : JArray bs → JValue bs
  | string {bs : Bytes} : JString bs → JValue bs
  | number {bs : Bytes} : JNumber bs → JValue bs
  /-- `true`  = %x74.72.75.65 -/
  | true_  : JValue [0x74, 0x72, 0x75, 0x65]
  /-- `false` = %x66.61.6c.73.65 -/
  | false_ : JValue [0x66, 0x61, 0x6c, 0x73, 0x65]
  /-- `null`  = %x6e.75.6c.6c -/
  | null_  : JValue [0x6e, 0x75, 0x6c, 0x6c]

inductive JObject : Bytes → Prop
  | empty {w : Bytes} : Ws w → JObject (0x7b :: (w ++ [0x7d]))
  | members {ms : Bytes} : JMembers ms → JObject (0x7b :: (ms ++ [0x7d]))

inductive JMembers : Bytes → Prop
  | one {m : Bytes} : JMember m → JMembers m
  | cons {m ms : Bytes} : JMember m → JMembers ms → JMembers (m ++ 0x2c :: ms)

inductive JMember : Bytes → Prop
  | mk {w1 s w2 e : Bytes} : Ws w1 → JString s → Ws w2 → JElement e → JMember (w1 ++ s ++ w2 ++ 0x3a :: e)

inductive JArray : Bytes → Prop
  | empty {w : Bytes} : Ws w → JArray (0x5b :: (w ++ [0x5d]))
  | elements {es : Bytes} : JElements es → JArray (0x5b :: (es ++ [0x5d]))

inductive JElements : Bytes → Prop
  | one {e : Bytes} : JElement e → JElements e
  | cons {e es : Bytes} : JElement e → JElements es → JElements (e ++ 0x2c :: es)

inductive JElement : Bytes → Prop
  | mk {w1 v w2 : Bytes} : Ws w1 → JValue v → Ws w2 → JElement (w1 ++ v ++ w2)
end

/-- §2: `JSON-text = ws value ws` -/
def JText (bs : Bytes) : Prop := JElement bs

end Goflow.Spec.JsonGrammar
