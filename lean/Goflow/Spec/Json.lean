import Goflow.Basic.Bytes
/-! RFC 8259 recogniser over bytes, accepting what Go's `json.Valid` accepts (byte-level scanner:
    inside a string any byte ≥ 0x20 other than `"` and `\` is legal; UTF-8 validity is not checked). -/
namespace Goflow.Spec.Json

def isWs (b : UInt8) : Bool := b == 0x20 || b == 0x09 || b == 0x0a || b == 0x0d
def isDigit (b : UInt8) : Bool := 0x30 ≤ b && b ≤ 0x39
def isHex (b : UInt8) : Bool := isDigit b || (0x41 ≤ b && b ≤ 0x46) || (0x61 ≤ b && b ≤ 0x66)

def skipWs : List UInt8 → List UInt8
  | b :: rest => if isWs b then skipWs rest else b :: rest
  | [] => []

def isSimpleEscape (e : UInt8) : Bool :=
  e == 0x22 || e == 0x5c || e == 0x2f || e == 0x62 || e == 0x66 || e == 0x6e || e == 0x72 || e == 0x74

/-- after the opening quote: consume up to and including the closing quote -/
def strBody : List UInt8 → Option (List UInt8)
  | [] => none
  | b :: rest =>
    if b = 0x22 then some rest
    else if b = 0x5c then
      match rest with
      | [] => none
      | e :: rest' =>
        if isSimpleEscape e then strBody rest'
        else if e = 0x75 then
          if 4 ≤ rest'.length ∧ (rest'.take 4).all isHex then strBody (rest'.drop 4) else none
        else none
    else if b < 0x20 then none
    else strBody rest
termination_by l => l.length
decreasing_by all_goals simp_wf <;> (try simp only [List.length_drop]) <;> omega

def digits : List UInt8 → List UInt8
  | b :: rest => if isDigit b then digits rest else b :: rest
  | [] => []

/-- a JSON number at the head; returns the rest -/
def number (bs0 : List UInt8) : Option (List UInt8) :=
  let bs := if bs0.head? = some 0x2d then bs0.tail else bs0
  match bs with
  | [] => none
  | b :: r =>
    if !isDigit b then none else
    let r1 := if b = 0x30 then r else digits r
    let r2? : Option (List UInt8) :=
      if r1.head? = some 0x2e then
        match r1.tail with
        | d :: r' => if isDigit d then some (digits r') else none
        | [] => none
      else some r1
    match r2? with
    | none => none
    | some r2 =>
      if r2.head? = some 0x65 ∨ r2.head? = some 0x45 then
        let r3 := r2.tail
        let r4 := if r3.head? = some 0x2b ∨ r3.head? = some 0x2d then r3.tail else r3
        match r4 with
        | d :: t => if isDigit d then some (digits t) else none
        | [] => none
      else some r2

def lit (w : List UInt8) (bs : List UInt8) : Option (List UInt8) :=
  if bs.take w.length == w then some (bs.drop w.length) else none

mutual
/-- one JSON value (leading whitespace allowed); returns the rest -/
def value : Nat → List UInt8 → Option (List UInt8)
  | 0, _ => none
  | fuel + 1, bs =>
    match skipWs bs with
    | [] => none
    | b :: rest =>
      if b = 0x22 then strBody rest
      else if b = 0x7b then
        (match skipWs rest with
         | [] => none
         | c :: r => if c = 0x7d then some r else members fuel (c :: r))
      else if b = 0x5b then
        (match skipWs rest with
         | [] => none
         | c :: r => if c = 0x5d then some r else elements fuel (c :: r))
      else if b = 0x74 then lit [0x72, 0x75, 0x65] rest
      else if b = 0x66 then lit [0x61, 0x6c, 0x73, 0x65] rest
      else if b = 0x6e then lit [0x75, 0x6c, 0x6c] rest
      else if b = 0x2d ∨ isDigit b then number (b :: rest)
      else none
/-- `"key" : value (, "key" : value)* }` -/
def members : Nat → List UInt8 → Option (List UInt8)
  | 0, _ => none
  | fuel + 1, bs =>
    match skipWs bs with
    | [] => none
    | b :: rest =>
      if b ≠ 0x22 then none else
      match strBody rest with
      | none => none
      | some r =>
        match skipWs r with
        | [] => none
        | c :: r' =>
          if c ≠ 0x3a then none else
          match value fuel r' with
          | none => none
          | some r'' =>
            match skipWs r'' with
            | [] => none
            | d :: t => if d = 0x2c then members fuel t else if d = 0x7d then some t else none
/-- `value (, value)* ]` -/
def elements : Nat → List UInt8 → Option (List UInt8)
  | 0, _ => none
  | fuel + 1, bs =>
    match value fuel bs with
    | none => none
    | some r =>
      match skipWs r with
      | [] => none
      | d :: t => if d = 0x2c then elements fuel t else if d = 0x5d then some t else none
end

/-- json.Valid -/
def valid (bs : Bytes) : Bool :=
  match value (bs.length + 2) bs with
  | some r => (skipWs r).isEmpty
  | none => false

end Goflow.Spec.Json
