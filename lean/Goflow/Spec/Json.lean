import Goflow.Basic.Bytes
/-! RFC 8259 recogniser over bytes, accepting what Go's `json.Valid` accepts (byte-level scanner:
    inside a string any byte ≥ 0x20 other than `"` and `\` is legal; UTF-8 validity is not checked). -/
namespace Goflow.Spec.Json

def isWs (b : UInt8) : Bool := b == 0x20 || b == 0x09 || b == 0x0a || b == 0x0d
def isDigit (b : UInt8) : Bool := 0x30 ≤ b && b ≤ 0x39
def isHex (b : UInt8) : Bool := isDigit b || (0x41 ≤ b && b ≤ 0x46) || (0x61 ≤ b && b ≤ 0x66)

def skipWs : List UInt8 → List UInt8
  | b :: rest => if isWs b then skipWs rest else b :: rest
  | [] => []

def isSimpleEscape (e : UInt8) : Bool :=
  e == 0x22 || e == 0x5c || e == 0x2f || e == 0x62 || e == 0x66 || e == 0x6e || e == 0x72 || e == 0x74

/-- after the opening quote: consume up to and including the closing quote -/
def strBody : List UInt8 → Option (List UInt8)
  | [] => none
  | b :: rest =>
    if b = 0x22 then some rest
    else if b = 0x5c then
      match rest with
      | [] => none
      | e :: rest' =>
        if isSimpleEscape e then strBody rest'
        else if e = 0x75 then
          if 4 ≤ rest'.length ∧ (rest'.take 4).all isHex then strBody (rest'.drop 4) else none
        else none
    else if b < 0x20 then none
    else strBody rest
termination_by l => l.length
decreasing_by all_goals simp_wf <;> (try simp only [List.length_drop]) <;> omega

def digits : List UInt8 → List UInt8
  | b :: rest => if isDigit b then digits rest else b :: rest
  | [] => []

/-- a JSON number at the head; returns the rest -/
def number (bs : List UInt8) : Option (List UInt8) :=
  let bs := match bs with | 0x2d :: r => r | r => r
  let afterInt : Option (List UInt8) := match bs with
    | 0x30 :: r => some r
    | b :: r => if isDigit b then some (digits r) else none
    | [] => none
  match afterInt with
  | none => none
  | some r =>
    let afterFrac : Option (List UInt8) := match r with
      | 0x2e :: d :: r' => if isDigit d then some (digits r') else none
      | 0x2e :: [] => none
      | r => some r
    match afterFrac with
    | none => none
    | some r =>
      match r with
      | e :: r' =>
        if e == 0x65 || e == 0x45 then
          let r'' := match r' with | s :: t => if s == 0x2b || s == 0x2d then t else s :: t | [] => []
          match r'' with
          | d :: t => if isDigit d then some (digits t) else none
          | [] => none
        else some r
      | [] => some []

def lit (w : List UInt8) (bs : List UInt8) : Option (List UInt8) :=
  if bs.take w.length == w then some (bs.drop w.length) else none

mutual
/-- one JSON value (leading whitespace allowed); returns the rest -/
def value : Nat → List UInt8 → Option (List UInt8)
  | 0, _ => none
  | fuel + 1, bs =>
    match skipWs bs with
    | 0x22 :: rest => strBody rest
    | 0x7b :: rest =>
      match skipWs rest with
      | 0x7d :: r => some r
      | r => members fuel r
    | 0x5b :: rest =>
      match skipWs rest with
      | 0x5d :: r => some r
      | r => elements fuel r
    | 0x74 :: rest => lit [0x72, 0x75, 0x65] rest
    | 0x66 :: rest => lit [0x61, 0x6c, 0x73, 0x65] rest
    | 0x6e :: rest => lit [0x75, 0x6c, 0x6c] rest
    | b :: rest => if b == 0x2d || isDigit b then number (b :: rest) else none
    | [] => none
/-- `"key" : value (, "key" : value)* }` -/
def members : Nat → List UInt8 → Option (List UInt8)
  | 0, _ => none
  | fuel + 1, bs =>
    match skipWs bs with
    | 0x22 :: rest =>
      match strBody rest with
      | none => none
      | some r =>
        match skipWs r with
        | 0x3a :: r' =>
          match value fuel r' with
          | none => none
          | some r'' =>
            match skipWs r'' with
            | 0x2c :: t => members fuel t
            | 0x7d :: t => some t
            | _ => none
        | _ => none
    | _ => none
/-- `value (, value)* ]` -/
def elements : Nat → List UInt8 → Option (List UInt8)
  | 0, _ => none
  | fuel + 1, bs =>
    match value fuel bs with
    | none => none
    | some r =>
      match skipWs r with
      | 0x2c :: t => elements fuel t
      | 0x5d :: t => some t
      | _ => none
end

/-- json.Valid -/
def valid (bs : Bytes) : Bool :=
  match value (bs.length + 2) bs with
  | some r => (skipWs r).isEmpty
  | none => false

end Goflow.Spec.Json
