import Goflow.Decoders.NetflowLegacy
/-!
  Specification side for NetFlow v5: the wire format as Cisco documents it
  (24-byte header, 48-byte records). Written from the format description, not from the decoder.
-/
namespace Goflow.Spec.V5
open Goflow Goflow.V5

/-- header: version(2) count(2) sysUptime(4) unixSecs(4) unixNSecs(4) flowSequence(4)
    engineType(1) engineId(1) samplingInterval(2) -/
def encodeHeader (h : Header) : Bytes :=
  encBE 2 5 ++ encBE 2 h.count ++ encBE 4 h.sysUptime ++ encBE 4 h.unixSecs ++ encBE 4 h.unixNSecs ++
  encBE 4 h.flowSequence ++ encBE 1 h.engineType ++ encBE 1 h.engineId ++ encBE 2 h.samplingInterval

/-- record: srcaddr dstaddr nexthop input output dPkts dOctets first last srcport dstport
    pad1 tcp_flags prot tos src_as dst_as src_mask dst_mask pad2 -/
def encodeRecord (r : Record) : Bytes :=
  encBE 4 r.srcAddr ++ encBE 4 r.dstAddr ++ encBE 4 r.nextHop ++ encBE 2 r.input ++ encBE 2 r.output ++
  encBE 4 r.dPkts ++ encBE 4 r.dOctets ++ encBE 4 r.first ++ encBE 4 r.last ++ encBE 2 r.srcPort ++
  encBE 2 r.dstPort ++ encBE 1 r.pad1 ++ encBE 1 r.tcpFlags ++ encBE 1 r.proto ++ encBE 1 r.tos ++
  encBE 2 r.srcAS ++ encBE 2 r.dstAS ++ encBE 1 r.srcMask ++ encBE 1 r.dstMask ++ encBE 2 r.pad2

def encode (h : Header) (rs : List Record) : Bytes :=
  encodeHeader h ++ rs.flatMap encodeRecord

def HeaderWF (h : Header) : Prop :=
  h.count < 2^16 ∧ h.sysUptime < 2^32 ∧ h.unixSecs < 2^32 ∧ h.unixNSecs < 2^32 ∧ h.flowSequence < 2^32 ∧
  h.engineType < 2^8 ∧ h.engineId < 2^8 ∧ h.samplingInterval < 2^16

def RecordWF (r : Record) : Prop :=
  r.srcAddr < 2^32 ∧ r.dstAddr < 2^32 ∧ r.nextHop < 2^32 ∧ r.input < 2^16 ∧ r.output < 2^16 ∧
  r.dPkts < 2^32 ∧ r.dOctets < 2^32 ∧ r.first < 2^32 ∧ r.last < 2^32 ∧ r.srcPort < 2^16 ∧
  r.dstPort < 2^16 ∧ r.pad1 < 2^8 ∧ r.tcpFlags < 2^8 ∧ r.proto < 2^8 ∧ r.tos < 2^8 ∧
  r.srcAS < 2^16 ∧ r.dstAS < 2^16 ∧ r.srcMask < 2^8 ∧ r.dstMask < 2^8 ∧ r.pad2 < 2^16

instance (h : Header) : Decidable (HeaderWF h) := by unfold HeaderWF; infer_instance
instance (r : Record) : Decidable (RecordWF r) := by unfold RecordWF; infer_instance

end Goflow.Spec.V5
