import Goflow.Generated.FlowMessage
import Goflow.Basic.Bytes
/-!
  Specification side for C10: a layered frame model (Ethernet / 802.1Q / MPLS / IPv4 / IPv6 +
  extension headers / L4 / tunnels), its bytes (IEEE 802.3, RFC 791, 8200, 3032, 793, 768, 792,
  4443, 2784, 8754), the true field values of the frame, and for every output column the end
  offset of the header it comes from. Written from the RFC layouts, not from the dissector.
-/
namespace Goflow.Spec.Frame
open Goflow

inductive L4 where
  | tcp (sport dport seq ack : Nat) (dataOffWords flags window : Nat) (opts : Bytes)
  | udp (sport dport : Nat)
  | icmp (type code : Nat)
  | icmpv6 (type code : Nat)
  | other (proto : Nat) (payload : Bytes)
  deriving Inhabited

inductive V6Ext where
  | none
  | fragment (offset13 flags3 ident : Nat)             -- fragment offset (13 bits), res+M (3 bits), id
  | srh (segLeft lastEntry : Nat) (segments : List Bytes)   -- routing type 4
  deriving Inhabited

mutual
inductive IP where
  | v4 (tos ident flags3 fragOff13 ttl : Nat) (src dst : Bytes) (payload : Payload)
  | v6 (tclass flowLabel hopLimit : Nat) (src dst : Bytes) (ext : V6Ext) (payload : Payload)
inductive Payload where
  | l4 (p : L4)
  | gre (inner : EtherPayload)                          -- GRE carrying a protocol by ethertype
  | ipip (inner : IP)                                   -- IP-in-IP (4 / 41)
inductive EtherPayload where
  | ip (p : IP)
  | mpls (labels : List (Nat × Nat)) (p : IP)           -- (label, ttl), labels > 15
  | raw (etype : Nat) (bytes : Bytes)
end

instance : Inhabited EtherPayload := ⟨.raw 0 []⟩
instance : Inhabited IP := ⟨.v4 0 0 0 0 0 [] [] (.l4 (.udp 0 0))⟩
instance : Inhabited Payload := ⟨.l4 (.udp 0 0)⟩

structure Frame where
  dstMac : Nat
  srcMac : Nat
  vlans : List Nat                 -- VLAN ids, PCP/DEI 0
  payload : EtherPayload
  deriving Inhabited

def u8 (v : Nat) : Bytes := encBE 1 v
def u16 (v : Nat) : Bytes := encBE 2 v
def u32 (v : Nat) : Bytes := encBE 4 v

def l4Proto : L4 → Nat
  | .tcp .. => 6 | .udp .. => 17 | .icmp .. => 1 | .icmpv6 .. => 58 | .other p _ => p

def l4Bytes : L4 → Bytes
  | .tcp sp dp seq ack off flags win opts =>
    u16 sp ++ u16 dp ++ u32 seq ++ u32 ack ++ u8 (off * 16) ++ u8 flags ++ u16 win ++ u16 0 ++ u16 0 ++ opts
  | .udp sp dp => u16 sp ++ u16 dp ++ u16 8 ++ u16 0
  | .icmp t c => u8 t ++ u8 c ++ u16 0 ++ u32 0
  | .icmpv6 t c => u8 t ++ u8 c ++ u16 0 ++ u32 0
  | .other _ pl => pl

mutual
def ipBytes : IP → Bytes
  | .v4 tos ident fl off ttl src dst pl =>
    let body := payloadBytes pl
    u8 0x45 ++ u8 tos ++ u16 (20 + body.length) ++ u16 ident ++ u16 (fl * 8192 + off) ++ u8 ttl ++
      u8 (payloadProto pl) ++ u16 0 ++ src ++ dst ++ body
  | .v6 tc fl hl src dst ext pl =>
    let body := payloadBytes pl
    let nh := payloadProto pl
    let extB : Bytes := match ext with
      | .none => []
      | .fragment off fl3 ident => u8 nh ++ u8 0 ++ u16 (off * 8 + fl3) ++ u32 ident
      | .srh sl le segs => u8 nh ++ u8 (2 * segs.length) ++ u8 4 ++ u8 sl ++ u8 le ++ u8 0 ++ u16 0 ++ segs.flatMap id
    let first := match ext with | .none => nh | .fragment .. => 44 | .srh .. => 43
    u32 (6 * 2 ^ 28 + tc * 2 ^ 20 + fl) ++ u16 (extB.length + body.length) ++ u8 first ++ u8 hl ++ src ++ dst ++ extB ++ body
def payloadProto : Payload → Nat
  | .l4 p => l4Proto p
  | .gre _ => 47
  | .ipip (.v4 ..) => 4
  | .ipip (.v6 ..) => 41
def payloadBytes : Payload → Bytes
  | .l4 p => l4Bytes p
  | .gre inner => u16 0 ++ u16 (etherType inner) ++ etherPayloadBytes inner
  | .ipip p => ipBytes p
def etherType : EtherPayload → Nat
  | .ip (.v4 ..) => 0x0800
  | .ip (.v6 ..) => 0x86dd
  | .mpls .. => 0x8847
  | .raw t _ => t
def etherPayloadBytes : EtherPayload → Bytes
  | .ip p => ipBytes p
  | .mpls labels p => mplsBytes labels ++ ipBytes p
  | .raw _ b => b
def mplsBytes : List (Nat × Nat) → Bytes
  | [] => []
  | [(l, t)] => encBE 3 (l * 16 + 1) ++ u8 t
  | (l, t) :: rest => encBE 3 (l * 16) ++ u8 t ++ mplsBytes rest
end

def vlanBytes (inner : Nat) : List Nat → Bytes
  | [] => u16 inner
  | v :: vs => u16 0x8100 ++ u16 v ++ vlanBytes inner vs

def bytes (f : Frame) : Bytes :=
  encBE 6 f.dstMac ++ encBE 6 f.srcMac ++ vlanBytes (etherType f.payload) f.vlans ++ etherPayloadBytes f.payload

/-! ### true values of the outermost headers, with the end offset of the header each comes from.
    `Truth` is a list of (column name, value as dump text, end offset). -/

inductive TV where
  | n (v : Nat)
  | b (v : Bytes)
  | ns (v : List Nat)
  | bs (v : List Bytes)
  deriving Repr, Inhabited, DecidableEq

structure Fact where
  col : String
  val : TV
  ext : Nat          -- the column's header lies inside the capture iff ext ≤ capture length
  deriving Inhabited

/-- layer stack values as in flowpb.FlowMessage_LayerStack -/
def LS_Ethernet := 0
def LS_IPv4 := 1
def LS_IPv6 := 2
def LS_TCP := 3
def LS_UDP := 4
def LS_MPLS := 5
def LS_Dot1Q := 6
def LS_ICMP := 7
def LS_ICMPv6 := 8
def LS_GRE := 9
def LS_Route := 10
def LS_Frag := 11

/-- facts of the outer L4 header starting at `off` -/
def l4Facts (off : Nat) : L4 → List Fact × List (Nat × Nat × Nat)   -- facts, layers (stack value, size, end)
  | .tcp sp dp _ _ doff flags _ opts =>
    ([⟨"SrcPort", .n sp, off + 20⟩, ⟨"DstPort", .n dp, off + 20⟩, ⟨"TcpFlags", .n flags, off + 20⟩],
     [(LS_TCP, doff * 4, off + 20 + opts.length)])
  | .udp sp dp => ([⟨"SrcPort", .n sp, off + 8⟩, ⟨"DstPort", .n dp, off + 8⟩], [(LS_UDP, 8, off + 8)])
  | .icmp t c => ([⟨"IcmpType", .n t, off + 8⟩, ⟨"IcmpCode", .n c, off + 8⟩], [(LS_ICMP, 8, off + 8)])
  | .icmpv6 t c => ([⟨"IcmpType", .n t, off + 8⟩, ⟨"IcmpCode", .n c, off + 8⟩], [(LS_ICMPv6, 8, off + 8)])
  | .other _ _ => ([], [])

mutual
/-- layers of an inner (tunnelled) IP stack: contributes only to the layer stack / sizes -/
def innerIPLayers (off : Nat) : IP → List (Nat × Nat × Nat)
  | .v4 _ _ _ _ _ _ _ pl => (LS_IPv4, 20, off + 20) :: innerPayloadLayers (off + 20) pl
  | .v6 _ _ _ _ _ ext pl =>
    match ext with
    | .none => (LS_IPv6, 40, off + 40) :: innerPayloadLayers (off + 40) pl
    | .fragment .. => (LS_IPv6, 40, off + 40) :: (LS_Frag, 8, off + 48) :: innerPayloadLayers (off + 48) pl
    | .srh _ _ segs => (LS_IPv6, 40, off + 40) :: (LS_Route, 8 + 16 * segs.length, off + 48 + 16 * segs.length) ::
        innerPayloadLayers (off + 48 + 16 * segs.length) pl
def innerPayloadLayers (off : Nat) : Payload → List (Nat × Nat × Nat)
  | .l4 p => (l4Facts off p).2
  | .gre inner => (LS_GRE, 4, off + 4) :: innerEtherLayers (off + 4) inner
  | .ipip p => innerIPLayers off p
def innerEtherLayers (off : Nat) : EtherPayload → List (Nat × Nat × Nat)
  | .ip p => innerIPLayers off p
  | .mpls labels p => (LS_MPLS, 4 * labels.length, off + 4 * labels.length) :: innerIPLayers (off + 4 * labels.length) p
  | .raw _ _ => []
end

mutual
/-- the ICMP header at the end of a tunnelled stack, if any. The dissector fills icmp_type / icmp_code
    from the first ICMP layer it meets, tunnelled or not; since an ICMP layer ends the chain this never
    overwrites an outer value. The specification side therefore *allows* (does not require) it. -/
def innerIcmpIP : IP → Option (Nat × Nat)
  | .v4 _ _ _ _ _ _ _ pl => innerIcmpPayload pl
  | .v6 _ _ _ _ _ _ pl => innerIcmpPayload pl
def innerIcmpPayload : Payload → Option (Nat × Nat)
  | .l4 (.icmp t c) => some (t, c)
  | .l4 (.icmpv6 t c) => some (t, c)
  | .l4 _ => none
  | .gre inner => innerIcmpEther inner
  | .ipip p => innerIcmpIP p
def innerIcmpEther : EtherPayload → Option (Nat × Nat)
  | .ip p => innerIcmpIP p
  | .mpls _ p => innerIcmpIP p
  | .raw _ _ => none
end

def mayIcmp : Option (Nat × Nat) → List Fact
  | some (t, c) => [⟨"IcmpType", .n t, 1000000⟩, ⟨"IcmpCode", .n c, 1000000⟩]
  | none => []

/-- facts and layers of the payload of the outer IP header -/
def payloadFacts (off : Nat) : Payload → List Fact × List (Nat × Nat × Nat)
  | .l4 p => l4Facts off p
  | .gre inner => (mayIcmp (innerIcmpEther inner), (LS_GRE, 4, off + 4) :: innerEtherLayers (off + 4) inner)
  | .ipip p => (mayIcmp (innerIcmpIP p), innerIPLayers off p)

/-- facts and layers of the outer IP header starting at `off`. `proto` is the next-header value of
    the IP header itself (44 / 43 when an extension header follows). -/
def ipFacts (off : Nat) : IP → List Fact × List (Nat × Nat × Nat)
  | .v4 tos ident fl fo ttl src dst pl =>
    let e := off + 20
    let (pf, pls) := payloadFacts e pl
    ([⟨"SrcAddr", .b src, e⟩, ⟨"DstAddr", .b dst, e⟩, ⟨"IpTos", .n tos, e⟩, ⟨"IpTtl", .n ttl, e⟩,
      ⟨"FragmentId", .n ident, e⟩, ⟨"FragmentOffset", .n fo, e⟩, ⟨"IpFlags", .n fl, e⟩,
      ⟨"Proto", .n (payloadProto pl), e⟩] ++ pf, (LS_IPv4, 20, e) :: pls)
  | .v6 tc fl hl src dst ext pl =>
    let e := off + 40
    let base : List Fact := [⟨"SrcAddr", .b src, e⟩, ⟨"DstAddr", .b dst, e⟩, ⟨"IpTos", .n tc, e⟩, ⟨"IpTtl", .n hl, e⟩,
      ⟨"Ipv6FlowLabel", .n fl, e⟩]
    match ext with
    | .none =>
      let (pf, pls) := payloadFacts e pl
      (base ++ [⟨"Proto", .n (payloadProto pl), e⟩] ++ pf, (LS_IPv6, 40, e) :: pls)
    | .fragment fo fl3 ident =>
      let e2 := e + 8
      let (pf, pls) := payloadFacts e2 pl
      (base ++ [⟨"Proto", .n 44, e⟩, ⟨"FragmentId", .n ident, e2⟩, ⟨"FragmentOffset", .n fo, e2⟩, ⟨"IpFlags", .n fl3, e2⟩] ++ pf,
       (LS_IPv6, 40, e) :: (LS_Frag, 8, e2) :: pls)
    | .srh sl _ segs =>
      let e2 := e + 8 + 16 * segs.length
      let (pf, pls) := payloadFacts e2 pl
      (base ++ [⟨"Proto", .n 43, e⟩, ⟨"Ipv6RoutingHeaderSegLeft", .n sl, e + 8⟩,
                ⟨"Ipv6RoutingHeaderAddresses", .bs segs, e2⟩] ++ pf,
       (LS_IPv6, 40, e) :: (LS_Route, 8 + 16 * segs.length, e2) :: pls)

/-- all facts of a frame: (column, true value, extent) and the layer list (stack value, size, end) -/
def facts (f : Frame) : List Fact × List (Nat × Nat × Nat) :=
  let e0 := 14
  let eth : List Fact := [⟨"SrcMac", .n f.srcMac, e0⟩, ⟨"DstMac", .n f.dstMac, e0⟩]
  let nv := f.vlans.length
  let eL2 := e0 + 4 * nv
  let vlanFacts : List Fact := match f.vlans.getLast? with
    | some v => [⟨"VlanId", .n v, eL2⟩]
    | none => []
  let vlanLayers := (List.range nv).map fun i => (LS_Dot1Q, 4, e0 + 4 * (i + 1))
  match f.payload with
  | .ip p =>
    let (pf, pls) := ipFacts eL2 p
    (eth ++ vlanFacts ++ [⟨"Etype", .n (etherType f.payload), eL2⟩] ++ pf, (LS_Ethernet, 14, e0) :: vlanLayers ++ pls)
  | .mpls labels p =>
    let eM := eL2 + 4 * labels.length
    let (pf, pls) := ipFacts eM p
    -- after the MPLS stack the dissector reports the ethertype it peeks from the IP version nibble
    (eth ++ vlanFacts ++ [⟨"Etype", .n (etherType (.ip p)), eM + 1⟩, ⟨"MplsLabel", .ns (labels.map (·.1)), eM⟩,
       ⟨"MplsTtl", .ns (labels.map (·.2)), eM⟩] ++ pf,
     (LS_Ethernet, 14, e0) :: vlanLayers ++ [(LS_MPLS, 4 * labels.length, eM)] ++ pls)
  | .raw t _ =>
    (eth ++ vlanFacts ++ [⟨"Etype", .n t, eL2⟩], (LS_Ethernet, 14, e0) :: vlanLayers)

end Goflow.Spec.Frame
