import Goflow.Basic.Bytes
/-!
  Reference for bit-range extraction (docs/mapping.md: `offset` and `length` in bits): the buffer
  as a list of bits, the range cut out of it (bits past the end read as 0), regrouped into bytes
  from the left; a trailing group of fewer than 8 bits is right-aligned (`shift`) or left-aligned.
-/
namespace Goflow.Spec.Bits

def byteBits (b : UInt8) : List Bool := (List.range 8).map fun i => (b.toNat / 2 ^ (7 - i)) % 2 = 1

def toBits (d : Bytes) : List Bool := d.flatMap byteBits

def bitsVal (bs : List Bool) : Nat := bs.foldl (fun acc b => 2 * acc + (if b then 1 else 0)) 0

/-- groups of 8 from the left; the last group may be shorter -/
def groups : Nat → List Bool → List (List Bool)
  | 0, _ => []
  | _, [] => []
  | fuel + 1, bs => bs.take 8 :: groups fuel (bs.drop 8)

/-- the extracted range: `none` is "nothing extracted" (offset past the end, or zero length) -/
def extract (d : Bytes) (offset length : Nat) (shift : Bool) : Option Bytes :=
  if d.length * 8 < offset ∨ length = 0 then none else
  let bits := (toBits d).drop offset
  let sel := (bits.take length) ++ List.replicate (length - (bits.take length).length) false
  some ((groups (length + 1) sel).map fun g =>
    if g.length = 8 ∨ shift then UInt8.ofNat (bitsVal g)
    else UInt8.ofNat (bitsVal g * 2 ^ (8 - g.length)))

/-- the unsigned value of a big- / little-endian byte string -/
def leNat (b : Bytes) : Nat := beNat b.reverse

end Goflow.Spec.Bits
