import Goflow.Decoders.Netflow
/-!
  Specification side for NetFlow v9 (RFC 3954 §5) and IPFIX (RFC 7011 §3): abstract messages,
  an encoder written from the RFCs, and what a correct decoder must return for them.
  Nothing here looks at the Go decoder.
-/
namespace Goflow.Spec.Netflow
open Goflow Goflow.Netflow

/-- a field specifier: information element id (without enterprise bit), length
    (0xffff = variable, IPFIX only) and the enterprise number if enterprise-specific -/
structure SField where
  id : Nat
  length : Nat
  ent : Option Nat
  deriving Repr, DecidableEq, Inhabited

/-- a field value inside a data record; `long` selects the 3-byte length prefix for a
    variable-length value (mandatory from 255 bytes on, allowed below) -/
structure SValue where
  bytes : Bytes
  long : Bool
  deriving Repr, DecidableEq, Inhabited

inductive SSet where
  | template (recs : List (Nat × List SField)) (pad : Nat)
  | v9opts (recs : List (Nat × List SField × List SField)) (pad : Nat)        -- id, scopes, options
  | ipfixopts (recs : List (Nat × List SField × List SField)) (pad : Nat)
  | data (tid : Nat) (tpl : List SField) (records : List (List SValue)) (pad : Nat)
  | optsData (tid : Nat) (scopes options : List SField) (records : List (List SValue × List SValue)) (pad : Nat)
  deriving Repr, Inhabited

structure Msg where
  version : Nat            -- 9 or 10
  count : Nat              -- v9 only: header count
  uptime : Nat             -- v9 only
  time : Nat               -- unix seconds / export time
  seq : Nat
  domain : Nat             -- source id / observation domain id
  sets : List SSet
  deriving Repr, Inhabited

/-! ### encoder -/

def encField (f : SField) : Bytes :=
  match f.ent with
  | none => encBE 2 f.id ++ encBE 2 f.length
  | some pen => encBE 2 (f.id + 0x8000) ++ encBE 2 f.length ++ encBE 4 pen

def encValue (f : SField) (v : SValue) : Bytes :=
  if f.length = 0xffff then
    if v.long then [255] ++ encBE 2 v.bytes.length ++ v.bytes
    else encBE 1 v.bytes.length ++ v.bytes
  else v.bytes

def encRecord : List SField → List SValue → Bytes
  | f :: fs, v :: vs => encValue f v ++ encRecord fs vs
  | _, _ => []

def zeros (n : Nat) : Bytes := List.replicate n 0

def encSet (id : Nat) (body : Bytes) (pad : Nat) : Bytes :=
  encBE 2 id ++ encBE 2 (4 + body.length + pad) ++ body ++ zeros pad

def encTemplateRec (r : Nat × List SField) : Bytes :=
  encBE 2 r.1 ++ encBE 2 r.2.length ++ r.2.flatMap encField

def encV9OptsRec (r : Nat × List SField × List SField) : Bytes :=
  encBE 2 r.1 ++ encBE 2 (4 * r.2.1.length) ++ encBE 2 (4 * r.2.2.length) ++
    r.2.1.flatMap encField ++ r.2.2.flatMap encField

def encIPFIXOptsRec (r : Nat × List SField × List SField) : Bytes :=
  encBE 2 r.1 ++ encBE 2 (r.2.1.length + r.2.2.length) ++ encBE 2 r.2.1.length ++
    r.2.1.flatMap encField ++ r.2.2.flatMap encField

def encSSet (version : Nat) : SSet → Bytes
  | .template recs pad => encSet (if version = 9 then 0 else 2) (recs.flatMap encTemplateRec) pad
  | .v9opts recs pad => encSet 1 (recs.flatMap encV9OptsRec) pad
  | .ipfixopts recs pad => encSet 3 (recs.flatMap encIPFIXOptsRec) pad
  | .data tid tpl records pad => encSet tid (records.flatMap (encRecord tpl)) pad
  | .optsData tid scopes options records pad =>
      encSet tid (records.flatMap fun r => encRecord scopes r.1 ++ encRecord options r.2) pad

def encode (m : Msg) : Bytes :=
  let body := m.sets.flatMap (encSSet m.version)
  if m.version = 9 then
    encBE 2 9 ++ encBE 2 m.count ++ encBE 4 m.uptime ++ encBE 4 m.time ++ encBE 4 m.seq ++ encBE 4 m.domain ++ body
  else
    encBE 2 10 ++ encBE 2 (16 + body.length) ++ encBE 4 m.time ++ encBE 4 m.seq ++ encBE 4 m.domain ++ body

/-! ### what the decoder must return -/

def expField (f : SField) : Field :=
  match f.ent with
  | none => ⟨false, f.id, f.length, 0⟩
  | some pen => ⟨true, f.id, f.length, pen⟩

def expDataField (f : SField) (v : SValue) : DataField :=
  match f.ent with
  | none => ⟨false, f.id, 0, some v.bytes⟩
  | some pen => ⟨true, f.id, pen, some v.bytes⟩

def expRecord : List SField → List SValue → List DataField
  | f :: fs, v :: vs => expDataField f v :: expRecord fs vs
  | _, _ => []

def setLen (version : Nat) (s : SSet) : Nat := ((encSSet version s).length)

def expSet (version : Nat) (s : SSet) : FlowSet :=
  match s with
  | .template recs _ => .template (if version = 9 then 0 else 2) (setLen version s)
      (recs.map fun r => ⟨r.1, r.2.length, r.2.map expField⟩)
  | .v9opts recs _ => .v9opts 1 (setLen version s)
      (recs.map fun r => ⟨r.1, 4 * r.2.1.length, 4 * r.2.2.length, r.2.1.map expField, r.2.2.map expField⟩)
  | .ipfixopts recs _ => .ipfixopts 3 (setLen version s)
      (recs.map fun r => ⟨r.1, r.2.1.length + r.2.2.length, r.2.1.length, r.2.2.map expField, r.2.1.map expField⟩)
  | .data tid tpl records _ => .data tid (setLen version s) (records.map fun r => ⟨expRecord tpl r⟩)
  | .optsData tid scopes options records _ => .optsData tid (setLen version s)
      (records.map fun r => ⟨expRecord scopes r.1, expRecord options r.2⟩)

def expected (m : Msg) : Packet :=
  let body := m.sets.flatMap (encSSet m.version)
  if m.version = 9 then ⟨9, [m.count, m.uptime, m.time, m.seq, m.domain], m.sets.map (expSet 9)⟩
  else ⟨10, [16 + body.length, m.time, m.seq, m.domain], m.sets.map (expSet 10)⟩

/-- the templates a set announces, as the decoder's store should hold them afterwards -/
def announces : SSet → List (Nat × Template)
  | .template recs _ => recs.map fun r => (r.1, .data ⟨r.1, r.2.length, r.2.map expField⟩)
  | .v9opts recs _ => recs.map fun r => (r.1, .v9opts ⟨r.1, 4 * r.2.1.length, 4 * r.2.2.length, r.2.1.map expField, r.2.2.map expField⟩)
  | .ipfixopts recs _ => recs.map fun r => (r.1, .ipfixopts ⟨r.1, r.2.1.length + r.2.2.length, r.2.1.length, r.2.2.map expField, r.2.1.map expField⟩)
  | _ => []

/-- number of flow (data) records the message carries -/
def flowRecords (m : Msg) : Nat :=
  (m.sets.map fun s => match s with | .data _ _ rs _ => rs.length | _ => 0).foldr (· + ·) 0

/-- total number of records, which RFC 3954 puts in the v9 header count -/
def totalRecords (m : Msg) : Nat :=
  (m.sets.map fun s => match s with
    | .template r _ => r.length | .v9opts r _ => r.length | .ipfixopts r _ => r.length
    | .data _ _ r _ => r.length | .optsData _ _ _ r _ => r.length).foldr (· + ·) 0

end Goflow.Spec.Netflow
