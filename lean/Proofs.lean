import Proofs.Lemmas.Bytes
import Proofs.Lemmas.Fields
import Proofs.C05
