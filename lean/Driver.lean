import Goflow.Cost
import Goflow.Producer.Raw
import Goflow.Wrapped
import Goflow
import Goflow.Gen.C05
import Goflow.Gen.C03
import Goflow.Gen.C04
import Goflow.Gen.C07
import Goflow.Gen.C02
import Goflow.Gen.C01
import Goflow.Gen.C15
import Goflow.Gen.C20
import Goflow.Gen.C17
import Goflow.Gen.C18
import Goflow.Gen.C19
import Goflow.Gen.C16
import Goflow.Gen.C12
import Goflow.Gen.C11
import Goflow.Gen.C09
import Goflow.Gen.C08
import Goflow.Gen.C06
import Goflow.Gen.C10
import Goflow.Gen.Malformed
import Goflow.Gen.C13
import Goflow.Gen.C14
/-!
  goflow-model: the executable side of the model.
    goflow-model run            ops on stdin → canonical blocks on stdout
    goflow-model gen <P> <seed> <n>   op file for property P
-/
open Goflow

structure DState where
  stores : List (String × Netflow.Store) := []
  cfgs : List (String × Format.Compiled) := []
  /-- the package-level isSliceMap of producer/proto: survives `reset`, mutated by every Compile -/
  isSlice : List (String × Bool) := Format.initialIsSlice
  pipes : List (String × Pipe.Kind × String) := []
  pstate : List (String × Pipe.State) := []
  staged : List (String × Pipe.Src × Nat × Bytes) := []
  /-- pipes wired with the panic wrappers of main.go (`pipew`) -/
  wrapped : List String := []
  /-- `failat`: the format of this pipe refuses the k-th message of the next datagram -/
  failAt : List (String × Nat) := []

def DState.cfg (st : DState) (cid : String) : Producer.Config :=
  match st.cfgs.lookup cid with | some c => c.cfg | none => {}
def DState.fmt (st : DState) (cid : String) : Format.Fmt :=
  match st.cfgs.lookup cid with | some c => c.fmt | none => (Format.compileNil st.isSlice).fmt

def DState.store (st : DState) (sid : String) : Netflow.Store := (st.stores.lookup sid).getD []
def DState.setStore (st : DState) (sid : String) (s : Netflow.Store) : DState :=
  { st with stores := (sid, s) :: st.stores.filter (fun e => e.1 != sid) }

def resLine : Err → String
  | .eof => "res err"
  | .bad => "res err"
  | .tnf => "res err:template-not-found"
  | .panic => "res panic"
  | .diverge => "res timeout"

def execCall (st : DState) (args : List String) : DState × List String :=
  match args with
  | ["v5", hex] =>
    match parseHex hex with
    | none => (st, ["bad-op"])
    | some d =>
      match V5.decodeMessageVersion d with
      | .ok p => (st, ["res ok", "v5 " ++ p.toD.render])
      | .error e => (st, [resLine e])
  | ["v5r", hex] =>
    -- decoding into a packet value that is kept across calls: the result does not depend on what it held
    -- (Proofs/C05Trans.lean decodeMessageVersion_trans_eq is stated for every previous content)
    match parseHex hex with
    | none => (st, ["bad-op"])
    | some d =>
      match V5.decodeMessageVersion d with
      | .ok p => (st, ["res ok", "v5 " ++ p.toD.render])
      | .error e => (st, [resLine e])
  | ["rawv5", hex] =>
    match parseHex hex with
    | none => (st, ["bad-op"])
    | some d =>
      match V5.decodeMessageVersion d with
      | .ok p => (st, ["res ok", "json " ++ Raw.rawJsonV5 p])
      | .error e => (st, [resLine e])
  | ["sf", hex] =>
    match parseHex hex with
    | none => (st, ["bad-op"])
    | some d =>
      match Sflow.decodeMessageVersion d with
      -- `rawjson ok`: the raw producer's JSON of the decoded packet says what the packet holds (checked on the Go side by walking
      -- the value and the text in parallel)
      | .ok p => (st, ["res ok", "sf " ++ p.toD.render, "rawjson ok"])
      | .error e => (st, [resLine e])
  | ["parsepacket", cid, hex] =>
    match parseHex hex with
    | none => (st, ["bad-op"])
    | some d =>
      match Producer.parsePacket (st.cfg cid) FlowMsg.empty d with
      | .ok m => (st, ["res ok", m.dump])
      | .error e => (st, [resLine e])
  | ["jsonvalid", hex] =>
    match parseHex hex with
    | some d => (st, ["res ok", "valid=" ++ (if Spec.Json.valid d then "1" else "0")])
    | none => (st, ["bad-op"])
  | ["getbytes", hex, off, len, sh] =>
    match parseHex hex, off.toInt?, len.toInt? with
    | some d, some o, some l =>
      match Producer.getBytes d o l (sh == "1") with
      | .ok b => (st, ["res ok", "out " ++ hexOf b])
      | .error e => (st, [resLine e])
    | _, _, _ => (st, ["bad-op"])
  | ["getbytesall", n, off, len, sh] =>
    -- digest (FNV-1a, 64 bit) over GetBytes of every buffer of n bytes, in counting order
    match off.toInt?, len.toInt? with
    | some o, some l =>
      let nb := n.toNat!
      let total := 256 ^ nb
      let h := (List.range total).foldl (fun h i =>
        let d := encBE nb i
        let outb : Bytes := match Producer.getBytes d o l (sh == "1") with
          | .ok b => UInt8.ofNat b.length :: b
          | .error _ => [255, 255]
        outb.foldl (fun h x => ((h ^^^ x.toNat) * 1099511628211) % 2 ^ 64) h) 14695981039346656037
      (st, ["res ok", "digest " ++ toString h])
    | _, _ => (st, ["bad-op"])
  | ["nf", sid, hex] =>
    match parseHex hex with
    | none => (st, ["bad-op"])
    | some d =>
      let o := Netflow.decodeMessageVersion (st.store sid) d
      let st' := st.setStore sid o.store
      match o.outcome with
      | none => (st', ["res ok", "nf " ++ o.packet.toD.render, "rawjson ok"])
      | some .tnf => (st', ["res err:template-not-found", "nf " ++ o.packet.toD.render, "rawjson ok"])
      | some e => (st', [resLine e])
  | _ => (st, ["bad-op"])

def execOp (st : DState) (line : String) : DState × Option (List String) :=
  let ws := (line.splitOn " ").filter (· ≠ "")
  match ws with
  | [] => (st, none)
  | "#" :: _ => (st, none)
  | "expect" :: _ => (st, none)
  | "call" :: args => let (s, o) := execCall st args; (s, some o)
  | ["reset"] => ({ cfgs := st.cfgs, isSlice := st.isSlice }, some ["res ok"])
  | ["cfg", cid, "none"] =>
    ({ st with cfgs := (cid, Format.compileNil st.isSlice) :: st.cfgs.filter (fun e => e.1 != cid) }, some ["res ok"])
  | ["cfg", cid, _, twin] =>
    match Format.parseTwin twin with
    | none => (st, some ["bad-op"])
    | some raw =>
      let isSlice' := Format.isSliceAfter raw st.isSlice
      match Format.compile raw st.isSlice with
      | .ok c =>
        -- every formatter shares the one package-level map: give all of them the new contents
        let cfgs := (cid, c) :: st.cfgs.filter (fun e => e.1 != cid)
        let cfgs := cfgs.map fun (k, c) => (k, { c with fmt := { c.fmt with isSlice := isSlice' } })
        ({ st with cfgs := cfgs, isSlice := isSlice' }, some ["twin " ++ Format.renderTwin raw, "res ok"])
      | .error _ =>
        let cfgs := st.cfgs.map fun (k, c) => (k, { c with fmt := { c.fmt with isSlice := isSlice' } })
        ({ st with cfgs := cfgs, isSlice := isSlice' }, some ["twin " ++ Format.renderTwin raw, "res err"])
  | "keypair" :: cid :: toks =>
    let a := toks.takeWhile (· ≠ "|")
    let b := (toks.dropWhile (· ≠ "|")).drop 1
    match Format.parseMsg a, Format.parseMsg b with
    | some m1, some m2 =>
      (st, some ["res ok", "key " ++ hexOf (Format.key (st.fmt cid) m1), "key " ++ hexOf (Format.key (st.fmt cid) m2)])
    | _, _ => (st, some ["bad-op"])
  | "fmt" :: cid :: toks =>
    match Format.parseMsg toks with
    | none => (st, some ["bad-op"])
    | some m => (st, some ("res ok" :: Format.fmtLines (st.fmt cid) m))
  | ["pktf", pid, iphex, port, recv, hex] =>
    match st.pipes.lookup pid, parseHex iphex, parseHex hex with
    | some (k, cid), some ip, some d =>
      let cfg := st.cfg cid
      let ps := (st.pstate.lookup pid).getD {}
      let o := Pipe.decodeFlow k cfg ps ⟨ip, port.toNat!⟩ recv.toNat! d
      let st' := { st with pstate := (pid, o.state) :: st.pstate.filter (fun e => e.1 != pid) }
      let r := match o.err with
        | none => "res ok"
        | some e => resLine e
      (st', some ((r ++ " n=" ++ toString o.msgs.length) :: o.msgs.flatMap fun m => m.dump :: Format.fmtLines (st.fmt cid) m))
    | _, _, _ => (st, some ["bad-op"])
  | ["pipew", pid, kind, cid] =>
    let k : Option Pipe.Kind := match kind with
      | "netflow" => some .netflow | "sflow" => some .sflow | "flow" => some .auto | _ => none
    match k with
    | none => (st, some ["bad-op"])
    | some k => ({ st with pipes := (pid, k, cid) :: st.pipes.filter (fun e => e.1 != pid),
                           pstate := (pid, ({} : Pipe.State)) :: st.pstate.filter (fun e => e.1 != pid),
                           wrapped := pid :: st.wrapped.filter (· != pid) }, some ["res ok"])
  | ["pipe", pid, kind, cid] =>
    let k : Option Pipe.Kind := match kind with
      | "netflow" => some .netflow | "sflow" => some .sflow | "flow" => some .auto | _ => none
    match k with
    | none => (st, some ["bad-op"])
    | some k => ({ st with pipes := (pid, k, cid) :: st.pipes.filter (fun e => e.1 != pid),
                           pstate := (pid, ({} : Pipe.State)) :: st.pstate.filter (fun e => e.1 != pid) }, some ["res ok"])
  | ["race", "tplx", _, _] =>
    -- first contacts of DIFFERENT exporters: registrations are stores into the map under its write lock (lock_discipline),
    -- the map only grows (maps_only_grow): neither registration can undo the other
    (st, some ["res ok lost=[]"])
  | ["race", "ratex", _, _] => (st, some ["res ok lost=[]"])
  -- unscheduled announcements of one known exporter by several workers at once: an announcement is a store into the map of
  -- the template (sampling) system under its write lock for the whole read-modify-write (Proofs/C15Locks.lean lock_discipline,
  -- store_guarded), and the map is never replaced (no `assign` event): nothing announced is lost
  | ["race", "tplstress", _, _] => (st, some ["res ok lost=[]"])
  | ["race", "ratestress", _, _] => (st, some ["res ok lost=[]"])
  | ["race", "tplatomic", _, _] =>
    -- a re-announcement replaces the template of its key in one step (Netflow.Store.add; Proofs/C06.lean latest_wins):
    -- a lookup between any two steps of another worker's announcement finds the old or the new template
    (st, some ["res ok lost=[]"])
  | ["race", "tplbad", _, _] =>
    -- a refused first datagram: the published per-exporter system is never unpublished (no `delete` on the pipe's map:
    -- Proofs/C15Locks.lean `maps_only_grow`), so what the other workers announced stays (Proofs/C16.lean nothing_lost)
    (st, some ["res ok lost=[]"])
  | ["race", _, n, plan] =>
    match Conc.GetOrCreate.parsePlan plan with
    | none => (st, some ["bad-op"])
    | some p =>
      let fin := Conc.GetOrCreate.runPlan true (Conc.GetOrCreate.init n.toNat!) p
      (st, some ["res ok lost=[" ++ ",".intercalate ((Conc.GetOrCreate.lost fin).map toString) ++ "]"])
  | ["file", _, _, _] =>
    -- write-under-read-lock protocol: Proofs/C19.lean shows that for every interleaving no Send fails
    -- and every message is written exactly once
    (st, some ["res ok failed=[] missing=[] dup=[] junk=0"])
  | ["filefault", n, _] =>
    -- n Sends, a rotation whose reopen fails, n more Sends, run through the statement-level model of the transport
    -- (Goflow/Conc/FileTransportFaults.lean; Proofs/C19Faults.lean acked_written / failed_not_written hold for every
    -- schedule): which Sends are acknowledged and how many acknowledged messages are in no file
    let k := n.toNat!
    let evs := (List.range k).flatMap Conc.FileTransportFaults.fullSend ++ Conc.FileTransportFaults.rotation false ++ ((List.range k).map (· + k)).flatMap Conc.FileTransportFaults.fullSend
    let fin := Conc.FileTransportFaults.run Conc.FileTransportFaults.go (Conc.FileTransportFaults.init (2 * k)) evs
    let acked := (List.range (2 * k)).filter fun i => fin.senders[i]? == some Conc.FileTransportFaults.SPc.ok
    let lost := acked.filter fun i => !(Conc.FileTransportFaults.written fin).contains i
    (st, some ["res ok lostacked=" ++ toString lost.length, "acked " ++ ",".intercalate ((acked.map toString))])
  | ["filestress", _, _, _, _] =>
    -- unscheduled senders and rotations: the same theorems (each Send is one write under the read lock; rotation
    -- takes the write lock) give: nothing fails, nothing is missing, duplicated or torn
    (st, some ["res ok failed=0 missing=0 dup=0 junk=0"])
  | ["udp", _, _, _, _, _, _] =>
    -- Proofs/C17.lean: conservation, disjointness, blocking_no_drop, buffer_exclusive for every schedule
    (st, some ["res ok dup=0 both=0 corrupt=0 unaccounted=0 blockingdrops=0 stop=ok leak=0 rebind=1 errsrc=0"])
  | ["updown", sk, wk, q, _, calls] =>
    -- Start / Stop sequences, a Start possibly failing to bind ('F'): the statement-level model of Start, Stop and init
    -- (Goflow/Conc/ReceiverFaults.lean: WaitGroup counter, decodersCnt, live workers with the decoder each captured,
    -- readers, nil sentinels), proved equal to the specification for every sequence in Proofs/C18Faults.lean
    -- `dead`: the quit channel is closed when the last call returns; `stolen`: live workers that do not run the decoder
    -- of the session
    let cfg : Conc.ReceiverFaults.RCfg := ⟨wk.toNat!, sk.toNat!, q.toNat!⟩
    let cs : List Conc.ReceiverFaults.CallF := (calls.toList.zip (List.range calls.length)).map fun (c, i) =>
      if c = 'S' then .start (i + 1) else if c = 'F' then .startFail (i + 1) 0 else .stop
    let (fin, rs) := Conc.ReceiverFaults.runF cfg Conc.ReceiverFaults.initF cs
    let sess := (Conc.ReceiverFaults.specRunF none cs).1
    let stolen := (fin.workers.filter fun f => some f != sess).length
    (st, some ["res ok results=" ++ ",".intercalate (rs.map fun r => match r with | .ok => "0" | .err => "1" | .hang => "H") ++
      " corrupt=0 leak=0 rebind=1 dead=" ++ (if fin.qClosed then "1" else "0") ++ " stolen=" ++ toString stolen])
  | ["startbusy", _, _, _, _] =>
    -- a Start that cannot bind reports the error and leaves the receiver stopped (Proofs/C18.lean start_stop_results: a
    -- failed Start changes nothing); the next Start succeeds
    (st, some ["res ok busy=err later=ok alive=yes stop=ok"])
  | ["drain", _, _, _, _] => (st, some ["res ok stop=ok undecoded=0"])
  | ["kafka", _, _, _, fault, _] =>
    -- adapter under the sarama contract (Proofs/C20.lean); with a faulty broker the property asks for
    -- Close to return, at least one error on the transport's error stream and no corrupted record
    (st, some ["res ok delivered=ok corrupt=0 partitions=ok closed=ok errors=" ++ (if fault = "none" then "n/a" else "seen")])
  | ["stage", pid, iphex, port, recv, hex] =>
    match parseHex iphex, parseHex hex with
    | some ip, some d => ({ st with staged := st.staged ++ [(pid, ⟨ip, port.toNat!⟩, recv.toNat!, d)] }, some ["res ok"])
    | _, _ => (st, some ["bad-op"])
  | ["par", _] =>
    -- sequential processing in staging order: Proofs/C15.lean shows that for read-only datagrams every
    -- order of processing gives each datagram the output it has when processed alone
    let rec go (st : DState) (l : List (String × Pipe.Src × Nat × Bytes)) (i : Nat) (acc : List String) : DState × List String :=
      match l with
      | [] => (st, acc)
      | (pid, src, recv, d) :: rest =>
        match st.pipes.lookup pid with
        | none => go st rest (i + 1) (acc ++ ["d " ++ toString i ++ " bad-op"])
        | some (k, cid) =>
          let cfg := st.cfg cid
          let ps := (st.pstate.lookup pid).getD {}
          let o := Pipe.decodeFlow k cfg ps src recv d
          let st' := { st with pstate := (pid, o.state) :: st.pstate.filter (fun e => e.1 != pid) }
          let r := match o.err with
            | none => "ok"
            | some e => ((resLine e).drop 4).toString
          go st' rest (i + 1) (acc ++ ["d " ++ toString i ++ " " ++ r ++ " n=" ++ toString o.msgs.length] ++ o.msgs.map FlowMsg.dump)
    let n := st.staged.length
    let (st', lines) := go { st with staged := [] } st.staged 0 []
    (st', some (("res ok n=" ++ toString n) :: lines))
  | ["allocpkt", pid, iphex, port, recv, hex, _] =>
    -- same transition as `pkt`; the budget verdict of the model is `ok` (Proofs/C02.lean bounds every make and object count)
    match st.pipes.lookup pid, parseHex iphex, parseHex hex with
    | some (k, cid), some ip, some d =>
      let cfg := st.cfg cid
      let ps := (st.pstate.lookup pid).getD {}
      let o := Pipe.decodeFlow k cfg ps ⟨ip, port.toNat!⟩ recv.toNat! d
      let st' := { st with pstate := (pid, o.state) :: st.pstate.filter (fun e => e.1 != pid) }
      let r := match o.err with
        | none => "res ok"
        | some e => resLine e
      -- the modelled allocation of this datagram and the width of the widest template it can reference
      -- (Goflow/Cost.lean; Proofs/C02Cost.lean cost_within_budget: cost ≤ 16 MiB + 256·len·(1 + widest) for len ≤ 16000)
      let src : Pipe.Src := ⟨ip, port.toNat!⟩
      let cost := Pipe.pipeCost k cfg ps src d
      let w := Pipe.widest k ps src d
      (st', some [r ++ " n=" ++ toString o.msgs.length ++ " budget=ok", "cost " ++ toString cost ++ " " ++ toString w])
    | _, _, _ => (st, some ["bad-op"])
  | ["failat", pid, k] => ({ st with failAt := (pid, k.toNat!) :: st.failAt.filter (fun e => e.1 != pid) }, some ["res ok"])
  | ["poison", _, _] => (st, some ["res ok"])      -- the model has no message pool: every message starts from Reset()
  | ["pkt", pid, iphex, port, recv, hex] =>
    match st.pipes.lookup pid, parseHex iphex, parseHex hex with
    | some (k, cid), some ip, some d =>
      let cfg := st.cfg cid
      let ps := (st.pstate.lookup pid).getD {}
      if st.wrapped.contains pid then
        -- main.go's wiring: WrapPanicProducer + PanicDecoderWrapper (Goflow/Wrapped.lean, Proofs/C01Any.lean)
        let o := Wrapped.decodeFlowW k cfg ps ⟨ip, port.toNat!⟩ recv.toNat! d
        let st' := { st with pstate := (pid, o.state) :: st.pstate.filter (fun e => e.1 != pid) }
        (st', some ((Wrapped.resLineW o.err ++ " n=" ++ toString o.msgs.length) :: o.msgs.map FlowMsg.dump))
      else
      let o := Pipe.refuseAt ((st.failAt.lookup pid).getD 0) (Pipe.decodeFlow k cfg ps ⟨ip, port.toNat!⟩ recv.toNat! d)
      let st' := { st with pstate := (pid, o.state) :: st.pstate.filter (fun e => e.1 != pid), failAt := st.failAt.filter (fun e => e.1 != pid) }
      let r := match o.err with
        | none => "res ok"
        | some e => resLine e
      (st', some ((r ++ " n=" ++ toString o.msgs.length) :: o.msgs.map FlowMsg.dump))
    | _, _, _ => (st, some ["bad-op"])
  | _ => (st, some ["bad-op"])

partial def loop (h : IO.FS.Stream) (out : IO.FS.Stream) (st : DState) : IO Unit := do
  let line ← h.getLine
  if line.isEmpty then return ()
  let line := String.ofList (line.toList.filter (fun c => c != '\n' && c != '\r'))
  let (st', o) := execOp st line
  match o with
  | none => pure ()
  | some ls =>
    for l in ls do out.putStrLn l
    out.putStrLn "end"
  loop h out st'

def genOps (prop : String) (seed n : Nat) : List String :=
  match prop with
  | "C05" => Gen.run seed (Gen.C05.gen n)
  | "C03" => Gen.run seed (Gen.C03.gen n)
  | "C04" => Gen.run seed (Gen.C04.gen n)
  | "C07" => Gen.run seed (Gen.C07.gen n)
  | "C02" => Gen.run seed (Gen.C02.gen n)
  | "C01" => Gen.run seed (Gen.C01.gen n)
  | "C15" => Gen.run seed (Gen.C15.gen n)
  | "C20" => Gen.run seed (Gen.C20.gen n)
  | "C17" => Gen.run seed (Gen.C17.gen n)
  | "C18" => Gen.run seed (Gen.C18.gen n)
  | "C19" => Gen.run seed (Gen.C19.gen n)
  | "C16" => Gen.C16.gen n
  | "C12" => Gen.run seed (Gen.C12.gen n)
  | "C11" => Gen.run seed (Gen.C11.gen n)
  | "C09" => Gen.run seed (Gen.C09.gen n)
  | "C08" => Gen.run seed (Gen.C08.gen n)
  | "C06" => Gen.run seed (Gen.C06.gen n)
  | "C10" => Gen.run seed (Gen.C10.gen n)
  | "C13" => Gen.run seed (Gen.C13.gen n)
  | "C14" => Gen.run seed (Gen.C14.gen n)
  | _ => []

def main (args : List String) : IO UInt32 := do
  match args with
  | ["run"] =>
    let stdin ← IO.getStdin
    let stdout ← IO.getStdout
    loop stdin stdout {}
    return 0
  | ["gen", prop, seed, n] =>
    let stdout ← IO.getStdout
    for l in genOps prop seed.toNat! n.toNat! do stdout.putStrLn l
    return 0
  | _ =>
    IO.eprintln "usage: goflow-model run | gen <prop> <seed> <n>"
    return 2
