import Goflow
import Goflow.Gen.C05
import Goflow.Gen.C03
import Goflow.Gen.C04
import Goflow.Gen.Malformed
/-!
  goflow-model: the executable side of the model.
    goflow-model run            ops on stdin → canonical blocks on stdout
    goflow-model gen <P> <seed> <n>   op file for property P
-/
open Goflow

structure DState where
  stores : List (String × Netflow.Store) := []

def DState.store (st : DState) (sid : String) : Netflow.Store := (st.stores.lookup sid).getD []
def DState.setStore (st : DState) (sid : String) (s : Netflow.Store) : DState :=
  { st with stores := (sid, s) :: st.stores.filter (fun e => e.1 != sid) }

def resLine : Err → String
  | .eof => "res err"
  | .bad => "res err"
  | .tnf => "res err:template-not-found"
  | .panic => "res panic"
  | .diverge => "res timeout"

def execCall (st : DState) (args : List String) : DState × List String :=
  match args with
  | ["v5", hex] =>
    match parseHex hex with
    | none => (st, ["bad-op"])
    | some d =>
      match V5.decodeMessageVersion d with
      | .ok p => (st, ["res ok", "v5 " ++ p.toD.render])
      | .error e => (st, [resLine e])
  | ["sf", hex] =>
    match parseHex hex with
    | none => (st, ["bad-op"])
    | some d =>
      match Sflow.decodeMessageVersion d with
      | .ok p => (st, ["res ok", "sf " ++ p.toD.render])
      | .error e => (st, [resLine e])
  | ["nf", sid, hex] =>
    match parseHex hex with
    | none => (st, ["bad-op"])
    | some d =>
      let o := Netflow.decodeMessageVersion (st.store sid) d
      let st' := st.setStore sid o.store
      match o.outcome with
      | none => (st', ["res ok", "nf " ++ o.packet.toD.render])
      | some .tnf => (st', ["res err:template-not-found", "nf " ++ o.packet.toD.render])
      | some e => (st', [resLine e])
  | _ => (st, ["bad-op"])

def execOp (st : DState) (line : String) : DState × Option (List String) :=
  let ws := (line.splitOn " ").filter (· ≠ "")
  match ws with
  | [] => (st, none)
  | "#" :: _ => (st, none)
  | "expect" :: _ => (st, none)
  | "call" :: args => let (s, o) := execCall st args; (s, some o)
  | ["reset"] => ({}, some ["res ok"])
  | _ => (st, some ["bad-op"])

partial def loop (h : IO.FS.Stream) (out : IO.FS.Stream) (st : DState) : IO Unit := do
  let line ← h.getLine
  if line.isEmpty then return ()
  let line := String.ofList (line.toList.filter (fun c => c != '\n' && c != '\r'))
  let (st', o) := execOp st line
  match o with
  | none => pure ()
  | some ls =>
    for l in ls do out.putStrLn l
    out.putStrLn "end"
  loop h out st'

def genOps (prop : String) (seed n : Nat) : List String :=
  match prop with
  | "C05" => Gen.run seed (Gen.C05.gen n)
  | "C03" => Gen.run seed (Gen.C03.gen n)
  | "C04" => Gen.run seed (Gen.C04.gen n)
  | _ => []

def main (args : List String) : IO UInt32 := do
  match args with
  | ["run"] =>
    let stdin ← IO.getStdin
    let stdout ← IO.getStdout
    loop stdin stdout {}
    return 0
  | ["gen", prop, seed, n] =>
    let stdout ← IO.getStdout
    for l in genOps prop seed.toNat! n.toNat! do stdout.putStrLn l
    return 0
  | _ =>
    IO.eprintln "usage: goflow-model run | gen <prop> <seed> <n>"
    return 2
