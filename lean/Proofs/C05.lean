import Proofs.Lemmas.Fields
import Goflow.Spec.V5
import Goflow.Generated.Layouts
/-!
  C05 — NetFlow v5 wire decoding is exact.
  Property theorems only; helper lemmas are local `private` ones or live in Proofs/Lemmas.
-/
namespace Goflow.C05
open Goflow Goflow.V5 Goflow.Spec.V5

private theorem encodeRecord_eq (r : Record) : encodeRecord r = encFields Record.widths r.toList := by
  unfold encodeRecord Record.widths Record.toList
  simp only [encFields, List.append_assoc, List.append_nil]

private theorem record_fits (r : Record) (h : RecordWF r) : Fits Record.widths r.toList := by
  simp only [RecordWF, Nat.reducePow] at h
  simp only [Fits, Record.widths, Record.toList, Nat.reducePow, and_true]
  exact h

private theorem encodeRecord_length (r : Record) : (encodeRecord r).length = 48 := by
  unfold encodeRecord
  simp only [List.length_append, encBE_length]

/-- every field of a record survives encode → decode (20 fields, in order) -/
theorem record_roundtrip (r : Record) (rest : Bytes) (h : RecordWF r) :
    readRecord (encodeRecord r ++ rest) = .ok (r, rest) := by
  unfold readRecord
  rw [encodeRecord_eq, readFields_enc _ _ _ (record_fits r h)]
  rfl

private theorem header_fits (h : Header) (hw : HeaderWF h) : Fits Header.widths h.toList := by
  simp only [HeaderWF, Nat.reducePow] at hw
  simp only [Fits, Header.widths, Header.toList, Nat.reducePow, and_true]
  exact hw

/-- all 9 header fields (version + 8) survive encode → decode -/
theorem header_roundtrip (h : Header) (rest : Bytes) (hw : HeaderWF h) :
    readU 2 (encodeHeader h ++ rest) = .ok (5, encFields Header.widths h.toList ++ rest) ∧
    readFields Header.widths (encFields Header.widths h.toList ++ rest) = .ok (h.toList, rest) ∧
    Header.ofList h.toList = some h := by
  refine ⟨?_, readFields_enc _ _ _ (header_fits h hw), rfl⟩
  have : encodeHeader h ++ rest = encBE 2 5 ++ (encFields Header.widths h.toList ++ rest) := by
    simp [encodeHeader, encFields, Header.widths, Header.toList]
  rw [this, readU_enc _ (by decide)]

/-- The record loop on `k` encoded records followed by fewer than 48 stray bytes, under any
    header count `c`: exactly the first `min c k` records, nothing else. -/
private theorem readRecords_take (c : Nat) (rs : List Record) (p : Bytes)
    (hwf : ∀ r ∈ rs, RecordWF r) (hp : p.length < 48) :
    readRecords c (rs.flatMap encodeRecord ++ p) = .ok (rs.take c) := by
  induction c generalizing rs with
  | zero => simp [readRecords]
  | succ c ih =>
    cases rs with
    | nil =>
      have : ¬ 48 ≤ p.length := by omega
      simp [readRecords, this]
    | cons r rs =>
      have hlen : 48 ≤ (List.flatMap encodeRecord (r :: rs) ++ p).length := by
        simp [encodeRecord_length]
      simp only [readRecords, hlen, if_true]
      simp only [List.flatMap_cons, List.append_assoc]
      rw [record_roundtrip r _ (hwf r (by simp))]
      simp only
      rw [ih rs (fun x hx => hwf x (by simp [hx]))]
      simp

private theorem readRecord_consumes (b b' : Bytes) (r : Record) (h : readRecord b = .ok (r, b')) :
    48 ≤ b.length ∧ b' = b.drop 48 := by
  unfold readRecord at h
  by_cases hl : sumW Record.widths ≤ b.length
  · obtain ⟨vs, e1, _, _⟩ := readFields_ok_of_le Record.widths b hl
    rw [e1] at h
    simp only at h
    have hs : sumW Record.widths = 48 := by decide
    split at h
    · cases h; exact ⟨by omega, by rw [hs]⟩
    · cases h
  · rw [readFields_err_of_lt _ _ (Nat.lt_of_not_le hl)] at h
    cases h

private theorem readRecords_bound (c : Nat) (b : Bytes) (rs : List Record)
    (h : readRecords c b = .ok rs) : 48 * rs.length ≤ b.length ∧ rs.length ≤ c := by
  induction c generalizing b rs with
  | zero => simp [readRecords] at h; subst h; simp
  | succ c ih =>
    unfold readRecords at h
    split at h
    · split at h
      · cases h
      · rename_i r b' hr
        obtain ⟨h48, hb'⟩ := readRecord_consumes _ _ _ hr
        split at h
        · cases h
        · rename_i rs' hrs
          cases h
          have := ih _ _ hrs
          subst hb'
          simp only [List.length_drop, List.length_cons] at *
          omega
    · cases h; simp

/-- Truncation / count clause: `k` complete records then a partial one, header count `c`
    arbitrary: the decoded list is exactly the first `min c k` records. -/
theorem truncation (h : Header) (rs : List Record) (p : Bytes)
    (hw : HeaderWF h) (hwf : ∀ r ∈ rs, RecordWF r) (hp : p.length < 48) :
    decodeMessageVersion (encode h rs ++ p) = .ok ⟨5, h, rs.take h.count⟩ := by
  obtain ⟨h1, h2, h3⟩ := header_roundtrip h (rs.flatMap encodeRecord ++ p) hw
  simp only [decodeMessageVersion, encode, List.append_assoc]
  rw [h1]
  simp only [ne_eq, not_true_eq_false, if_false, decodeMessage]
  rw [h2]
  simp only [h3]
  rw [readRecords_take _ _ _ hwf hp]

/-- decode (encode (H, R)) = (H, R) for every header and every record list whose length the header announces. -/
theorem roundtrip (h : Header) (rs : List Record)
    (hw : HeaderWF h) (hwf : ∀ r ∈ rs, RecordWF r) (hc : rs.length = h.count) :
    decodeMessageVersion (encode h rs) = .ok ⟨5, h, rs⟩ := by
  have := truncation h rs [] hw hwf (by decide)
  simpa [← hc] using this

/-- "nothing else", for arbitrary bytes: the decoder never returns more records than
    complete 48-byte records are present after the 24-byte header, nor more than the count. -/
theorem records_le_present (b : Bytes) (p : Packet) (h : decodeMessageVersion b = .ok p) :
    24 + 48 * p.records.length ≤ b.length ∧ p.records.length ≤ p.header.count := by
  unfold decodeMessageVersion at h
  by_cases h2 : 2 ≤ b.length
  · rw [readU_ok h2] at h
    simp only at h
    split at h
    · cases h
    · unfold decodeMessage at h
      by_cases h22 : sumW Header.widths ≤ (b.drop 2).length
      · obtain ⟨vs, e1, _, _⟩ := readFields_ok_of_le Header.widths (b.drop 2) h22
        rw [e1] at h
        simp only at h
        split at h
        · cases h
        · rename_i hd _
          split at h
          · cases h
          · rename_i rs hrs
            cases h
            have := readRecords_bound _ _ _ hrs
            simp only [List.length_drop] at this h22
            have hs : sumW Header.widths = 22 := by decide
            simp only
            omega
      · rw [readFields_err_of_lt _ _ (Nat.lt_of_not_le h22)] at h
        cases h
  · rw [readU_short (Nat.lt_of_not_le h2)] at h
    cases h

/-- non-vacuity: a concrete header/record pair meets the hypotheses -/
example : HeaderWF ⟨2, 1000, 1700000000, 5, 42, 0, 0, 16385⟩ ∧
    RecordWF ⟨0x0a000001, 0x0a000002, 0, 1, 2, 10, 1000, 500, 900, 443, 55000, 0, 0x18, 6, 0, 65000, 65001, 24, 24, 0⟩ := by
  decide

/-- The read order of the Go decoder is the one this model was written for (regenerated fact). -/
theorem layout_matches : Goflow.Generated.v5Reads =
  [("DecodeMessageVersion", [("&version", "uint16")]),
   ("DecodeMessage", [("&packet.Count", "uint16"), ("&packet.SysUptime", "uint32"), ("&packet.UnixSecs", "uint32"), ("&packet.UnixNSecs", "uint32"), ("&packet.FlowSequence", "uint32"), ("&packet.EngineType", "uint8"), ("&packet.EngineId", "uint8"), ("&packet.SamplingInterval", "uint16")]),
   ("DecodeMessage", [("&srcAddr", "uint32"), ("&dstAddr", "uint32"), ("&nextHop", "uint32"), ("&record.Input", "uint16"), ("&record.Output", "uint16"), ("&record.DPkts", "uint32"), ("&record.DOctets", "uint32"), ("&record.First", "uint32"), ("&record.Last", "uint32"), ("&record.SrcPort", "uint16"), ("&record.DstPort", "uint16"), ("&record.Pad1", "byte"), ("&record.TCPFlags", "uint8"), ("&record.Proto", "uint8"), ("&record.Tos", "uint8"), ("&record.SrcAS", "uint16"), ("&record.DstAS", "uint16"), ("&record.SrcMask", "uint8"), ("&record.DstMask", "uint8"), ("&record.Pad2", "uint16")])] := by
  decide

end Goflow.C05
