import Proofs.C13Valid
import Goflow.Spec.JsonGrammar
/-!
# C13: the recogniser `Json.valid` and the declarative grammar `JsonGrammar.JText` define the same language

`Goflow.Spec.Json.valid` is a program; `Goflow.Spec.JsonGrammar` is RFC 8259 written as inductive predicates.
This file proves

* `valid_sound    : valid bs = true → JText bs`   (by induction on the fuel of `value` / `members` / `elements`,
  each returning "the consumed prefix is derivable": `sound_aux`, `strBody_sound`, `number_sound`, `skipWs_sound`);
* `valid_complete : JText bs → valid bs = true`   (by the mutual recursor of the grammar; fuel = length of the value
  suffices: `value_complete`, with `strBody_complete`, `number_complete`);
* `valid_iff`     : the two together — the executable specification *is* the grammar;

and restates C13 over the grammar: `formatJSON_is_json_object`, `default_is_json_object` (the output is exactly one
`JObject`, no surrounding whitespace), `jsonQuote_is_json_string`, `decimal_is_json_number`. The last section holds
accepted / rejected examples on both sides.
-/
namespace Goflow.C13.Grammar
open Goflow Goflow.Spec.Json Goflow.Spec.JsonGrammar

/-! ## byte classes -/

theorem wsByte_iff (b : UInt8) : isWs b = true ↔ WsByte b := by
  constructor
  · intro h
    simp only [isWs, Bool.or_eq_true, beq_iff_eq] at h
    rcases h with ((h | h) | h) | h <;> subst h <;> constructor
  · intro h; cases h <;> decide

theorem digit_iff (b : UInt8) : isDigit b = true ↔ Digit b := by
  simp [isDigit, Digit]

theorem hex_iff (b : UInt8) : isHex b = true ↔ HexDig b := by
  simp [isHex, HexDig, ← digit_iff, or_assoc]

theorem simpleEscape_iff (e : UInt8) : isSimpleEscape e = true ↔ SimpleEscape e := by
  constructor
  · intro h
    simp only [isSimpleEscape, Bool.or_eq_true, beq_iff_eq] at h
    rcases h with ((((((h | h) | h) | h) | h) | h) | h) | h <;> subst h <;> constructor
  · intro h; cases h <;> decide

/-! ## whitespace -/

theorem skipWs_sound (bs : Bytes) : ∃ w, Ws w ∧ bs = w ++ skipWs bs := by
  induction bs with
  | nil => exact ⟨[], .nil, rfl⟩
  | cons b r ih =>
    by_cases h : isWs b = true
    · obtain ⟨w, hw, e⟩ := ih
      refine ⟨b :: w, .cons ((wsByte_iff b).mp h) hw, ?_⟩
      simp only [skipWs, h, if_true, List.cons_append]
      rw [← e]
    · exact ⟨[], .nil, by simp [skipWs, h]⟩

theorem ws_append {a b : Bytes} (ha : Ws a) (hb : Ws b) : Ws (a ++ b) := by
  induction ha with
  | nil => exact hb
  | cons h _ ih => exact .cons h ih

/-! ## strings -/

theorem take4_drop4 (l : Bytes) (h : 4 ≤ l.length) : ∃ a b c d, l = a :: b :: c :: d :: l.drop 4 := by
  match l, h with
  | a :: b :: c :: d :: r, _ => exact ⟨a, b, c, d, rfl⟩

theorem strBody_sound_aux : ∀ (n : Nat) (bs rest : Bytes), bs.length ≤ n → strBody bs = some rest →
    ∃ cs, JChars cs ∧ bs = cs ++ 0x22 :: rest := by
  intro n
  induction n with
  | zero =>
    intro bs rest hl h
    cases bs with
    | nil => rw [strBody.eq_def] at h; cases h
    | cons _ _ => simp at hl
  | succ n ih =>
    intro bs rest hl h
    cases bs with
    | nil => rw [strBody.eq_def] at h; cases h
    | cons b r =>
      rw [strBody.eq_def] at h
      simp only at h
      by_cases h1 : b = 0x22
      · simp only [h1, if_true, Option.some.injEq] at h
        subst h; subst h1
        exact ⟨[], .nil, rfl⟩
      simp only [h1, if_false] at h
      by_cases h2 : b = 0x5c
      · simp only [h2, if_true] at h
        subst h2
        cases r with
        | nil => cases h
        | cons e r' =>
          simp only at h
          by_cases h3 : isSimpleEscape e = true
          · simp only [h3, if_true] at h
            obtain ⟨cs, hcs, e'⟩ := ih r' rest (by simp at hl ⊢; omega) h
            exact ⟨[0x5c, e] ++ cs, .cons (.escape ((simpleEscape_iff e).mp h3)) hcs, by rw [e']; rfl⟩
          simp only [h3] at h
          by_cases h4 : e = 0x75
          · simp only [h4, if_true] at h
            subst h4
            by_cases h5 : 4 ≤ r'.length ∧ (r'.take 4).all isHex = true
            · simp only [h5, and_self, if_true] at h
              obtain ⟨a, b, c, d, e4⟩ := take4_drop4 r' h5.1
              obtain ⟨cs, hcs, e'⟩ := ih (r'.drop 4) rest (by simp at hl ⊢; omega) h
              have hx := h5.2
              rw [e4] at hx
              simp only [List.take_succ_cons, List.take_zero, List.all_cons, List.all_nil, Bool.and_true, Bool.and_eq_true] at hx
              refine ⟨[0x5c, 0x75, a, b, c, d] ++ cs, .cons (.unicode ((hex_iff a).mp hx.1) ((hex_iff b).mp hx.2.1)
                ((hex_iff c).mp hx.2.2.1) ((hex_iff d).mp hx.2.2.2)) hcs, ?_⟩
              rw [e4, e']; rfl
            · simp only [h5, if_false] at h; cases h
          · simp only [h4, if_false] at h; cases h
      simp only [h2, if_false] at h
      by_cases h3 : b < 0x20
      · simp only [h3, if_true] at h; cases h
      simp only [h3, if_false] at h
      obtain ⟨cs, hcs, e'⟩ := ih r rest (by simp at hl ⊢; omega) h
      refine ⟨[b] ++ cs, .cons (.unescaped ⟨UInt8.not_lt.mp h3, h1, h2⟩) hcs, by rw [e']; rfl⟩

theorem strBody_sound (bs rest : Bytes) (h : strBody bs = some rest) : ∃ cs, JChars cs ∧ bs = cs ++ 0x22 :: rest :=
  strBody_sound_aux bs.length bs rest (Nat.le_refl _) h

theorem strBody_complete {cs : Bytes} (h : JChars cs) (t : Bytes) : strBody (cs ++ 0x22 :: t) = some t := by
  induction h with
  | nil => exact strBody_quote t
  | cons hc _ ih =>
    cases hc with
    | unescaped hb => exact (strBody_plain _ _ hb.2.1 hb.2.2 (UInt8.not_lt.mpr hb.1)).trans ih
    | escape he => exact (strBody_simple _ _ ((simpleEscape_iff _).mpr he)).trans ih
    | unicode ha hb hc hd =>
      exact (strBody_u _ _ _ _ _ ((hex_iff _).mpr ha) ((hex_iff _).mpr hb) ((hex_iff _).mpr hc) ((hex_iff _).mpr hd)).trans ih

/-! ## numbers: the recogniser, cut into the four parts of `number = [ minus ] int [ frac ] [ exp ]` -/

def intPart (b : UInt8) (r : Bytes) : Bytes := if b = 0x30 then r else digits r

def fracPart (r1 : Bytes) : Option Bytes :=
  if r1.head? = some 0x2e then
    match r1.tail with
    | d :: r' => if isDigit d then some (digits r') else none
    | [] => none
  else some r1

def expPart (r2 : Bytes) : Option Bytes :=
  if r2.head? = some 0x65 ∨ r2.head? = some 0x45 then
    let r3 := r2.tail
    let r4 := if r3.head? = some 0x2b ∨ r3.head? = some 0x2d then r3.tail else r3
    match r4 with
    | d :: t => if isDigit d then some (digits t) else none
    | [] => none
  else some r2

theorem number_eq (bs0 : Bytes) : number bs0 =
    match (if bs0.head? = some 0x2d then bs0.tail else bs0) with
    | [] => none
    | b :: r => if !isDigit b then none else
      match fracPart (intPart b r) with
      | none => none
      | some r2 => expPart r2 := rfl

theorem digits_sound (bs : Bytes) : ∃ ds, Digits0 ds ∧ bs = ds ++ digits bs := by
  induction bs with
  | nil => exact ⟨[], .nil, rfl⟩
  | cons b r ih =>
    by_cases h : isDigit b = true
    · obtain ⟨ds, hds, e⟩ := ih
      refine ⟨b :: ds, .cons ((digit_iff b).mp h) hds, ?_⟩
      simp only [digits, h, if_true, List.cons_append]
      rw [← e]
    · exact ⟨[], .nil, by simp [digits, h]⟩

theorem digit19_of : ∀ b : UInt8, isDigit b = true → b ≠ 0x30 → Digit19 b := by
  intro b h h0
  have := (digit_iff b).mp h
  refine ⟨?_, this.2⟩
  have h1 := this.1
  rw [UInt8.le_iff_toNat_le] at h1 ⊢
  have : b.toNat ≠ (0x30 : UInt8).toNat := fun h => h0 (UInt8.toNat_inj.mp h)
  simp at h1 this ⊢
  omega

theorem intPart_sound (b : UInt8) (r : Bytes) (hb : isDigit b = true) : ∃ i, JInt i ∧ b :: r = i ++ intPart b r := by
  unfold intPart
  by_cases h0 : b = 0x30
  · subst h0; exact ⟨[0x30], .zero, rfl⟩
  · obtain ⟨ds, hds, e⟩ := digits_sound r
    refine ⟨b :: ds, .nonzero (digit19_of b hb h0) hds, ?_⟩
    simp only [h0, if_false, List.cons_append]
    rw [← e]

theorem head?_eq_some {l : Bytes} {c : UInt8} (h : l.head? = some c) : l = c :: l.tail := by
  cases l with
  | nil => cases h
  | cons a t => simp at h; subst h; rfl

theorem fracPart_sound (r1 r2 : Bytes) (h : fracPart r1 = some r2) : ∃ f, Opt Frac f ∧ r1 = f ++ r2 := by
  unfold fracPart at h
  by_cases hd : r1.head? = some 0x2e
  · simp only [hd, if_true] at h
    have e1 := head?_eq_some hd
    cases ht : r1.tail with
    | nil => rw [ht] at h; cases h
    | cons d r' =>
      rw [ht] at h e1
      simp only at h
      by_cases hdd : isDigit d = true
      · simp only [hdd, if_true, Option.some.injEq] at h
        obtain ⟨ds, hds, e⟩ := digits_sound r'
        refine ⟨0x2e :: d :: ds, .some (.mk (.mk ((digit_iff d).mp hdd) hds)), ?_⟩
        rw [e1, e, ← h]; rfl
      · simp only [hdd] at h; cases h
  · simp only [hd, if_false, Option.some.injEq] at h
    exact ⟨[], .none, by rw [h]; rfl⟩

theorem expDigits_sound (r4 rest : Bytes)
    (h : (match r4 with | d :: t => if isDigit d then some (digits t) else none | [] => none) = some rest) :
    ∃ ds, Digits1 ds ∧ r4 = ds ++ rest := by
  cases r4 with
  | nil => cases h
  | cons d t =>
    simp only at h
    by_cases hdd : isDigit d = true
    · simp only [hdd, if_true, Option.some.injEq] at h
      obtain ⟨ds, hds, e⟩ := digits_sound t
      exact ⟨d :: ds, .mk ((digit_iff d).mp hdd) hds, by rw [e, ← h]; rfl⟩
    · simp only [hdd] at h; cases h

theorem expPart_sound (r2 rest : Bytes) (h : expPart r2 = some rest) : ∃ e, Opt Exp e ∧ r2 = e ++ rest := by
  unfold expPart at h
  by_cases hd : r2.head? = some 0x65 ∨ r2.head? = some 0x45
  · simp only [hd, if_true] at h
    -- the sign
    have hs : ∃ s r4, Opt Sign s ∧ r2.tail = s ++ r4 ∧
        (match r4 with | d :: t => if isDigit d then some (digits t) else none | [] => none) = some rest := by
      by_cases hsg : r2.tail.head? = some 0x2b ∨ r2.tail.head? = some 0x2d
      · simp only [hsg, if_true] at h
        rcases hsg with hsg | hsg
        · exact ⟨[0x2b], _, .some .plus, head?_eq_some hsg, h⟩
        · exact ⟨[0x2d], _, .some .minus, head?_eq_some hsg, h⟩
      · simp only [hsg, if_false] at h
        exact ⟨[], _, .none, rfl, h⟩
    obtain ⟨s, r4, hs, e3, h4⟩ := hs
    obtain ⟨ds, hds, e4⟩ := expDigits_sound r4 rest h4
    rcases hd with hd | hd
    · refine ⟨0x65 :: (s ++ ds), .some (.lower hs hds), ?_⟩
      rw [head?_eq_some hd, e3, e4]; simp
    · refine ⟨0x45 :: (s ++ ds), .some (.upper hs hds), ?_⟩
      rw [head?_eq_some hd, e3, e4]; simp
  · simp only [hd, if_false, Option.some.injEq] at h
    exact ⟨[], .none, by rw [h]; rfl⟩

theorem number_sound (bs rest : Bytes) (h : number bs = some rest) : ∃ n, JNumber n ∧ bs = n ++ rest := by
  rw [number_eq] at h
  have hm : ∃ m bs', Opt Minus m ∧ bs = m ++ bs' ∧ (if bs.head? = some 0x2d then bs.tail else bs) = bs' := by
    by_cases hd : bs.head? = some 0x2d
    · exact ⟨[0x2d], bs.tail, .some .mk, head?_eq_some hd, by simp [hd]⟩
    · exact ⟨[], bs, .none, rfl, by simp [hd]⟩
  obtain ⟨m, bs', hm, e0, hif⟩ := hm
  rw [hif] at h
  cases bs' with
  | nil => cases h
  | cons b r =>
    simp only at h
    by_cases hb : isDigit b = true
    · simp only [hb, Bool.not_true, Bool.false_eq_true, if_false] at h
      obtain ⟨i, hi, e1⟩ := intPart_sound b r hb
      cases hf : fracPart (intPart b r) with
      | none => rw [hf] at h; cases h
      | some r2 =>
        rw [hf] at h
        simp only at h
        obtain ⟨f, hf', e2⟩ := fracPart_sound _ _ hf
        obtain ⟨e, he, e3⟩ := expPart_sound _ _ h
        refine ⟨m ++ i ++ f ++ e, .mk hm hi hf' he, ?_⟩
        rw [e0, e1, e2, e3]; simp
    · simp [hb] at h

/-! ### completeness for numbers: each part is read exactly, provided what follows cannot continue it -/

/-- the first byte of `t`, if any, satisfies `P` -/
def HeadIs (P : UInt8 → Prop) (t : Bytes) : Prop := ∀ c, t.head? = some c → P c

theorem headIs_nil (P : UInt8 → Prop) : HeadIs P [] := fun _ h => by cases h
theorem headIs_cons {P : UInt8 → Prop} {c : UInt8} (h : P c) (t : Bytes) : HeadIs P (c :: t) := by
  intro c' h'; simp at h'; subst h'; exact h
theorem HeadIs.mono {P Q : UInt8 → Prop} {t : Bytes} (h : HeadIs P t) (hpq : ∀ c, P c → Q c) : HeadIs Q t :=
  fun c hc => hpq c (h c hc)

/-- what may follow a number: not a digit, not `.`, not `e`, not `E` -/
def NumEnd' : Bytes → Prop := HeadIs fun c => isDigit c = false ∧ c ≠ 0x2e ∧ c ≠ 0x65 ∧ c ≠ 0x45

theorem digits_complete {ds : Bytes} (h : Digits0 ds) (t : Bytes) (ht : HeadIs (fun c => isDigit c = false) t) :
    digits (ds ++ t) = t := by
  induction h with
  | nil =>
    cases t with
    | nil => rfl
    | cons c r => simp [digits, ht c rfl]
  | cons hd _ ih => simp only [List.cons_append, digits, (digit_iff _).mpr hd, if_true]; exact ih

theorem digit_of_digit19 {d : UInt8} (h : Digit19 d) : isDigit d = true ∧ d ≠ 0x30 := by
  have h1 := h.1
  refine ⟨(digit_iff d).mpr ⟨?_, h.2⟩, ?_⟩
  · rw [UInt8.le_iff_toNat_le] at h1 ⊢; simp at h1 ⊢; omega
  · intro e; subst e; exact absurd h1 (by decide)

theorem intPart_complete {i : Bytes} (h : JInt i) (t : Bytes) (ht : HeadIs (fun c => isDigit c = false) t) :
    ∃ b r, i = b :: r ∧ isDigit b = true ∧ intPart b (r ++ t) = t := by
  cases h with
  | zero => exact ⟨0x30, [], rfl, by decide, rfl⟩
  | nonzero hd hds =>
    have := digit_of_digit19 hd
    exact ⟨_, _, rfl, this.1, by simp only [intPart, this.2, if_false]; exact digits_complete hds t ht⟩

theorem fracPart_complete {f : Bytes} (h : Opt Frac f) (t : Bytes)
    (ht : HeadIs (fun c => isDigit c = false ∧ c ≠ 0x2e) t) : fracPart (f ++ t) = some t := by
  cases h with
  | none =>
    have : t.head? ≠ some 0x2e := fun e => (ht _ e).2 rfl
    simp [fracPart, this]
  | some hf =>
    cases hf with
    | mk hds =>
      cases hds with
      | mk hd hds =>
        simp only [fracPart, List.cons_append, List.head?_cons, if_true, List.tail_cons, (digit_iff _).mpr hd]
        rw [digits_complete hds t (ht.mono fun _ h => h.1)]

theorem digits1_complete {ds : Bytes} (h : Digits1 ds) (t : Bytes) (ht : HeadIs (fun c => isDigit c = false) t) :
    ∃ d r, ds = d :: r ∧ isDigit d = true ∧ digits (r ++ t) = t := by
  cases h with
  | mk hd hds => exact ⟨_, _, rfl, (digit_iff _).mpr hd, digits_complete hds t ht⟩

theorem digit_ne {d : UInt8} (hd : isDigit d = true) (c : UInt8) (hc : isDigit c = false) : d ≠ c := by
  intro e; subst e; rw [hd] at hc; cases hc

theorem digit_not_sign (d : UInt8) (hd : isDigit d = true) : d ≠ 0x2b ∧ d ≠ 0x2d :=
  ⟨digit_ne hd _ (by decide), digit_ne hd _ (by decide)⟩

theorem expTail_complete {s ds : Bytes} (hs : Opt Sign s) (hds : Digits1 ds) (t : Bytes)
    (ht : HeadIs (fun c => isDigit c = false) t) :
    (let r3 := s ++ ds ++ t
     let r4 := if r3.head? = some 0x2b ∨ r3.head? = some 0x2d then r3.tail else r3
     match r4 with
     | d :: t => if isDigit d then some (digits t) else none
     | [] => none) = some t := by
  obtain ⟨d, r, e, hd, hr⟩ := digits1_complete hds t ht
  subst e
  have hns := digit_not_sign d hd
  cases hs with
  | none => simp [hns.1, hns.2, hd, hr]
  | some hs => cases hs <;> simp [hd, hr]

theorem expPart_complete {e : Bytes} (h : Opt Exp e) (t : Bytes) (ht : NumEnd' t) : expPart (e ++ t) = some t := by
  cases h with
  | none =>
    have h1 : t.head? ≠ some 0x65 := fun e => (ht _ e).2.2.1 rfl
    have h2 : t.head? ≠ some 0x45 := fun e => (ht _ e).2.2.2 rfl
    simp [expPart, h1, h2]
  | some he =>
    cases he with
    | lower hs hds =>
      have := expTail_complete hs hds t (ht.mono fun _ h => h.1)
      simpa [expPart, List.append_assoc] using this
    | upper hs hds =>
      have := expTail_complete hs hds t (ht.mono fun _ h => h.1)
      simpa [expPart, List.append_assoc] using this

theorem exp_head {e : Bytes} (h : Opt Exp e) {t : Bytes} (ht : NumEnd' t) :
    HeadIs (fun c => isDigit c = false ∧ c ≠ 0x2e) (e ++ t) := by
  cases h with
  | none => exact ht.mono fun _ h => ⟨h.1, h.2.1⟩
  | some he => cases he <;> exact headIs_cons (by decide) _

theorem frac_head {f : Bytes} (h : Opt Frac f) {t : Bytes} (ht : HeadIs (fun c => isDigit c = false ∧ c ≠ 0x2e) t) :
    HeadIs (fun c => isDigit c = false) (f ++ t) := by
  cases h with
  | none => exact ht.mono fun _ h => h.1
  | some hf => cases hf; exact headIs_cons (by decide) _

theorem digit_not_minus (d : UInt8) (hd : isDigit d = true) : d ≠ 0x2d := digit_ne hd _ (by decide)

/-- a number of the grammar is read exactly by `number`, whatever follows it as long as it cannot continue the number -/
theorem number_complete {n : Bytes} (h : JNumber n) (t : Bytes) (ht : NumEnd' t) : number (n ++ t) = some t := by
  cases h with
  | @mk m i f e hm hi hf he =>
    have h3 := exp_head he ht
    have h2 := frac_head hf h3
    obtain ⟨b, r, ei, hb, hint⟩ := intPart_complete hi (f ++ (e ++ t)) h2
    subst ei
    have key : (match b :: (r ++ (f ++ (e ++ t))) with
        | [] => none
        | b :: r => if !isDigit b then none else
          match fracPart (intPart b r) with
          | none => none
          | some r2 => expPart r2) = some t := by
      simp only [hb, Bool.not_true, Bool.false_eq_true, if_false, hint, fracPart_complete hf _ h3, expPart_complete he t ht]
    rw [number_eq]
    cases hm with
    | none =>
      simp only [List.nil_append, List.cons_append, List.append_assoc, List.head?_cons, Option.some.injEq,
        digit_not_minus b hb, if_false]
      exact key
    | some hm =>
      cases hm
      simp only [List.cons_append, List.nil_append, List.append_assoc, List.head?_cons, if_true, List.tail_cons]
      exact key

/-- the first byte of a number is `-` or a digit -/
theorem number_head {n : Bytes} (h : JNumber n) : ∃ c r, n = c :: r ∧ (c = 0x2d ∨ isDigit c = true) := by
  cases h with
  | @mk m i f e hm hi hf he =>
    cases hm with
    | some hm => cases hm; exact ⟨_, _, rfl, Or.inl rfl⟩
    | none =>
      cases hi with
      | zero => exact ⟨_, _, rfl, Or.inr (by decide)⟩
      | nonzero hd _ => exact ⟨_, _, rfl, Or.inr (digit_of_digit19 hd).1⟩

/-! ## literals -/

theorem lit_sound (w bs rest : Bytes) (h : lit w bs = some rest) : bs = w ++ rest := by
  unfold lit at h
  by_cases hw : (bs.take w.length == w) = true
  · simp only [hw, if_true, Option.some.injEq] at h
    have := List.take_append_drop w.length bs
    rw [beq_iff_eq.mp hw, h] at this
    exact this.symm
  · simp only [hw] at h; cases h

/-! ## values: soundness -/

theorem members_prependWs {w ms : Bytes} (hw : Ws w) (h : JMembers ms) : JMembers (w ++ ms) := by
  cases h with
  | one hm =>
    cases hm with
    | mk h1 hs h2 he =>
      have := JMembers.one (JMember.mk (ws_append hw h1) hs h2 he)
      simpa [List.append_assoc] using this
  | cons hm hr =>
    cases hm with
    | mk h1 hs h2 he =>
      have := JMembers.cons (JMember.mk (ws_append hw h1) hs h2 he) hr
      simpa [List.append_assoc] using this

theorem elements_prependWs {w es : Bytes} (hw : Ws w) (h : JElements es) : JElements (w ++ es) := by
  cases h with
  | one he =>
    cases he with
    | mk h1 hv h2 =>
      have := JElements.one (JElement.mk (ws_append hw h1) hv h2)
      simpa [List.append_assoc] using this
  | cons he hr =>
    cases he with
    | mk h1 hv h2 =>
      have := JElements.cons (JElement.mk (ws_append hw h1) hv h2) hr
      simpa [List.append_assoc] using this

theorem sound_aux (fuel : Nat) :
    (∀ bs rest, value fuel bs = some rest → ∃ w v, Ws w ∧ JValue v ∧ bs = w ++ v ++ rest) ∧
    (∀ bs rest, members fuel bs = some rest → ∃ ms, JMembers ms ∧ bs = ms ++ 0x7d :: rest) ∧
    (∀ bs rest, elements fuel bs = some rest → ∃ es, JElements es ∧ bs = es ++ 0x5d :: rest) := by
  induction fuel with
  | zero => refine ⟨?_, ?_, ?_⟩ <;> intro bs rest h <;> simp [value, members, elements] at h
  | succ fuel ih =>
    obtain ⟨ihV, ihM, ihE⟩ := ih
    refine ⟨?_, ?_, ?_⟩
    · -- value
      intro bs rest h
      obtain ⟨w, hw, ebs⟩ := skipWs_sound bs
      simp only [value] at h
      cases hs : skipWs bs with
      | nil => rw [hs] at h; cases h
      | cons b r =>
        rw [hs] at h ebs
        simp only at h
        by_cases h1 : b = 0x22
        · -- string
          simp only [h1, if_true] at h
          obtain ⟨cs, hcs, e⟩ := strBody_sound _ _ h
          refine ⟨w, 0x22 :: (cs ++ [0x22]), hw, .string (.mk hcs), ?_⟩
          rw [ebs, h1, e]; simp
        simp only [h1, if_false] at h
        by_cases h2 : b = 0x7b
        · -- object
          simp only [h2, if_true] at h
          obtain ⟨w', hw', er⟩ := skipWs_sound r
          cases hs' : skipWs r with
          | nil => rw [hs'] at h; cases h
          | cons c r' =>
            rw [hs'] at h er
            simp only at h
            by_cases h3 : c = 0x7d
            · simp only [h3, if_true, Option.some.injEq] at h
              refine ⟨w, 0x7b :: (w' ++ [0x7d]), hw, .object (.empty hw'), ?_⟩
              rw [ebs, h2, er, h3, h]; simp
            · simp only [h3, if_false] at h
              obtain ⟨ms, hms, e⟩ := ihM _ _ h
              refine ⟨w, 0x7b :: ((w' ++ ms) ++ [0x7d]), hw, .object (.members (members_prependWs hw' hms)), ?_⟩
              rw [ebs, h2, er, e]; simp
        simp only [h2, if_false] at h
        by_cases h3 : b = 0x5b
        · -- array
          simp only [h3, if_true] at h
          obtain ⟨w', hw', er⟩ := skipWs_sound r
          cases hs' : skipWs r with
          | nil => rw [hs'] at h; cases h
          | cons c r' =>
            rw [hs'] at h er
            simp only at h
            by_cases h4 : c = 0x5d
            · simp only [h4, if_true, Option.some.injEq] at h
              refine ⟨w, 0x5b :: (w' ++ [0x5d]), hw, .array (.empty hw'), ?_⟩
              rw [ebs, h3, er, h4, h]; simp
            · simp only [h4, if_false] at h
              obtain ⟨es, hes, e⟩ := ihE _ _ h
              refine ⟨w, 0x5b :: ((w' ++ es) ++ [0x5d]), hw, .array (.elements (elements_prependWs hw' hes)), ?_⟩
              rw [ebs, h3, er, e]; simp
        simp only [h3, if_false] at h
        by_cases h4 : b = 0x74
        · simp only [h4, if_true] at h
          refine ⟨w, _, hw, .true_, ?_⟩
          rw [ebs, h4, lit_sound _ _ _ h]; simp
        simp only [h4, if_false] at h
        by_cases h5 : b = 0x66
        · simp only [h5, if_true] at h
          refine ⟨w, _, hw, .false_, ?_⟩
          rw [ebs, h5, lit_sound _ _ _ h]; simp
        simp only [h5, if_false] at h
        by_cases h6 : b = 0x6e
        · simp only [h6, if_true] at h
          refine ⟨w, _, hw, .null_, ?_⟩
          rw [ebs, h6, lit_sound _ _ _ h]; simp
        simp only [h6, if_false] at h
        by_cases h7 : b = 0x2d ∨ isDigit b = true
        · simp only [h7, if_true] at h
          obtain ⟨n, hn, e⟩ := number_sound _ _ h
          exact ⟨w, n, hw, .number hn, by rw [ebs, e]; simp⟩
        · simp only [h7, if_false] at h; cases h
    · -- members
      intro bs rest h
      obtain ⟨w1, hw1, ebs⟩ := skipWs_sound bs
      simp only [members] at h
      cases hs : skipWs bs with
      | nil => rw [hs] at h; cases h
      | cons b r =>
        rw [hs] at h ebs
        simp only at h
        by_cases h1 : b = 0x22
        · simp only [h1, ne_eq, not_true_eq_false, if_false] at h
          cases hsb : strBody r with
          | none => rw [hsb] at h; cases h
          | some r1 =>
            rw [hsb] at h
            simp only at h
            obtain ⟨cs, hcs, e1⟩ := strBody_sound _ _ hsb
            obtain ⟨w2, hw2, e2⟩ := skipWs_sound r1
            cases hs2 : skipWs r1 with
            | nil => rw [hs2] at h; cases h
            | cons c r2 =>
              rw [hs2] at h e2
              simp only at h
              by_cases h2 : c = 0x3a
              · simp only [h2, not_true_eq_false, if_false] at h
                cases hv : value fuel r2 with
                | none => rw [hv] at h; cases h
                | some r3 =>
                  rw [hv] at h
                  simp only at h
                  obtain ⟨w3, v, hw3, hv', e3⟩ := ihV _ _ hv
                  obtain ⟨w4, hw4, e4⟩ := skipWs_sound r3
                  have hmem : JMember (w1 ++ (0x22 :: (cs ++ [0x22])) ++ w2 ++ 0x3a :: (w3 ++ v ++ w4)) :=
                    .mk hw1 (.mk hcs) hw2 (.mk hw3 hv' hw4)
                  cases hs4 : skipWs r3 with
                  | nil => rw [hs4] at h; cases h
                  | cons d t =>
                    rw [hs4] at h e4
                    simp only at h
                    by_cases h3 : d = 0x2c
                    · simp only [h3, if_true] at h
                      obtain ⟨ms, hms, e5⟩ := ihM _ _ h
                      refine ⟨_, .cons hmem hms, ?_⟩
                      rw [ebs, h1, e1, e2, h2, e3, e4, h3, e5]; simp
                    simp only [h3, if_false] at h
                    by_cases h4 : d = 0x7d
                    · simp only [h4, if_true, Option.some.injEq] at h
                      refine ⟨_, .one hmem, ?_⟩
                      rw [ebs, h1, e1, e2, h2, e3, e4, h4, h]; simp
                    · simp only [h4, if_false] at h; cases h
              · simp [h2] at h
        · simp [h1] at h
    · -- elements
      intro bs rest h
      simp only [elements] at h
      cases hv : value fuel bs with
      | none => rw [hv] at h; cases h
      | some r =>
        rw [hv] at h
        simp only at h
        obtain ⟨w1, v, hw1, hv', e1⟩ := ihV _ _ hv
        obtain ⟨w2, hw2, e2⟩ := skipWs_sound r
        have hel : JElement (w1 ++ v ++ w2) := .mk hw1 hv' hw2
        cases hs : skipWs r with
        | nil => rw [hs] at h; cases h
        | cons d t =>
          rw [hs] at h e2
          simp only at h
          by_cases h3 : d = 0x2c
          · simp only [h3, if_true] at h
            obtain ⟨es, hes, e5⟩ := ihE _ _ h
            refine ⟨_, .cons hel hes, ?_⟩
            rw [e1, e2, h3, e5]; simp
          simp only [h3, if_false] at h
          by_cases h4 : d = 0x5d
          · simp only [h4, if_true, Option.some.injEq] at h
            refine ⟨_, .one hel, ?_⟩
            rw [e1, e2, h4, h]; simp
          · simp only [h4, if_false] at h; cases h

/-- **Soundness**: whatever the recogniser accepts is a JSON text of the grammar. -/
theorem valid_sound (bs : Bytes) (h : valid bs = true) : JText bs := by
  unfold valid at h
  cases hv : value (bs.length + 2) bs with
  | none => rw [hv] at h; cases h
  | some r =>
    rw [hv] at h
    simp only [List.isEmpty_iff] at h
    obtain ⟨w, v, hw, hv', e⟩ := (sound_aux _).1 _ _ hv
    obtain ⟨w2, hw2, e2⟩ := skipWs_sound r
    rw [h, List.append_nil] at e2
    have : JElement (w ++ v ++ w2) := .mk hw hv' hw2
    rw [e, e2]; exact this

/-! ## values: completeness -/

/-- what may follow a value in a JSON text: nothing, whitespace, `,` `}` `]` -/
def Delim : Bytes → Prop := HeadIs fun c => isWs c = true ∨ c = 0x2c ∨ c = 0x7d ∨ c = 0x5d

theorem Delim.numEnd {t : Bytes} (h : Delim t) : NumEnd' t := by
  refine HeadIs.mono h ?_
  intro c hc
  rcases hc with hc | hc | hc | hc
  · cases (wsByte_iff c).mp hc <;> decide
  all_goals (subst hc; decide)

theorem skipWs_ws {w : Bytes} (hw : Ws w) (c : UInt8) (r : Bytes) (hc : isWs c = false) : skipWs (w ++ c :: r) = c :: r := by
  induction hw with
  | nil => exact skipWs_nonws c r hc
  | cons hb _ ih => simp only [List.cons_append, skipWs, (wsByte_iff _).mpr hb, if_true]; exact ih

theorem skipWs_ws_nil {w : Bytes} (hw : Ws w) : skipWs w = [] := by
  induction hw with
  | nil => rfl
  | cons hb _ ih => simp only [skipWs, (wsByte_iff _).mpr hb, if_true]; exact ih

theorem skipWs_idem (bs : Bytes) : skipWs (skipWs bs) = skipWs bs := by
  induction bs with
  | nil => rfl
  | cons b r ih =>
    by_cases h : isWs b = true
    · simp only [skipWs, h, if_true]; exact ih
    · simp [skipWs, h]

theorem delim_ws_append {w t : Bytes} (hw : Ws w) (ht : Delim t) : Delim (w ++ t) := by
  cases hw with
  | nil => exact ht
  | cons hb _ => exact headIs_cons (Or.inl ((wsByte_iff _).mpr hb)) _

theorem delim_cons {d : UInt8} (hd : d = 0x2c ∨ d = 0x7d ∨ d = 0x5d) (t : Bytes) : Delim (d :: t) :=
  headIs_cons (Or.inr hd) _

theorem value_skip (f : Nat) (bs : Bytes) : value f (skipWs bs) = value f bs := by
  cases f with
  | zero => simp [value]
  | succ f => simp only [value, skipWs_idem]

theorem members_skip (f : Nat) (bs : Bytes) : members f (skipWs bs) = members f bs := by
  cases f with
  | zero => simp [members]
  | succ f => simp only [members, skipWs_idem]

theorem elements_skip (f : Nat) (bs : Bytes) : elements f (skipWs bs) = elements f bs := by
  cases f with
  | zero => simp [elements]
  | succ f => simp only [elements, value_skip]

/-- the dispatch of `value` on the first non-whitespace byte -/
theorem value_dispatch {w : Bytes} (hw : Ws w) (c : UInt8) (r : Bytes) (hc : isWs c = false) (fuel : Nat) :
    value (fuel + 1) (w ++ c :: r) =
      if c = 0x22 then strBody r
      else if c = 0x7b then
        (match skipWs r with
         | [] => none
         | c :: r => if c = 0x7d then some r else members fuel (c :: r))
      else if c = 0x5b then
        (match skipWs r with
         | [] => none
         | c :: r => if c = 0x5d then some r else elements fuel (c :: r))
      else if c = 0x74 then lit [0x72, 0x75, 0x65] r
      else if c = 0x66 then lit [0x61, 0x6c, 0x73, 0x65] r
      else if c = 0x6e then lit [0x75, 0x6c, 0x6c] r
      else if c = 0x2d ∨ isDigit c then number (c :: r)
      else none := by
  simp only [value, skipWs_ws hw c r hc]
  rfl

theorem lit_complete (w t : Bytes) : lit w (w ++ t) = some t := by simp [lit]

/-- the first byte of a value: not whitespace, not a closing bracket -/
theorem value_head {v : Bytes} (h : JValue v) : Head v := by
  cases h with
  | object h => cases h <;> exact ⟨_, _, rfl, by decide, by decide, by decide⟩
  | array h => cases h <;> exact ⟨_, _, rfl, by decide, by decide, by decide⟩
  | string h => cases h; exact ⟨_, _, rfl, by decide, by decide, by decide⟩
  | number h =>
    obtain ⟨c, r, e, hc⟩ := number_head h
    refine ⟨c, r, e, ?_⟩
    rcases hc with hc | hc
    · subst hc; exact ⟨by decide, by decide, by decide⟩
    · exact ⟨(digit_head_facts c hc).1, digit_ne hc _ (by decide), digit_ne hc _ (by decide)⟩
  | true_ => exact ⟨_, _, rfl, by decide, by decide, by decide⟩
  | false_ => exact ⟨_, _, rfl, by decide, by decide, by decide⟩
  | null_ => exact ⟨_, _, rfl, by decide, by decide, by decide⟩

theorem element_head {e : Bytes} (h : JElement e) (t : Bytes) : ∃ c r, skipWs (e ++ t) = c :: r ∧ c ≠ 0x5d := by
  cases h with
  | @mk w1 v w2 hw1 hv hw2 =>
    obtain ⟨c, r, e, hc, h1, _⟩ := value_head hv
    subst e
    refine ⟨c, r ++ w2 ++ t, ?_, h1⟩
    have := skipWs_ws hw1 c (r ++ w2 ++ t) hc
    simpa [List.append_assoc] using this

theorem elements_head {es : Bytes} (h : JElements es) (t : Bytes) : ∃ c r, skipWs (es ++ t) = c :: r ∧ c ≠ 0x5d := by
  cases h with
  | one he => exact element_head he t
  | cons he _ =>
    obtain ⟨c, r, e, hc⟩ := element_head he (0x2c :: _ ++ t)
    exact ⟨c, r, by simpa [List.append_assoc] using e, hc⟩

theorem member_head {m : Bytes} (h : JMember m) (t : Bytes) : ∃ c r, skipWs (m ++ t) = c :: r ∧ c ≠ 0x7d := by
  cases h with
  | @mk w1 s w2 e hw1 hs hw2 he =>
    cases hs with
    | @mk cs hcs =>
      refine ⟨0x22, cs ++ [0x22] ++ w2 ++ 0x3a :: e ++ t, ?_, by decide⟩
      have := skipWs_ws hw1 0x22 (cs ++ [0x22] ++ w2 ++ 0x3a :: e ++ t) (by decide)
      simpa [List.append_assoc] using this

theorem members_head {ms : Bytes} (h : JMembers ms) (t : Bytes) : ∃ c r, skipWs (ms ++ t) = c :: r ∧ c ≠ 0x7d := by
  cases h with
  | one hm => exact member_head hm t
  | cons hm _ =>
    obtain ⟨c, r, e, hc⟩ := member_head hm (0x2c :: _ ++ t)
    exact ⟨c, r, by simpa [List.append_assoc] using e, hc⟩

/-- induction hypotheses of the completeness proof, one per nonterminal -/
def PV (v : Bytes) : Prop := ∀ w t fuel, Ws w → Delim t → v.length ≤ fuel → value fuel (w ++ (v ++ t)) = some t
def PEl (e : Bytes) : Prop := ∀ fuel d t, (d = 0x2c ∨ d = 0x7d ∨ d = 0x5d) → e.length ≤ fuel →
  ∃ r, value fuel (e ++ d :: t) = some r ∧ skipWs r = d :: t
def PMem (m : Bytes) : Prop := ∀ fuel d t, (d = 0x2c ∨ d = 0x7d) → m.length ≤ fuel →
  members (fuel + 1) (m ++ d :: t) = if d = 0x2c then members fuel t else some t
def PM (ms : Bytes) : Prop := ∀ t fuel, ms.length + 1 ≤ fuel → members fuel (ms ++ 0x7d :: t) = some t
def PE (es : Bytes) : Prop := ∀ t fuel, es.length + 1 ≤ fuel → elements fuel (es ++ 0x5d :: t) = some t

theorem pv_string {s : Bytes} (h : JString s) : PV s := by
  intro w t fuel hw _ hf
  cases h with
  | mk hcs =>
    obtain ⟨f, rfl⟩ : ∃ f, fuel = f + 1 := ⟨fuel - 1, by simp at hf; omega⟩
    rw [List.cons_append, value_dispatch hw _ _ (by decide)]
    simp only [if_true, List.append_assoc, List.singleton_append]
    exact strBody_complete hcs t

theorem pv_number {n : Bytes} (h : JNumber n) : PV n := by
  intro w t fuel hw ht hf
  obtain ⟨c, r, e, hc⟩ := number_head h
  have hnum := number_complete h t ht.numEnd
  subst e
  obtain ⟨f, rfl⟩ : ∃ f, fuel = f + 1 := ⟨fuel - 1, by simp at hf; omega⟩
  have facts : isWs c = false ∧ c ≠ 0x22 ∧ c ≠ 0x7b ∧ c ≠ 0x5b ∧ c ≠ 0x74 ∧ c ≠ 0x66 ∧ c ≠ 0x6e := by
    rcases hc with hc | hc
    · subst hc; decide
    · exact digit_head_facts c hc
  rw [List.cons_append, value_dispatch hw _ _ facts.1]
  simp only [facts, hc, if_false, if_true]
  exact hnum

theorem pv_lit (c : UInt8) (l : Bytes)
    (hd : ∀ (f : Nat) (w r : Bytes), Ws w → value (f + 1) (w ++ c :: r) = lit l r) : PV (c :: l) := by
  intro w t fuel hw _ hf
  obtain ⟨f, rfl⟩ : ∃ f, fuel = f + 1 := ⟨fuel - 1, by simp at hf; omega⟩
  rw [List.cons_append, hd f w _ hw]
  exact lit_complete l t

theorem pv_object_empty {w' : Bytes} (hw' : Ws w') : PV (0x7b :: (w' ++ [0x7d])) := by
  intro w t fuel hw _ hf
  obtain ⟨f, rfl⟩ : ∃ f, fuel = f + 1 := ⟨fuel - 1, by simp at hf; omega⟩
  rw [List.cons_append, value_dispatch hw _ _ (by decide)]
  have : skipWs (w' ++ 0x7d :: t) = 0x7d :: t := skipWs_ws hw' 0x7d t (by decide)
  simp [this]

theorem pv_array_empty {w' : Bytes} (hw' : Ws w') : PV (0x5b :: (w' ++ [0x5d])) := by
  intro w t fuel hw _ hf
  obtain ⟨f, rfl⟩ : ∃ f, fuel = f + 1 := ⟨fuel - 1, by simp at hf; omega⟩
  rw [List.cons_append, value_dispatch hw _ _ (by decide)]
  have : skipWs (w' ++ 0x5d :: t) = 0x5d :: t := skipWs_ws hw' 0x5d t (by decide)
  simp [this]

theorem pv_object_members {ms : Bytes} (h : JMembers ms) (ih : PM ms) : PV (0x7b :: (ms ++ [0x7d])) := by
  intro w t fuel hw _ hf
  obtain ⟨f, rfl⟩ : ∃ f, fuel = f + 1 := ⟨fuel - 1, by simp at hf; omega⟩
  rw [List.cons_append, value_dispatch hw _ _ (by decide)]
  have e : ms ++ [0x7d] ++ t = ms ++ 0x7d :: t := by simp
  obtain ⟨c, r, hs, hc⟩ := members_head h (0x7d :: t)
  have hm := ih t f (by simp at hf; omega)
  rw [← members_skip, hs] at hm
  simp [e, hs, hc, hm]

theorem pv_array_elements {es : Bytes} (h : JElements es) (ih : PE es) : PV (0x5b :: (es ++ [0x5d])) := by
  intro w t fuel hw _ hf
  obtain ⟨f, rfl⟩ : ∃ f, fuel = f + 1 := ⟨fuel - 1, by simp at hf; omega⟩
  rw [List.cons_append, value_dispatch hw _ _ (by decide)]
  have e : es ++ [0x5d] ++ t = es ++ 0x5d :: t := by simp
  obtain ⟨c, r, hs, hc⟩ := elements_head h (0x5d :: t)
  have hm := ih t f (by simp at hf; omega)
  rw [← elements_skip, hs] at hm
  simp [e, hs, hc, hm]

theorem pel_mk {w1 v w2 : Bytes} (hw1 : Ws w1) (hw2 : Ws w2) (ih : PV v) : PEl (w1 ++ v ++ w2) := by
  intro fuel d t hd hf
  refine ⟨w2 ++ d :: t, ?_, ?_⟩
  · have := ih w1 (w2 ++ d :: t) fuel hw1 (delim_ws_append hw2 (delim_cons hd t)) (by simp at hf; omega)
    simpa [List.append_assoc] using this
  · refine skipWs_ws hw2 d t ?_
    rcases hd with hd | hd | hd <;> subst hd <;> decide

theorem pmem_mk {w1 s w2 e : Bytes} (hw1 : Ws w1) (hs : JString s) (hw2 : Ws w2) (ih : PEl e) :
    PMem (w1 ++ s ++ w2 ++ 0x3a :: e) := by
  intro fuel d t hd hf
  cases hs with
  | @mk cs hcs =>
    obtain ⟨r, hv, hr⟩ := ih fuel d t (by rcases hd with hd | hd <;> simp [hd]) (by simp at hf ⊢; omega)
    have e1 : w1 ++ 0x22 :: (cs ++ [0x22]) ++ w2 ++ 0x3a :: e ++ d :: t
        = w1 ++ 0x22 :: (cs ++ 0x22 :: (w2 ++ 0x3a :: (e ++ d :: t))) := by simp
    rw [e1]
    simp only [members, skipWs_ws hw1 _ _ (show isWs 0x22 = false by decide), ne_eq, not_true_eq_false, if_false,
      strBody_complete hcs, skipWs_ws hw2 _ _ (show isWs 0x3a = false by decide), hv, hr]
    rcases hd with hd | hd <;> subst hd <;> simp

/-- every value of the grammar is read exactly by `value`, with fuel equal to its length -/
theorem value_complete {v : Bytes} (h : JValue v) : PV v := by
  refine JValue.rec (motive_1 := fun v _ => PV v) (motive_2 := fun v _ => PV v) (motive_3 := fun ms _ => PM ms)
    (motive_4 := fun m _ => PMem m) (motive_5 := fun v _ => PV v) (motive_6 := fun es _ => PE es)
    (motive_7 := fun e _ => PEl e) ?_ ?_ ?_ ?_ ?_ ?_ ?_ ?_ ?_ ?_ ?_ ?_ ?_ ?_ ?_ ?_ ?_ h
  · intro _ _ ih; exact ih
  · intro _ _ ih; exact ih
  · intro _ hs; exact pv_string hs
  · intro _ hn; exact pv_number hn
  · exact pv_lit 0x74 _ (fun f w r hw => by rw [value_dispatch hw _ _ (by decide)]; rfl)
  · exact pv_lit 0x66 _ (fun f w r hw => by rw [value_dispatch hw _ _ (by decide)]; rfl)
  · exact pv_lit 0x6e _ (fun f w r hw => by rw [value_dispatch hw _ _ (by decide)]; rfl)
  · intro _ hw; exact pv_object_empty hw
  · intro _ hms ih; exact pv_object_members hms ih
  · -- members: the last one
    intro m _ ih t fuel hf
    obtain ⟨f, rfl⟩ : ∃ f, fuel = f + 1 := ⟨fuel - 1, by omega⟩
    rw [ih f 0x7d t (Or.inr rfl) (by omega)]
    simp
  · -- members: one more
    intro m ms _ _ ihm ihms t fuel hf
    obtain ⟨f, rfl⟩ : ∃ f, fuel = f + 1 := ⟨fuel - 1, by omega⟩
    have e : m ++ 0x2c :: ms ++ 0x7d :: t = m ++ 0x2c :: (ms ++ 0x7d :: t) := by simp
    rw [e, ihm f 0x2c _ (Or.inl rfl) (by simp at hf; omega)]
    simp only [if_true]
    exact ihms t f (by simp at hf; omega)
  · intro _ _ _ _ hw1 hs hw2 _ ih; exact pmem_mk hw1 hs hw2 ih
  · intro _ hw; exact pv_array_empty hw
  · intro _ hes ih; exact pv_array_elements hes ih
  · -- elements: the last one
    intro e _ ih t fuel hf
    obtain ⟨f, rfl⟩ : ∃ f, fuel = f + 1 := ⟨fuel - 1, by omega⟩
    obtain ⟨r, hv, hr⟩ := ih f 0x5d t (Or.inr (Or.inr rfl)) (by omega)
    simp [elements, hv, hr]
  · -- elements: one more
    intro e es _ _ ihe ihes t fuel hf
    obtain ⟨f, rfl⟩ : ∃ f, fuel = f + 1 := ⟨fuel - 1, by omega⟩
    have e' : e ++ 0x2c :: es ++ 0x5d :: t = e ++ 0x2c :: (es ++ 0x5d :: t) := by simp
    obtain ⟨r, hv, hr⟩ := ihe f 0x2c (es ++ 0x5d :: t) (Or.inl rfl) (by simp at hf; omega)
    rw [e']
    simp only [elements, hv, hr, if_true]
    exact ihes t f (by simp at hf; omega)
  · intro _ _ _ hw1 _ hw2 ih; exact pel_mk hw1 hw2 ih

/-- **Completeness**: every JSON text of the grammar is accepted by the recogniser. -/
theorem valid_complete (bs : Bytes) (h : JText bs) : valid bs = true := by
  cases h with
  | @mk w1 v w2 hw1 hv hw2 =>
    have e : w1 ++ v ++ w2 = w1 ++ (v ++ w2) := by simp
    rw [e]
    have := value_complete hv w1 w2 ((w1 ++ (v ++ w2)).length + 2) hw1
      (by have := delim_ws_append hw2 (headIs_nil _); simpa using this) (by simp; omega)
    unfold valid
    rw [this]
    simp [skipWs_ws_nil hw2]

/-- the recogniser decides the grammar -/
theorem valid_iff (bs : Bytes) : valid bs = true ↔ JText bs := ⟨valid_sound bs, valid_complete bs⟩

/-! ## C13 restated over the grammar -/

theorem ws_mem {w : Bytes} (hw : Ws w) : ∀ b ∈ w, WsByte b := by
  induction hw with
  | nil => intro b hb; cases hb
  | cons h _ ih =>
    intro b hb
    rcases List.mem_cons.mp hb with e | hb
    · subst e; exact h
    · exact ih b hb

theorem getLast?_append_cons (x : Bytes) (b : UInt8) (w : Bytes) : (x ++ b :: w).getLast? = (b :: w).getLast? := by
  rw [List.getLast?_append, List.getLast?_cons]; rfl

/-- a value whose first byte is `{` is an object -/
theorem value_object_of_head {v : Bytes} (h : JValue v) (hh : v.head? = some 0x7b) : JObject v := by
  cases h with
  | object h => exact h
  | array h => cases h <;> simp at hh
  | string h => cases h; simp at hh
  | number h =>
    obtain ⟨c, r, e, hc⟩ := number_head h
    subst e
    simp only [List.head?_cons, Option.some.injEq] at hh
    subst hh
    rcases hc with hc | hc <;> exact absurd hc (by decide)
  | true_ => simp at hh
  | false_ => simp at hh
  | null_ => simp at hh

/-- a JSON text that begins with `{` and ends with `}` is one JSON object, with no whitespace around it -/
theorem text_object_of_braces (body : Bytes) (h : JText (0x7b :: (body ++ [0x7d]))) : JObject (0x7b :: (body ++ [0x7d])) := by
  generalize e : 0x7b :: (body ++ [0x7d]) = bs at h
  cases h with
  | @mk w1 v w2 hw1 hv hw2 =>
    -- no leading whitespace: the first byte is `{`
    have e1 : w1 = [] := by
      cases hw1 with
      | nil => rfl
      | cons hb _ =>
        simp only [List.cons_append, List.cons.injEq] at e
        have := (wsByte_iff _).mpr hb
        rw [← e.1] at this
        exact absurd this (by decide)
    -- no trailing whitespace: the last byte is `}`
    have e2 : w2 = [] := by
      cases w2 with
      | nil => rfl
      | cons b w =>
        have hl : (0x7b :: (body ++ [0x7d])).getLast? = some 0x7d := by
          rw [← List.cons_append, List.getLast?_concat]
        rw [e, getLast?_append_cons] at hl
        have := (wsByte_iff _).mpr (ws_mem hw2 _ (List.mem_of_getLast? hl))
        exact absurd this (by decide)
    subst e1 e2
    simp only [List.nil_append, List.append_nil] at e ⊢
    refine value_object_of_head hv ?_
    rw [← e]; rfl

/-- if the recogniser accepts `{` … `}` then it is an object of the grammar -/
theorem object_of_valid (body : Bytes) (h : valid (0x7b :: (body ++ [0x7d])) = true) : JObject (0x7b :: (body ++ [0x7d])) :=
  text_object_of_braces body (valid_sound _ h)

theorem formatJSON_braces (f : Format.Fmt) (m : FlowMsg) :
    ∃ body, Format.formatJSON f m = 0x7b :: (body ++ [0x7d]) := ⟨_, rfl⟩

/-- **C13 over the grammar.** The JSON form of a message is one JSON object of RFC 8259 — exactly an object, with no
    surrounding whitespace — for every formatter whose printed names need no escaping and every message in which a
    field that carries a list is printed as an array. -/
theorem formatJSON_is_json_object (f : Format.Fmt) (m : FlowMsg) (hn : namesOK f = true) (hl : listsAreSlices f m = true) :
    JObject (Format.formatJSON f m) :=
  object_of_valid _ (formatJSON_valid_sharp f m hn hl)

/-- the same with the (weaker, also decidable) shape condition of `formatJSON_valid` -/
theorem formatJSON_is_json_object_of_shape (f : Format.Fmt) (m : FlowMsg) (hn : namesOK f = true) (hs : shapeOK f m = true) :
    JObject (Format.formatJSON f m) :=
  object_of_valid _ (formatJSON_valid f m hn hs)

/-- a JSON object is a JSON value is a JSON text -/
theorem text_of_object {bs : Bytes} (h : JObject bs) : JText bs := by
  have : JElement ([] ++ bs ++ []) := .mk .nil (.object h) .nil
  simpa [JText] using this

theorem formatJSON_is_json_text (f : Format.Fmt) (m : FlowMsg) (hn : namesOK f = true) (hl : listsAreSlices f m = true) :
    JText (Format.formatJSON f m) :=
  text_of_object (formatJSON_is_json_object f m hn hl)

/-- **C13 for the default configuration, unconditionally**: every message's JSON form is one JSON object. -/
theorem default_is_json_object (m : FlowMsg) : JObject (Format.formatJSON defaultFmt m) :=
  object_of_valid _ (default_valid m)

/-- the quoting function writes a JSON string of the grammar, for every byte string -/
theorem jsonQuote_is_json_string (v : Bytes) : JString (Format.jsonQuote v) := by
  obtain ⟨body, e, h⟩ := jsonQuote_valid v []
  obtain ⟨cs, hcs, e'⟩ := strBody_sound _ _ h
  rw [List.append_nil] at e'
  rw [e, e']
  exact .mk hcs

/-- the decimal printer writes a JSON number of the grammar -/
theorem decimal_is_json_number (n : Nat) : JNumber (Format.decimal n) := by
  obtain ⟨k, hk, e⟩ := number_sound _ _ (number_decimal n [] trivial)
  simp only [List.append_nil] at e
  rw [e]; exact hk

/-! ## non-vacuity

The recogniser side is checked by evaluation (`decide`; `decide +kernel` where the well-founded `strBody` has to be
unfolded by the kernel); the grammar side by explicit derivations, and — through `valid_complete` — by refutations. -/

section examples

/-- `{"a":1}` -/
def exObj : Bytes := [0x7b, 0x22, 0x61, 0x22, 0x3a, 0x31, 0x7d]
/-- `{"a":01}`: leading zero -/
def exLeadingZero : Bytes := [0x7b, 0x22, 0x61, 0x22, 0x3a, 0x30, 0x31, 0x7d]
/-- `{"a":"\x1f"}` with a raw control byte inside the string -/
def exControl : Bytes := [0x7b, 0x22, 0x61, 0x22, 0x3a, 0x22, 0x1f, 0x22, 0x7d]
/-- `{,}` -/
def exComma : Bytes := [0x7b, 0x2c, 0x7d]
/-- `{"a":1}x`: trailing garbage -/
def exTrailing : Bytes := [0x7b, 0x22, 0x61, 0x22, 0x3a, 0x31, 0x7d, 0x78]
/-- `{"a":1} {}`: two texts -/
def exTwo : Bytes := [0x7b, 0x22, 0x61, 0x22, 0x3a, 0x31, 0x7d, 0x20, 0x7b, 0x7d]
/-- ` [ -0.5e+1 , null ]` followed by a newline -/
def exArr : Bytes := [0x20, 0x5b, 0x20, 0x2d, 0x30, 0x2e, 0x35, 0x65, 0x2b, 0x31, 0x20, 0x2c, 0x20, 0x6e, 0x75, 0x6c, 0x6c, 0x20, 0x5d, 0x0a]
/-- `"¯\n"` -/
def exStr : Bytes := [0x22, 0x5c, 0x75, 0x30, 0x30, 0x61, 0x46, 0x5c, 0x6e, 0x22]

example : valid exObj = true := by decide +kernel
example : valid exArr = true := by decide
example : valid exStr = true := by decide +kernel
example : valid [0x7b, 0x7d] = true := by decide
example : valid [0x5b, 0x20, 0x5d] = true := by decide
example : valid [0x2d, 0x30] = true := by decide                       -- -0
example : valid [0x31, 0x45, 0x35] = true := by decide                 -- 1E5
example : valid exLeadingZero = false := by decide +kernel
example : valid exControl = false := by decide +kernel
example : valid exComma = false := by decide
example : valid exTrailing = false := by decide +kernel
example : valid exTwo = false := by decide +kernel
example : valid [] = false := by decide
example : valid [0x30, 0x31] = false := by decide                      -- 01
example : valid [0x31, 0x2e] = false := by decide                      -- 1.
example : valid [0x2e, 0x35] = false := by decide                      -- .5
example : valid [0x2b, 0x31] = false := by decide                      -- +1
example : valid [0x5b, 0x31, 0x2c, 0x5d] = false := by decide          -- [1,]
example : valid [0x74, 0x72, 0x75] = false := by decide                -- tru

/-- an explicit derivation of `{"a":1}` as a JSON object -/
theorem exObj_object : JObject exObj :=
  .members (ms := [0x22, 0x61, 0x22, 0x3a, 0x31])
    (.one
      (.mk (w1 := []) (s := [0x22, 0x61, 0x22]) (w2 := []) (e := [0x31])
        .nil
        (.mk (cs := [0x61]) (.cons (c := [0x61]) (cs := []) (.unescaped ⟨by decide, by decide, by decide⟩) .nil))
        .nil
        (.mk (w1 := []) (v := [0x31]) (w2 := []) .nil
          (.number (.mk (m := []) (i := [0x31]) (f := []) (e := []) .none (.nonzero ⟨by decide, by decide⟩ .nil) .none .none))
          .nil)))

theorem exObj_text : JText exObj := text_of_object exObj_object

/-- an explicit derivation of ` [ -0.5e+1 , null ]\n` as a JSON text: whitespace in every place the grammar allows it,
    and a number with all four parts -/
theorem exArr_text : JText exArr :=
  have sp : Ws [0x20] := .cons .space .nil
  have num : JNumber [0x2d, 0x30, 0x2e, 0x35, 0x65, 0x2b, 0x31] :=
    .mk (m := [0x2d]) (i := [0x30]) (f := [0x2e, 0x35]) (e := [0x65, 0x2b, 0x31])
      (.some .mk) .zero
      (.some (.mk (.mk (d := 0x35) ⟨by decide, by decide⟩ .nil)))
      (.some (.lower (s := [0x2b]) (ds := [0x31]) (.some .plus) (.mk (d := 0x31) ⟨by decide, by decide⟩ .nil)))
  have e1 : JElement [0x20, 0x2d, 0x30, 0x2e, 0x35, 0x65, 0x2b, 0x31, 0x20] :=
    .mk (w1 := [0x20]) (v := [0x2d, 0x30, 0x2e, 0x35, 0x65, 0x2b, 0x31]) (w2 := [0x20]) sp (.number num) sp
  have e2 : JElement [0x20, 0x6e, 0x75, 0x6c, 0x6c, 0x20] :=
    .mk (w1 := [0x20]) (v := [0x6e, 0x75, 0x6c, 0x6c]) (w2 := [0x20]) sp .null_ sp
  have arr : JArray [0x5b, 0x20, 0x2d, 0x30, 0x2e, 0x35, 0x65, 0x2b, 0x31, 0x20, 0x2c, 0x20, 0x6e, 0x75, 0x6c, 0x6c, 0x20, 0x5d] :=
    .elements (es := [0x20, 0x2d, 0x30, 0x2e, 0x35, 0x65, 0x2b, 0x31, 0x20, 0x2c, 0x20, 0x6e, 0x75, 0x6c, 0x6c, 0x20])
      (.cons (e := [0x20, 0x2d, 0x30, 0x2e, 0x35, 0x65, 0x2b, 0x31, 0x20]) (es := [0x20, 0x6e, 0x75, 0x6c, 0x6c, 0x20]) e1 (.one e2))
  JElement.mk (w1 := [0x20])
    (v := [0x5b, 0x20, 0x2d, 0x30, 0x2e, 0x35, 0x65, 0x2b, 0x31, 0x20, 0x2c, 0x20, 0x6e, 0x75, 0x6c, 0x6c, 0x20, 0x5d])
    (w2 := [0x0a]) sp (.array arr) (.cons .lf .nil)

/-- the grammar rejects what it should: by completeness, a derivation would make the recogniser accept -/
theorem not_text_of_invalid {bs : Bytes} (h : valid bs = false) : ¬ JText bs :=
  fun ht => by rw [valid_complete bs ht] at h; cases h

example : ¬ JText exLeadingZero := not_text_of_invalid (by decide +kernel)
example : ¬ JText exControl := not_text_of_invalid (by decide +kernel)
example : ¬ JText exComma := not_text_of_invalid (by decide)
example : ¬ JText exTrailing := not_text_of_invalid (by decide +kernel)
example : ¬ JText exTwo := not_text_of_invalid (by decide +kernel)
example : ¬ JText [] := not_text_of_invalid (by decide)

end examples

end Goflow.C13.Grammar

section axioms
open Goflow.C13.Grammar
#print axioms valid_sound
#print axioms valid_complete
#print axioms valid_iff
#print axioms formatJSON_is_json_object
#print axioms default_is_json_object
#print axioms jsonQuote_is_json_string
#print axioms decimal_is_json_number
#print axioms exArr_text
end axioms
