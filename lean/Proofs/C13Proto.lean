import Goflow.Format.Formatter
import Proofs.C13
/-!
  C13 — the binary form parses back to the same message.

  A specification-side protobuf reader (`scanFields`, `unmarshal`), written from the protobuf
  encoding rules and the column table only, and the theorem that it inverts `marshal` on every
  message of the documented domain (`MsgOK`): `unmarshal_marshal`, and with `frame_split` the whole
  stream (`stream_roundtrip`).
-/
namespace Goflow.C13
open Goflow Goflow.Format Goflow.Producer

/-! ### the reader -/

/-- one field on the wire: (field number, wire type, payload of a length-delimited field, value of a
    varint field). The unused component is `[]` / `0`. -/
abbrev Field := Nat × Nat × Bytes × Nat

def Field.num (f : Field) : Nat := f.1
def Field.wt (f : Field) : Nat := f.2.1
def Field.payload (f : Field) : Bytes := f.2.2.1
def Field.value (f : Field) : Nat := f.2.2.2

/-- protowire.ConsumeVarint: at most ten bytes, the value must fit 64 bits -/
def readVarint (b : Bytes) : Option (Nat × Bytes) :=
  match consumeVarint 10 b with
  | some (v, r) => if v < 2 ^ 64 then some (v, r) else none
  | none => none

/-- generic wire-format scan: (field number, wire type, payload, value); `none` on malformed input
    (bad varint, field number 0, a wire type other than 0 / 2, a length running past the end) -/
def scanFields : Nat → Bytes → Option (List Field)
  | _, [] => some []
  | 0, _ => none
  | fuel + 1, b =>
    match readVarint b with
    | none => none
    | some (tag, r) =>
      let num := tag / 8
      let wt := tag % 8
      if num = 0 then none
      else if wt = 0 then
        match readVarint r with
        | none => none
        | some (v, r') =>
          match scanFields fuel r' with
          | none => none
          | some fs => some ((num, 0, [], v) :: fs)
      else if wt = 2 then
        match readVarint r with
        | none => none
        | some (n, r') =>
          if r'.length < n then none else
          match scanFields fuel (r'.drop n) with
          | none => none
          | some fs => some ((num, 2, r'.take n, 0) :: fs)
      else none

/-- the wire form of one field -/
def encodeField (f : Field) : Bytes :=
  if f.wt = 0 then appendTag f.num 0 ++ appendVarint f.value
  else appendTag f.num 2 ++ appendVarint f.payload.length ++ f.payload

def encodeFields (fs : List Field) : Bytes := fs.flatMap encodeField

/-- the column with a field number -/
def colOf (num : Nat) : Option Column := flowMessageColumns.find? (fun c => c.num == num)

/-- does the message type know this field (number known, wire type acceptable for the column kind)? -/
def isKnown (f : Field) : Bool :=
  match colOf f.num with
  | none => false
  | some c =>
    if c.kind = "u32" ∨ c.kind = "u64" then f.wt == 0
    else if c.kind = "listU32" then f.wt == 0 || f.wt == 2
    else f.wt == 2

/-- the varints of a packed payload -/
def unpack : Nat → Bytes → Option (List Nat)
  | _, [] => some []
  | 0, _ => none
  | fuel + 1, b =>
    match readVarint b with
    | none => none
    | some (v, r) =>
      match unpack fuel r with
      | none => none
      | some vs => some (v :: vs)

/-- the fields carrying number `n`, in wire order -/
def fieldsOf (n : Nat) (fs : List Field) : List Field := fs.filter fun f => f.num == n

/-- scalar number column: the last varint occurrence wins, truncated to the column width; 0 when absent -/
def numOf (bits n : Nat) (fs : List Field) : Nat :=
  (fieldsOf n fs).foldl (fun acc f => if f.wt = 0 then f.value % 2 ^ bits else acc) 0

/-- scalar bytes column: the last length-delimited occurrence wins; empty when absent -/
def bytesOf (n : Nat) (fs : List Field) : Bytes :=
  (fieldsOf n fs).foldl (fun acc f => if f.wt = 2 then f.payload else acc) []

/-- repeated uint32: every occurrence contributes, a varint one element, a length-delimited one its
    packed elements; malformed packed payload: error -/
def elemsOf : List Field → Option (List Nat)
  | [] => some []
  | f :: fs =>
    match (if f.wt = 0 then some [f.value] else unpack (f.payload.length + 1) f.payload), elemsOf fs with
    | some a, some b => some (a.map (· % 2 ^ 32) ++ b)
    | _, _ => none

def numsOf (n : Nat) (fs : List Field) : Option (List Nat) := elemsOf (fieldsOf n fs)

/-- repeated bytes: the length-delimited occurrences in order -/
def bytessOf (n : Nat) (fs : List Field) : List Bytes :=
  ((fieldsOf n fs).filter fun f => f.wt == 2).map Field.payload

/-- fill one column of the message from the scanned fields -/
def fillCol (fs : List Field) (acc : Option FlowMsg) (c : Column) : Option FlowMsg :=
  match acc with
  | none => none
  | some m =>
    if c.kind = "u32" then some (m.setNum c.goName (numOf 32 c.num fs))
    else if c.kind = "u64" then some (m.setNum c.goName (numOf 64 c.num fs))
    else if c.kind = "bytes" then some (m.setBytes c.goName (bytesOf c.num fs))
    else if c.kind = "listU32" then
      match numsOf c.num fs with
      | none => none
      | some vs => some (m.setNums c.goName vs)
    else some (m.setBytess c.goName (bytessOf c.num fs))

/-- proto.Unmarshal into a FlowMsg: the known field numbers by the column table (last value wins for
    scalars, packed and unpacked encodings accepted for repeated numbers, repeated bytes appended in
    order), the fields the message type does not know re-encoded in order into `unk` -/
def unmarshal (b : Bytes) : Option FlowMsg :=
  match scanFields (b.length + 1) b with
  | none => none
  | some fs =>
    flowMessageColumns.foldl (fillCol fs) (some { unk := encodeFields (fs.filter fun f => !isKnown f) })

/-! ### the domain -/

/-- the unknown section is a well-formed sequence of fields in canonical encoding, none of them under a
    number of the message type -/
def UnkOK (unk : Bytes) : Prop :=
  match scanFields (unk.length + 1) unk with
  | none => False
  | some fs => encodeFields fs = unk ∧ ∀ f ∈ fs, colOf f.num = none

structure MsgOK (m : FlowMsg) : Prop where
  u32 : ∀ c ∈ flowMessageColumns, c.kind = "u32" → (m.getNum c.goName).getD 0 < 2 ^ 32
  u64 : ∀ c ∈ flowMessageColumns, c.kind = "u64" → (m.getNum c.goName).getD 0 < 2 ^ 64
  elems : ∀ c ∈ flowMessageColumns, c.kind = "listU32" → ∀ v ∈ (m.getNums c.goName).getD [], v < 2 ^ 32
  size : (marshal m).length < 2 ^ 64
  unk : UnkOK m.unk

/-! ### reader lemmas -/

theorem appendVarint_ne (v : Nat) (rest : Bytes) : appendVarint v ++ rest ≠ [] := by
  unfold appendVarint varint; split <;> simp

theorem appendVarint_length_pos (v : Nat) : 0 < (appendVarint v).length := by
  unfold appendVarint varint; split <;> simp

theorem readVarint_append (v : Nat) (rest : Bytes) (h : v < 2 ^ 64) :
    readVarint (appendVarint v ++ rest) = some (v, rest) := by
  unfold readVarint; rw [varint_roundtrip v rest h]; simp [h]

theorem readVarint_lt {b r : Bytes} {v : Nat} (h : readVarint b = some (v, r)) : v < 2 ^ 64 := by
  unfold readVarint at h
  split at h
  · split at h
    · simp at h; omega
    · simp at h
  · simp at h

/-- a field as the scan reports it -/
def FieldOK (f : Field) : Prop :=
  f.num ≠ 0 ∧ f.num * 8 + f.wt < 2 ^ 64 ∧
    ((f.wt = 0 ∧ f.payload = [] ∧ f.value < 2 ^ 64) ∨ (f.wt = 2 ∧ f.value = 0 ∧ f.payload.length < 2 ^ 64))

theorem scanFields_nil (fuel : Nat) : scanFields fuel [] = some [] := by cases fuel <;> rfl

theorem scanFields_ne (fuel : Nat) (b : Bytes) (h : b ≠ []) :
    scanFields (fuel + 1) b =
      match readVarint b with
      | none => none
      | some (tag, r) =>
        let num := tag / 8
        let wt := tag % 8
        if num = 0 then none
        else if wt = 0 then
          match readVarint r with
          | none => none
          | some (v, r') =>
            match scanFields fuel r' with
            | none => none
            | some fs => some ((num, 0, [], v) :: fs)
        else if wt = 2 then
          match readVarint r with
          | none => none
          | some (n, r') =>
            if r'.length < n then none else
            match scanFields fuel (r'.drop n) with
            | none => none
            | some fs => some ((num, 2, r'.take n, 0) :: fs)
        else none := by
  cases b with
  | nil => contradiction
  | cons x xs => rfl

theorem scan_cons (f : Field) (hf : FieldOK f) (fuel : Nat) (rest : Bytes) :
    scanFields (fuel + 1) (encodeField f ++ rest) =
      match scanFields fuel rest with
      | none => none
      | some fs => some (f :: fs) := by
  obtain ⟨num, wt, p, v⟩ := f
  obtain ⟨h0, ht, h | h⟩ := hf
  · obtain ⟨hw, hp, hv⟩ := h
    simp only [Field.num, Field.wt, Field.payload, Field.value] at h0 ht hw hp hv
    subst hw; subst hp
    simp only [encodeField, Field.num, Field.wt, Field.payload, Field.value, if_true, appendTag, List.append_assoc]
    rw [scanFields_ne _ _ (appendVarint_ne _ _), readVarint_append _ _ ht]
    have e1 : (num * 8 + 0) / 8 = num := by omega
    have e2 : (num * 8 + 0) % 8 = 0 := by omega
    simp only [e1, e2, h0, if_false, if_true]
    rw [readVarint_append _ _ hv]
  · obtain ⟨hw, hv, hp⟩ := h
    simp only [Field.num, Field.wt, Field.payload, Field.value] at h0 ht hw hp hv
    subst hw; subst hv
    have hw : ¬ ((2 : Nat) = 0) := by decide
    simp only [encodeField, Field.num, Field.wt, Field.payload, Field.value, hw, if_false, appendTag, List.append_assoc]
    rw [scanFields_ne _ _ (appendVarint_ne _ _), readVarint_append _ _ ht]
    have e1 : (num * 8 + 2) / 8 = num := by omega
    have e2 : (num * 8 + 2) % 8 = 2 := by omega
    simp only [e1, e2, h0, hw, if_false, if_true]
    rw [readVarint_append _ _ hp]
    have hl : ¬ ((p ++ rest).length < p.length) := by simp
    simp only [hl, if_false, List.drop_left, List.take_left]

theorem scan_encode (fs : List Field) (h : ∀ f ∈ fs, FieldOK f) (fuel : Nat) (hfu : fs.length < fuel) :
    scanFields fuel (encodeFields fs) = some fs := by
  induction fs generalizing fuel with
  | nil => exact scanFields_nil fuel
  | cons f fs ih =>
    cases fuel with
    | zero => simp at hfu
    | succ n =>
      have : encodeFields (f :: fs) = encodeField f ++ encodeFields fs := by simp [encodeFields]
      rw [this, scan_cons f (h f (by simp)) n, ih (fun g hg => h g (by simp [hg])) n (by simp at hfu; omega)]

theorem scan_ok (fuel : Nat) (b : Bytes) (fs : List Field) (h : scanFields fuel b = some fs) : ∀ f ∈ fs, FieldOK f := by
  induction fuel generalizing b fs with
  | zero =>
    cases b with
    | nil => simp [scanFields] at h; subst h; simp
    | cons x xs => simp [scanFields] at h
  | succ n ih =>
    by_cases hb : b = []
    · subst hb; rw [scanFields_nil] at h; simp at h; subst h; simp
    · rw [scanFields_ne _ _ hb] at h
      split at h
      · simp at h
      · rename_i tag r htag
        have hT := readVarint_lt htag
        dsimp only at h
        split at h
        · simp at h
        · rename_i hnum
          split at h
          · rename_i hwt
            split at h
            · simp at h
            · rename_i v r' hv
              have hV := readVarint_lt hv
              split at h
              · simp at h
              · rename_i fs' hfs
                simp only [Option.some.injEq] at h; subst h
                intro f hf
                rcases List.mem_cons.1 hf with rfl | hf
                · refine ⟨hnum, ?_, Or.inl ⟨rfl, rfl, hV⟩⟩
                  simp only [Field.num, Field.wt]; omega
                · exact ih _ _ hfs f hf
          · split at h
            · rename_i hwt
              split at h
              · simp at h
              · rename_i len r' hv
                have hV := readVarint_lt hv
                split at h
                · simp at h
                · rename_i hlen
                  split at h
                  · simp at h
                  · rename_i fs' hfs
                    simp only [Option.some.injEq] at h; subst h
                    intro f hf
                    rcases List.mem_cons.1 hf with rfl | hf
                    · refine ⟨hnum, ?_, Or.inr ⟨rfl, rfl, ?_⟩⟩
                      · simp only [Field.num, Field.wt]; omega
                      · simp only [Field.payload, List.length_take]; omega
                    · exact ih _ _ hfs f hf
            · simp at h

theorem encodeField_length_pos (f : Field) : 0 < (encodeField f).length := by
  unfold encodeField appendTag
  have h0 := appendVarint_length_pos (f.num * 8 + 0)
  have h2 := appendVarint_length_pos (f.num * 8 + 2)
  split <;> simp only [List.length_append] <;> omega

theorem length_le_encode (fs : List Field) : fs.length ≤ (encodeFields fs).length := by
  induction fs with
  | nil => simp
  | cons f fs ih =>
    have : encodeFields (f :: fs) = encodeField f ++ encodeFields fs := by simp [encodeFields]
    rw [this, List.length_append, List.length_cons]
    have := encodeField_length_pos f
    omega

theorem payload_le_encode (fs : List Field) (f : Field) (hf : f ∈ fs) (hw : f.wt ≠ 0) :
    f.payload.length ≤ (encodeFields fs).length := by
  induction fs with
  | nil => simp at hf
  | cons g fs ih =>
    have : encodeFields (g :: fs) = encodeField g ++ encodeFields fs := by simp [encodeFields]
    rw [this, List.length_append]
    rcases List.mem_cons.1 hf with rfl | hf
    · unfold encodeField; simp only [hw, if_false, List.length_append]; omega
    · have := ih hf; omega

theorem encodeFields_append (a b : List Field) : encodeFields (a ++ b) = encodeFields a ++ encodeFields b := by
  simp [encodeFields]

/-! ### `marshal` writes fields -/

/-- the fields `marshal` writes for one column -/
def colFields (m : FlowMsg) (c : Column) : List Field :=
  if c.kind = "u32" ∨ c.kind = "u64" then
    (if (m.getNum c.goName).getD 0 = 0 then [] else [(c.num, 0, [], (m.getNum c.goName).getD 0)])
  else if c.kind = "bytes" then
    (if ((m.getBytes c.goName).getD []).isEmpty then [] else [(c.num, 2, (m.getBytes c.goName).getD [], 0)])
  else if c.kind = "listU32" then
    (if ((m.getNums c.goName).getD []).isEmpty then []
     else [(c.num, 2, ((m.getNums c.goName).getD []).flatMap appendVarint, 0)])
  else ((m.getBytess c.goName).getD []).map fun b => (c.num, 2, b, 0)

def sortedCols : List Column := flowMessageColumns.mergeSort (fun a b => a.num ≤ b.num)

def knownFields (m : FlowMsg) : List Field := sortedCols.flatMap (colFields m)

theorem marshal_eq (m : FlowMsg) : marshal m = encodeFields (knownFields m) ++ m.unk := by
  unfold marshal knownFields encodeFields
  rw [List.flatMap_assoc]
  show List.flatMap _ sortedCols ++ m.unk = _
  congr 1
  congr 1
  funext c
  unfold colFields
  split
  · unfold pbVarintField
    split <;> simp [encodeField, Field.wt, Field.num, Field.value]
  · split
    · unfold pbBytesField
      split <;> simp [encodeField, Field.wt, Field.num, Field.payload]
    · split
      · unfold pbPacked
        split <;> simp [encodeField, Field.wt, Field.num, Field.payload]
      · unfold pbRepeatedBytes
        simp [List.flatMap_map, encodeField, Field.wt, Field.num, Field.payload]

theorem sortedCols_mem (c : Column) : c ∈ sortedCols ↔ c ∈ flowMessageColumns :=
  (List.mergeSort_perm _ _).mem_iff

theorem sortedCols_pairwise : sortedCols.Pairwise (fun a b => a.num ≠ b.num) := by
  have h : flowMessageColumns.Pairwise (fun a b => a.num ≠ b.num) := by
    have : (flowMessageColumns.map (·.num)).Nodup := by decide
    rw [List.nodup_iff_pairwise_ne, List.pairwise_map] at this
    exact this
  exact (List.Perm.pairwise_iff (fun h => Ne.symm h) (List.mergeSort_perm _ _)).2 h

theorem colOf_mem : ∀ c ∈ flowMessageColumns, colOf c.num = some c := by
  unfold colOf; decide

theorem num_ok : ∀ c ∈ flowMessageColumns, c.num ≠ 0 ∧ c.num * 8 + 2 < 2 ^ 64 := by decide

/-- what the fields of one column look like -/
theorem colFields_shape (m : FlowMsg) (c : Column) (f : Field) (hf : f ∈ colFields m c) :
    f.num = c.num ∧
      ((f.wt = 0 ∧ f.payload = [] ∧ f.value = (m.getNum c.goName).getD 0 ∧ (c.kind = "u32" ∨ c.kind = "u64")) ∨
       (f.wt = 2 ∧ f.value = 0 ∧ ¬ (c.kind = "u32" ∨ c.kind = "u64"))) := by
  unfold colFields at hf
  split at hf
  · rename_i hk
    split at hf
    · simp at hf
    · simp only [List.mem_singleton] at hf; subst hf
      exact ⟨rfl, Or.inl ⟨rfl, rfl, rfl, hk⟩⟩
  · rename_i hk
    split at hf
    · split at hf
      · simp at hf
      · simp only [List.mem_singleton] at hf; subst hf
        exact ⟨rfl, Or.inr ⟨rfl, rfl, hk⟩⟩
    · split at hf
      · split at hf
        · simp at hf
        · simp only [List.mem_singleton] at hf; subst hf
          exact ⟨rfl, Or.inr ⟨rfl, rfl, hk⟩⟩
      · simp only [List.mem_map] at hf
        obtain ⟨b, _, rfl⟩ := hf
        exact ⟨rfl, Or.inr ⟨rfl, rfl, hk⟩⟩

theorem mem_knownFields (m : FlowMsg) (f : Field) (hf : f ∈ knownFields m) :
    ∃ c ∈ flowMessageColumns, f ∈ colFields m c := by
  unfold knownFields at hf
  simp only [List.mem_flatMap] at hf
  obtain ⟨c, hc, hf⟩ := hf
  exact ⟨c, (sortedCols_mem c).1 hc, hf⟩

/-- the fields under the number of a column are the fields written for that column -/
theorem fieldsOf_flatMap (m : FlowMsg) (cols : List Column) (hp : cols.Pairwise (fun a b => a.num ≠ b.num))
    (c : Column) (hc : c ∈ cols) : fieldsOf c.num (cols.flatMap (colFields m)) = colFields m c := by
  have self : ∀ d : Column, fieldsOf d.num (colFields m d) = colFields m d := by
    intro d
    unfold fieldsOf
    rw [List.filter_eq_self]
    intro f hf
    simp [(colFields_shape m d f hf).1]
  have other : ∀ d : Column, d.num ≠ c.num → fieldsOf c.num (colFields m d) = [] := by
    intro d hd
    unfold fieldsOf
    rw [List.filter_eq_nil_iff]
    intro f hf
    simp [(colFields_shape m d f hf).1, hd]
  induction cols with
  | nil => simp at hc
  | cons d ds ih =>
    rw [List.pairwise_cons] at hp
    have app : fieldsOf c.num ((d :: ds).flatMap (colFields m)) =
        fieldsOf c.num (colFields m d) ++ fieldsOf c.num (ds.flatMap (colFields m)) := by
      simp [fieldsOf, List.flatMap_cons]
    rw [app]
    rcases List.mem_cons.1 hc with rfl | hc'
    · rw [self]
      have : fieldsOf c.num (ds.flatMap (colFields m)) = [] := by
        unfold fieldsOf
        rw [List.filter_eq_nil_iff]
        intro f hf
        simp only [List.mem_flatMap] at hf
        obtain ⟨e, he, hf⟩ := hf
        have := hp.1 e he
        simp [(colFields_shape m e f hf).1]
        exact fun h => this h.symm
      rw [this]; simp
    · rw [other d (hp.1 c hc'), ih hp.2 hc']; simp

/-! ### the columns read back -/

theorem unpack_nil (fuel : Nat) : unpack fuel [] = some [] := by cases fuel <;> rfl

theorem unpack_pack (vs : List Nat) (h : ∀ v ∈ vs, v < 2 ^ 64) (fuel : Nat) (hfu : vs.length < fuel) :
    unpack fuel (vs.flatMap appendVarint) = some vs := by
  induction vs generalizing fuel with
  | nil => exact unpack_nil fuel
  | cons v vs ih =>
    cases fuel with
    | zero => simp at hfu
    | succ n =>
      simp only [List.flatMap_cons]
      have hne := appendVarint_ne v (vs.flatMap appendVarint)
      have step : ∀ b : Bytes, b ≠ [] → unpack (n + 1) b =
          match readVarint b with
          | none => none
          | some (v, r) =>
            match unpack n r with
            | none => none
            | some vs => some (v :: vs) := by
        intro b hb
        cases b with
        | nil => contradiction
        | cons x xs => rfl
      rw [step _ hne, readVarint_append _ _ (h v (by simp))]
      simp only
      rw [ih (fun w hw => h w (by simp [hw])) n (by simp at hfu; omega)]

theorem length_le_pack (vs : List Nat) : vs.length ≤ (vs.flatMap appendVarint).length := by
  induction vs with
  | nil => simp
  | cons v vs ih =>
    simp only [List.flatMap_cons, List.length_append, List.length_cons]
    have := appendVarint_length_pos v
    omega

theorem map_mod_id (vs : List Nat) (h : ∀ v ∈ vs, v < 2 ^ 32) : vs.map (· % 2 ^ 32) = vs := by
  induction vs with
  | nil => rfl
  | cons v vs ih =>
    simp only [List.map_cons]
    rw [ih (fun w hw => h w (by simp [hw])), Nat.mod_eq_of_lt (h v (by simp))]

/-- the message `a` with column `c` taken from `m` -/
def copyCol (m : FlowMsg) (a : FlowMsg) (c : Column) : FlowMsg :=
  if c.kind = "u32" then a.setNum c.goName ((m.getNum c.goName).getD 0)
  else if c.kind = "u64" then a.setNum c.goName ((m.getNum c.goName).getD 0)
  else if c.kind = "bytes" then a.setBytes c.goName ((m.getBytes c.goName).getD [])
  else if c.kind = "listU32" then a.setNums c.goName ((m.getNums c.goName).getD [])
  else a.setBytess c.goName ((m.getBytess c.goName).getD [])

theorem copy_all (m : FlowMsg) : flowMessageColumns.foldl (copyCol m) { unk := m.unk } = m := by
  cases m; rfl

theorem fillCol_eq (m : FlowMsg) (h : MsgOK m) (fs : List Field) (c : Column) (hc : c ∈ flowMessageColumns)
    (hfs : fieldsOf c.num fs = colFields m c) (a : FlowMsg) :
    fillCol fs (some a) c = some (copyCol m a c) := by
  unfold fillCol copyCol
  simp only
  by_cases h32 : c.kind = "u32"
  · simp only [h32, if_true]
    congr 2
    unfold numOf
    rw [hfs]; unfold colFields
    simp only [h32, true_or, if_true]
    have := h.u32 c hc h32
    split
    · rename_i hz; simp [hz]
    · simp only [List.foldl_cons, List.foldl_nil, Field.wt, Field.value, if_true]
      exact Nat.mod_eq_of_lt this
  · simp only [h32, if_false]
    by_cases h64 : c.kind = "u64"
    · simp only [h64, if_true]
      congr 2
      unfold numOf
      rw [hfs]; unfold colFields
      simp only [h64, or_true, if_true]
      have := h.u64 c hc h64
      split
      · rename_i hz; simp [hz]
      · simp only [List.foldl_cons, List.foldl_nil, Field.wt, Field.value, if_true]
        exact Nat.mod_eq_of_lt this
    · simp only [h64, if_false]
      have hn : ¬ (c.kind = "u32" ∨ c.kind = "u64") := fun h => h.elim h32 h64
      by_cases hb : c.kind = "bytes"
      · simp only [if_pos hb]
        congr 2
        unfold bytesOf
        rw [hfs]; unfold colFields
        simp only [if_neg hn, if_pos hb]
        split
        · rename_i hz
          simp only [List.foldl_nil]
          exact (List.isEmpty_iff.1 hz).symm
        · simp [Field.wt, Field.payload]
      · simp only [if_neg hb]
        by_cases hl : c.kind = "listU32"
        · simp only [if_pos hl]
          unfold numsOf
          rw [hfs]; unfold colFields
          simp only [if_neg hn, if_neg hb, if_pos hl]
          have he := h.elems c hc hl
          have key : elemsOf (if ((m.getNums c.goName).getD []).isEmpty = true then []
              else [(c.num, 2, ((m.getNums c.goName).getD []).flatMap appendVarint, 0)]) =
              some ((m.getNums c.goName).getD []) := by
            split
            · rename_i hz
              simp only [elemsOf]
              rw [(List.isEmpty_iff.1 hz)]
            · simp only [elemsOf, Field.wt, Field.payload]
              have h2 : ¬ ((2 : Nat) = 0) := by decide
              simp only [h2, if_false]
              rw [unpack_pack _ (fun v hv => Nat.lt_trans (he v hv) (by decide)) _
                (Nat.lt_succ_of_le (length_le_pack _))]
              simp only [List.append_nil]
              rw [map_mod_id _ he]
          rw [key]
        · simp only [if_neg hl]
          congr 2
          unfold bytessOf
          rw [hfs]; unfold colFields
          simp only [if_neg hn, if_neg hb, if_neg hl]
          simp [List.filter_map, Function.comp_def, Field.wt, Field.payload]

theorem foldl_fill (fs : List Field) (g : FlowMsg → Column → FlowMsg) (cols : List Column)
    (h : ∀ c ∈ cols, ∀ a, fillCol fs (some a) c = some (g a c)) (a : FlowMsg) :
    cols.foldl (fillCol fs) (some a) = some (cols.foldl g a) := by
  induction cols generalizing a with
  | nil => rfl
  | cons c cs ih =>
    simp only [List.foldl_cons]
    rw [h c (by simp) a]
    exact ih (fun d hd => h d (by simp [hd])) _

/-! ### the theorem -/

theorem isKnown_known (m : FlowMsg) (f : Field) (hf : f ∈ knownFields m) : isKnown f = true := by
  obtain ⟨c, hc, hfc⟩ := mem_knownFields m f hf
  obtain ⟨hnum, hsh⟩ := colFields_shape m c f hfc
  unfold isKnown
  rw [hnum, colOf_mem c hc]
  simp only
  rcases hsh with ⟨hw, _, _, hk⟩ | ⟨hw, _, hk⟩
  · rw [if_pos hk, hw]; rfl
  · rw [if_neg hk, hw]; split <;> rfl

theorem unmarshal_marshal (m : FlowMsg) (h : MsgOK m) : unmarshal (marshal m) = some m := by
  have hu := h.unk
  unfold UnkOK at hu
  split at hu
  · exact hu.elim
  · rename_i ufs hscan
    obtain ⟨henc, hcol⟩ := hu
    have hufsOK := scan_ok _ _ _ hscan
    have hm : marshal m = encodeFields (knownFields m ++ ufs) := by
      rw [marshal_eq, encodeFields_append, henc]
    have hsize := h.size
    have hkOK : ∀ f ∈ knownFields m, FieldOK f := by
      intro f hf
      obtain ⟨c, hc, hfc⟩ := mem_knownFields m f hf
      obtain ⟨hnum, hsh⟩ := colFields_shape m c f hfc
      have hn := num_ok c hc
      rcases hsh with ⟨hw, hp, hv, hk⟩ | ⟨hw, hv, hk⟩
      · refine ⟨by rw [hnum]; exact hn.1, by rw [hnum, hw]; omega, Or.inl ⟨hw, hp, ?_⟩⟩
        rw [hv]
        rcases hk with hk | hk
        · exact Nat.lt_trans (h.u32 c hc hk) (by decide)
        · exact h.u64 c hc hk
      · refine ⟨by rw [hnum]; exact hn.1, by rw [hnum, hw]; exact hn.2, Or.inr ⟨hw, hv, ?_⟩⟩
        have := payload_le_encode (knownFields m) f hf (by rw [hw]; decide)
        rw [marshal_eq, List.length_append] at hsize
        omega
    have hscanAll : scanFields ((marshal m).length + 1) (marshal m) = some (knownFields m ++ ufs) := by
      rw [hm]
      apply scan_encode
      · intro f hf
        rcases List.mem_append.1 hf with hf | hf
        · exact hkOK f hf
        · exact hufsOK f hf
      · exact Nat.lt_succ_of_le (length_le_encode _)
    have hfilter : (knownFields m ++ ufs).filter (fun f => !isKnown f) = ufs := by
      rw [List.filter_append]
      have h1 : (knownFields m).filter (fun f => !isKnown f) = [] := by
        rw [List.filter_eq_nil_iff]
        intro f hf
        simp [isKnown_known m f hf]
      have h2 : ufs.filter (fun f => !isKnown f) = ufs := by
        rw [List.filter_eq_self]
        intro f hf
        simp [isKnown, hcol f hf]
      rw [h1, h2]; rfl
    have hfieldsOf : ∀ c ∈ flowMessageColumns, fieldsOf c.num (knownFields m ++ ufs) = colFields m c := by
      intro c hc
      have h1 := fieldsOf_flatMap m sortedCols sortedCols_pairwise c ((sortedCols_mem c).2 hc)
      have h2 : fieldsOf c.num ufs = [] := by
        unfold fieldsOf
        rw [List.filter_eq_nil_iff]
        intro f hf hn
        have hn' : f.num = c.num := by simpa using hn
        have := hcol f hf
        rw [hn', colOf_mem c hc] at this
        cases this
      have : fieldsOf c.num (knownFields m ++ ufs) = fieldsOf c.num (knownFields m) ++ fieldsOf c.num ufs := by
        simp [fieldsOf]
      rw [this, h2, List.append_nil]
      exact h1
    unfold unmarshal
    rw [hscanAll]
    simp only
    rw [hfilter, henc,
      foldl_fill _ (copyCol m) _ (fun c hc a => fillCol_eq m h _ c hc (hfieldsOf c hc) a), copy_all]

/-! ### the stream -/

/-- the reader's side of a stream (protodelim.UnmarshalFrom in a loop): cut it into frames, unmarshal
    every frame; `none` if the framing or any frame is malformed -/
def readStream (s : Bytes) : Option (List FlowMsg) :=
  match splitFrames (s.length + 1) s with
  | none => none
  | some frames => frames.mapM unmarshal

theorem mapM_unmarshal (ms : List FlowMsg) (h : ∀ m ∈ ms, MsgOK m) :
    (ms.map marshal).mapM unmarshal = some ms := by
  induction ms with
  | nil => rfl
  | cons m ms ih =>
    rw [List.map_cons, List.mapM_cons, unmarshal_marshal m (h m (by simp)),
      ih (fun x hx => h x (by simp [hx]))]
    rfl

theorem length_le_frames (bodies : List Bytes) : bodies.length ≤ ((bodies.map frame).flatten).length := by
  induction bodies with
  | nil => simp
  | cons b bs ih =>
    simp only [List.map_cons, List.flatten_cons, List.length_append, List.length_cons, frame]
    have := appendVarint_length_pos b.length
    omega

/-- a stream of messages of the documented domain reads back as exactly these messages -/
theorem stream_roundtrip (ms : List FlowMsg) (h : ∀ m ∈ ms, MsgOK m) :
    readStream ((ms.map marshalBinary).flatten) = some ms := by
  have e : ms.map marshalBinary = (ms.map marshal).map frame := by
    simp [List.map_map, Function.comp_def, marshalBinary_is_frame]
  unfold readStream
  rw [e, frame_split (ms.map marshal) (by
      intro b hb
      obtain ⟨m, hm, rfl⟩ := List.mem_map.1 hb
      exact (h m hm).size) _ (Nat.lt_succ_of_le (length_le_frames _))]
  exact mapM_unmarshal ms h

/-! ### a concrete message -/

def exMsg : FlowMsg :=
  { type_ := 4, timeReceivedNs := 1700000000123456789, sequenceNum := 4294967295, samplingRate := 1000,
    samplerAddress := [10, 0, 0, 1], bytes := 18446744073709551615, packets := 3,
    srcAddr := [0x20, 0x01, 0x0d, 0xb8, 0, 0, 0, 0, 0, 0, 0, 0, 0, 0, 0, 1], dstAddr := [192, 0, 2, 7],
    etype := 0x86dd, proto := 6, srcPort := 443, dstPort := 51234, srcMac := 0x0000aabbccddeeff,
    asPath := [65000, 0, 4200000000], bgpCommunities := [300], mplsLabel := [16, 1048575], mplsTtl := [64, 63],
    mplsIp := [[10, 1, 1, 1], [], [10, 2, 2, 2]], layerStack := [0, 2, 5], layerSize := [14, 40, 20],
    ipv6RoutingHeaderAddresses := [[1, 2, 3]], ipv6RoutingHeaderSegLeft := 1,
    unk := appendTag 2000 0 ++ appendVarint 77 ++ appendTag 2001 2 ++ appendVarint 3 ++ [0x61, 0x62, 0x63] }

#eval marshal exMsg
#eval scanFields ((marshal exMsg).length + 1) (marshal exMsg)
#eval unmarshal (marshal exMsg) == some exMsg
#eval unmarshal (marshal {}) == some {}
-- unpacked repeated numbers, last-wins scalars, wrong wire type and unknown numbers
#eval (unmarshal (appendTag 102 0 ++ appendVarint 7 ++ appendTag 102 2 ++ [2, 8, 9] ++ appendTag 1 0 ++ [1] ++ appendTag 1 0 ++ [2]
        ++ appendTag 6 0 ++ [5] ++ appendTag 999 2 ++ [1, 0x41])).map fun m => (m.asPath, m.type_, m.srcAddr, m.unk)
#eval unmarshal [0x08]
#eval unmarshal [0x0d, 1, 2, 3, 4]

theorem flatMap_length_perm {α β} (f : α → List β) {l₁ l₂ : List α} (p : l₁.Perm l₂) :
    (l₁.flatMap f).length = (l₂.flatMap f).length := by
  rw [List.length_flatMap, List.length_flatMap]
  exact (p.map _).sum_nat

/-- the size of the encoding, column by column in table order -/
theorem marshal_length (m : FlowMsg) :
    (marshal m).length = ((flowMessageColumns.flatMap (colFields m)).flatMap encodeField).length + m.unk.length := by
  rw [marshal_eq, List.length_append]
  unfold encodeFields knownFields sortedCols
  rw [List.flatMap_assoc, List.flatMap_assoc]
  rw [flatMap_length_perm _ (List.mergeSort_perm flowMessageColumns _)]

theorem exMsg_ok : MsgOK exMsg where
  u32 := by decide
  u64 := by decide
  elems := by decide
  size := by rw [marshal_length]; set_option maxRecDepth 100000 in decide
  unk := by
    have hs : scanFields (exMsg.unk.length + 1) exMsg.unk = some [(2000, 0, [], 77), (2001, 2, [0x61, 0x62, 0x63], 0)] := by
      decide
    unfold UnkOK
    rw [hs]
    decide

example : unmarshal (marshal exMsg) = some exMsg := unmarshal_marshal exMsg exMsg_ok

#eval readStream (marshalBinary exMsg ++ marshalBinary {} ++ marshalBinary exMsg) == some [exMsg, {}, exMsg]
example : readStream (marshalBinary exMsg ++ (marshalBinary exMsg ++ [])) = some [exMsg, exMsg] :=
  stream_roundtrip [exMsg, exMsg] (by simp [exMsg_ok])

end Goflow.C13
