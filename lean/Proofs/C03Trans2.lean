import Goflow.Generated.NetflowDecT
import Goflow.Decoders.Netflow
import Proofs.Lemmas.GoPrims
import Proofs.Lemmas.Netflow
import Proofs.C05Trans
import Proofs.C03Trans
/-!
  C03 (translation tie, second part) — the NetFlow v9 / IPFIX wire decoder. The template-set and data-set decoders of
  decoders/netflow/netflow.go are regenerated into Lean on every run (Goflow/Generated/NetflowDecT.lean) and proved equal
  to the hand-written model of Goflow/Decoders/Netflow.lean, for EVERY byte string (and every template):

  * `decodeField_trans_eq`                    DecodeField            = `decodeField`
  * `decodeTemplateSet_trans_eq`              DecodeTemplateSet      = `decodeTemplateSet`
  * `decodeNFv9OptionsTemplateSet_trans_eq`   DecodeNFv9Options…     = `decodeNFv9OptionsTemplateSet`
  * `decodeIPFIXOptionsTemplateSet_trans_eq`  DecodeIPFIXOptions…    = `decodeIPFIXOptionsTemplateSet`
  * `decodeDataSetUsingFields_trans_eq`       DecodeDataSetUsingFields = `decodeDataSetUsingFields`
  * `decodeDataSet_trans_eq`                  DecodeDataSet          = `decodeDataSet`
  * `decodeOptionsDataSet_trans_eq`           DecodeOptionsDataSet   = `decodeOptionsDataSet`

  Each says: the same records (through the explicit maps `fieldOf`, `tplOf`, … from the generated typed structs to the
  model's), or the same error class; the translated body never panics (no store out of range into the `make`d slices)
  and its loops end within their fuel.
-/
set_option linter.unusedSimpArgs false
set_option linter.unusedVariables false
namespace Goflow.C03Trans2
open Goflow Goflow.Producer Goflow.Generated Goflow.Go Goflow.Netflow Goflow.C05Trans
open Goflow.C03Trans (fieldOf)

/-! ### the enterprise bit -/

theorem and_32768 (x : Nat) : x &&& 32768 = 32768 * (x / 32768 % 2) := by
  have h1 : (x &&& 32768) / 2^15 = x / 2^15 &&& 32768 / 2^15 := Nat.and_div_two_pow
  have h2 : (x &&& 32768) % 2^15 = x % 2^15 &&& 32768 % 2^15 := Nat.and_mod_two_pow
  have e1 : (32768 : Nat) / 2 ^ 15 = 2 ^ 1 - 1 := by decide
  have e2 : (32768 : Nat) % 2 ^ 15 = 0 := by decide
  rw [e1, Nat.and_two_pow_sub_one_eq_mod] at h1
  rw [e2, Nat.and_zero] at h2
  have e3 : (2 : Nat) ^ 15 = 32768 := by decide
  rw [e3] at h1 h2
  omega

theorem xor_32768 (x : Nat) (h1 : 32768 ≤ x) (h2 : x < 65536) : x ^^^ 32768 = x - 32768 := by
  apply Nat.eq_of_testBit_eq
  intro i
  rw [Nat.testBit_xor]
  have e : (32768 : Nat) = 2 ^ 15 := rfl
  obtain ⟨y, rfl⟩ : ∃ y, x = 2 ^ 15 + y := ⟨x - 32768, by omega⟩
  have hy : y < 2 ^ 15 := by omega
  rw [e, Nat.add_sub_cancel_left, Nat.testBit_two_pow]
  by_cases hi : i = 15
  · subst hi
    rw [Nat.testBit_two_pow_add_eq, Nat.testBit_lt_two_pow hy]
    simp
  · by_cases hlt : i < 15
    · rw [Nat.testBit_two_pow_add_gt hlt]
      simp [Ne.symm hi]
    · have hgt : 15 < i := by omega
      have hb : 2 ^ 15 + y < 2 ^ i := by
        have : 2 ^ 16 ≤ 2 ^ i := Nat.pow_le_pow_right (by decide) hgt
        omega
      have hb' : y < 2 ^ i := by omega
      rw [Nat.testBit_lt_two_pow hb, Nat.testBit_lt_two_pow hb']
      simp [Ne.symm hi]

/-- `t & 0x8000 != 0` is `t ≥ 0x8000` -/
theorem ent_iff (t : UInt16) : (t &&& 32768 ≠ 0) ↔ 0x8000 ≤ t.toNat := by
  rw [Ne, ← UInt16.toNat_inj, UInt16.toNat_and]
  have h : t.toNat < 65536 := t.toNat_lt
  show ¬ (t.toNat &&& 32768 = 0) ↔ _
  rw [and_32768]
  omega

/-- `t ^ 0x8000` clears the bit when it is set -/
theorem ent_xor (t : UInt16) (h : 0x8000 ≤ t.toNat) : (t ^^^ 32768).toNat = t.toNat - 0x8000 := by
  rw [UInt16.toNat_xor]
  exact xor_32768 _ h t.toNat_lt

/-! ### DecodeField -/

theorem readFields_22 {b : Bytes} (h : 4 ≤ b.length) :
    readFields [2, 2] b = .ok ([beNat (b.take 2), beNat ((b.drop 2).take 2)], b.drop 4) := by
  simp (disch := (first | omega | (simp only [List.length_drop]; omega))) only [readFields, readU_ok, List.drop_drop]

theorem readFields_22_short {b : Bytes} (h : b.length < 4) : readFields [2, 2] b = .error .eof :=
  readFields_err_of_lt _ _ (by simpa [sumW] using h)

theorem readFields_222 {b : Bytes} (h : 6 ≤ b.length) :
    readFields [2, 2, 2] b = .ok ([beNat (b.take 2), beNat ((b.drop 2).take 2), beNat ((b.drop 4).take 2)], b.drop 6) := by
  simp (disch := (first | omega | (simp only [List.length_drop]; omega))) only [readFields, readU_ok, List.drop_drop]

theorem readFields_222_short {b : Bytes} (h : b.length < 6) : readFields [2, 2, 2] b = .error .eof :=
  readFields_err_of_lt _ _ (by simpa [sumW] using h)

/-- the two 16-bit words at the front of a field specifier -/
def tyAt (b : Bytes) : UInt16 := UInt16.ofNat (beNat (b.take 2))
def lenAt (b : Bytes) : UInt16 := UInt16.ofNat (beNat ((b.drop 2).take 2))

theorem tyAt_drop2 (b : Bytes) : tyAt (b.drop 2) = lenAt b := rfl
theorem tyAt_toNat (b : Bytes) : (tyAt b).toNat = beNat (b.take 2) := u16_beNat b
theorem lenAt_toNat (b : Bytes) : (lenAt b).toNat = beNat ((b.drop 2).take 2) := u16_beNat (b.drop 2)

/-- DecodeField once its two words are there -/
theorem decodeField_unfold (b : Bytes) (pen : Bool) (h4 : 4 ≤ b.length) :
    TD.DecodeField b {} pen =
      if (pen && decide ((tyAt b &&& 32768) ≠ 0)) = true then
        Go.readU32 (b.drop 4) >>= fun r =>
          .ok (r.2, { PenProvided := true, «Type» := tyAt b ^^^ 32768, Length := lenAt b, Pen := r.1 })
      else .ok (b.drop 4, { «Type» := tyAt b, Length := lenAt b }) := by
  have h2 : 2 ≤ b.length := by omega
  have h2' : 2 ≤ (b.drop 2).length := by simp only [List.length_drop]; omega
  unfold TD.DecodeField
  rw [readU16_ok h2]
  simp only [ok_bind]
  rw [readU16_ok h2']
  simp only [ok_bind, List.drop_drop]
  rfl

theorem decodeField_short (b : Bytes) (pen : Bool) (f : TD.Field) (h4 : b.length < 4) :
    TD.DecodeField b f pen = .error .eof := by
  unfold TD.DecodeField
  by_cases h2 : 2 ≤ b.length
  · have h2' : (b.drop 2).length < 2 := by simp only [List.length_drop]; omega
    simp [readU16_ok h2, readU16_short h2']
  · simp [readU16_short (Nat.lt_of_not_le h2)]

/-- netflow.DecodeField on a zeroed field (every caller passes `Field{}`): the model's field specifier and the bytes that
    remain, or the EOF class -/
theorem decodeField_trans_eq (b : Bytes) (pen : Bool) :
    (TD.DecodeField b {} pen).map (fun r => (fieldOf r.2, r.1)) = decodeField pen b := by
  unfold decodeField
  by_cases h4 : 4 ≤ b.length
  · rw [readFields_22 h4, decodeField_unfold b pen h4]
    have ht := tyAt_toNat b
    have hl := lenAt_toNat b
    simp only
    by_cases hp : pen = true ∧ beNat (b.take 2) ≥ 0x8000
    · obtain ⟨hp1, hp2⟩ := hp
      have hbit : (tyAt b &&& 32768) ≠ 0 := (ent_iff _).2 (by rw [ht]; exact hp2)
      have hx := ent_xor (tyAt b) (by rw [ht]; exact hp2)
      rw [ht] at hx
      have hc : (pen && decide ((tyAt b &&& 32768) ≠ 0)) = true := by simp [hp1, hbit]
      rw [if_pos hc, if_pos ⟨hp1, hp2⟩]
      by_cases h8 : 8 ≤ b.length
      · have h4' : 4 ≤ (b.drop 4).length := by simp only [List.length_drop]; omega
        rw [readU32_ok h4', readU_ok h4']
        simp [Except.map, fieldOf, hx, hl, u32_beNat, beNat_take4_lt]
      · have h4' : (b.drop 4).length < 4 := by simp only [List.length_drop]; omega
        rw [readU32_short h4', readU_short h4']
        rfl
    · have hc : ¬ (pen && decide ((tyAt b &&& 32768) ≠ 0)) = true := by
        intro hc
        simp only [Bool.and_eq_true, decide_eq_true_eq] at hc
        exact hp ⟨hc.1, by have := (ent_iff _).1 hc.2; rwa [ht] at this⟩
      rw [if_neg hc, if_neg hp]
      simp [Except.map, fieldOf, ht, hl]
  · have h4' : b.length < 4 := by omega
    rw [readFields_22_short h4', decodeField_short b pen _ h4']
    rfl

/-- DecodeField takes at least the four bytes of the two words -/
theorem decodeField_progress {pen : Bool} {p p1 : Bytes} {f : Netflow.Field} (h : decodeField pen p = .ok (f, p1)) :
    p1.length + 4 ≤ p.length := by
  unfold decodeField at h
  by_cases h4 : 4 ≤ p.length
  · rw [readFields_22 h4] at h
    simp only at h
    split at h
    · by_cases h8 : 4 ≤ (p.drop 4).length
      · rw [readU_ok h8] at h
        simp only [Except.ok.injEq, Prod.mk.injEq] at h
        rw [← h.2]
        simp only [List.length_drop]
        omega
      · rw [readU_short (Nat.lt_of_not_le h8)] at h
        cases h
    · simp only [Except.ok.injEq, Prod.mk.injEq] at h
      rw [← h.2]
      simp only [List.length_drop]
      omega
  · rw [readFields_22_short (Nat.lt_of_not_le h4)] at h
    cases h

/-- from the equality through `Except.map`: what the model gives when the generated side is known -/
theorem map_ok {α β : Type} {φ : α → β} {g : Res α} {m : Res β} (h : g.map φ = m) {a : α} (hg : g = .ok a) : m = .ok (φ a) := by
  subst hg; exact h.symm
theorem map_err {α β : Type} {φ : α → β} {g : Res α} {m : Res β} (h : g.map φ = m) {e : Err} (hg : g = .error e) : m = .error e := by
  subst hg; exact h.symm

theorem decodeFieldsN_succ (pen : Bool) (k : Nat) (p : Bytes) :
    decodeFieldsN pen (k + 1) p =
      match decodeField pen p with
      | .error e => .error e
      | .ok (f, b1) =>
        match decodeFieldsN pen k b1 with
        | .error e => .error e
        | .ok (fs, b2) => .ok (f :: fs, b2) := rfl

theorem take_length_eq {α : Type} (l : List α) {n : Nat} (h : l.length = n) : l.take n = l := by
  subst h; simp

/-- the shape shared by the generated field loops (`for i := 0; i < n; i++ { field := Field{}; DecodeField(payload, &field,
    pen); fields[i] = field }`): they store the model's `decodeFieldsN pen (n - i)` from index `i` on, never out of range,
    and end within `len + 1` iterations -/
theorem fieldLoop_eq (pen : Bool) (n : Nat)
    (L : Nat → Bytes → Go.Error → List TD.Field → Nat → Res (Bytes × Go.Error × List TD.Field × Nat))
    (hs : ∀ fuel p e fs i, L (fuel + 1) p e fs i =
      if decide (i < n) = true then
        TD.DecodeField p {} pen >>= fun t => Go.setIdxL fs i t.2 >>= fun fs' => L fuel t.1 e fs' (i + 1)
      else .ok (p, e, fs, i)) :
    ∀ (fuel : Nat) (p : Bytes) (e : Go.Error) (fs : List TD.Field) (i : Nat), fs.length = n → i ≤ n → p.length < fuel →
      (∀ er, decodeFieldsN pen (n - i) p = .error er → L fuel p e fs i = .error er) ∧
      (∀ ms p', decodeFieldsN pen (n - i) p = .ok (ms, p') →
        ∃ gs, gs.map fieldOf = ms ∧ p'.length ≤ p.length ∧ L fuel p e fs i = .ok (p', e, fs.take i ++ gs, n)) := by
  intro fuel
  induction fuel with
  | zero => intro p e fs i _ _ h; omega
  | succ fuel ih =>
    intro p e fs i hlen hi hf
    rw [hs]
    by_cases hlt : i < n
    · obtain ⟨k, hk⟩ : ∃ k, n - i = k + 1 := ⟨n - i - 1, by omega⟩
      have hk' : n - (i + 1) = k := by omega
      rw [hk, decodeFieldsN_succ]
      simp only [hlt, decide_true, if_true]
      have hd := decodeField_trans_eq p pen
      cases hg : TD.DecodeField p {} pen with
      | error er =>
        rw [map_err hd hg]
        simp only [err_bind]
        exact ⟨fun er' h => (by cases h; rfl), fun ms p' h => (by cases h)⟩
      | ok r =>
        have hm := map_ok hd hg
        rw [hm]
        have hprog := decodeField_progress hm
        have hset : Go.setIdxL fs i r.2 = .ok (fs.set i r.2) := by simp [Go.setIdxL, hlen, hlt]
        simp only [ok_bind, hset]
        have := ih r.1 e (fs.set i r.2) (i + 1) (by simp [hlen]) (Nat.succ_le_of_lt hlt) (by omega)
        rw [hk'] at this
        obtain ⟨ihA, ihB⟩ := this
        constructor
        · intro er h
          cases hrec : decodeFieldsN pen k r.1 with
          | error er' => rw [hrec] at h; cases h; exact ihA _ hrec
          | ok v => rw [hrec] at h; cases h
        · intro ms p' h
          cases hrec : decodeFieldsN pen k r.1 with
          | error er' => rw [hrec] at h; cases h
          | ok v =>
            rw [hrec] at h
            obtain ⟨ms', p''⟩ := v
            simp only [Except.ok.injEq, Prod.mk.injEq] at h
            obtain ⟨rfl, rfl⟩ := h
            obtain ⟨gs, h1, h2, h3⟩ := ihB _ _ hrec
            refine ⟨r.2 :: gs, by simp [h1], by omega, ?_⟩
            rw [h3, take_set_succ _ _ _ (by omega : i < fs.length)]
            simp
    · have : i = n := by omega
      subst this
      have hz : decodeFieldsN pen (i - i) p = .ok ([], p) := by rw [Nat.sub_self]; rfl
      have hg : (if decide (i < i) = true then
          TD.DecodeField p {} pen >>= fun t => Go.setIdxL fs i t.2 >>= fun fs' => L fuel t.1 e fs' (i + 1)
        else .ok (p, e, fs, i)) = .ok (p, e, fs, i) := by simp
      rw [hz, hg]
      refine ⟨fun er h => (by cases h), fun ms p' h => ?_⟩
      cases h
      exact ⟨[], rfl, Nat.le_refl _, by simp [take_length_eq fs hlen]⟩

/-! ### DecodeTemplateSet -/

/-- the model's template record behind the generated `netflow.TemplateRecord` -/
def tplOf (r : TD.TemplateRecord) : Netflow.TemplateRecord := ⟨r.TemplateId.toNat, r.FieldCount.toNat, r.Fields.map fieldOf⟩

/-- the field loop of DecodeTemplateSet repeats the body of DecodeField inline (with `version == 10` for `pen`) -/
theorem templateLoop2_step (version : UInt16) (records : List TD.TemplateRecord) (tr : TD.TemplateRecord)
    (fuel : Nat) (p : Bytes) (e : Go.Error) (fs : List TD.Field) (i : Nat) :
    TD.DecodeTemplateSet_loop2 version records tr (fuel + 1) p e fs i =
      if decide (i < tr.FieldCount.toNat) = true then
        TD.DecodeField p {} (decide (version = 10)) >>= fun t => Go.setIdxL fs i t.2 >>= fun fs' =>
          TD.DecodeTemplateSet_loop2 version records tr fuel t.1 e fs' (i + 1)
      else .ok (p, e, fs, i) := by
  rw [TD.DecodeTemplateSet_loop2]
  by_cases hi : i < tr.FieldCount.toNat
  · rw [if_pos (by simpa using hi), if_pos (by simpa using hi)]
    unfold TD.DecodeField
    cases h1 : Go.readU16 p with
    | error er => rfl
    | ok t1 =>
      simp only [ok_bind]
      cases h2 : Go.readU16 t1.2 with
      | error er => rfl
      | ok t2 =>
        simp only [ok_bind]
        split
        · cases h3 : Go.readU32 t2.2 with
          | error er => rfl
          | ok t3 => rfl
        · rfl
  · rw [if_neg (by simpa using hi), if_neg (by simpa using hi)]

theorem u16_eq_10 (v : UInt16) : (v.toNat = 10) ↔ v = 10 := by
  rw [← UInt16.toNat_inj]; rfl

/-- the model's two field loops agree: DecodeTemplateSet's inline loop is `decodeFieldsN` with `pen := version == 10` -/
theorem decodeTemplateFields_eq (v : UInt16) (n : Nat) (b : Bytes) :
    decodeTemplateFields v.toNat n b = decodeFieldsN (decide (v = 10)) n b := by
  induction n generalizing b with
  | zero => rfl
  | succ n ih =>
    rw [decodeFieldsN_succ, decodeTemplateFields, decodeField]
    by_cases h4 : 4 ≤ b.length
    · rw [readFields_22 h4]
      simp only [ih, u16_eq_10, decide_eq_true_eq]
      split
      · cases readU 4 (b.drop 4) with
        | error er => rfl
        | ok r => rfl
      · rfl
    · rw [readFields_22_short (Nat.lt_of_not_le h4)]

/-- one iteration of `for payload.Len() >= 4` in DecodeTemplateSet, the header being there -/
theorem templateBody_unfold (v : UInt16) (b : Bytes) (recs : List TD.TemplateRecord) (e : Go.Error) (h4 : 4 ≤ b.length) :
    TD.DecodeTemplateSet_loop1_body v b recs e =
      TD.DecodeTemplateSet_loop2 v recs { TemplateId := tyAt b, FieldCount := lenAt b } (Go.loopFuel (b.drop 4)) (b.drop 4) none
          (List.replicate (lenAt b).toNat {}) 0 >>= fun t =>
        .ok (.next (t.1, recs ++ [{ TemplateId := tyAt b, FieldCount := lenAt b, Fields := t.2.2.1 }], t.2.1)) := by
  have h2 : 2 ≤ b.length := by omega
  have h2' : 2 ≤ (b.drop 2).length := by simp only [List.length_drop]; omega
  unfold TD.DecodeTemplateSet_loop1_body
  rw [if_pos (by simpa using h4), readU16_ok h2]
  simp only [ok_bind]
  rw [readU16_ok h2']
  simp only [ok_bind, List.drop_drop, Nat.not_lt_zero, decide_false, Bool.false_eq_true, if_false, Go.makeL]
  rfl

theorem templateBody_done (v : UInt16) (b : Bytes) (recs : List TD.TemplateRecord) (e : Go.Error) (h4 : ¬ 4 ≤ b.length) :
    TD.DecodeTemplateSet_loop1_body v b recs e = .ok (.brk (b, recs, e)) := by
  unfold TD.DecodeTemplateSet_loop1_body
  rw [if_neg (by simpa using h4)]

/-- the record loop of DecodeTemplateSet against the model, for any fuel above the number of bytes on either side -/
theorem templateLoop1_eq (v : UInt16) : ∀ (fuel mfuel : Nat) (b : Bytes) (recs : List TD.TemplateRecord),
    b.length < fuel → b.length < mfuel →
    (∀ er, decodeTemplateSet v.toNat mfuel b = .error er → TD.DecodeTemplateSet_loop1 v fuel b recs none = .error er) ∧
    (∀ ms, decodeTemplateSet v.toNat mfuel b = .ok ms →
      ∃ gs b', gs.map tplOf = ms ∧ TD.DecodeTemplateSet_loop1 v fuel b recs none = .ok (.brk (b', recs ++ gs, none))) := by
  intro fuel
  induction fuel with
  | zero => intro mfuel b recs h; omega
  | succ fuel ih =>
    intro mfuel b recs hf hm
    obtain ⟨m, rfl⟩ : ∃ m, mfuel = m + 1 := ⟨mfuel - 1, by omega⟩
    rw [TD.DecodeTemplateSet_loop1, decodeTemplateSet]
    by_cases h4 : 4 ≤ b.length
    · rw [templateBody_unfold v b recs none h4, if_pos h4, readFields_22 h4]
      simp only [decodeTemplateFields_eq, ← lenAt_toNat, ← tyAt_toNat, tyAt_drop2]
      have hl : (b.drop 4).length < Go.loopFuel (b.drop 4) := by simp [Go.loopFuel]
      obtain ⟨hA, hB⟩ := fieldLoop_eq (decide (v = 10)) (lenAt b).toNat
        (TD.DecodeTemplateSet_loop2 v recs { TemplateId := tyAt b, FieldCount := lenAt b })
        (templateLoop2_step v recs _) (Go.loopFuel (b.drop 4)) (b.drop 4) none (List.replicate (lenAt b).toNat {}) 0
        (by simp) (Nat.zero_le _) hl
      rw [Nat.sub_zero] at hA hB
      cases hfs : decodeFieldsN (decide (v = 10)) (lenAt b).toNat (b.drop 4) with
      | error er =>
        rw [hA _ hfs]
        exact ⟨fun er' h => (by cases h; rfl), fun ms h => (by cases h)⟩
      | ok r =>
        obtain ⟨fsM, p'⟩ := r
        obtain ⟨gs, h1, h2, h3⟩ := hB _ _ hfs
        rw [h3]
        simp only [ok_bind, List.take_zero, List.nil_append]
        have hlen : p'.length + 4 ≤ b.length := by simp only [List.length_drop] at h2; omega
        obtain ⟨ihA, ihB⟩ := ih m p' (recs ++ [{ TemplateId := tyAt b, FieldCount := lenAt b, Fields := gs }]) (by omega) (by omega)
        constructor
        · intro er h
          cases hrec : decodeTemplateSet v.toNat m p' with
          | error er' => rw [hrec] at h; cases h; exact ihA _ hrec
          | ok rs => rw [hrec] at h; cases h
        · intro ms h
          cases hrec : decodeTemplateSet v.toNat m p' with
          | error er' => rw [hrec] at h; cases h
          | ok rs =>
            rw [hrec] at h
            cases h
            obtain ⟨gs', b', e1, e2⟩ := ihB _ hrec
            refine ⟨{ TemplateId := tyAt b, FieldCount := lenAt b, Fields := gs } :: gs', b', ?_, ?_⟩
            · simp [tplOf, e1, h1]
            · rw [e2]; simp
    · rw [templateBody_done v b recs none h4, if_neg h4]
      simp only [ok_bind]
      exact ⟨fun er h => (by cases h), fun ms h => (by cases h; exact ⟨[], b, rfl, by simp⟩)⟩

/-- netflow.DecodeTemplateSet for every version and byte string: the model's template records (same ids, counts, field
    specifiers — the enterprise bit taken off and the enterprise number read only for version 10), or the model's error
    class; no `fields[i] = field` out of range, the loops end within their fuel -/
theorem decodeTemplateSet_trans_eq (v : UInt16) (b : Bytes) (fuel : Nat) (hf : b.length < fuel) :
    (TD.DecodeTemplateSet v b).map (fun r => r.2.map tplOf) = decodeTemplateSet v.toNat fuel b := by
  unfold TD.DecodeTemplateSet
  obtain ⟨hA, hB⟩ := templateLoop1_eq v (Go.loopFuel b) fuel b [] (by simp [Go.loopFuel]) hf
  simp only []
  cases hm : decodeTemplateSet v.toNat fuel b with
  | error er => rw [hA _ hm]; rfl
  | ok ms =>
    obtain ⟨gs, b', h1, h2⟩ := hB _ hm
    rw [h2]
    simp [Go.Ctl.elim, Except.map, h1]

/-! ### DecodeNFv9OptionsTemplateSet -/

def w3At (b : Bytes) : UInt16 := UInt16.ofNat (beNat ((b.drop 4).take 2))
theorem w3At_toNat (b : Bytes) : (w3At b).toNat = beNat ((b.drop 4).take 2) := u16_beNat (b.drop 4)

def v9optOf (r : TD.NFv9OptionsTemplateRecord) : Netflow.NFv9OptionsTemplateRecord :=
  ⟨r.TemplateId.toNat, r.ScopeLength.toNat, r.OptionLength.toNat, r.Scopes.map fieldOf, r.Options.map fieldOf⟩

/-- the record one iteration of DecodeNFv9OptionsTemplateSet appends -/
def v9Rec (b : Bytes) (sc op : List TD.Field) : TD.NFv9OptionsTemplateRecord :=
  { TemplateId := tyAt b, ScopeLength := lenAt b, OptionLength := w3At b, Scopes := sc, Options := op }

theorem tyAt_drop4 (b : Bytes) : tyAt (b.drop 4) = w3At b := rfl

theorem v9Loop2_step (records : List TD.NFv9OptionsTemplateRecord) (n fuel : Nat) (p : Bytes) (e : Go.Error) (fs : List TD.Field) (i : Nat) :
    TD.DecodeNFv9OptionsTemplateSet_loop2 records n (fuel + 1) p e fs i =
      if decide (i < n) = true then
        TD.DecodeField p {} false >>= fun t => Go.setIdxL fs i t.2 >>= fun fs' =>
          TD.DecodeNFv9OptionsTemplateSet_loop2 records n fuel t.1 e fs' (i + 1)
      else .ok (p, e, fs, i) := by
  rw [TD.DecodeNFv9OptionsTemplateSet_loop2]

theorem v9Loop3_step (records : List TD.NFv9OptionsTemplateRecord) (n fuel : Nat) (p : Bytes) (e : Go.Error) (fs : List TD.Field) (i : Nat) :
    TD.DecodeNFv9OptionsTemplateSet_loop3 records n (fuel + 1) p e fs i =
      if decide (i < n) = true then
        TD.DecodeField p {} false >>= fun t => Go.setIdxL fs i t.2 >>= fun fs' =>
          TD.DecodeNFv9OptionsTemplateSet_loop3 records n fuel t.1 e fs' (i + 1)
      else .ok (p, e, fs, i) := by
  rw [TD.DecodeNFv9OptionsTemplateSet_loop3]

/-- one iteration of `for payload.Len() >= 4` in DecodeNFv9OptionsTemplateSet, the three header words being there -/
theorem v9Body_unfold (b : Bytes) (recs : List TD.NFv9OptionsTemplateRecord) (e : Go.Error) (h6 : 6 ≤ b.length) :
    TD.DecodeNFv9OptionsTemplateSet_loop1_body b recs e =
      TD.DecodeNFv9OptionsTemplateSet_loop2 recs ((lenAt b).toNat / 4) (Go.loopFuel (b.drop 6)) (b.drop 6) none
          (List.replicate ((lenAt b).toNat / 4) {}) 0 >>= fun t =>
        TD.DecodeNFv9OptionsTemplateSet_loop3 recs ((w3At b).toNat / 4) (Go.loopFuel t.1) t.1 t.2.1
            (List.replicate ((w3At b).toNat / 4) {}) 0 >>= fun u =>
          .ok (.next (u.1, recs ++ [v9Rec b t.2.2.1 u.2.2.1], u.2.1)) := by
  have h2 : 2 ≤ b.length := by omega
  have h2' : 2 ≤ (b.drop 2).length := by simp only [List.length_drop]; omega
  have h2'' : 2 ≤ (b.drop 4).length := by simp only [List.length_drop]; omega
  unfold TD.DecodeNFv9OptionsTemplateSet_loop1_body
  rw [if_pos (by simp; omega), readU16_ok h2]
  simp only [ok_bind]
  rw [readU16_ok h2']
  simp only [ok_bind, List.drop_drop]
  rw [readU16_ok h2'']
  simp only [ok_bind, List.drop_drop, Nat.not_lt_zero, decide_false, Bool.false_eq_true, Bool.or_self, if_false, Go.makeL]
  rfl

theorem v9Body_short (b : Bytes) (recs : List TD.NFv9OptionsTemplateRecord) (e : Go.Error) (h4 : 4 ≤ b.length) (h6 : b.length < 6) :
    TD.DecodeNFv9OptionsTemplateSet_loop1_body b recs e = .error .eof := by
  have h2 : 2 ≤ b.length := by omega
  have h2' : 2 ≤ (b.drop 2).length := by simp only [List.length_drop]; omega
  have h2'' : (b.drop 4).length < 2 := by simp only [List.length_drop]; omega
  unfold TD.DecodeNFv9OptionsTemplateSet_loop1_body
  rw [if_pos (by simpa using h4), readU16_ok h2]
  simp only [ok_bind]
  rw [readU16_ok h2']
  simp only [ok_bind, List.drop_drop]
  rw [readU16_short h2'']
  rfl

theorem v9Body_done (b : Bytes) (recs : List TD.NFv9OptionsTemplateRecord) (e : Go.Error) (h4 : ¬ 4 ≤ b.length) :
    TD.DecodeNFv9OptionsTemplateSet_loop1_body b recs e = .ok (.brk (b, recs, e)) := by
  unfold TD.DecodeNFv9OptionsTemplateSet_loop1_body
  rw [if_neg (by simpa using h4)]

theorem v9Loop1_eq : ∀ (fuel mfuel : Nat) (b : Bytes) (recs : List TD.NFv9OptionsTemplateRecord),
    b.length < fuel → b.length < mfuel →
    (∀ er, decodeNFv9OptionsTemplateSet mfuel b = .error er → TD.DecodeNFv9OptionsTemplateSet_loop1 fuel b recs none = .error er) ∧
    (∀ ms, decodeNFv9OptionsTemplateSet mfuel b = .ok ms →
      ∃ gs b', gs.map v9optOf = ms ∧ TD.DecodeNFv9OptionsTemplateSet_loop1 fuel b recs none = .ok (.brk (b', recs ++ gs, none))) := by
  intro fuel
  induction fuel with
  | zero => intro mfuel b recs h; omega
  | succ fuel ih =>
    intro mfuel b recs hf hm
    obtain ⟨m, rfl⟩ : ∃ m, mfuel = m + 1 := ⟨mfuel - 1, by omega⟩
    rw [TD.DecodeNFv9OptionsTemplateSet_loop1, decodeNFv9OptionsTemplateSet]
    by_cases h4 : 4 ≤ b.length
    · rw [if_pos h4]
      by_cases h6 : 6 ≤ b.length
      · rw [v9Body_unfold b recs none h6, readFields_222 h6]
        simp only [← lenAt_toNat, ← tyAt_toNat, ← w3At_toNat, tyAt_drop2, tyAt_drop4]
        obtain ⟨hA, hB⟩ := fieldLoop_eq false ((lenAt b).toNat / 4) (TD.DecodeNFv9OptionsTemplateSet_loop2 recs _)
          (v9Loop2_step recs _) (Go.loopFuel (b.drop 6)) (b.drop 6) none (List.replicate ((lenAt b).toNat / 4) {}) 0
          (by simp) (Nat.zero_le _) (by simp [Go.loopFuel])
        rw [Nat.sub_zero] at hA hB
        cases hfs : decodeFieldsN false ((lenAt b).toNat / 4) (b.drop 6) with
        | error er =>
          rw [hA _ hfs]
          exact ⟨fun er' h => (by cases h; rfl), fun ms h => (by cases h)⟩
        | ok r =>
          obtain ⟨scM, p1⟩ := r
          obtain ⟨sc, h1, h2, h3⟩ := hB _ _ hfs
          rw [h3]
          simp only [ok_bind, List.take_zero, List.nil_append]
          obtain ⟨hA', hB'⟩ := fieldLoop_eq false ((w3At b).toNat / 4) (TD.DecodeNFv9OptionsTemplateSet_loop3 recs _)
            (v9Loop3_step recs _) (Go.loopFuel p1) p1 none (List.replicate ((w3At b).toNat / 4) {}) 0
            (by simp) (Nat.zero_le _) (by simp [Go.loopFuel])
          rw [Nat.sub_zero] at hA' hB'
          cases hfo : decodeFieldsN false ((w3At b).toNat / 4) p1 with
          | error er =>
            rw [hA' _ hfo]
            exact ⟨fun er' h => (by cases h; rfl), fun ms h => (by cases h)⟩
          | ok r' =>
            obtain ⟨opM, p2⟩ := r'
            obtain ⟨op, g1, g2, g3⟩ := hB' _ _ hfo
            rw [g3]
            simp only [ok_bind, List.take_zero, List.nil_append]
            have hlen : p2.length + 6 ≤ b.length := by simp only [List.length_drop] at h2; omega
            obtain ⟨ihA, ihB⟩ := ih m p2 (recs ++ [v9Rec b sc op]) (by omega) (by omega)
            constructor
            · intro er h
              cases hrec : decodeNFv9OptionsTemplateSet m p2 with
              | error er' => rw [hrec] at h; cases h; exact ihA _ hrec
              | ok rs => rw [hrec] at h; cases h
            · intro ms h
              cases hrec : decodeNFv9OptionsTemplateSet m p2 with
              | error er' => rw [hrec] at h; cases h
              | ok rs =>
                rw [hrec] at h
                cases h
                obtain ⟨gs', b', e1, e2⟩ := ihB _ hrec
                refine ⟨v9Rec b sc op :: gs', b', ?_, ?_⟩
                · simp [v9optOf, v9Rec, e1, h1, g1]
                · rw [e2]; simp
      · rw [v9Body_short b recs none h4 (by omega), readFields_222_short (by omega)]
        exact ⟨fun er h => (by cases h; rfl), fun ms h => (by cases h)⟩
    · rw [v9Body_done b recs none h4, if_neg h4]
      simp only [ok_bind]
      exact ⟨fun er h => (by cases h), fun ms h => (by cases h; exact ⟨[], b, rfl, by simp⟩)⟩

/-- netflow.DecodeNFv9OptionsTemplateSet for every byte string: the model's options template records (scope and option
    field specifiers, `length / 4` of each, never an enterprise number), or the model's error class -/
theorem decodeNFv9OptionsTemplateSet_trans_eq (b : Bytes) (fuel : Nat) (hf : b.length < fuel) :
    (TD.DecodeNFv9OptionsTemplateSet b).map (fun r => r.2.map v9optOf) = decodeNFv9OptionsTemplateSet fuel b := by
  unfold TD.DecodeNFv9OptionsTemplateSet
  obtain ⟨hA, hB⟩ := v9Loop1_eq (Go.loopFuel b) fuel b [] (by simp [Go.loopFuel]) hf
  simp only []
  cases hm : decodeNFv9OptionsTemplateSet fuel b with
  | error er => rw [hA _ hm]; rfl
  | ok ms =>
    obtain ⟨gs, b', h1, h2⟩ := hB _ hm
    rw [h2]
    simp [Go.Ctl.elim, Except.map, Go.retSt, h1]

/-! ### DecodeIPFIXOptionsTemplateSet (Go `int` as `Int`: the function subtracts two counts) -/

theorem setIdxLI_nat {α : Type} (l : List α) (i : Nat) (v : α) : Go.setIdxLI l (i : Int) v = Go.setIdxL l i v := by
  have : ¬ ((i : Int) < 0) := by omega
  simp [Go.setIdxLI, this]

theorem makeLI_nat {α : Type} (n : Nat) (z : α) : Go.makeLI (n : Int) z = .ok (List.replicate n z) := by
  have : ¬ ((n : Int) < 0) := by omega
  simp [Go.makeLI, this]

/-- the `Int` flavour of `fieldLoop_eq` -/
theorem fieldLoopI_eq (pen : Bool) (n : Nat)
    (L : Nat → Bytes → Go.Error → List TD.Field → Int → Res (Bytes × Go.Error × List TD.Field × Int))
    (hs : ∀ fuel p e fs (i : Int), L (fuel + 1) p e fs i =
      if decide (i < (n : Int)) = true then
        TD.DecodeField p {} pen >>= fun t => Go.setIdxLI fs i t.2 >>= fun fs' => L fuel t.1 e fs' (i + 1)
      else .ok (p, e, fs, i)) :
    ∀ (fuel : Nat) (p : Bytes) (e : Go.Error) (fs : List TD.Field) (i : Nat), fs.length = n → i ≤ n → p.length < fuel →
      (∀ er, decodeFieldsN pen (n - i) p = .error er → L fuel p e fs (i : Int) = .error er) ∧
      (∀ ms p', decodeFieldsN pen (n - i) p = .ok (ms, p') →
        ∃ gs, gs.map fieldOf = ms ∧ p'.length ≤ p.length ∧ L fuel p e fs (i : Int) = .ok (p', e, fs.take i ++ gs, (n : Int))) := by
  intro fuel
  induction fuel with
  | zero => intro p e fs i _ _ h; omega
  | succ fuel ih =>
    intro p e fs i hlen hi hf
    rw [hs]
    by_cases hlt : i < n
    · obtain ⟨k, hk⟩ : ∃ k, n - i = k + 1 := ⟨n - i - 1, by omega⟩
      have hk' : n - (i + 1) = k := by omega
      have hlt' : (i : Int) < (n : Int) := by omega
      rw [hk, decodeFieldsN_succ]
      simp only [hlt', decide_true, if_true]
      have hd := decodeField_trans_eq p pen
      cases hg : TD.DecodeField p {} pen with
      | error er =>
        rw [map_err hd hg]
        simp only [err_bind]
        exact ⟨fun er' h => (by cases h; rfl), fun ms p' h => (by cases h)⟩
      | ok r =>
        have hm := map_ok hd hg
        rw [hm]
        have hprog := decodeField_progress hm
        have hset : Go.setIdxLI fs (i : Int) r.2 = .ok (fs.set i r.2) := by
          rw [setIdxLI_nat]; simp [Go.setIdxL, hlen, hlt]
        have hsucc : ((i : Int) + 1) = ((i + 1 : Nat) : Int) := by omega
        simp only [ok_bind, hset, hsucc]
        have := ih r.1 e (fs.set i r.2) (i + 1) (by simp [hlen]) (Nat.succ_le_of_lt hlt) (by omega)
        rw [hk'] at this
        obtain ⟨ihA, ihB⟩ := this
        constructor
        · intro er h
          cases hrec : decodeFieldsN pen k r.1 with
          | error er' => rw [hrec] at h; cases h; exact ihA _ hrec
          | ok v => rw [hrec] at h; cases h
        · intro ms p' h
          cases hrec : decodeFieldsN pen k r.1 with
          | error er' => rw [hrec] at h; cases h
          | ok v =>
            rw [hrec] at h
            obtain ⟨ms', p''⟩ := v
            simp only [Except.ok.injEq, Prod.mk.injEq] at h
            obtain ⟨rfl, rfl⟩ := h
            obtain ⟨gs, h1, h2, h3⟩ := ihB _ _ hrec
            refine ⟨r.2 :: gs, by simp [h1], by omega, ?_⟩
            rw [h3, take_set_succ _ _ _ (by omega : i < fs.length)]
            simp
    · have : i = n := by omega
      subst this
      have hz : decodeFieldsN pen (i - i) p = .ok ([], p) := by rw [Nat.sub_self]; rfl
      have hg : (if decide ((i : Int) < (i : Int)) = true then
          TD.DecodeField p {} pen >>= fun t => Go.setIdxLI fs (i : Int) t.2 >>= fun fs' => L fuel t.1 e fs' ((i : Int) + 1)
        else .ok (p, e, fs, (i : Int))) = .ok (p, e, fs, (i : Int)) := by simp
      rw [hz, hg]
      refine ⟨fun er h => (by cases h), fun ms p' h => ?_⟩
      cases h
      exact ⟨[], rfl, Nat.le_refl _, by simp [take_length_eq fs hlen]⟩

def ipfixoptOf (r : TD.IPFIXOptionsTemplateRecord) : Netflow.IPFIXOptionsTemplateRecord :=
  ⟨r.TemplateId.toNat, r.FieldCount.toNat, r.ScopeFieldCount.toNat, r.Options.map fieldOf, r.Scopes.map fieldOf⟩

/-- the header of an IPFIX options template record and the record one iteration appends -/
def ipfixHdr (b : Bytes) : TD.IPFIXOptionsTemplateRecord :=
  { TemplateId := tyAt b, FieldCount := lenAt b, ScopeFieldCount := w3At b }
def ipfixRec (b : Bytes) (sc op : List TD.Field) : TD.IPFIXOptionsTemplateRecord :=
  { TemplateId := tyAt b, FieldCount := lenAt b, ScopeFieldCount := w3At b, Options := op, Scopes := sc }

theorem ipfixLoop2_step (records : List TD.IPFIXOptionsTemplateRecord) (rec : TD.IPFIXOptionsTemplateRecord) (fuel : Nat)
    (p : Bytes) (e : Go.Error) (fs : List TD.Field) (i : Int) :
    TD.DecodeIPFIXOptionsTemplateSet_loop2 records rec (fuel + 1) p e fs i =
      if decide (i < (rec.ScopeFieldCount.toNat : Int)) = true then
        TD.DecodeField p {} true >>= fun t => Go.setIdxLI fs i t.2 >>= fun fs' =>
          TD.DecodeIPFIXOptionsTemplateSet_loop2 records rec fuel t.1 e fs' (i + 1)
      else .ok (p, e, fs, i) := by
  rw [TD.DecodeIPFIXOptionsTemplateSet_loop2]

theorem ipfixLoop3_step (records : List TD.IPFIXOptionsTemplateRecord) (n : Nat) (fuel : Nat)
    (p : Bytes) (e : Go.Error) (fs : List TD.Field) (i : Int) :
    TD.DecodeIPFIXOptionsTemplateSet_loop3 records (n : Int) (fuel + 1) p e fs i =
      if decide (i < (n : Int)) = true then
        TD.DecodeField p {} true >>= fun t => Go.setIdxLI fs i t.2 >>= fun fs' =>
          TD.DecodeIPFIXOptionsTemplateSet_loop3 records (n : Int) fuel t.1 e fs' (i + 1)
      else .ok (p, e, fs, i) := by
  rw [TD.DecodeIPFIXOptionsTemplateSet_loop3]

/-- one iteration of `for payload.Len() >= 4` in DecodeIPFIXOptionsTemplateSet, the three header words being there -/
theorem ipfixBody_unfold (b : Bytes) (recs : List TD.IPFIXOptionsTemplateRecord) (e : Go.Error) (h6 : 6 ≤ b.length) :
    TD.DecodeIPFIXOptionsTemplateSet_loop1_body b recs e =
      TD.DecodeIPFIXOptionsTemplateSet_loop2 recs (ipfixHdr b) (Go.loopFuel (b.drop 6)) (b.drop 6) none
          (List.replicate (w3At b).toNat {}) 0 >>= fun t =>
        if ((lenAt b).toNat : Int) - ((w3At b).toNat : Int) < 0 then .error .bad
        else
          Go.makeLI (((lenAt b).toNat : Int) - ((w3At b).toNat : Int)) ({} : TD.Field) >>= fun fl =>
          TD.DecodeIPFIXOptionsTemplateSet_loop3 recs (((lenAt b).toNat : Int) - ((w3At b).toNat : Int)) (Go.loopFuel t.1) t.1 t.2.1 fl 0 >>= fun u =>
            .ok (.next (u.1, recs ++ [ipfixRec b t.2.2.1 u.2.2.1], u.2.1)) := by
  have h2 : 2 ≤ b.length := by omega
  have h2' : 2 ≤ (b.drop 2).length := by simp only [List.length_drop]; omega
  have h2'' : 2 ≤ (b.drop 4).length := by simp only [List.length_drop]; omega
  have hc : ((b.length : Int) ≥ 4) := by omega
  unfold TD.DecodeIPFIXOptionsTemplateSet_loop1_body
  rw [if_pos (by simpa using hc), readU16_ok h2]
  simp only [ok_bind]
  rw [readU16_ok h2']
  simp only [ok_bind, List.drop_drop]
  rw [readU16_ok h2'']
  simp only [ok_bind, List.drop_drop, makeLI_nat]
  congr 1
  funext t
  simp only [decide_eq_true_eq]
  by_cases hneg : ((lenAt b).toNat : Int) - ((w3At b).toNat : Int) < 0
  · rw [if_pos hneg]; exact (if_pos hneg).trans rfl
  · rw [if_neg hneg]; exact (if_neg hneg).trans rfl

theorem ipfixBody_short (b : Bytes) (recs : List TD.IPFIXOptionsTemplateRecord) (e : Go.Error) (h4 : 4 ≤ b.length) (h6 : b.length < 6) :
    TD.DecodeIPFIXOptionsTemplateSet_loop1_body b recs e = .error .eof := by
  have h2 : 2 ≤ b.length := by omega
  have h2' : 2 ≤ (b.drop 2).length := by simp only [List.length_drop]; omega
  have h2'' : (b.drop 4).length < 2 := by simp only [List.length_drop]; omega
  have hc : ((b.length : Int) ≥ 4) := by omega
  unfold TD.DecodeIPFIXOptionsTemplateSet_loop1_body
  rw [if_pos (by simpa using hc), readU16_ok h2]
  simp only [ok_bind]
  rw [readU16_ok h2']
  simp only [ok_bind, List.drop_drop]
  rw [readU16_short h2'']
  rfl

theorem ipfixBody_done (b : Bytes) (recs : List TD.IPFIXOptionsTemplateRecord) (e : Go.Error) (h4 : ¬ 4 ≤ b.length) :
    TD.DecodeIPFIXOptionsTemplateSet_loop1_body b recs e = .ok (.brk (b, recs, e)) := by
  have hc : ¬ ((b.length : Int) ≥ 4) := by omega
  unfold TD.DecodeIPFIXOptionsTemplateSet_loop1_body
  rw [if_neg (by simpa using hc)]

theorem ipfixLoop1_eq : ∀ (fuel mfuel : Nat) (b : Bytes) (recs : List TD.IPFIXOptionsTemplateRecord),
    b.length < fuel → b.length < mfuel →
    (∀ er, decodeIPFIXOptionsTemplateSet mfuel b = .error er → TD.DecodeIPFIXOptionsTemplateSet_loop1 fuel b recs none = .error er) ∧
    (∀ ms, decodeIPFIXOptionsTemplateSet mfuel b = .ok ms →
      ∃ gs b', gs.map ipfixoptOf = ms ∧ TD.DecodeIPFIXOptionsTemplateSet_loop1 fuel b recs none = .ok (.brk (b', recs ++ gs, none))) := by
  intro fuel
  induction fuel with
  | zero => intro mfuel b recs h; omega
  | succ fuel ih =>
    intro mfuel b recs hf hm
    obtain ⟨m, rfl⟩ : ∃ m, mfuel = m + 1 := ⟨mfuel - 1, by omega⟩
    rw [TD.DecodeIPFIXOptionsTemplateSet_loop1, decodeIPFIXOptionsTemplateSet]
    by_cases h4 : 4 ≤ b.length
    · rw [if_pos h4]
      by_cases h6 : 6 ≤ b.length
      · rw [ipfixBody_unfold b recs none h6, readFields_222 h6]
        simp only [← lenAt_toNat, ← tyAt_toNat, ← w3At_toNat, tyAt_drop2, tyAt_drop4]
        obtain ⟨hA, hB⟩ := fieldLoopI_eq true (w3At b).toNat (TD.DecodeIPFIXOptionsTemplateSet_loop2 recs (ipfixHdr b))
          (ipfixLoop2_step recs (ipfixHdr b)) (Go.loopFuel (b.drop 6)) (b.drop 6) none (List.replicate (w3At b).toNat {}) 0
          (by simp) (Nat.zero_le _) (by simp [Go.loopFuel])
        rw [Nat.sub_zero] at hA hB
        cases hfs : decodeFieldsN true (w3At b).toNat (b.drop 6) with
        | error er =>
          have := hA _ hfs
          simp only [Int.natCast_zero] at this
          rw [this]
          exact ⟨fun er' h => (by cases h; rfl), fun ms h => (by cases h)⟩
        | ok r =>
          obtain ⟨scM, p1⟩ := r
          obtain ⟨sc, h1, h2, h3⟩ := hB _ _ hfs
          simp only [Int.natCast_zero] at h3
          rw [h3]
          simp only [ok_bind, List.take_zero, List.nil_append]
          by_cases hneg : (lenAt b).toNat < (w3At b).toNat
          · have hneg' : ((lenAt b).toNat : Int) - ((w3At b).toNat : Int) < 0 := by omega
            rw [if_pos hneg', if_pos hneg]
            exact ⟨fun er' h => (by cases h; rfl), fun ms h => (by cases h)⟩
          · have hneg' : ¬ ((lenAt b).toNat : Int) - ((w3At b).toNat : Int) < 0 := by omega
            have hsub : ((lenAt b).toNat : Int) - ((w3At b).toNat : Int) = (((lenAt b).toNat - (w3At b).toNat : Nat) : Int) := by omega
            rw [if_neg hneg', if_neg hneg, hsub, makeLI_nat]
            simp only [ok_bind]
            obtain ⟨hA', hB'⟩ := fieldLoopI_eq true ((lenAt b).toNat - (w3At b).toNat)
              (TD.DecodeIPFIXOptionsTemplateSet_loop3 recs (((lenAt b).toNat - (w3At b).toNat : Nat) : Int))
              (ipfixLoop3_step recs _) (Go.loopFuel p1) p1 none (List.replicate ((lenAt b).toNat - (w3At b).toNat) {}) 0
              (by simp) (Nat.zero_le _) (by simp [Go.loopFuel])
            rw [Nat.sub_zero] at hA' hB'
            cases hfo : decodeFieldsN true ((lenAt b).toNat - (w3At b).toNat) p1 with
            | error er =>
              have := hA' _ hfo
              simp only [Int.natCast_zero] at this
              rw [this]
              exact ⟨fun er' h => (by cases h; rfl), fun ms h => (by cases h)⟩
            | ok r' =>
              obtain ⟨opM, p2⟩ := r'
              obtain ⟨op, g1, g2, g3⟩ := hB' _ _ hfo
              simp only [Int.natCast_zero] at g3
              rw [g3]
              simp only [ok_bind, List.take_zero, List.nil_append]
              have hlen : p2.length + 6 ≤ b.length := by simp only [List.length_drop] at h2; omega
              obtain ⟨ihA, ihB⟩ := ih m p2 (recs ++ [ipfixRec b sc op]) (by omega) (by omega)
              constructor
              · intro er h
                cases hrec : decodeIPFIXOptionsTemplateSet m p2 with
                | error er' => rw [hrec] at h; cases h; exact ihA _ hrec
                | ok rs => rw [hrec] at h; cases h
              · intro ms h
                cases hrec : decodeIPFIXOptionsTemplateSet m p2 with
                | error er' => rw [hrec] at h; cases h
                | ok rs =>
                  rw [hrec] at h
                  cases h
                  obtain ⟨gs', b', e1, e2⟩ := ihB _ hrec
                  refine ⟨ipfixRec b sc op :: gs', b', ?_, ?_⟩
                  · simp [ipfixoptOf, ipfixRec, e1, h1, g1]
                  · rw [e2]; simp
      · rw [ipfixBody_short b recs none h4 (by omega), readFields_222_short (by omega)]
        exact ⟨fun er h => (by cases h; rfl), fun ms h => (by cases h)⟩
    · rw [ipfixBody_done b recs none h4, if_neg h4]
      simp only [ok_bind]
      exact ⟨fun er h => (by cases h), fun ms h => (by cases h; exact ⟨[], b, rfl, by simp⟩)⟩

/-- netflow.DecodeIPFIXOptionsTemplateSet for every byte string: the model's options template records (ScopeFieldCount
    scope specifiers, FieldCount − ScopeFieldCount option specifiers, enterprise numbers read), `bad` when the scope
    count exceeds the field count, or the model's error class otherwise; the `make` of a negative length is never reached -/
theorem decodeIPFIXOptionsTemplateSet_trans_eq (b : Bytes) (fuel : Nat) (hf : b.length < fuel) :
    (TD.DecodeIPFIXOptionsTemplateSet b).map (fun r => r.2.map ipfixoptOf) = decodeIPFIXOptionsTemplateSet fuel b := by
  unfold TD.DecodeIPFIXOptionsTemplateSet
  obtain ⟨hA, hB⟩ := ipfixLoop1_eq (Go.loopFuel b) fuel b [] (by simp [Go.loopFuel]) hf
  simp only []
  cases hm : decodeIPFIXOptionsTemplateSet fuel b with
  | error er => rw [hA _ hm]; rfl
  | ok ms =>
    obtain ⟨gs, b', h1, h2⟩ := hB _ hm
    rw [h2]
    simp [Go.Ctl.elim, Except.map, h1]

/-! ### DecodeDataSetUsingFields -/

/-- the model's data field behind the generated `netflow.DataField` (`Value interface{}`: nil or a `[]byte`) -/
def dataFieldOf (d : TD.DataField) : Netflow.DataField := ⟨d.PenProvided, d.Type.toNat, d.Pen.toNat, d.Value⟩

/-- the length of the value of one field: the template's, or the 1-byte / 3-byte variable-length form; generated side -/
def lenResG (f : TD.Field) (p : Bytes) : Res (Nat × Bytes) :=
  if f.Length = 65535 then
    Go.readU8 p >>= fun t =>
      if t.1 = 255 then Go.readU16 t.2 >>= fun u => .ok (u.1.toNat, u.2) else .ok (t.1.toNat, t.2)
  else .ok (f.Length.toNat, p)

/-- the same on the model side (the `lenRes` of `decodeFieldValues`) -/
def lenResM (f : Netflow.Field) (b : Bytes) : Res (Nat × Bytes) :=
  if f.length = 0xffff then
    match readU 1 b with
    | .error e => .error e
    | .ok (l8, b1) => if l8 = 0xff then readU 2 b1 else .ok (l8, b1)
  else .ok (f.length, b)

theorem decodeFieldValues_cons (f : Netflow.Field) (fs : List Netflow.Field) (b : Bytes) :
    decodeFieldValues (f :: fs) b =
      match lenResM f b with
      | .error e => .error e
      | .ok (n, b1) =>
        match decodeFieldValues fs (b1.drop n) with
        | .error e => .error e
        | .ok (dfs, b3) => .ok (⟨f.penProvided, f.type, f.pen, some (b1.take n)⟩ :: dfs, b3) := rfl

theorem u8_eq_255 (l : Bytes) : (UInt8.ofNat (beNat (l.take 1)) = 255) ↔ beNat (l.take 1) = 0xff := by
  rw [← UInt8.toNat_inj, u8_beNat]; rfl

theorem u16_eq_65535 (x : UInt16) : (x = 65535) ↔ x.toNat = 0xffff := by
  rw [← UInt16.toNat_inj]; rfl

theorem lenRes_eq (f : TD.Field) (p : Bytes) : lenResG f p = lenResM (fieldOf f) p := by
  unfold lenResG lenResM
  by_cases hv : f.Length = 65535
  · have hv' : (fieldOf f).length = 0xffff := (u16_eq_65535 _).1 hv
    rw [if_pos hv, if_pos hv']
    by_cases h1 : 1 ≤ p.length
    · rw [readU8_ok h1, readU_ok h1]
      simp only [ok_bind]
      by_cases h255 : beNat (p.take 1) = 0xff
      · rw [if_pos ((u8_eq_255 p).2 h255), if_pos h255]
        by_cases h2 : 2 ≤ (p.drop 1).length
        · rw [readU16_ok h2, readU_ok h2]
          simp only [ok_bind, u16_beNat]
        · rw [readU16_short (Nat.lt_of_not_le h2), readU_short (Nat.lt_of_not_le h2)]
          rfl
      · rw [if_neg (fun h => h255 ((u8_eq_255 p).1 h)), if_neg h255]
        simp only [u8_beNat]
    · rw [readU8_short (Nat.lt_of_not_le h1), readU_short (Nat.lt_of_not_le h1)]
      rfl
  · have hv' : ¬ (fieldOf f).length = 0xffff := fun h => hv ((u16_eq_65535 _).2 h)
    rw [if_neg hv, if_neg hv']
    rfl

/-- the data field the loop stores for template field `f` and value `v` -/
def dfAt (f : TD.Field) (v : Bytes) : TD.DataField :=
  { «Type» := f.Type, PenProvided := f.PenProvided, Pen := f.Pen, Value := some v }

theorem dataLoop_step (tpl : List TD.Field) (fuel : Nat) (p : Bytes) (dfs : List TD.DataField) (i : Nat) (hi : i < tpl.length) :
    TD.DecodeDataSetUsingFields_loop1 tpl tpl.length (fuel + 1) p dfs i =
      lenResG tpl[i] p >>= fun r => Go.setIdxL dfs i (dfAt tpl[i] (r.2.take r.1)) >>= fun dfs' =>
        TD.DecodeDataSetUsingFields_loop1 tpl tpl.length fuel (r.2.drop r.1) dfs' (i + 1) := by
  rw [TD.DecodeDataSetUsingFields_loop1, if_pos (by simpa using hi), C03Trans.idxL_getElem hi]
  simp only [ok_bind]
  unfold lenResG
  by_cases hv : tpl[i].Length = 65535
  · rw [if_pos (by simpa using hv), if_pos hv]
    cases h1 : Go.readU8 p with
    | error er => rfl
    | ok t =>
      simp only [ok_bind]
      by_cases h255 : t.1 = 255
      · cases h2 : Go.readU16 t.2 <;> simp [h255, h2] <;> rfl
      · simp [h255]; rfl
  · rw [if_neg (by simpa using hv), if_neg hv]
    rfl

theorem dataLoop_done (tpl : List TD.Field) (fuel : Nat) (p : Bytes) (dfs : List TD.DataField) :
    TD.DecodeDataSetUsingFields_loop1 tpl tpl.length (fuel + 1) p dfs tpl.length = .ok (p, dfs, tpl.length) := by
  rw [TD.DecodeDataSetUsingFields_loop1, if_neg (by simp)]

/-- the field loop of DecodeDataSetUsingFields: it stores the model's `decodeFieldValues` of the remaining template fields
    from index `i` on, never out of range -/
theorem dataLoop_eq (tpl : List TD.Field) : ∀ (fuel : Nat) (p : Bytes) (dfs : List TD.DataField) (i : Nat),
    dfs.length = tpl.length → i ≤ tpl.length → tpl.length - i < fuel →
    (∀ er, decodeFieldValues ((tpl.drop i).map fieldOf) p = .error er →
      TD.DecodeDataSetUsingFields_loop1 tpl tpl.length fuel p dfs i = .error er) ∧
    (∀ ms p', decodeFieldValues ((tpl.drop i).map fieldOf) p = .ok (ms, p') →
      ∃ gs, gs.map dataFieldOf = ms ∧
        TD.DecodeDataSetUsingFields_loop1 tpl tpl.length fuel p dfs i = .ok (p', dfs.take i ++ gs, tpl.length)) := by
  intro fuel
  induction fuel with
  | zero => intro p dfs i _ _ h; omega
  | succ fuel ih =>
    intro p dfs i hlen hi hf
    by_cases hlt : i < tpl.length
    · have hd : tpl.drop i = tpl[i] :: tpl.drop (i + 1) := List.drop_eq_getElem_cons hlt
      rw [dataLoop_step tpl fuel p dfs i hlt, hd, List.map_cons, decodeFieldValues_cons, lenRes_eq]
      cases hl : lenResM (fieldOf tpl[i]) p with
      | error er =>
        simp only [err_bind]
        exact ⟨fun er' h => (by cases h; rfl), fun ms p' h => (by cases h)⟩
      | ok r =>
        obtain ⟨n, p1⟩ := r
        have hset : Go.setIdxL dfs i (dfAt tpl[i] (p1.take n)) = .ok (dfs.set i (dfAt tpl[i] (p1.take n))) := by
          simp [Go.setIdxL, hlen, hlt]
        simp only [ok_bind, hset]
        obtain ⟨ihA, ihB⟩ := ih (p1.drop n) (dfs.set i (dfAt tpl[i] (p1.take n))) (i + 1) (by simp [hlen])
          (Nat.succ_le_of_lt hlt) (by omega)
        constructor
        · intro er h
          cases hrec : decodeFieldValues ((tpl.drop (i + 1)).map fieldOf) (p1.drop n) with
          | error er' => rw [hrec] at h; cases h; exact ihA _ hrec
          | ok v => rw [hrec] at h; cases h
        · intro ms p' h
          cases hrec : decodeFieldValues ((tpl.drop (i + 1)).map fieldOf) (p1.drop n) with
          | error er' => rw [hrec] at h; cases h
          | ok v =>
            rw [hrec] at h
            obtain ⟨ms', p''⟩ := v
            simp only [Except.ok.injEq, Prod.mk.injEq] at h
            obtain ⟨rfl, rfl⟩ := h
            obtain ⟨gs, h1, h3⟩ := ihB _ _ hrec
            refine ⟨dfAt tpl[i] (p1.take n) :: gs, by simp [h1, dataFieldOf, dfAt, fieldOf], ?_⟩
            rw [h3, take_set_succ _ _ _ (by omega : i < dfs.length)]
            simp
    · have : i = tpl.length := by omega
      subst this
      rw [dataLoop_done, List.drop_length]
      refine ⟨fun er h => (by cases h), fun ms p' h => ?_⟩
      cases h
      exact ⟨[], rfl, by simp [take_length_eq dfs hlen]⟩

/-- netflow.DecodeDataSetUsingFields for every template and byte string: the model's data fields (value bytes cut by the
    template length or by the 1-byte / 3-byte variable-length prefix) and the bytes that remain; zeroed fields when the
    payload is shorter than the smallest record; the EOF class when a length prefix is cut -/
theorem decodeDataSetUsingFields_trans_eq (v : UInt16) (b : Bytes) (tpl : List TD.Field) :
    (TD.DecodeDataSetUsingFields v b tpl).map (fun r => (r.2.map dataFieldOf, r.1)) =
      decodeDataSetUsingFields (tpl.map fieldOf) b := by
  unfold TD.DecodeDataSetUsingFields decodeDataSetUsingFields
  rw [C03Trans.getTemplateSize_eq]
  simp only [Go.makeL, ok_bind, ge_iff_le, decide_eq_true_eq]
  by_cases hsz : templateSize (tpl.map fieldOf) ≤ b.length
  · rw [if_pos hsz, if_pos hsz]
    obtain ⟨hA, hB⟩ := dataLoop_eq tpl (tpl.length + 1) b (List.replicate tpl.length {}) 0 (by simp) (Nat.zero_le _) (by omega)
    rw [List.drop_zero] at hA hB
    cases hm : decodeFieldValues (tpl.map fieldOf) b with
    | error er => rw [hA _ hm]; rfl
    | ok r =>
      obtain ⟨ms, p'⟩ := r
      obtain ⟨gs, h1, h2⟩ := hB _ _ hm
      rw [h2]
      simp [Except.map, h1]
  · rw [if_neg hsz, if_neg hsz]
    simp [Except.map, dataFieldOf, zeroDataField]

/-! ### DecodeDataSet, DecodeOptionsDataSet -/

def dataRecOf (r : TD.DataRecord) : Netflow.DataRecord := ⟨r.Values.map dataFieldOf⟩
def optRecOf (r : TD.OptionsDataRecord) : Netflow.OptionsDataRecord :=
  ⟨r.ScopesValues.map dataFieldOf, r.OptionsValues.map dataFieldOf⟩

/-- DecodeDataSetUsingFields never gives bytes back, and takes at least the smallest record when it decodes at all -/
theorem usingFields_progress {fs : List Netflow.Field} {b b1 : Bytes} {vs : List Netflow.DataField}
    (h : decodeDataSetUsingFields fs b = .ok (vs, b1)) :
    b1.length ≤ b.length ∧ (templateSize fs ≤ b.length → b1.length ≤ b.length - templateSize fs) := by
  unfold decodeDataSetUsingFields at h
  by_cases hsz : templateSize fs ≤ b.length
  · rw [if_pos hsz] at h
    have := (decodeFieldValues_consumes _ _ _ _ h).1
    exact ⟨by omega, fun _ => this⟩
  · rw [if_neg hsz] at h
    cases h
    exact ⟨Nat.le_refl _, fun h => absurd h hsz⟩

/-- the record loop of DecodeDataSet (`for payload.Len() >= listFieldsSize`), the record size being positive -/
theorem dataSetLoop_eq (v : UInt16) (tpl : List TD.Field) (hpos : 0 < templateSize (tpl.map fieldOf)) :
    ∀ (fuel mfuel : Nat) (b : Bytes) (recs : List TD.DataRecord), b.length < fuel → b.length < mfuel →
    (∀ er, decodeDataSetLoop (tpl.map fieldOf) mfuel b = .error er →
      TD.DecodeDataSet_loop1 v tpl (templateSize (tpl.map fieldOf)) fuel b recs = .error er) ∧
    (∀ ms, decodeDataSetLoop (tpl.map fieldOf) mfuel b = .ok ms →
      ∃ gs b', gs.map dataRecOf = ms ∧
        TD.DecodeDataSet_loop1 v tpl (templateSize (tpl.map fieldOf)) fuel b recs = .ok (.brk (b', recs ++ gs))) := by
  intro fuel
  induction fuel with
  | zero => intro mfuel b recs h; omega
  | succ fuel ih =>
    intro mfuel b recs hf hm
    obtain ⟨m, rfl⟩ : ∃ m, mfuel = m + 1 := ⟨mfuel - 1, by omega⟩
    rw [TD.DecodeDataSet_loop1, decodeDataSetLoop, TD.DecodeDataSet_loop1_body]
    by_cases hsz : templateSize (tpl.map fieldOf) ≤ b.length
    · have hsz' : decide (b.length ≥ templateSize (tpl.map fieldOf)) = true := by simpa using hsz
      rw [if_pos hsz', if_pos hsz]
      have hd := decodeDataSetUsingFields_trans_eq v b tpl
      cases hg : TD.DecodeDataSetUsingFields v b tpl with
      | error er =>
        rw [map_err hd hg]
        exact ⟨fun er' h => (by cases h; rfl), fun ms h => (by cases h)⟩
      | ok r =>
        have hmod := map_ok hd hg
        rw [hmod]
        have hprog := (usingFields_progress hmod).2 hsz
        simp only [ok_bind]
        obtain ⟨ihA, ihB⟩ := ih m r.1 (recs ++ [{ Values := r.2 }]) (by omega) (by omega)
        constructor
        · intro er h
          cases hrec : decodeDataSetLoop (tpl.map fieldOf) m r.1 with
          | error er' => rw [hrec] at h; cases h; exact ihA _ hrec
          | ok rs => rw [hrec] at h; cases h
        · intro ms h
          cases hrec : decodeDataSetLoop (tpl.map fieldOf) m r.1 with
          | error er' => rw [hrec] at h; cases h
          | ok rs =>
            rw [hrec] at h
            cases h
            obtain ⟨gs', b', e1, e2⟩ := ihB _ hrec
            refine ⟨{ Values := r.2 } :: gs', b', ?_, ?_⟩
            · simp [dataRecOf, e1]
            · rw [e2]; simp
    · have hsz' : ¬ decide (b.length ≥ templateSize (tpl.map fieldOf)) = true := by simpa using hsz
      rw [if_neg hsz', if_neg hsz]
      simp only [ok_bind]
      exact ⟨fun er h => (by cases h), fun ms h => (by cases h; exact ⟨[], b, rfl, by simp⟩)⟩

/-- netflow.DecodeDataSet for every template and byte string: `bad` for a template whose records occupy no bytes (the
    zero-size guard), otherwise the model's data records or the model's error class; the record loop ends within its fuel -/
theorem decodeDataSet_trans_eq (v : UInt16) (b : Bytes) (tpl : List TD.Field) (fuel : Nat) (hf : b.length < fuel) :
    (TD.DecodeDataSet v b tpl).map (fun r => r.2.map dataRecOf) = decodeDataSet (tpl.map fieldOf) fuel b := by
  unfold TD.DecodeDataSet decodeDataSet
  rw [C03Trans.getTemplateSize_eq]
  simp only [ok_bind, decide_eq_true_eq]
  by_cases hz : templateSize (tpl.map fieldOf) = 0
  · rw [if_pos hz, if_pos hz]; rfl
  · rw [if_neg hz, if_neg hz]
    obtain ⟨hA, hB⟩ := dataSetLoop_eq v tpl (Nat.pos_of_ne_zero hz) (Go.loopFuel b) fuel b [] (by simp [Go.loopFuel]) hf
    cases hm : decodeDataSetLoop (tpl.map fieldOf) fuel b with
    | error er => rw [hA _ hm]; rfl
    | ok ms =>
      obtain ⟨gs, b', h1, h2⟩ := hB _ hm
      rw [h2]
      simp [Go.Ctl.elim, Except.map, h1]

/-- the record loop of DecodeOptionsDataSet -/
theorem optionsLoop_eq (v : UInt16) (sc op : List TD.Field)
    (hpos : 0 < templateSize (sc.map fieldOf) + templateSize (op.map fieldOf)) :
    ∀ (fuel mfuel : Nat) (b : Bytes) (recs : List TD.OptionsDataRecord), b.length < fuel → b.length < mfuel →
    (∀ er, decodeOptionsDataSetLoop (sc.map fieldOf) (op.map fieldOf) mfuel b = .error er →
      TD.DecodeOptionsDataSet_loop1 v sc op (templateSize (sc.map fieldOf)) (templateSize (op.map fieldOf)) fuel b recs = .error er) ∧
    (∀ ms, decodeOptionsDataSetLoop (sc.map fieldOf) (op.map fieldOf) mfuel b = .ok ms →
      ∃ gs b', gs.map optRecOf = ms ∧
        TD.DecodeOptionsDataSet_loop1 v sc op (templateSize (sc.map fieldOf)) (templateSize (op.map fieldOf)) fuel b recs =
          .ok (.brk (b', recs ++ gs))) := by
  intro fuel
  induction fuel with
  | zero => intro mfuel b recs h; omega
  | succ fuel ih =>
    intro mfuel b recs hf hm
    obtain ⟨m, rfl⟩ : ∃ m, mfuel = m + 1 := ⟨mfuel - 1, by omega⟩
    rw [TD.DecodeOptionsDataSet_loop1, decodeOptionsDataSetLoop, TD.DecodeOptionsDataSet_loop1_body]
    by_cases hsz : templateSize (sc.map fieldOf) + templateSize (op.map fieldOf) ≤ b.length
    · have hsz' : decide (b.length ≥ templateSize (sc.map fieldOf) + templateSize (op.map fieldOf)) = true := by simpa using hsz
      rw [if_pos hsz', if_pos hsz]
      have hd := decodeDataSetUsingFields_trans_eq v b sc
      cases hg : TD.DecodeDataSetUsingFields v b sc with
      | error er =>
        rw [map_err hd hg]
        exact ⟨fun er' h => (by cases h; rfl), fun ms h => (by cases h)⟩
      | ok r =>
        have hmod := map_ok hd hg
        rw [hmod]
        have hprog := usingFields_progress hmod
        simp only [ok_bind]
        have hd2 := decodeDataSetUsingFields_trans_eq v r.1 op
        cases hg2 : TD.DecodeDataSetUsingFields v r.1 op with
        | error er =>
          rw [map_err hd2 hg2]
          exact ⟨fun er' h => (by cases h; rfl), fun ms h => (by cases h)⟩
        | ok r2 =>
          have hmod2 := map_ok hd2 hg2
          rw [hmod2]
          have hprog2 := usingFields_progress hmod2
          simp only [ok_bind]
          have hlt : r2.1.length < b.length := by
            have h1 := hprog.2 (by omega)
            by_cases hs2 : templateSize (op.map fieldOf) ≤ r.1.length
            · have := hprog2.2 hs2; omega
            · omega
          obtain ⟨ihA, ihB⟩ := ih m r2.1 (recs ++ [{ ScopesValues := r.2, OptionsValues := r2.2 }]) (by omega) (by omega)
          constructor
          · intro er h
            cases hrec : decodeOptionsDataSetLoop (sc.map fieldOf) (op.map fieldOf) m r2.1 with
            | error er' => rw [hrec] at h; cases h; exact ihA _ hrec
            | ok rs => rw [hrec] at h; cases h
          · intro ms h
            cases hrec : decodeOptionsDataSetLoop (sc.map fieldOf) (op.map fieldOf) m r2.1 with
            | error er' => rw [hrec] at h; cases h
            | ok rs =>
              rw [hrec] at h
              cases h
              obtain ⟨gs', b', e1, e2⟩ := ihB _ hrec
              refine ⟨{ ScopesValues := r.2, OptionsValues := r2.2 } :: gs', b', ?_, ?_⟩
              · simp [optRecOf, e1]
              · rw [e2]; simp
    · have hsz' : ¬ decide (b.length ≥ templateSize (sc.map fieldOf) + templateSize (op.map fieldOf)) = true := by simpa using hsz
      rw [if_neg hsz', if_neg hsz]
      simp only [ok_bind]
      exact ⟨fun er h => (by cases h), fun ms h => (by cases h; exact ⟨[], b, rfl, by simp⟩)⟩

/-- netflow.DecodeOptionsDataSet for every pair of templates and byte string: `bad` when scope and option records together
    occupy no bytes (the zero-size guard), otherwise the model's options data records or the model's error class -/
theorem decodeOptionsDataSet_trans_eq (v : UInt16) (b : Bytes) (sc op : List TD.Field) (fuel : Nat) (hf : b.length < fuel) :
    (TD.DecodeOptionsDataSet v b sc op).map (fun r => r.2.map optRecOf) =
      decodeOptionsDataSet (sc.map fieldOf) (op.map fieldOf) fuel b := by
  unfold TD.DecodeOptionsDataSet decodeOptionsDataSet
  rw [C03Trans.getTemplateSize_eq]
  simp only [ok_bind]
  rw [C03Trans.getTemplateSize_eq]
  simp only [ok_bind, decide_eq_true_eq]
  by_cases hz : templateSize (sc.map fieldOf) + templateSize (op.map fieldOf) = 0
  · rw [if_pos hz, if_pos hz]; rfl
  · rw [if_neg hz, if_neg hz]
    obtain ⟨hA, hB⟩ := optionsLoop_eq v sc op (Nat.pos_of_ne_zero hz) (Go.loopFuel b) fuel b [] (by simp [Go.loopFuel]) hf
    cases hm : decodeOptionsDataSetLoop (sc.map fieldOf) (op.map fieldOf) fuel b with
    | error er => rw [hA _ hm]; rfl
    | ok ms =>
      obtain ⟨gs, b', h1, h2⟩ := hB _ hm
      rw [h2]
      simp [Go.Ctl.elim, Except.map, h1]

end Goflow.C03Trans2
