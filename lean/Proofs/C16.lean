import Goflow.Conc.GetOrCreate
import Goflow.Generated.Sync
/-!
  C16 — First contact with an exporter is atomic: no template or rate is lost.
  For the re-check-then-adopt publish (the code after the `fix:` commit), any number of threads and
  any schedule; for the unconditional store of the pinned tree, a concrete losing schedule.
-/
namespace Goflow.C16
open Goflow.Conc.GetOrCreate

/-- inductive invariant of the re-checking protocol -/
def Inv (st : St) : Prop :=
  (∀ (i s : Nat), st.threads[i]? = some (Pc.holding s) → st.map = some s) ∧
  (∀ (i s : Nat), st.threads[i]? = some (Pc.finished s) → st.map = some s ∧ (s, i) ∈ st.items)

theorem inv_init (n : Nat) : Inv (init n) := by
  constructor
  · intro i s h
    simp only [init, List.getElem?_replicate] at h
    split at h <;> simp at h
  · intro i s h
    simp only [init, List.getElem?_replicate] at h
    split at h <;> simp at h

private theorem get_set {l : List Pc} {i j : Nat} {a b : Pc} (h : (l.set i a)[j]? = some b) :
    (i = j ∧ a = b) ∨ (i ≠ j ∧ l[j]? = some b) := by
  rw [List.getElem?_set] at h
  by_cases hij : i = j
  · subst hij
    simp only [if_true] at h
    split at h
    · left; exact ⟨rfl, by simpa using h⟩
    · simp at h
  · right
    simp only [hij, if_false] at h
    exact ⟨hij, h⟩

/-- once published, the system of the exporter never changes (`publish_once`), and every step keeps the invariant -/
theorem inv_step (st st' : St) (i : Nat) (hinv : Inv st) (h : step true st i = some st') :
    Inv st' ∧ (∀ s, st.map = some s → st'.map = some s) := by
  obtain ⟨h1, h2⟩ := hinv
  unfold step at h
  split at h
  · cases h
  · -- start
    split at h
    · rename_i s hm
      cases h
      refine ⟨⟨?_, ?_⟩, fun _ h => h⟩
      · intro j t hj
        rcases get_set hj with ⟨_, he⟩ | ⟨_, hj'⟩
        · cases he; exact hm
        · exact h1 j t hj'
      · intro j t hj
        rcases get_set hj with ⟨_, he⟩ | ⟨_, hj'⟩
        · cases he
        · exact h2 j t hj'
    · rename_i hm
      cases h
      refine ⟨⟨?_, ?_⟩, fun _ h => h⟩
      · intro j t hj
        rcases get_set hj with ⟨_, he⟩ | ⟨_, hj'⟩
        · cases he
        · exact h1 j t hj'
      · intro j t hj
        rcases get_set hj with ⟨_, he⟩ | ⟨_, hj'⟩
        · cases he
        · exact h2 j t hj'
  · -- needCreate
    cases h
    refine ⟨⟨?_, ?_⟩, fun _ h => h⟩
    · intro j t hj
      rcases get_set hj with ⟨_, he⟩ | ⟨_, hj'⟩
      · cases he
      · exact h1 j t hj'
    · intro j t hj
      rcases get_set hj with ⟨_, he⟩ | ⟨_, hj'⟩
      · cases he
      · exact h2 j t hj'
  · -- created: publish (re-check under the write lock)
    rename_i mine hth
    split at h
    · rename_i s hm
      cases h
      refine ⟨⟨?_, ?_⟩, fun _ h => h⟩
      · intro j t hj
        rcases get_set hj with ⟨_, he⟩ | ⟨_, hj'⟩
        · cases he; exact hm
        · exact h1 j t hj'
      · intro j t hj
        rcases get_set hj with ⟨_, he⟩ | ⟨_, hj'⟩
        · cases he
        · exact h2 j t hj'
    · rename_i hnot
      cases h
      have hnone : st.map = none := by
        cases hm : st.map with
        | none => rfl
        | some s => exact (hnot s rfl hm).elim
      refine ⟨⟨?_, ?_⟩, fun s hs => by rw [hnone] at hs; cases hs⟩
      · intro j t hj
        rcases get_set hj with ⟨_, he⟩ | ⟨_, hj'⟩
        · cases he; rfl
        · have := h1 j t hj'; rw [hnone] at this; cases this
      · intro j t hj
        rcases get_set hj with ⟨_, he⟩ | ⟨_, hj'⟩
        · cases he
        · have := (h2 j t hj').1; rw [hnone] at this; cases this
  · -- holding: use
    rename_i s hth
    cases h
    have hm := h1 i s hth
    refine ⟨⟨?_, ?_⟩, fun _ h => h⟩
    · intro j t hj
      rcases get_set hj with ⟨_, he⟩ | ⟨_, hj'⟩
      · cases he
      · exact h1 j t hj'
    · intro j t hj
      rcases get_set hj with ⟨hij, he⟩ | ⟨_, hj'⟩
      · cases he; subst hij; exact ⟨hm, by simp⟩
      · obtain ⟨a, b⟩ := h2 j t hj'
        exact ⟨a, by simp [b]⟩
  · cases h

/-- the invariant holds after any schedule, for any number of threads -/
theorem inv_run (st : St) (sched : List Nat) (hinv : Inv st) : Inv (run true st sched) := by
  induction sched generalizing st with
  | nil => exact hinv
  | cons i rest ih =>
    simp only [run]
    split
    · rename_i st' hs
      exact ih st' (inv_step st st' i hinv hs).1
    · exact ih st hinv

/-- once a system is published for the exporter it stays the exporter's system -/
theorem publish_once (st : St) (sched : List Nat) (hinv : Inv st) (s : Nat) (h : st.map = some s) :
    (run true st sched).map = some s := by
  induction sched generalizing st with
  | nil => exact h
  | cons i rest ih =>
    simp only [run]
    split
    · rename_i st' hs
      have := inv_step st st' i hinv hs
      exact ih st' this.1 (this.2 s h)
    · exact ih st hinv h

/-- all threads that returned worked on the one published system -/
theorem single_system (n : Nat) (sched : List Nat) (i j s t : Nat)
    (hi : (run true (init n) sched).threads[i]? = some (Pc.finished s))
    (hj : (run true (init n) sched).threads[j]? = some (Pc.finished t)) : s = t := by
  have hinv := inv_run (init n) sched (inv_init n)
  have a := (hinv.2 i s hi).1
  have b := (hinv.2 j t hj).1
  rw [a] at b; cases b; rfl

/-- **C16** for the re-checking protocol: for every number of workers and every interleaving of
    their lookup / create / publish / use steps, the announcement of every worker that returned is
    visible to later datagrams of the exporter -/
theorem nothing_lost (n : Nat) (sched : List Nat) : NothingLost (run true (init n) sched) := by
  intro i s hi
  have hinv := inv_run (init n) sched (inv_init n)
  obtain ⟨hm, hmem⟩ := hinv.2 i s hi
  simp only [visible, hm, List.mem_map, List.mem_filter]
  exact ⟨(s, i), ⟨hmem, by simp⟩, rfl⟩

/-- both get-or-create sites have the shape the protocol with `recheck = true` models: lookup under
    the read lock, then — under the write lock — a second lookup before the store
    (regenerated from utils/pipe.go and producer/proto/proto.go on every run) -/
theorem skeleton_matches :
    Goflow.Generated.skPipeNetflow =
      ["p.templateslock.RLock()", "load p.templates[key]", "p.templateslock.RUnlock()", "p.templateslock.Lock()",
       "load p.templates[key]", "store p.templates[key]", "p.templateslock.Unlock()", "defer p.producer.Commit(flowMessageSet)"] ∧
    Goflow.Generated.skSamplingSystem =
      ["p.samplinglock.RLock()", "load p.sampling[key]", "p.samplinglock.RUnlock()", "p.samplinglock.Lock()",
       "load p.sampling[key]", "store p.sampling[key]", "p.samplinglock.Unlock()"] := by
  decide +kernel

/-- non-vacuity: a schedule of three racing workers in which all of them finish -/
example : (run true (init 3) [0, 1, 2, 0, 1, 2, 2, 1, 0, 0, 1, 2]).threads =
    [.finished 2, .finished 2, .finished 2] := by decide

/-- The instrumented template system that cmd/goflow2 wires into the auto pipe passes every operation to the wrapped
    store in ONE call (regenerated from metrics/templates.go): an announcement is one atomic `AddTemplate` of the store,
    never a remove followed by an add — between any two steps of a worker another worker finds the old or the new
    template (what the `tplatomic` probe of the harness checks on the real code). -/
theorem instrumented_store_atomic :
    Goflow.Generated.skPromAdd = ["s.wrapped.AddTemplate(version, obsDomainId, templateId, template)"] ∧
    Goflow.Generated.skPromGet = ["s.wrapped.GetTemplate(version, obsDomainId, templateId)"] ∧
    Goflow.Generated.skPromRemove = ["s.wrapped.RemoveTemplate(version, obsDomainId, templateId)"] := by
  decide +kernel

end Goflow.C16
