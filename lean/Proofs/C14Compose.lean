import Proofs.C14Map
import Proofs.C14Compile
import Proofs.C10Full
/-!
  C14 — whole-frame composition of the layer mappings.

  1. `runParser_unk`, `runParser_shape`: the 14 parsers never read or write the unknown section; which parser
     follows, the layer's size and whether it was recognised depend on the bytes and the registered ports only.
  2. `layerTrace` / `packetTrace`: the recognised layers of a byte string (keys, byte offset, encapsulation flag),
     by recursion mirroring `parseLoop`.
  3. `customEncRes`, `entriesEnc`, `layerEnc`, `traceEnc`: what the statements add to the unknown section.
  4. `parseLoop_layers`, 5. `parsePacket_layers_commute` (every configuration with destinations outside the
     message struct, every message, EVERY byte string), `parsePacket_unmatched`, `parsePacket_layers_sane`.
  6. `frameTrace` (the layers of a frame of the C10 grammar, written from the frame) and `packetTrace_frame`
     (the dissector recognises exactly these — whole grammar of `FrameWFIn`, tunnels included).
  7. `full_capture_mapped`, `full_capture_mapped_sane`, `full_capture_unmatched`.
  8. `file_full_capture`: from the mapping file (`compile`) to the message. 9. concrete file and frames.
-/
namespace Goflow.C14Compose
open Goflow Goflow.Producer Goflow.C14Map

/-! ## 1. the parsers never read or write the unknown section -/

/-- the message with another unknown section -/
def setUnk (m : FlowMsg) (u : Bytes) : FlowMsg := { m with unk := u }

/-- the layer size appended after a recognised layer -/
def addSize (m : FlowMsg) (size : Nat) : FlowMsg := { m with layerSize := m.layerSize ++ [size % 2 ^ 32] }

theorem addSize_setUnk (m : FlowMsg) (u : Bytes) (size : Nat) : addSize (setUnk m u) size = setUnk (addSize m size) u := rfl
theorem addSize_unk (m : FlowMsg) (size : Nat) : (addSize m size).unk = m.unk := rfl

theorem setUnk_unk (m : FlowMsg) (u : Bytes) : (setUnk m u).unk = u := rfl
theorem setUnk_layerStack (m : FlowMsg) (u : Bytes) : (setUnk m u).layerStack = m.layerStack := rfl
theorem setUnk_self (m : FlowMsg) : setUnk m m.unk = m := rfl
theorem setUnk_setUnk (m : FlowMsg) (u u' : Bytes) : setUnk (setUnk m u) u' = setUnk m u' := rfl

theorem runParser_unk (p : Parser) (m : FlowMsg) (u : Bytes) (d : Bytes) (pc : PC) :
    runParser p (setUnk m u) d pc =
      ⟨setUnk (runParser p m d pc).msg u, (runParser p m d pc).next, (runParser p m d pc).size⟩ := by
  unfold setUnk
  cases p <;> simp only [runParser]
  · rfl
  · unfold parseEthernet; split
    · rfl
    · cases pc.encapsulated <;> rfl
  · unfold parse8021Q; split
    · rfl
    · cases pc.encapsulated <;> rfl
  · unfold parseMPLS; split
    · rfl
    · generalize mplsLoop d (d.length / 4 + 1) 0 [] [] = r
      obtain ⟨ls, ts, off, et⟩ := r
      cases et <;> cases pc.encapsulated <;> rfl
  · unfold parseIPv4; split
    · rfl
    · cases pc.encapsulated <;> rfl
  · unfold parseIPv6; split
    · rfl
    · cases pc.encapsulated <;> rfl
  · unfold parseIPv6HeaderRouting; split
    · rfl
    · cases pc.encapsulated
      · simp only [Bool.not_false, if_true]
        split <;> rfl
      · rfl
  · unfold parseIPv6HeaderFragment; split
    · rfl
    · cases pc.encapsulated <;> rfl
  · unfold parseTCP; split
    · rfl
    · cases pc.encapsulated <;> rfl
  · unfold parseUDP; split
    · rfl
    · cases pc.encapsulated <;> rfl
  · unfold parseICMP; split
    · rfl
    · split <;> rfl
  · unfold parseICMPv6; split
    · rfl
    · split <;> rfl
  · unfold parseGRE; split <;> rfl
  · rfl
  · unfold parseGeneve; split <;> rfl

/-- which parser follows, how many bytes the layer takes and whether the layer was recognised at all depend on
    the bytes (and the registered ports) only — not on the message, the call count or the encapsulation flag -/
theorem runParser_shape (p : Parser) (m m' : FlowMsg) (d : Bytes) (pc pc' : PC) (hp : pc.ports = pc'.ports) :
    (runParser p m d pc).next = (runParser p m' d pc').next ∧ (runParser p m d pc).size = (runParser p m' d pc').size ∧
    (decide (m.layerStack.length < (runParser p m d pc).msg.layerStack.length) =
      decide (m'.layerStack.length < (runParser p m' d pc').msg.layerStack.length)) := by
  cases p <;> simp only [runParser]
  · simp [tooShort]
  · unfold parseEthernet; split
    · simp [tooShort]
    · cases pc.encapsulated <;> cases pc'.encapsulated <;> simp [addLayer]
  · unfold parse8021Q; split
    · simp [tooShort]
    · cases pc.encapsulated <;> cases pc'.encapsulated <;> simp [addLayer]
  · unfold parseMPLS; split
    · simp [tooShort]
    · generalize mplsLoop d (d.length / 4 + 1) 0 [] [] = r
      obtain ⟨ls, ts, off, et⟩ := r
      cases et <;> cases pc.encapsulated <;> cases pc'.encapsulated <;> simp [addLayer]
  · unfold parseIPv4; split
    · simp [tooShort]
    · cases pc.encapsulated <;> cases pc'.encapsulated <;> simp [addLayer]
  · unfold parseIPv6; split
    · simp [tooShort]
    · cases pc.encapsulated <;> cases pc'.encapsulated <;> simp [addLayer]
  · unfold parseIPv6HeaderRouting; split
    · simp [tooShort]
    · cases pc.encapsulated <;> cases pc'.encapsulated <;> simp only [Bool.not_false, Bool.not_true, if_true] <;>
        (repeat' split) <;> simp [addLayer]
  · unfold parseIPv6HeaderFragment; split
    · simp [tooShort]
    · cases pc.encapsulated <;> cases pc'.encapsulated <;> simp [addLayer]
  · unfold parseTCP; split
    · simp [tooShort]
    · rw [hp]; cases pc.encapsulated <;> cases pc'.encapsulated <;> simp [addLayer]
  · unfold parseUDP; split
    · simp [tooShort]
    · rw [hp]; cases pc.encapsulated <;> cases pc'.encapsulated <;> simp [addLayer]
  · unfold parseICMP; split
    · simp [tooShort]
    · (repeat' split) <;> simp [addLayer]
  · unfold parseICMPv6; split
    · simp [tooShort]
    · (repeat' split) <;> simp [addLayer]
  · unfold parseGRE; split <;> simp [tooShort, addLayer]
  · simp [parseTeredoDst, addLayer]
  · unfold parseGeneve; split <;> simp [tooShort, addLayer]

/-! ## 2. the trace of recognised layers -/

/-- one recognised layer: its configuration keys (`ConfigKeyList`), the byte offset it starts at, and whether
    the dissector regards it as encapsulated -/
abbrev Layer := List String × Nat × Bool

/-- the recognised layers of a frame, by recursion mirroring `parseLoop`: the parsers run on the empty message
    (which parser follows, the size and the recognition of a layer do not depend on the message), a layer
    is listed when its parser recognised it (it added an entry to the layer stack) -/
def layerTrace (ports : List PortEntry) (data : Bytes) : Nat → Next → Nat → Bool → Nat → List Layer
  | 0, _, _, _, _ => []
  | fuel + 1, next, offset, encap, encapIndex =>
    if next.callable ∧ offset ≤ data.length then
      let r := runParser next.parser FlowMsg.empty (data.drop offset) ⟨encap, 0, ports⟩
      let idx := encapIdx encapIndex next.encapSkip next.layerIndex
      let encap' := encap || encapTrig idx r.next.encapSkip r.next.layerIndex
      let rest := layerTrace ports data fuel r.next (offset + r.size) encap' idx
      if 0 < r.msg.layerStack.length then (next.keys, offset, encap) :: rest else rest
    else []

/-- the recognised layers of a sampled packet (the start state of `parsePacket`) -/
def packetTrace (ports : List PortEntry) (data : Bytes) : List Layer :=
  layerTrace ports data (2 * data.length + 4) ⟨.ethernet, Parser.ethernet.keys, false⟩ 0 false Parser.ethernet.layerIndex

/-! ## 3. what the statements of a layer add to the unknown section -/

/-- one value into a destination outside the message struct: nothing for an undeclared name (index 0);
    tag and value for a declared field; an error for a varint field fed more than 8 bytes -/
def customEncRes (f : MapField) (v : Bytes) : Res Bytes :=
  if f.protoIndex = 0 then .ok []
  else
    match f.protoType with
    | .varint => if v.length ≤ 8 then .ok (appendTag f.protoIndex 0 ++ appendVarint (endianVal f.little v)) else .error .bad
    | .string => .ok (appendTag f.protoIndex 2 ++ appendVarint v.length ++ v)
    | .none => .error .bad

theorem mapCustom_notMember (m : FlowMsg) (v : Bytes) (f : MapField) (hd : NotMember f.destination) :
    mapCustom m v f = match customEncRes f v with
      | .error e => .error e
      | .ok x => .ok (setUnk m (m.unk ++ x)) := by
  unfold customEncRes setUnk
  by_cases hi : f.protoIndex = 0
  · rw [mapCustom_undeclared m v f hd hi]; simp [hi]
  · have hpos : 0 < f.protoIndex := Nat.pos_of_ne_zero hi
    simp only [hi, if_false]
    cases ht : f.protoType with
    | varint =>
      by_cases hv : v.length ≤ 8
      · rw [mapCustom_custom_varint m v f hd hpos ht hv]; simp [hv, List.append_assoc]
      · rw [mapCustom_custom_varint_long m v f hd hpos ht (by omega)]; simp [hv]
    | string => rw [mapCustom_custom_bytes m v f hd hpos ht]; simp [List.append_assoc]
    | none =>
      obtain ⟨hk, h1, h2, h3, h4, h5, h6⟩ := hd
      unfold mapCustom
      simp [hk, h1, h2, h3, h4, h5, h6, hpos, ht]

/-- the statements `es` applied in order to the frame, the layer starting `offset` bytes into it: GetBytes of
    the bit range `[offset*8 + e.offset, + e.length)`, then the encoding of the value; the first failure ends it -/
def entriesEnc (data : Bytes) (offset : Nat) : List LayerMapEntry → Res Bytes
  | [] => .ok []
  | e :: es =>
    match getBytes data ((offset : Int) * 8 + e.offset) e.length true with
    | .error err => .error err
    | .ok v =>
      match customEncRes e.field v with
      | .error err => .error err
      | .ok x =>
        match entriesEnc data offset es with
        | .error err => .error err
        | .ok y => .ok (x ++ y)

theorem entriesEnc_append (data : Bytes) (offset : Nat) (es es' : List LayerMapEntry) :
    entriesEnc data offset (es ++ es') =
      match entriesEnc data offset es with
      | .error err => .error err
      | .ok x => match entriesEnc data offset es' with
        | .error err => .error err
        | .ok y => .ok (x ++ y) := by
  induction es with
  | nil =>
    simp only [List.nil_append, entriesEnc]
    cases entriesEnc data offset es' <;> simp
  | cons e es ih =>
    simp only [List.cons_append, entriesEnc, ih]
    cases getBytes data ((offset : Int) * 8 + e.offset) e.length true with
    | error err => rfl
    | ok v =>
      dsimp only
      cases customEncRes e.field v with
      | error err => rfl
      | ok x =>
        dsimp only
        cases entriesEnc data offset es with
        | error err => rfl
        | ok y =>
          dsimp only
          cases entriesEnc data offset es' with
          | error err => rfl
          | ok z => simp [List.append_assoc]

/-- the statements selected for a layer: for every key of the layer, in the order of the key list, the
    statements with that layer name in file order — those whose `encap` flag equals the layer's -/
def selected (layers : List LayerMapEntry) (l : Layer) : List LayerMapEntry :=
  (l.1.flatMap (lookupLayer layers)).filter (fun e => e.encap == l.2.2)

def layerEnc (layers : List LayerMapEntry) (data : Bytes) (l : Layer) : Res Bytes :=
  entriesEnc data l.2.1 (selected layers l)

/-- all layers of a trace, in order -/
def traceEnc (layers : List LayerMapEntry) (data : Bytes) : List Layer → Res Bytes
  | [] => .ok []
  | l :: ls =>
    match layerEnc layers data l with
    | .error err => .error err
    | .ok x =>
      match traceEnc layers data ls with
      | .error err => .error err
      | .ok y => .ok (x ++ y)

/-- every layer statement names a destination outside the message struct (a declared custom field, or an
    undeclared name) -/
def CustomLayers (cfg : Config) : Prop := ∀ e ∈ cfg.layers, NotMember e.field.destination

instance (cfg : Config) : Decidable (CustomLayers cfg) := by unfold CustomLayers; infer_instance

theorem mapLayerEntries_unk (data : Bytes) (offset : Nat) (encap : Bool) (es : List LayerMapEntry) (m : FlowMsg)
    (h : ∀ e ∈ es, NotMember e.field.destination) :
    mapLayerEntries data offset encap es m =
      match entriesEnc data offset (es.filter (fun e => e.encap == encap)) with
      | .error err => .error err
      | .ok x => .ok (setUnk m (m.unk ++ x)) := by
  induction es generalizing m with
  | nil => simp [mapLayerEntries, entriesEnc, setUnk]
  | cons e es ih =>
    have ih' := fun m => ih m (fun e' he' => h e' (List.mem_cons_of_mem _ he'))
    unfold mapLayerEntries
    by_cases he : e.encap = encap
    · have hb : (e.encap != encap) = false := by simp [he]
      have hf : (e.encap == encap) = true := by simp [he]
      simp only [hb, Bool.false_eq_true, if_false, List.filter_cons, hf, if_true, entriesEnc]
      cases getBytes data ((offset : Int) * 8 + e.offset) e.length true with
      | error err => rfl
      | ok v =>
        simp only [mapCustom_notMember m v e.field (h e List.mem_cons_self)]
        cases customEncRes e.field v with
        | error err => rfl
        | ok x =>
          simp only [ih']
          cases entriesEnc data offset (es.filter (fun e => e.encap == encap)) with
          | error err => rfl
          | ok y => simp [List.append_assoc, setUnk]
    · have hb : (e.encap != encap) = true := by simp [he]
      have hf : (e.encap == encap) = false := by simp [he]
      simp only [hb, if_true, List.filter_cons, hf, Bool.false_eq_true, if_false]
      exact ih' m

theorem mapLayerKeys_unk (cfg : Config) (hcfg : CustomLayers cfg) (data : Bytes) (offset : Nat) (encap : Bool)
    (keys : List String) (m : FlowMsg) :
    mapLayerKeys cfg data offset encap keys m =
      match layerEnc cfg.layers data (keys, offset, encap) with
      | .error err => .error err
      | .ok x => .ok (setUnk m (m.unk ++ x)) := by
  unfold layerEnc selected
  induction keys generalizing m with
  | nil => simp [mapLayerKeys, entriesEnc, setUnk]
  | cons k ks ih =>
    unfold mapLayerKeys
    have hk : ∀ e ∈ lookupLayer cfg.layers k, NotMember e.field.destination := by
      intro e he
      unfold lookupLayer at he
      exact hcfg e (List.mem_filter.1 he).1
    rw [mapLayerEntries_unk data offset encap _ m hk]
    simp only [List.flatMap_cons, List.filter_append, entriesEnc_append]
    cases entriesEnc data offset ((lookupLayer cfg.layers k).filter (fun e => e.encap == encap)) with
    | error err => rfl
    | ok x =>
      simp only [ih]
      cases entriesEnc data offset ((ks.flatMap (lookupLayer cfg.layers)).filter (fun e => e.encap == encap)) with
      | error err => rfl
      | ok y => simp [List.append_assoc, setUnk]

/-! ## 4. the loop of ParsePacket -/

/-- one iteration of the loop, given the parser's result -/
def loopCont (cfg : Config) (data : Bytes) (fuel : Nat) (next : Next) (off : Nat) (enc : Bool) (idx : Nat)
    (calls : List (Nat × Nat)) (m : FlowMsg) (r : PRes) : Res FlowMsg :=
  match (if m.layerStack.length < r.msg.layerStack.length then mapLayerKeys cfg data off enc next.keys r.msg else .ok r.msg) with
  | .error e => .error e
  | .ok m1 =>
    parseLoop cfg data fuel r.next (off + r.size)
      (enc || encapTrig (encapIdx idx next.encapSkip next.layerIndex) r.next.encapSkip r.next.layerIndex)
      (encapIdx idx next.encapSkip next.layerIndex) (bump calls next.parserIndex)
      (if m.layerStack.length < r.msg.layerStack.length then { m1 with layerSize := m1.layerSize ++ [r.size % 2 ^ 32] } else m1)

theorem parseLoop_succ (cfg : Config) (data : Bytes) (fuel : Nat) (next : Next) (off : Nat) (enc : Bool) (idx : Nat)
    (calls : List (Nat × Nat)) (m : FlowMsg) :
    parseLoop cfg data (fuel + 1) next off enc idx calls m =
      if next.callable = true ∧ off ≤ data.length then
        loopCont cfg data fuel next off enc idx calls m
          (runParser next.parser m (data.drop off) ⟨enc, (calls.lookup next.parserIndex).getD 0, cfg.ports⟩)
      else .ok m := by
  rw [parseLoop]
  unfold loopCont
  by_cases hc : next.callable = true ∧ off ≤ data.length
  · simp only [hc, and_self, if_true, decide_eq_true_eq]
    by_cases hr : m.layerStack.length <
        (runParser next.parser m (data.drop off) ⟨enc, (calls.lookup next.parserIndex).getD 0, cfg.ports⟩).msg.layerStack.length
    · simp only [hr, if_true]
      try rfl
    · simp only [hr, if_false]
      try rfl
  · simp only [hc, if_false]

theorem loopCont_rec (cfg : Config) (data : Bytes) (fuel : Nat) (next : Next) (off : Nat) (enc : Bool) (idx : Nat)
    (calls : List (Nat × Nat)) (m : FlowMsg) (r : PRes) (h : m.layerStack.length < r.msg.layerStack.length) :
    loopCont cfg data fuel next off enc idx calls m r =
      match mapLayerKeys cfg data off enc next.keys r.msg with
      | .error e => .error e
      | .ok m1 =>
        parseLoop cfg data fuel r.next (off + r.size)
          (enc || encapTrig (encapIdx idx next.encapSkip next.layerIndex) r.next.encapSkip r.next.layerIndex)
          (encapIdx idx next.encapSkip next.layerIndex) (bump calls next.parserIndex) (addSize m1 r.size) := by
  unfold loopCont addSize
  simp only [h, if_true]

theorem loopCont_unrec (cfg : Config) (data : Bytes) (fuel : Nat) (next : Next) (off : Nat) (enc : Bool) (idx : Nat)
    (calls : List (Nat × Nat)) (m : FlowMsg) (r : PRes) (h : ¬ m.layerStack.length < r.msg.layerStack.length) :
    loopCont cfg data fuel next off enc idx calls m r =
      parseLoop cfg data fuel r.next (off + r.size)
        (enc || encapTrig (encapIdx idx next.encapSkip next.layerIndex) r.next.encapSkip r.next.layerIndex)
        (encapIdx idx next.encapSkip next.layerIndex) (bump calls next.parserIndex) r.msg := by
  unfold loopCont
  simp only [h, if_false]

open Goflow.C10 in
/-- without layer statements the loop carries the unknown section along untouched -/
theorem parseLoop_unk (cfg0 : Config) (h0 : cfg0.layers = []) (data : Bytes) (fuel : Nat) :
    ∀ (next : Next) (off : Nat) (enc : Bool) (idx : Nat) (calls : List (Nat × Nat)) (m : FlowMsg) (u : Bytes),
    parseLoop cfg0 data fuel next off enc idx calls (setUnk m u) =
      match parseLoop cfg0 data fuel next off enc idx calls m with
      | .error e => .error e
      | .ok m' => .ok (setUnk m' u) := by
  induction fuel with
  | zero => intros; rfl
  | succ fuel ih =>
    intro next off enc idx calls m u
    rw [parseLoop_succ, parseLoop_succ]
    by_cases hc : next.callable = true ∧ off ≤ data.length
    · rw [if_pos hc, if_pos hc, runParser_unk]
      generalize runParser next.parser m (data.drop off) ⟨enc, (calls.lookup next.parserIndex).getD 0, cfg0.ports⟩ = r
      by_cases hr : m.layerStack.length < r.msg.layerStack.length
      · rw [loopCont_rec cfg0 data fuel next off enc idx calls (setUnk m u) ⟨setUnk r.msg u, r.next, r.size⟩ hr,
          loopCont_rec cfg0 data fuel next off enc idx calls m r hr]
        simp only [mapLayerKeys_nil h0, addSize_setUnk]
        exact ih _ _ _ _ _ _ u
      · rw [loopCont_unrec cfg0 data fuel next off enc idx calls (setUnk m u) ⟨setUnk r.msg u, r.next, r.size⟩ hr,
          loopCont_unrec cfg0 data fuel next off enc idx calls m r hr]
        exact ih _ _ _ _ _ _ u
    · rw [if_neg hc, if_neg hc]

/-- … in particular the result carries the unknown section of the start message -/
theorem parseLoop_unk_eq (cfg0 : Config) (h0 : cfg0.layers = []) (data : Bytes) (fuel : Nat)
    (next : Next) (off : Nat) (enc : Bool) (idx : Nat) (calls : List (Nat × Nat)) (m m' : FlowMsg)
    (h : parseLoop cfg0 data fuel next off enc idx calls m = .ok m') : m'.unk = m.unk := by
  have := parseLoop_unk cfg0 h0 data fuel next off enc idx calls m m.unk
  rw [setUnk_self, h] at this
  have h2 := Except.ok.inj this
  rw [h2]; rfl

/-! ### the trace, one iteration at a time -/

/-- the rest of the trace after a layer whose parser selected `nxt` and took `size` bytes -/
def traceRest (ports : List PortEntry) (data : Bytes) (fuel : Nat) (next : Next) (off : Nat) (enc : Bool) (idx : Nat)
    (nxt : Next) (size : Nat) : List Layer :=
  layerTrace ports data fuel nxt (off + size)
    (enc || encapTrig (encapIdx idx next.encapSkip next.layerIndex) nxt.encapSkip nxt.layerIndex)
    (encapIdx idx next.encapSkip next.layerIndex)

theorem layerTrace_zero (ports : List PortEntry) (data : Bytes) (next : Next) (off : Nat) (enc : Bool) (idx : Nat) :
    layerTrace ports data 0 next off enc idx = [] := rfl

/-- one iteration of the trace, with the parser run on any message and any call count / encapsulation flag -/
theorem layerTrace_succ (ports : List PortEntry) (data : Bytes) (fuel : Nat) (next : Next) (off : Nat) (enc : Bool) (idx : Nat)
    (m : FlowMsg) (pc : PC) (hp : pc.ports = ports) :
    layerTrace ports data (fuel + 1) next off enc idx =
      if next.callable = true ∧ off ≤ data.length then
        if m.layerStack.length < (runParser next.parser m (data.drop off) pc).msg.layerStack.length then
          (next.keys, off, enc) :: traceRest ports data fuel next off enc idx
            (runParser next.parser m (data.drop off) pc).next (runParser next.parser m (data.drop off) pc).size
        else traceRest ports data fuel next off enc idx
            (runParser next.parser m (data.drop off) pc).next (runParser next.parser m (data.drop off) pc).size
      else [] := by
  rw [layerTrace]
  by_cases hc : next.callable = true ∧ off ≤ data.length
  · rw [if_pos hc, if_pos hc]
    obtain ⟨h1, h2, h3⟩ := runParser_shape next.parser m FlowMsg.empty (data.drop off) pc ⟨enc, 0, ports⟩ hp
    have h3' : (m.layerStack.length < (runParser next.parser m (data.drop off) pc).msg.layerStack.length) ↔
        0 < (runParser next.parser FlowMsg.empty (data.drop off) ⟨enc, 0, ports⟩).msg.layerStack.length := by
      have := decide_eq_decide.1 h3
      simpa [FlowMsg.empty] using this
    unfold traceRest
    rw [h1, h2]
    by_cases hr : m.layerStack.length < (runParser next.parser m (data.drop off) pc).msg.layerStack.length
    · rw [if_pos hr, if_pos (h3'.1 hr)]
    · rw [if_neg hr, if_neg (fun h => hr (h3'.2 h))]
  · rw [if_neg hc, if_neg hc]

theorem traceEnc_nil (layers : List LayerMapEntry) (data : Bytes) : traceEnc layers data [] = .ok [] := rfl

theorem traceEnc_cons (layers : List LayerMapEntry) (data : Bytes) (l : Layer) (ls : List Layer) :
    traceEnc layers data (l :: ls) =
      match layerEnc layers data l with
      | .error err => .error err
      | .ok x =>
        match traceEnc layers data ls with
        | .error err => .error err
        | .ok y => .ok (x ++ y) := rfl

/-! ### the composition -/

/-- the configuration without its layer statements -/
def noLayers (cfg : Config) : Config := { cfg with layers := [] }

theorem noLayers_layers (cfg : Config) : (noLayers cfg).layers = [] := rfl
theorem noLayers_ports (cfg : Config) : (noLayers cfg).ports = cfg.ports := rfl

open Goflow.C10 in
/-- **the loop with layer statements** = the loop without them, and the unknown section extended by the
    encodings of the statements' extractions at every recognised layer, in layer order; the first failing
    statement fails the packet -/
theorem parseLoop_layers (cfg : Config) (hcfg : CustomLayers cfg) (data : Bytes) (fuel : Nat) :
    ∀ (next : Next) (off : Nat) (enc : Bool) (idx : Nat) (calls : List (Nat × Nat)) (m : FlowMsg),
    parseLoop cfg data fuel next off enc idx calls m =
      match traceEnc cfg.layers data (layerTrace cfg.ports data fuel next off enc idx) with
      | .error e => .error e
      | .ok ext =>
        match parseLoop (noLayers cfg) data fuel next off enc idx calls m with
        | .error e => .error e
        | .ok m' => .ok (setUnk m' (m'.unk ++ ext)) := by
  induction fuel with
  | zero => intros; rfl
  | succ fuel ih =>
    intro next off enc idx calls m
    rw [parseLoop_succ, parseLoop_succ,
      layerTrace_succ cfg.ports data fuel next off enc idx m ⟨enc, (calls.lookup next.parserIndex).getD 0, cfg.ports⟩ rfl]
    by_cases hc : next.callable = true ∧ off ≤ data.length
    · rw [if_pos hc, if_pos hc, if_pos hc, noLayers_ports]
      generalize runParser next.parser m (data.drop off) ⟨enc, (calls.lookup next.parserIndex).getD 0, cfg.ports⟩ = r
      by_cases hr : m.layerStack.length < r.msg.layerStack.length
      · rw [if_pos hr, loopCont_rec _ _ _ _ _ _ _ _ m r hr, loopCont_rec _ _ _ _ _ _ _ _ m r hr,
          mapLayerKeys_nil (noLayers_layers cfg), mapLayerKeys_unk cfg hcfg, traceEnc_cons]
        cases hx : layerEnc cfg.layers data (next.keys, off, enc) with
        | error err => rfl
        | ok x =>
          dsimp only
          rw [addSize_setUnk, ih]
          unfold traceRest
          cases traceEnc cfg.layers data (layerTrace cfg.ports data fuel r.next (off + r.size)
            (enc || encapTrig (encapIdx idx next.encapSkip next.layerIndex) r.next.encapSkip r.next.layerIndex)
            (encapIdx idx next.encapSkip next.layerIndex)) with
          | error err => rfl
          | ok y =>
            dsimp only
            rw [parseLoop_unk (noLayers cfg) (noLayers_layers cfg)]
            cases hm : parseLoop (noLayers cfg) data fuel r.next (off + r.size)
              (enc || encapTrig (encapIdx idx next.encapSkip next.layerIndex) r.next.encapSkip r.next.layerIndex)
              (encapIdx idx next.encapSkip next.layerIndex) (bump calls next.parserIndex) (addSize r.msg r.size) with
            | error err => rfl
            | ok m' =>
              have hu := parseLoop_unk_eq (noLayers cfg) (noLayers_layers cfg) _ _ _ _ _ _ _ _ _ hm
              simp only [setUnk_setUnk, setUnk_unk, hu, addSize_unk, List.append_assoc]
      · rw [if_neg hr, loopCont_unrec _ _ _ _ _ _ _ _ m r hr, loopCont_unrec _ _ _ _ _ _ _ _ m r hr, ih]
        rfl
    · rw [if_neg hc, if_neg hc, if_neg hc]
      simp [traceEnc_nil, setUnk]

/-! ## 5. whole packets -/

/-- **`parsePacket_layers_commute`** — for every configuration whose layer statements all have destinations
    outside the message struct, every start message and EVERY byte string: the dissector without the layer
    statements succeeds with some message `m'` (same unknown section as the start message), and the dissector
    with them yields `m'` with the unknown section extended by `traceEnc` over the recognised layers of the
    packet — or the error of the first failing statement. Every column is the one of `m'`: traffic the
    statements do not match is unaffected, and every recognised layer that a statement matches contributes. -/
theorem parsePacket_layers_commute (cfg : Config) (hcfg : CustomLayers cfg) (m : FlowMsg) (data : Bytes) :
    ∃ m', parsePacket (noLayers cfg) m data = .ok m' ∧ m'.unk = m.unk ∧
      parsePacket cfg m data =
        match traceEnc cfg.layers data (packetTrace cfg.ports data) with
        | .error e => .error e
        | .ok ext => .ok { m' with unk := m.unk ++ ext } := by
  obtain ⟨m', hm'⟩ := parsePacket_safe (noLayers cfg) (noLayers_layers cfg) m data
  have hu : m'.unk = m.unk := by
    unfold parsePacket at hm'
    exact parseLoop_unk_eq (noLayers cfg) (noLayers_layers cfg) _ _ _ _ _ _ _ _ _ hm'
  refine ⟨m', hm', hu, ?_⟩
  have h := parseLoop_layers cfg hcfg data (2 * data.length + 4) ⟨.ethernet, Parser.ethernet.keys, false⟩ 0 false
    Parser.ethernet.layerIndex [] m
  unfold parsePacket at hm' ⊢
  rw [h, hm']
  unfold packetTrace
  cases traceEnc cfg.layers data (layerTrace cfg.ports data (2 * data.length + 4) ⟨.ethernet, Parser.ethernet.keys, false⟩ 0 false
    Parser.ethernet.layerIndex) with
  | error e => rfl
  | ok ext => simp only [setUnk, hu]

/-- the same as one equation -/
theorem parsePacket_layers_eq (cfg : Config) (hcfg : CustomLayers cfg) (m : FlowMsg) (data : Bytes) :
    parsePacket cfg m data =
      match traceEnc cfg.layers data (packetTrace cfg.ports data) with
      | .error e => .error e
      | .ok ext =>
        match parsePacket { cfg with layers := [] } m data with
        | .error e => .error e
        | .ok m' => .ok { m' with unk := m'.unk ++ ext } :=
  parseLoop_layers cfg hcfg data (2 * data.length + 4) ⟨.ethernet, Parser.ethernet.keys, false⟩ 0 false
    Parser.ethernet.layerIndex [] m

/-- a configuration without layer statements matching any recognised layer leaves the packet alone -/
theorem parsePacket_unmatched (cfg : Config) (hcfg : CustomLayers cfg) (m : FlowMsg) (data : Bytes)
    (hno : ∀ l ∈ packetTrace cfg.ports data, selected cfg.layers l = []) :
    parsePacket cfg m data = parsePacket (noLayers cfg) m data := by
  obtain ⟨m', hm', hu, h⟩ := parsePacket_layers_commute cfg hcfg m data
  rw [h, hm']
  have : traceEnc cfg.layers data (packetTrace cfg.ports data) = .ok [] := by
    generalize packetTrace cfg.ports data = tr at hno
    induction tr with
    | nil => rfl
    | cons l ls ih =>
      rw [traceEnc_cons, ih (fun l' hl' => hno l' (List.mem_cons_of_mem _ hl'))]
      unfold layerEnc
      rw [hno l List.mem_cons_self]
      rfl
  rw [this]
  simp only [List.append_nil, ← hu]

/-! ### the encodings when offsets and lengths are non-negative and varint fields get at most 64 bits -/

/-- what one statement adds: nothing for an undeclared name, else the field's encoding of the value -/
def encOf (f : MapField) (v : Bytes) : Bytes := if f.protoIndex = 0 then [] else customEnc f v

/-- a layer statement the documentation covers: a destination outside the message struct that is undeclared, or
    declared as string / bytes, or declared as varint and given at most 64 bits; offset and length not negative -/
def SaneEntry (e : LayerMapEntry) : Prop :=
  NotMember e.field.destination ∧ 0 ≤ e.offset ∧ 0 ≤ e.length ∧
    (e.field.protoIndex = 0 ∨ e.field.protoType = .string ∨ (e.field.protoType = .varint ∧ e.length ≤ 64))

instance (e : LayerMapEntry) : Decidable (SaneEntry e) := by unfold SaneEntry; infer_instance

def SaneLayers (cfg : Config) : Prop := ∀ e ∈ cfg.layers, SaneEntry e

instance (cfg : Config) : Decidable (SaneLayers cfg) := by unfold SaneLayers; infer_instance

theorem SaneLayers.custom {cfg : Config} (h : SaneLayers cfg) : CustomLayers cfg := fun e he => (h e he).1

theorem entryBits_length (data : Bytes) (offset : Nat) (e : LayerMapEntry) (h : 0 ≤ e.offset ∧ 0 ≤ e.length) (n : Nat)
    (hn : e.length ≤ 8 * n) : (entryBits data offset e).length ≤ n := by
  obtain ⟨b, hb, hlen⟩ := Goflow.C14.getBytes_total data (8 * offset + e.offset.toNat) e.length.toNat true
  have h2 := Goflow.C14.getBytes_eq_extract data (8 * offset + e.offset.toNat) e.length.toNat true
  rw [hb] at h2
  have hb' : b = entryBits data offset e := by simpa [entryBits] using Except.ok.inj h2
  rw [← hb']
  rcases hlen with rfl | hlen
  · simp
  · rw [hlen]
    unfold Goflow.C14.ceil8
    have : e.length.toNat ≤ 8 * n := by omega
    split <;> omega

theorem customEncRes_sane (e : LayerMapEntry) (v : Bytes) (hs : SaneEntry e)
    (hv : e.field.protoIndex ≠ 0 → e.field.protoType = .varint → v.length ≤ 8) :
    customEncRes e.field v = .ok (encOf e.field v) := by
  unfold customEncRes encOf customEnc
  by_cases hi : e.field.protoIndex = 0
  · simp [hi]
  · simp only [hi, if_false]
    rcases hs.2.2.2 with h0 | h1 | h2
    · exact absurd h0 hi
    · simp [h1, List.append_assoc]
    · simp [h2.1, hv hi h2.1]

theorem entriesEnc_sane (data : Bytes) (offset : Nat) (es : List LayerMapEntry) (h : ∀ e ∈ es, SaneEntry e) :
    entriesEnc data offset es = .ok (es.flatMap fun e => encOf e.field (entryBits data offset e)) := by
  induction es with
  | nil => rfl
  | cons e es ih =>
    have hs := h e List.mem_cons_self
    rw [entriesEnc, getBytes_entry data offset e ⟨hs.2.1, hs.2.2.1⟩]
    dsimp only
    rw [customEncRes_sane e _ hs (fun hi ht => by
      rcases hs.2.2.2 with h0 | h1 | h2
      · exact absurd h0 hi
      · rw [h1] at ht; cases ht
      · exact entryBits_length data offset e ⟨hs.2.1, hs.2.2.1⟩ 8 (by omega))]
    dsimp only
    rw [ih (fun e' he' => h e' (List.mem_cons_of_mem _ he'))]
    rfl

theorem selected_mem (layers : List LayerMapEntry) (l : Layer) (e : LayerMapEntry) (h : e ∈ selected layers l) : e ∈ layers := by
  unfold selected at h
  obtain ⟨k, _, hk⟩ := List.mem_flatMap.1 (List.mem_filter.1 h).1
  unfold lookupLayer at hk
  exact (List.mem_filter.1 hk).1

/-- the bytes the layer statements add for a list of layers: for each layer in order, for each selected
    statement in order, the encoding of the bits `[8·offset + e.offset, + e.length)` of the frame -/
def traceBytes (layers : List LayerMapEntry) (data : Bytes) (tr : List Layer) : Bytes :=
  tr.flatMap fun l => (selected layers l).flatMap fun e => encOf e.field (entryBits data l.2.1 e)

theorem traceEnc_sane (cfg : Config) (h : SaneLayers cfg) (data : Bytes) (tr : List Layer) :
    traceEnc cfg.layers data tr = .ok (traceBytes cfg.layers data tr) := by
  induction tr with
  | nil => rfl
  | cons l ls ih =>
    rw [traceEnc_cons, ih]
    unfold layerEnc
    rw [entriesEnc_sane data l.2.1 _ (fun e he => h e (selected_mem cfg.layers l e he))]
    rfl

/-- **whole packets, documented statements**: never an error; the columns are those of the dissector without
    layer statements; the unknown section grows by `traceBytes` over the recognised layers -/
theorem parsePacket_layers_sane (cfg : Config) (hcfg : SaneLayers cfg) (m : FlowMsg) (data : Bytes) :
    ∃ m', parsePacket (noLayers cfg) m data = .ok m' ∧ m'.unk = m.unk ∧
      parsePacket cfg m data = .ok { m' with unk := m.unk ++ traceBytes cfg.layers data (packetTrace cfg.ports data) } := by
  obtain ⟨m', hm', hu, h⟩ := parsePacket_layers_commute cfg hcfg.custom m data
  refine ⟨m', hm', hu, ?_⟩
  rw [h, traceEnc_sane cfg hcfg]

/-! ## 6. the layers of a well-formed frame -/

section Frames
open Goflow.Spec.Frame Goflow.C10

/-- the keys a layer reached by ethertype carries besides those of its parser: only the low byte of the
    ethertype takes part (`uint16(etherType[0]<<8)` is 0 in Go) -/
def etKeys (et : Nat) : List String := ["etype" ++ natStr et, "etype0x" ++ hex4 et]
/-- … and a layer reached by IP protocol number -/
def protoKeys (p : Nat) : List String := ["proto" ++ natStr p]

def l4Trace (off : Nat) (enc : Bool) : L4 → List Layer
  | .tcp .. => [(Parser.tcp.keys ++ protoKeys 6, off, enc)]
  | .udp .. => [(Parser.udp.keys ++ protoKeys 17, off, enc)]
  | .icmp .. => [(Parser.icmp.keys ++ protoKeys 1, off, enc)]
  | .icmpv6 .. => [(Parser.icmpv6.keys ++ protoKeys 58, off, enc)]
  | .other .. => []

mutual
/-- the layers of an IP packet starting at byte `off`; `via` are the keys of the way it was reached -/
def ipTrace (off : Nat) (enc : Bool) (via : List String) : IP → List Layer
  | .v4 _ _ _ _ _ _ _ pl => (Parser.ipv4.keys ++ via, off, enc) :: payloadTrace (off + 20) enc pl
  | .v6 _ _ _ _ _ ext pl =>
    match ext with
    | .none => (Parser.ipv6.keys ++ via, off, enc) :: payloadTrace (off + 40) enc pl
    | .fragment .. => (Parser.ipv6.keys ++ via, off, enc) :: (Parser.ipv6frag.keys ++ protoKeys 44, off + 40, enc) ::
        payloadTrace (off + 48) enc pl
    | .srh _ _ segs => (Parser.ipv6.keys ++ via, off, enc) :: (Parser.ipv6route.keys ++ protoKeys 43, off + 40, enc) ::
        payloadTrace (off + 48 + 16 * segs.length) enc pl
/-- what an IP header carries: a tunnel header (GRE) is not itself encapsulated, everything behind it is;
    an IP header directly inside IP is -/
def payloadTrace (off : Nat) (enc : Bool) : Payload → List Layer
  | .l4 l => l4Trace off enc l
  | .gre inner => (Parser.gre.keys ++ protoKeys 47, off, enc) :: etherTrace (off + 4) true inner
  | .ipip p => ipTrace off true (protoKeys (payloadProto (.ipip p))) p
/-- what Ethernet (or GRE) carries -/
def etherTrace (off : Nat) (enc : Bool) : EtherPayload → List Layer
  | .ip p => ipTrace off enc (etKeys (etherType (.ip p))) p
  | .mpls labels p => (Parser.mpls.keys ++ etKeys 0x8847, off, enc) ::
      ipTrace (off + 4 * labels.length) enc (etKeys (etherType (.ip p))) p
  | .raw .. => []
end

/-- the layers of a frame: Ethernet at 0, one 802.1Q layer per tag, then what Ethernet carries -/
def frameTrace (f : Frame) : List Layer :=
  (Parser.ethernet.keys, 0, false) ::
    ((List.range f.vlans.length).map fun i => (Parser.dot1q.keys ++ etKeys 0x8100, 14 + 4 * i, false)) ++
    etherTrace (14 + 4 * f.vlans.length) false f.payload

/-! ### the trace, one layer at a time -/

theorem trace_step {ports : List PortEntry} {data : Bytes} {fuel : Nat} {next : Next} {off : Nat} {encap : Bool} {idx : Nat}
    (hc : next.callable = true) (ho : off ≤ data.length) {d : Bytes} (hd : data.drop off = d) (r : PRes)
    {m0 : FlowMsg} {pc0 : PC} (hp : pc0.ports = ports) (hr : runParser next.parser m0 d pc0 = r)
    (hrec : m0.layerStack.length < r.msg.layerStack.length := by simp) :
    layerTrace ports data (fuel + 1) next off encap idx =
      (next.keys, off, encap) :: layerTrace ports data fuel r.next (off + r.size)
        (encap || encapTrig (encapIdx idx next.encapSkip next.layerIndex) r.next.encapSkip r.next.layerIndex)
        (encapIdx idx next.encapSkip next.layerIndex) := by
  subst hd hr
  rw [layerTrace_succ ports data fuel next off encap idx m0 pc0 hp, if_pos ⟨hc, ho⟩, if_pos hrec]
  rfl

theorem trace_stop {ports : List PortEntry} {data : Bytes} {fuel : Nat} {next : Next} {off : Nat} {encap : Bool} {idx : Nat}
    (hc : next.callable = false) : layerTrace ports data (fuel + 1) next off encap idx = [] := by
  rw [layerTrace]; simp [hc]

/-- the keys of the next layer, explicitly -/
theorem ep_next' {ports : List PortEntry} (ep : EtherPayload) (h : EpWF ports ep) :
    nextParserEtype (etherType ep / 256) (etherType ep % 256) =
      ⟨epParser ep, (epParser ep).keys ++ etKeys (etherType ep), false⟩ := by
  match ep, h with
  | .ip (.v4 ..), _ => simp only [etherType, epParser, ipParser]; rfl
  | .ip (.v6 ..), _ => simp only [etherType, epParser, ipParser]; rfl
  | .mpls .., _ => simp only [etherType, epParser]; rfl
  | .raw t _, h =>
    have e : t / 256 * 256 + t % 256 = t := by omega
    have h2 := h.2
    simp only [List.mem_cons, List.not_mem_nil, or_false, not_or] at h2
    obtain ⟨h1, h2, h3, h4, h5, h6⟩ := h2
    simp [etherType, epParser, etKeys, nextParserEtype, e, h1, h2, h3, h4, h5, h6]

theorem ip_next' (p : IP) :
    nextParserEtype (ipEtype p / 256) (ipEtype p % 256) = ⟨ipParser p, (ipParser p).keys ++ etKeys (ipEtype p), false⟩ := by
  cases p
  · simp only [ipEtype, ipParser]; rfl
  · simp only [ipEtype, ipParser]; rfl

theorem ipip_next' (p : IP) :
    nextParserProto (payloadProto (.ipip p)) = ⟨ipParser p, (ipParser p).keys ++ protoKeys (payloadProto (.ipip p)), false⟩ := by
  cases p
  · simp only [payloadProto, ipParser]; rfl
  · simp only [payloadProto, ipParser]; rfl

theorem trace_l4 {ports : List PortEntry} (l : L4) (hl : L4WF ports l)
    {data : Bytes} {off : Nat} (hd : data.drop off = l4Bytes l) (ho : off ≤ data.length)
    {fuel : Nat} (hf : 2 ≤ fuel) (enc : Bool) (idx : Nat) :
    layerTrace ports data fuel (nextParserProto (l4Proto l)) off enc idx = l4Trace off enc l := by
  obtain ⟨fuel, rfl⟩ : ∃ f, fuel = f + 2 := ⟨fuel - 2, by omega⟩
  cases l with
  | tcp sp dp seq ack doff flags win opts =>
    obtain ⟨hsp, hdp, _, _, h5, h16, hfl, _, _, hport⟩ := hl
    simp only [l4Bytes, Spec.Frame.u8, Spec.Frame.u16, Spec.Frame.u32, List.append_assoc] at hd
    have hn : nextParserProto (l4Proto (.tcp sp dp seq ack doff flags win opts)) = ⟨.tcp, Parser.tcp.keys ++ protoKeys 6, false⟩ := rfl
    rw [hn, trace_step (next := ⟨.tcp, _, false⟩) rfl ho hd _ (m0 := FlowMsg.empty) (pc0 := ⟨false, 0, ports⟩) rfl
      (parseTCP_spec _ sp dp seq ack doff flags win 0 0 opts _ hsp hdp h5 h16 hfl rfl), trace_stop hport]
    rfl
  | udp sp dp =>
    obtain ⟨hsp, hdp, hport⟩ := hl
    simp only [l4Bytes, Spec.Frame.u16, List.append_assoc] at hd
    have hn : nextParserProto (l4Proto (.udp sp dp)) = ⟨.udp, Parser.udp.keys ++ protoKeys 17, false⟩ := rfl
    rw [hn, trace_step (next := ⟨.udp, _, false⟩) rfl ho hd _ (m0 := FlowMsg.empty) (pc0 := ⟨false, 0, ports⟩) rfl
      (parseUDP_spec _ sp dp (encBE 2 8 ++ encBE 2 0) _ hsp hdp (by simp) rfl), trace_stop hport]
    rfl
  | icmp t c =>
    obtain ⟨ht, hc⟩ := hl
    simp only [l4Bytes, Spec.Frame.u8, Spec.Frame.u16, Spec.Frame.u32, List.append_assoc] at hd
    have hn : nextParserProto (l4Proto (.icmp t c)) = ⟨.icmp, Parser.icmp.keys ++ protoKeys 1, false⟩ := rfl
    rw [hn, trace_step (next := ⟨.icmp, _, false⟩) rfl ho hd _ (m0 := FlowMsg.empty) (pc0 := ⟨false, 0, ports⟩) rfl
      (parseICMP_spec _ t c (encBE 2 0 ++ encBE 4 0) _ ht hc rfl), trace_stop rfl]
    rfl
  | icmpv6 t c =>
    obtain ⟨ht, hc⟩ := hl
    simp only [l4Bytes, Spec.Frame.u8, Spec.Frame.u16, Spec.Frame.u32, List.append_assoc] at hd
    have hn : nextParserProto (l4Proto (.icmpv6 t c)) = ⟨.icmpv6, Parser.icmpv6.keys ++ protoKeys 58, false⟩ := rfl
    rw [hn, trace_step (next := ⟨.icmpv6, _, false⟩) rfl ho hd _ (m0 := FlowMsg.empty) (pc0 := ⟨false, 0, ports⟩) rfl
      (parseICMPv6_spec _ t c (encBE 2 0 ++ encBE 4 0) _ ht hc rfl), trace_stop rfl]
    rfl
  | other p pl =>
    simp only [L4WF, List.mem_cons, List.not_mem_nil, or_false, not_or] at hl
    obtain ⟨_, h1, h4, h6, h17, h41, h43, h44, h47, h58⟩ := hl
    rw [trace_stop (by simp [l4Proto, nextParserProto, Next.callable, *])]
    rfl

theorem or_trig_of_enc (enc : Bool) (t : Bool) (h : enc = true ∨ t = false) : (enc || t) = enc := by
  rcases h with rfl | rfl <;> simp

mutual
theorem trace_ip {ports : List PortEntry} :
    ∀ (p : IP), IPWF ports p → ∀ (data : Bytes) (off : Nat), data.drop off = ipBytes p → off ≤ data.length →
    ∀ (fuel : Nat), (stackIP p).length + 2 ≤ fuel → ∀ (via : List String) (enc : Bool) (idx : Nat),
    layerTrace ports data fuel ⟨ipParser p, (ipParser p).keys ++ via, false⟩ off enc idx = ipTrace off enc via p
  | .v4 tos ident fl fo ttl src dst pl, hp => by
    intro data off hd ho fuel hf via enc idx
    simp only [IPWF, Nat.reducePow] at hp
    obtain ⟨htos, hident, hfl, hfo, httl, hsrc, hdst, hpl⟩ := hp
    simp only [stackIP, List.length_cons] at hf
    obtain ⟨fuel, rfl⟩ : ∃ f, fuel = f + 1 := ⟨fuel - 1, by omega⟩
    simp only [ipBytes, Spec.Frame.u8, Spec.Frame.u16, List.append_assoc] at hd
    obtain ⟨hd', ho'⟩ := drop_step (s := 20) (rest := payloadBytes pl) hd ho (by simp [drop_skip, hsrc, hdst])
      (by simp [hsrc, hdst]; omega)
    simp only [ipParser, ipTrace]
    rw [trace_step (next := ⟨.ipv4, _, false⟩) rfl ho hd _ (m0 := FlowMsg.empty) (pc0 := ⟨false, 0, ports⟩) rfl
      (parseIPv4_spec _ 0x45 tos (20 + (payloadBytes pl).length) ident (fl * 8192 + fo) ttl (payloadProto pl) 0
        src dst (payloadBytes pl) _ htos hident (by omega) httl (payloadProto_lt hpl) hsrc hdst rfl)]
    rw [show encapIdx idx (Next.encapSkip ⟨.ipv4, Parser.ipv4.keys ++ via, false⟩)
      (Next.layerIndex ⟨.ipv4, Parser.ipv4.keys ++ via, false⟩) = 30 from rfl]
    rw [trace_payload pl hpl data _ hd' ho' fuel (by omega) enc 30 (Or.inr ⟨Nat.le_refl _, by decide⟩)]
  | .v6 tc fl hlim src dst ext pl, hp => by
    intro data off hd ho fuel hf via enc idx
    simp only [IPWF, Nat.reducePow] at hp
    obtain ⟨htc, hfl, hhl, hsrc, hdst, hext, hpl⟩ := hp
    have hnh := payloadProto_lt hpl
    simp only [stackIP, List.length_cons, List.length_append] at hf
    obtain ⟨fuel, rfl⟩ : ∃ f, fuel = f + 1 := ⟨fuel - 1, by omega⟩
    have hidx : encapIdx idx (Next.encapSkip ⟨.ipv6, Parser.ipv6.keys ++ via, false⟩)
      (Next.layerIndex ⟨.ipv6, Parser.ipv6.keys ++ via, false⟩) = 30 := rfl
    simp only [ipParser]
    cases ext with
    | none =>
      simp only [stackExt, List.length_nil] at hf
      simp only [ipBytes, Spec.Frame.u8, Spec.Frame.u16, Spec.Frame.u32, List.append_assoc,
        List.nil_append, List.length_nil, Nat.zero_add] at hd
      obtain ⟨hd', ho'⟩ := drop_step (s := 40) (rest := payloadBytes pl) hd ho (by simp [drop_skip, hsrc, hdst])
        (by simp [hsrc, hdst]; omega)
      simp only [ipTrace]
      rw [trace_step (next := ⟨.ipv6, _, false⟩) rfl ho hd _ (m0 := FlowMsg.empty) (pc0 := ⟨false, 0, ports⟩) rfl
        (parseIPv6_spec _ (6 * 2 ^ 28 + tc * 2 ^ 20 + fl) (payloadBytes pl).length (payloadProto pl) hlim src dst
          (payloadBytes pl) _ hnh hhl hsrc hdst rfl), hidx]
      rw [trace_payload pl hpl data _ hd' ho' fuel (by omega) enc 30 (Or.inr ⟨Nat.le_refl _, by decide⟩)]
    | fragment fo fl3 ident =>
      simp only [stackExt, List.length_cons, List.length_nil] at hf
      simp only [ExtWF, Nat.reducePow] at hext
      obtain ⟨hfo, hfl3, hident⟩ := hext
      obtain ⟨len, hd⟩ : ∃ len, data.drop off = encBE 4 (6 * 2 ^ 28 + tc * 2 ^ 20 + fl) ++ (encBE 2 len ++ (encBE 1 44 ++
          (encBE 1 hlim ++ (src ++ (dst ++ (encBE 1 (payloadProto pl) ++ (encBE 1 0 ++ (encBE 2 (fo * 8 + fl3) ++
          (encBE 4 ident ++ payloadBytes pl))))))))) :=
        ⟨_, by rw [hd]; simp only [ipBytes, Spec.Frame.u8, Spec.Frame.u16, Spec.Frame.u32, List.append_assoc]; rfl⟩
      obtain ⟨hd1, ho1⟩ := drop_step (s := 40) (rest := encBE 1 (payloadProto pl) ++ (encBE 1 0 ++
        (encBE 2 (fo * 8 + fl3) ++ (encBE 4 ident ++ payloadBytes pl)))) hd ho (by simp [drop_skip, hsrc, hdst])
        (by simp [hsrc, hdst]; omega)
      obtain ⟨hd2, ho2⟩ := drop_step (s := 8) (rest := payloadBytes pl) hd1 ho1 (by simp [drop_skip]) (by simp; omega)
      simp only [ipTrace]
      rw [trace_step (next := ⟨.ipv6, _, false⟩) rfl ho hd _ (m0 := FlowMsg.empty) (pc0 := ⟨false, 0, ports⟩) rfl
        (parseIPv6_spec _ _ _ 44 _ _ _ _ _ (by decide) hhl hsrc hdst rfl), hidx]
      have hn1 : nextParserProto 44 = ⟨.ipv6frag, Parser.ipv6frag.keys ++ protoKeys 44, false⟩ := rfl
      simp only [hn1]
      rw [show (enc || encapTrig 30 (Next.encapSkip ⟨.ipv6frag, Parser.ipv6frag.keys ++ protoKeys 44, false⟩)
        (Next.layerIndex ⟨.ipv6frag, Parser.ipv6frag.keys ++ protoKeys 44, false⟩)) = enc from
          or_trig_of_enc enc _ (Or.inr rfl)]
      obtain ⟨fuel, rfl⟩ : ∃ f, fuel = f + 1 := ⟨fuel - 1, by omega⟩
      rw [trace_step (next := ⟨.ipv6frag, _, false⟩) rfl ho1 hd1 _ (m0 := FlowMsg.empty) (pc0 := ⟨false, 0, ports⟩) rfl
        (parseFrag_spec _ _ _ _ _ _ _ hnh (by omega) hident rfl)]
      rw [show encapIdx 30 (Next.encapSkip ⟨.ipv6frag, Parser.ipv6frag.keys ++ protoKeys 44, false⟩)
        (Next.layerIndex ⟨.ipv6frag, Parser.ipv6frag.keys ++ protoKeys 44, false⟩) = 30 from rfl]
      rw [trace_payload pl hpl data _ hd2 ho2 fuel (by omega) enc 30 (Or.inr ⟨Nat.le_refl _, by decide⟩)]
    | srh sleft le segs =>
      simp only [stackExt, List.length_cons, List.length_nil] at hf
      simp only [ExtWF, Nat.reducePow] at hext
      obtain ⟨hsleft, hle, hn, hsegs, hlast⟩ := hext
      obtain ⟨len, hd⟩ : ∃ len, data.drop off = encBE 4 (6 * 2 ^ 28 + tc * 2 ^ 20 + fl) ++ (encBE 2 len ++ (encBE 1 43 ++
          (encBE 1 hlim ++ (src ++ (dst ++ (encBE 1 (payloadProto pl) ++ (encBE 1 (2 * segs.length) ++ (encBE 1 4 ++
          (encBE 1 sleft ++ (encBE 1 le ++ (encBE 1 0 ++ (encBE 2 0 ++ (segs.flatMap id ++ payloadBytes pl)))))))))))))  :=
        ⟨_, by rw [hd]; simp only [ipBytes, Spec.Frame.u8, Spec.Frame.u16, Spec.Frame.u32, List.append_assoc]; rfl⟩
      obtain ⟨hd1, ho1⟩ := drop_step (s := 40) (rest := encBE 1 (payloadProto pl) ++ (encBE 1 (2 * segs.length) ++
        (encBE 1 4 ++ (encBE 1 sleft ++ (encBE 1 le ++ (encBE 1 0 ++ (encBE 2 0 ++ (segs.flatMap id ++ payloadBytes pl))))))))
        hd ho (by simp [drop_skip, hsrc, hdst]) (by simp [hsrc, hdst]; omega)
      obtain ⟨hd2, ho2⟩ := drop_step_app (s := 8 + 16 * segs.length) (rest := payloadBytes pl)
        (hdr := encBE 1 (payloadProto pl) ++ (encBE 1 (2 * segs.length) ++
        (encBE 1 4 ++ (encBE 1 sleft ++ (encBE 1 le ++ (encBE 1 0 ++ (encBE 2 0 ++ segs.flatMap id)))))))
        (by rw [hd1]; simp only [List.append_assoc]) ho1
        (by simp only [List.length_append, encBE_length, flat_length segs hsegs]; omega)
      simp only [ipTrace]
      rw [trace_step (next := ⟨.ipv6, _, false⟩) rfl ho hd _ (m0 := FlowMsg.empty) (pc0 := ⟨false, 0, ports⟩) rfl
        (parseIPv6_spec _ _ _ 43 _ _ _ _ _ (by decide) hhl hsrc hdst rfl), hidx]
      have hn1 : nextParserProto 43 = ⟨.ipv6route, Parser.ipv6route.keys ++ protoKeys 43, false⟩ := rfl
      simp only [hn1]
      rw [show (enc || encapTrig 30 (Next.encapSkip ⟨.ipv6route, Parser.ipv6route.keys ++ protoKeys 43, false⟩)
        (Next.layerIndex ⟨.ipv6route, Parser.ipv6route.keys ++ protoKeys 43, false⟩)) = enc from
          or_trig_of_enc enc _ (Or.inr rfl)]
      obtain ⟨fuel, rfl⟩ : ∃ f, fuel = f + 1 := ⟨fuel - 1, by omega⟩
      rw [trace_step (next := ⟨.ipv6route, _, false⟩) rfl ho1 hd1 _ (m0 := FlowMsg.empty) (pc0 := ⟨false, 0, ports⟩) rfl
        (parseRoute_spec _ _ _ _ _ _ _ _ _ hnh hsleft hle hn hsegs hlast rfl)]
      rw [show encapIdx 30 (Next.encapSkip ⟨.ipv6route, Parser.ipv6route.keys ++ protoKeys 43, false⟩)
        (Next.layerIndex ⟨.ipv6route, Parser.ipv6route.keys ++ protoKeys 43, false⟩) = 35 from rfl]
      rw [show off + 40 + (8 + 16 * segs.length) = off + 48 + 16 * segs.length by omega] at hd2 ho2 ⊢
      rw [trace_payload pl hpl data _ hd2 ho2 fuel (by omega) enc 35 (Or.inr ⟨by decide, by decide⟩)]
theorem trace_payload {ports : List PortEntry} :
    ∀ (pl : Payload), PayloadWF ports pl → ∀ (data : Bytes) (off : Nat), data.drop off = payloadBytes pl →
    off ≤ data.length → ∀ (fuel : Nat), (stackPayload pl).length + 2 ≤ fuel →
    ∀ (enc : Bool) (li : Nat), (enc = true ∨ (30 ≤ li ∧ li < 40)) →
    layerTrace ports data fuel (nextParserProto (payloadProto pl)) off
      (enc || encapTrig li (nextParserProto (payloadProto pl)).encapSkip (nextParserProto (payloadProto pl)).layerIndex) li =
      payloadTrace off enc pl
  | .l4 l, hl => by
    intro data off hd ho fuel hf enc li hli
    have he : (enc || encapTrig li (nextParserProto (payloadProto (.l4 l))).encapSkip
        (nextParserProto (payloadProto (.l4 l))).layerIndex) = enc := by
      apply or_trig_of_enc
      rcases hli with h | h
      · exact Or.inl h
      · exact Or.inr (l4_noencap hl li h.2)
    rw [he]
    simp only [payloadTrace]
    exact trace_l4 l hl hd ho (by omega) enc li
  | .ipip p, hp => by
    intro data off hd ho fuel hf enc li hli
    rw [ipip_next' p]
    have he : (enc || encapTrig li (Next.encapSkip ⟨ipParser p, (ipParser p).keys ++ protoKeys (payloadProto (.ipip p)), false⟩)
        (Next.layerIndex ⟨ipParser p, (ipParser p).keys ++ protoKeys (payloadProto (.ipip p)), false⟩)) = true := by
      rcases hli with h | h
      · rw [h]; rfl
      · rw [ip_encap p _ li h.1]; simp
    rw [he]
    simp only [payloadBytes, stackPayload, payloadTrace] at hd hf ⊢
    exact trace_ip p hp data off hd ho fuel hf _ true li
  | .gre inner, hin => by
    intro data off hd ho fuel hf enc li hli
    have het := hi_lo (etherType_lt inner hin)
    simp only [stackPayload, List.length_cons] at hf
    obtain ⟨fuel, rfl⟩ : ∃ f, fuel = f + 1 := ⟨fuel - 1, by omega⟩
    simp only [payloadBytes, Spec.Frame.u16, List.append_assoc] at hd
    rw [encBE_two (etherType inner)] at hd
    simp only [List.cons_append, List.nil_append] at hd
    obtain ⟨hd', ho'⟩ := drop_step (s := 4) (rest := etherPayloadBytes inner) hd ho (by simp [drop_skip]) (by simp; omega)
    have hn : nextParserProto (payloadProto (.gre inner)) = ⟨.gre, Parser.gre.keys ++ protoKeys 47, false⟩ := rfl
    rw [hn]
    have he : (enc || encapTrig li (Next.encapSkip ⟨.gre, Parser.gre.keys ++ protoKeys 47, false⟩)
        (Next.layerIndex ⟨.gre, Parser.gre.keys ++ protoKeys 47, false⟩)) = enc := by
      apply or_trig_of_enc
      rcases hli with h | h
      · exact Or.inl h
      · exact Or.inr (gre_noencap _ li h.2)
    rw [he]
    rw [trace_step (next := ⟨.gre, _, false⟩) rfl ho hd _ (m0 := FlowMsg.empty) (pc0 := ⟨false, 0, ports⟩) rfl
      (parseGRE_spec _ (encBE 2 0) _ _ _ ⟨false, 0, ports⟩ (by simp))]
    simp only [het.1, het.2, ep_next' inner hin, payloadTrace]
    rw [show encapIdx li (Next.encapSkip ⟨.gre, Parser.gre.keys ++ protoKeys 47, false⟩)
      (Next.layerIndex ⟨.gre, Parser.gre.keys ++ protoKeys 47, false⟩) = 40 from rfl]
    congr 1
    match inner, hin with
    | .raw t b, ht =>
      obtain ⟨fuel, rfl⟩ : ∃ f, fuel = f + 1 := ⟨fuel - 1, by omega⟩
      simp only [epParser, etherTrace]
      rw [trace_stop rfl]
    | .ip p, hp =>
      have henc : (enc || encapTrig 40 (Next.encapSkip ⟨epParser (.ip p), (epParser (.ip p)).keys ++ etKeys (etherType (.ip p)), false⟩)
          (Next.layerIndex ⟨epParser (.ip p), (epParser (.ip p)).keys ++ etKeys (etherType (.ip p)), false⟩)) = true := by
        simp only [epParser]
        rw [ip_encap p _ 40 (by omega)]; simp
      rw [henc]
      exact trace_ether (.ip p) hp data _ hd' ho' fuel (by omega) true 40 (Or.inl rfl)
    | .mpls labels p, hp =>
      have henc : (enc || encapTrig 40 (Next.encapSkip ⟨epParser (.mpls labels p), (epParser (.mpls labels p)).keys ++ etKeys (etherType (.mpls labels p)), false⟩)
          (Next.layerIndex ⟨epParser (.mpls labels p), (epParser (.mpls labels p)).keys ++ etKeys (etherType (.mpls labels p)), false⟩)) = true := by
        simp only [epParser]
        cases enc <;> rfl
      rw [henc]
      exact trace_ether (.mpls labels p) hp data _ hd' ho' fuel (by omega) true 40 (Or.inl rfl)
theorem trace_ether {ports : List PortEntry} :
    ∀ (ep : EtherPayload), EpWF ports ep → ∀ (data : Bytes) (off : Nat), data.drop off = etherPayloadBytes ep →
    off ≤ data.length → ∀ (fuel : Nat), (stackEther ep).length + 2 ≤ fuel →
    ∀ (enc : Bool) (idx : Nat), (enc = true ∨ idx < 30) →
    layerTrace ports data fuel ⟨epParser ep, (epParser ep).keys ++ etKeys (etherType ep), false⟩ off enc idx =
      etherTrace off enc ep
  | .ip p, hp => by
    intro data off hd ho fuel hf enc idx hidx
    simp only [etherPayloadBytes, stackEther, etherTrace, epParser] at hd hf ⊢
    exact trace_ip p hp data off hd ho fuel hf _ enc idx
  | .mpls labels p, hp => by
    intro data off hd ho fuel hf enc idx hidx
    obtain ⟨hne, hlen, hwf, hp⟩ := hp
    simp only [stackEther, List.length_cons] at hf
    obtain ⟨fuel, rfl⟩ : ∃ f, fuel = f + 1 := ⟨fuel - 1, by omega⟩
    simp only [etherPayloadBytes] at hd
    obtain ⟨hd', ho'⟩ := drop_step_app (s := 4 * labels.length) hd ho (mplsBytes_length labels)
    have hmt : etherType (EtherPayload.mpls labels p) = 34887 := by simp only [etherType]
    simp only [epParser, etherTrace, hmt]
    rw [trace_step (next := ⟨.mpls, _, false⟩) rfl ho hd _ (m0 := FlowMsg.empty) (pc0 := ⟨false, 0, ports⟩) rfl
      (parseMPLS_spec _ labels (ipBytes p) _ _ _ hne hwf (peek_ip p hp) rfl)]
    simp only [ip_next' p]
    rw [show encapIdx idx (Next.encapSkip ⟨.mpls, Parser.mpls.keys ++ etKeys 34887, false⟩)
      (Next.layerIndex ⟨.mpls, Parser.mpls.keys ++ etKeys 34887, false⟩) = idx from rfl]
    have he : (enc || encapTrig idx (Next.encapSkip ⟨ipParser p, (ipParser p).keys ++ etKeys (ipEtype p), false⟩)
        (Next.layerIndex ⟨ipParser p, (ipParser p).keys ++ etKeys (ipEtype p), false⟩)) = enc := by
      apply or_trig_of_enc
      rcases hidx with h | h
      · exact Or.inl h
      · exact Or.inr (ip_noencap p _ idx h)
    rw [he, trace_ip p hp data _ hd' ho' fuel (by omega) _ enc idx, etherType_ip]
  | .raw t b, ht => by
    intro data off hd ho fuel hf enc idx hidx
    obtain ⟨fuel, rfl⟩ : ∃ f, fuel = f + 1 := ⟨fuel - 1, by omega⟩
    simp only [epParser, etherTrace]
    rw [trace_stop rfl]
end

/-! ### Ethernet and the 802.1Q tags -/

theorem dot1q_next' :
    nextParserEtype (UInt8.ofNat (33024 / 256 % 256)).toNat (UInt8.ofNat (33024 % 256)).toNat =
      ⟨.dot1q, Parser.dot1q.keys ++ etKeys 0x8100, false⟩ := by
  simp only [UInt8.toNat_ofNat', Nat.reduceDiv, Nat.reduceMod, Nat.reducePow]
  rfl

theorem trace_vlans {ports : List PortEntry} (ep : EtherPayload) (hep : EpWF ports ep)
    (vs : List Nat) (v : Nat) (hv : v < 65536) (hvs : ∀ x ∈ vs, x < 65536)
    {data : Bytes} {off : Nat} (hd : data.drop off = encBE 2 v ++ (vlanBytes (etherType ep) vs ++ etherPayloadBytes ep))
    (ho : off ≤ data.length) {fuel : Nat} (hf : vs.length + (stackEther ep).length + 3 ≤ fuel)
    (idx : Nat) (hidx : idx ≤ 25) :
    layerTrace ports data fuel ⟨.dot1q, Parser.dot1q.keys ++ etKeys 0x8100, false⟩ off false idx =
      ((List.range (vs.length + 1)).map fun i => ((Parser.dot1q.keys ++ etKeys 0x8100, off + 4 * i, false) : Layer)) ++
        etherTrace (off + 4 * (vs.length + 1)) false ep := by
  have het := hi_lo (etherType_lt ep hep)
  induction vs generalizing v data off fuel with
  | nil =>
    obtain ⟨fuel, rfl⟩ : ∃ f, fuel = f + 1 := ⟨fuel - 1, by omega⟩
    simp only [vlanBytes, Spec.Frame.u16, encBE_two (etherType ep), List.cons_append, List.nil_append] at hd
    obtain ⟨hd', ho'⟩ := drop_step (s := 4) (rest := etherPayloadBytes ep) hd ho (by simp [drop_skip]) (by simp; omega)
    rw [trace_step (next := ⟨.dot1q, _, false⟩) rfl ho hd _ (m0 := FlowMsg.empty) (pc0 := ⟨false, 0, ports⟩) rfl
      (parse8021Q_spec _ (encBE 2 v) _ _ _ _ (by simp) rfl)]
    simp only [Bool.false_or, het.1, het.2, ep_next' ep hep]
    rw [show encapIdx idx (Next.encapSkip ⟨.dot1q, Parser.dot1q.keys ++ etKeys 0x8100, false⟩)
      (Next.layerIndex ⟨.dot1q, Parser.dot1q.keys ++ etKeys 0x8100, false⟩) = idx from rfl,
      ep_noencap ep hep _ idx hidx]
    rw [trace_ether ep hep data _ hd' ho' fuel (by simp at hf; omega) false idx (Or.inr (by omega))]
    simp
  | cons w ws ih =>
    obtain ⟨fuel, rfl⟩ : ∃ f, fuel = f + 1 := ⟨fuel - 1, by omega⟩
    simp only [vlanBytes, Spec.Frame.u16, List.append_assoc] at hd
    rw [encBE_two 33024] at hd
    simp only [List.cons_append, List.nil_append] at hd
    obtain ⟨hd', ho'⟩ := drop_step (s := 4) (rest := encBE 2 w ++ (vlanBytes (etherType ep) ws ++ etherPayloadBytes ep)) hd ho
      (by simp [drop_skip]) (by simp; omega)
    rw [trace_step (next := ⟨.dot1q, _, false⟩) rfl ho hd _ (m0 := FlowMsg.empty) (pc0 := ⟨false, 0, ports⟩) rfl
      (parse8021Q_spec _ (encBE 2 v) _ _ _ _ (by simp) rfl)]
    simp only [Bool.false_or, dot1q_next']
    rw [show encapIdx idx (Next.encapSkip ⟨.dot1q, Parser.dot1q.keys ++ etKeys 0x8100, false⟩)
      (Next.layerIndex ⟨.dot1q, Parser.dot1q.keys ++ etKeys 0x8100, false⟩) = idx from rfl,
      dot1q_noencap _ idx hidx]
    rw [ih w (hvs w (by simp)) (fun x hx => hvs x (by simp [hx])) hd' ho' (by simp at hf ⊢; omega)]
    simp only [List.length_cons]
    rw [List.range_succ_eq_map (n := ws.length + 1)]
    simp only [List.map_cons, List.map_map, List.cons_append, Nat.mul_zero, Nat.add_zero]
    congr 1
    congr 1
    · apply List.map_congr_left
      intro i _
      simp only [Function.comp]
      congr 2
      omega
    · congr 1
      omega

theorem trace_eth {ports : List PortEntry} (ep : EtherPayload) (hep : EpWF ports ep)
    (vs : List Nat) (hvs : ∀ x ∈ vs, x < 65536) (d s : Nat)
    {fuel : Nat} (hf : vs.length + (stackEther ep).length + 4 ≤ fuel) :
    layerTrace ports (encBE 6 d ++ (encBE 6 s ++ (vlanBytes (etherType ep) vs ++ etherPayloadBytes ep))) fuel
        ⟨.ethernet, Parser.ethernet.keys, false⟩ 0 false 20 = frameTrace ⟨d, s, vs, ep⟩ := by
  have het := hi_lo (etherType_lt ep hep)
  obtain ⟨fuel, rfl⟩ : ∃ f, fuel = f + 1 := ⟨fuel - 1, by omega⟩
  generalize hdata : encBE 6 d ++ (encBE 6 s ++ (vlanBytes (etherType ep) vs ++ etherPayloadBytes ep)) = data
  have ho : 0 ≤ data.length := Nat.zero_le _
  unfold frameTrace
  cases vs with
  | nil =>
    have hd0 : data.drop 0 = encBE 6 d ++ (encBE 6 s ++ (UInt8.ofNat (etherType ep / 256 % 256) ::
        UInt8.ofNat (etherType ep % 256) :: etherPayloadBytes ep)) := by
      rw [← hdata]; simp [vlanBytes, Spec.Frame.u16, encBE_two (etherType ep)]
    obtain ⟨hd', ho'⟩ := drop_step (s := 14) (rest := etherPayloadBytes ep) hd0 ho (by simp [drop_skip]) (by simp; omega)
    rw [trace_step (next := ⟨.ethernet, _, false⟩) rfl ho hd0 _ (m0 := FlowMsg.empty) (pc0 := ⟨false, 0, ports⟩) rfl
      (parseEthernet_spec _ (encBE 6 d) (encBE 6 s) _ _ _ _ (by simp) (by simp) rfl)]
    simp only [Bool.false_or, het.1, het.2, ep_next' ep hep]
    rw [show encapIdx 20 (Next.encapSkip ⟨.ethernet, Parser.ethernet.keys, false⟩)
      (Next.layerIndex ⟨.ethernet, Parser.ethernet.keys, false⟩) = 20 from rfl,
      ep_noencap ep hep _ 20 (by omega)]
    rw [trace_ether ep hep data _ hd' ho' fuel (by simp at hf; omega) false 20 (Or.inr (by omega))]
    simp
  | cons v vs =>
    have hd0 : data.drop 0 = encBE 6 d ++ (encBE 6 s ++ (UInt8.ofNat (33024 / 256 % 256) ::
        UInt8.ofNat (33024 % 256) :: (encBE 2 v ++ (vlanBytes (etherType ep) vs ++ etherPayloadBytes ep)))) := by
      rw [← hdata]; simp [vlanBytes, Spec.Frame.u16, encBE_two 33024]
    obtain ⟨hd', ho'⟩ := drop_step (s := 14) (rest := encBE 2 v ++ (vlanBytes (etherType ep) vs ++ etherPayloadBytes ep)) hd0 ho
      (by simp [drop_skip]) (by simp; omega)
    rw [trace_step (next := ⟨.ethernet, _, false⟩) rfl ho hd0 _ (m0 := FlowMsg.empty) (pc0 := ⟨false, 0, ports⟩) rfl
      (parseEthernet_spec _ (encBE 6 d) (encBE 6 s) _ _ _ _ (by simp) (by simp) rfl)]
    simp only [Bool.false_or, dot1q_next']
    rw [show encapIdx 20 (Next.encapSkip ⟨.ethernet, Parser.ethernet.keys, false⟩)
      (Next.layerIndex ⟨.ethernet, Parser.ethernet.keys, false⟩) = 20 from rfl,
      dot1q_noencap _ 20 (by omega)]
    rw [trace_vlans ep hep vs v (hvs v (by simp)) (fun x hx => hvs x (by simp [hx])) hd' ho'
      (by simp at hf ⊢; omega) 20 (by omega)]
    simp only [List.length_cons, Nat.zero_add, List.cons_append]

/-! ### enough fuel: more does not change the trace -/

theorem layerTrace_mono (ports : List PortEntry) (data : Bytes) (fuel : Nat) :
    ∀ (next : Next) (off : Nat) (enc : Bool) (idx : Nat), mu data.length next off + 1 ≤ fuel →
    ∀ k, layerTrace ports data (fuel + k) next off enc idx = layerTrace ports data fuel next off enc idx := by
  induction fuel with
  | zero => intro next off enc idx hf; omega
  | succ fuel ih =>
    intro next off enc idx hf k
    rw [show fuel + 1 + k = (fuel + k) + 1 by omega,
      layerTrace_succ ports data (fuel + k) next off enc idx FlowMsg.empty ⟨enc, 0, ports⟩ rfl,
      layerTrace_succ ports data fuel next off enc idx FlowMsg.empty ⟨enc, 0, ports⟩ rfl]
    by_cases hc : next.callable = true ∧ off ≤ data.length
    · rw [if_pos hc, if_pos hc]
      have hprog := runParser_progress next.parser FlowMsg.empty (data.drop off) ⟨enc, 0, ports⟩
      generalize runParser next.parser FlowMsg.empty (data.drop off) ⟨enc, 0, ports⟩ = r at *
      have hrest : traceRest ports data (fuel + k) next off enc idx r.next r.size =
          traceRest ports data fuel next off enc idx r.next r.size := by
        unfold traceRest
        apply ih
        unfold mu at hf ⊢
        simp only [hc.1, if_true] at hf
        by_cases hc' : r.next.callable = true
        · simp only [hc', if_true]
          rcases hprog hc' with h1 | ⟨h1, h2⟩
          · split <;> split at hf <;> omega
          · simp only [h1, if_true] at hf
            simp only [h2, show (Parser.ipv6 = Parser.teredo) = False by simp, if_false]
            omega
        · have hc'' : r.next.callable = false := by simpa using hc'
          simp only [hc'', Bool.false_eq_true, if_false]
          split at hf <;> omega
      rw [hrest]
    · rw [if_neg hc, if_neg hc]

/-- **the recognised layers of a well-formed, fully captured frame are the frame's layers**: each with the keys
    of its parser and of the way it was reached, its byte offset in the frame, and the encapsulation flag
    (false up to and including a GRE header or the outer IP header, true behind them) — for the whole grammar of
    `FrameWFIn`: 802.1Q tags, MPLS, IPv4 / IPv6 with fragment or routing header, TCP / UDP / ICMP / ICMPv6,
    GRE and IP-in-IP tunnels, nested -/
theorem packetTrace_frame (ports : List PortEntry) (f : Frame) (h : FrameWFIn ports f) :
    packetTrace ports (bytes f) = frameTrace f := by
  obtain ⟨d, s, vs, ep⟩ := f
  obtain ⟨hd, hs, hvs, hep⟩ := h
  simp only at hd hs hvs hep
  unfold packetTrace
  have hmu : mu (bytes ⟨d, s, vs, ep⟩).length ⟨.ethernet, Parser.ethernet.keys, false⟩ 0 + 1 ≤
      2 * (bytes ⟨d, s, vs, ep⟩).length + 4 := by
    unfold mu; split <;> simp <;> omega
  rw [← layerTrace_mono ports _ _ _ _ _ _ hmu (vs.length + (stackEther ep).length + 4)]
  unfold bytes
  simp only [List.append_assoc]
  exact trace_eth ep hep vs (fun x hx => Nat.lt_trans (hvs x hx) (by decide)) d s (by omega)

/-! ## 7. the whole frame -/

/-- **`full_capture_mapped`** — a configuration whose layer statements all have destinations outside the message
    struct, a well-formed fully captured frame: every column is the frame's true value (`expectedMsg`), and the
    unknown section is, for each layer of the frame in order (`frameTrace`: keys, byte offset, encapsulation
    flag), for each statement whose layer name is one of the layer's keys and whose `encap` flag equals the
    layer's, the encoding of GetBytes(frame, 8·offset + e.offset, e.length) into the statement's destination —
    or the error of the first statement that fails. -/
theorem full_capture_mapped (cfg : Config) (hcfg : CustomLayers cfg) (f : Frame) (h : FrameWFIn cfg.ports f) :
    parsePacket cfg FlowMsg.empty (bytes f) =
      match traceEnc cfg.layers (bytes f) (frameTrace f) with
      | .error e => .error e
      | .ok ext => .ok { expectedMsg f with unk := ext } := by
  obtain ⟨m', hm', _, hp⟩ := parsePacket_layers_commute cfg hcfg FlowMsg.empty (bytes f)
  have hfull := full_capture_cfg (noLayers cfg) (noLayers_layers cfg) f h
  rw [hfull] at hm'
  have hm : m' = expectedMsg f := (Except.ok.inj hm').symm
  rw [hp, packetTrace_frame cfg.ports f h, hm]
  cases traceEnc cfg.layers (bytes f) (frameTrace f) with
  | error e => rfl
  | ok ext => simp [FlowMsg.empty]

/-- … with documented statements (non-negative offsets and lengths, varint fields given at most 64 bits): never an
    error, and the unknown section is the concatenation `traceBytes` — for each layer of the frame in order, for
    each matching statement in order, the tag and value of bits `[8·offset + e.offset, + e.length)` of the frame
    (`Spec.Bits.extract`, right-aligned) under the statement's endianness -/
theorem full_capture_mapped_sane (cfg : Config) (hcfg : SaneLayers cfg) (f : Frame) (h : FrameWFIn cfg.ports f) :
    parsePacket cfg FlowMsg.empty (bytes f) =
      .ok { expectedMsg f with unk := traceBytes cfg.layers (bytes f) (frameTrace f) } := by
  rw [full_capture_mapped cfg hcfg.custom f h, traceEnc_sane cfg hcfg]

/-- frames no statement matches are reported as without any layer statements -/
theorem full_capture_unmatched (cfg : Config) (hcfg : CustomLayers cfg) (f : Frame) (h : FrameWFIn cfg.ports f)
    (hno : ∀ l ∈ frameTrace f, selected cfg.layers l = []) :
    parsePacket cfg FlowMsg.empty (bytes f) = .ok (expectedMsg f) := by
  rw [parsePacket_unmatched cfg hcfg FlowMsg.empty (bytes f) (by rw [packetTrace_frame cfg.ports f h]; exact hno)]
  exact full_capture_cfg (noLayers cfg) (noLayers_layers cfg) f h

end Frames

/-! ## 8. from the mapping file to the message -/

section File
open Goflow.Format Goflow.C14Compile Goflow.Spec.Frame Goflow.C10

/-- layer statements whose destination is a custom field declared in the file (a name outside the message
    struct), with non-negative offset and length and at most 64 bits for a varint field, compile to `SaneLayers` -/
theorem saneLayers_of_file (raw : RawConfig) (hacc : Accepted raw)
    (h : ∀ m ∈ raw.layers, ∃ p, declOf raw m.destination = some p ∧ NotMember m.destination ∧
      0 ≤ m.offset ∧ 0 ≤ m.length ∧ (p.type = "varint" → m.length ≤ 64)) :
    SaneLayers (cfgOf raw) := by
  intro e he
  obtain ⟨m, hm, rfl⟩ := List.mem_map.1 he
  obtain ⟨p, hp, hnm, ho, hl, hv⟩ := h m hm
  have hok := hacc.2.2.2.2.2.2 m hm
  obtain ⟨hty, _⟩ := destOf_declared_type raw m p hp hok
  have hdest : (destOf raw m).destination = m.destination := by rw [destOf_declared raw m p hp]
  refine ⟨by rw [hdest]; exact hnm, ho, hl, ?_⟩
  by_cases hvar : p.type = "varint"
  · exact Or.inr (Or.inr ⟨by rw [hty, if_pos hvar], hv hvar⟩)
  · exact Or.inr (Or.inl (by rw [hty, if_neg hvar]))

/-- **from the file to the flow message**: an accepted mapping file whose layer statements are documented ones
    (`SaneLayers` of the compiled statements — see `saneLayers_of_file`), a well-formed fully captured frame whose
    L4 ports hit none of the file's registered ports: all columns are the frame's true values and the custom
    fields are, in the order of the frame's layers and of the file, the configured bit ranges -/
theorem file_full_capture (raw : RawConfig) (isSlice0 : List (String × Bool)) (c : Compiled)
    (h : compile raw isSlice0 = .ok c) (hl : SaneLayers (cfgOf raw)) (f : Frame) (hf : FrameWFIn (portsOf raw) f) :
    parsePacket c.cfg FlowMsg.empty (bytes f) =
      .ok { expectedMsg f with unk := traceBytes (cfgOf raw).layers (bytes f) (frameTrace f) } := by
  obtain ⟨_, rfl⟩ := (compile_ok_iff raw isSlice0 c).1 h
  exact full_capture_mapped_sane (cfgOf raw) hl f hf

end File

/-! ## 9. the hypotheses are satisfiable -/

namespace Example
open Goflow.Format Goflow.C14Compile Goflow.Spec.Frame Goflow.C10

/-- the outer and the tunnelled TTL, the IP version nibble of every non-encapsulated IP layer (an array),
    the UDP source port read little-endian, the first 20 bits of a tunnelled MPLS stack, the VLAN id, type and
    code of a tunnelled ICMP header as bytes, and a statement into a name nobody declared -/
def raw : RawConfig :=
  { protobuf := [⟨"ttl_outer", 2000, "varint", false⟩, ⟨"ttl_inner", 2001, "varint", false⟩, ⟨"ipver", 2002, "varint", true⟩,
                 ⟨"sport_le", 2003, "varint", false⟩, ⟨"label", 2004, "varint", true⟩, ⟨"vlan", 2005, "varint", false⟩,
                 ⟨"icmp_tc", 2006, "bytes", false⟩],
    layers := [{ layer := "ipv4", offset := 64, length := 8, destination := "ttl_outer" },
               { layer := "ipv4", encap := true, offset := 64, length := 8, destination := "ttl_inner" },
               { layer := "ip", offset := 0, length := 4, destination := "ipver" },
               { layer := "udp", offset := 0, length := 16, destination := "sport_le", endian := "little" },
               { layer := "mpls", encap := true, offset := 0, length := 20, destination := "label" },
               { layer := "dot1q", offset := 4, length := 12, destination := "vlan" },
               { layer := "icmp", encap := true, offset := 0, length := 16, destination := "icmp_tc" },
               { layer := "tcp", offset := 0, length := 16, destination := "no_such_field" }],
    ports := [⟨"udp", "both", 6081, "geneve"⟩] }

theorem raw_accepted : Accepted raw := by decide
theorem raw_sane : SaneLayers (cfgOf raw) := by decide

/-- one VLAN tag, IPv4, UDP -/
def frameA : Frame :=
  ⟨0x001122334455, 0x66778899aabb, [5], .ip (.v4 0 1 2 0 64 [10, 0, 0, 1] [10, 0, 0, 2] (.l4 (.udp 0x1234 53)))⟩

theorem frameA_wf : FrameWFIn (portsOf raw) frameA := by
  refine ⟨by decide, by decide, by decide, ?_⟩
  simp only [frameA, EpWF, IPWF, PayloadWF, L4WF]
  decide

theorem tunnel_wf : FrameWFIn (portsOf raw) sampleTunnel := by
  simp [sampleTunnel, FrameWFIn, EpWF, IPWF, ExtWF, PayloadWF, LabelsWF, L4WF]

example : frameTrace frameA =
    [(["ethernet", "2"], 0, false), (["dot1q", "etype33024", "etype0x8100"], 14, false),
     (["ipv4", "ip", "3", "etype2048", "etype0x0800"], 18, false), (["udp", "4", "proto17"], 38, false)] := by decide

/-- IPv6 + fragment header + GRE + MPLS + IPv4 + ICMP: the layers behind GRE are encapsulated -/
example : frameTrace sampleTunnel =
    [(["ethernet", "2"], 0, false), (["ipv6", "ip", "3", "etype34525", "etype0x86dd"], 14, false),
     (["ipv6eh_fragment", "ipv6-frag", "ipv6eh", "proto44"], 54, false), (["gre", "proto47"], 62, false),
     (["mpls", "etype34887", "etype0x8847"], 66, true), (["ipv4", "ip", "3", "etype2048", "etype0x0800"], 74, true),
     (["icmp", "proto1"], 94, true)] := by decide

theorem frameA_bytes : traceBytes (cfgOf raw).layers (bytes frameA) (frameTrace frameA) =
    appendTag 2005 0 ++ [5] ++ (appendTag 2000 0 ++ [64]) ++ (appendTag 2002 0 ++ [4]) ++
      (appendTag 2003 0 ++ appendVarint 0x3412) := by decide

set_option maxRecDepth 8000 in
theorem tunnel_bytes : traceBytes (cfgOf raw).layers (bytes sampleTunnel) (frameTrace sampleTunnel) =
    appendTag 2002 0 ++ [6] ++ (appendTag 2004 0 ++ appendVarint 0x000100) ++ (appendTag 2001 0 ++ [64]) ++
      (appendTag 2006 2 ++ [2, 8, 0]) := by decide

/-- the VLAN id, the outer TTL, the version nibble and the little-endian source port of the plain frame -/
example (c : Compiled) (h : compile raw initialIsSlice = .ok c) :
    parsePacket c.cfg FlowMsg.empty (bytes frameA) =
      .ok { expectedMsg frameA with
              unk := appendTag 2005 0 ++ [5] ++ (appendTag 2000 0 ++ [64]) ++ (appendTag 2002 0 ++ [4]) ++
                (appendTag 2003 0 ++ appendVarint 0x3412) } := by
  rw [file_full_capture raw initialIsSlice c h raw_sane frameA frameA_wf, frameA_bytes]

/-- the tunnelled frame: the outer IPv6 version nibble; behind GRE the MPLS bits, the inner TTL, the ICMP bytes
    (the `ipv4` statement without `encap` and the `ip` statement do not apply to the tunnelled IPv4 header) -/
example (c : Compiled) (h : compile raw initialIsSlice = .ok c) :
    parsePacket c.cfg FlowMsg.empty (bytes sampleTunnel) =
      .ok { expectedMsg sampleTunnel with
              unk := appendTag 2002 0 ++ [6] ++ (appendTag 2004 0 ++ appendVarint 0x000100) ++ (appendTag 2001 0 ++ [64]) ++
                (appendTag 2006 2 ++ [2, 8, 0]) } := by
  rw [file_full_capture raw initialIsSlice c h raw_sane sampleTunnel tunnel_wf, tunnel_bytes]

/-- a statement that fails (nine bytes into a varint field) fails the packet — `full_capture_mapped` -/
def cfgLong : Config :=
  { layers := [⟨"ipv4", false, 0, 72, ⟨"ttl_outer", false, 2000, .varint, false⟩⟩], present := true }

example : CustomLayers cfgLong ∧ ¬ SaneLayers cfgLong := by decide
example : traceEnc cfgLong.layers (bytes frameA) (frameTrace frameA) = .error .bad := by decide

/-- the per-packet ethertype keys carry the whole ethertype (after the `fix:` commit 366aae4; the pinned tree kept only
    the low byte: a statement with layer `etype0x0800` selected no layer, `etype0x0000` selected the 802.1Q layer and
    the IPv4 layer alike — found by this proof, replay in corpus/C14/etype-key-low-byte.ops). -/
def fByte : MapField := ⟨"firstbyte", false, 1000, .varint, false⟩

example : (frameTrace frameA).filter (fun l => selected [⟨"etype0x0800", false, 0, 8, fByte⟩] l != []) =
    [(["ipv4", "ip", "3", "etype2048", "etype0x0800"], 18, false)] := by decide

example : (frameTrace frameA).filter (fun l => selected [⟨"etype33024", false, 0, 8, fByte⟩] l != []) =
    [(["dot1q", "etype33024", "etype0x8100"], 14, false)] := by decide

example : ∀ l ∈ frameTrace frameA, selected [⟨"etype0x0000", false, 0, 8, fByte⟩, ⟨"etype0", false, 0, 8, fByte⟩] l = [] := by
  decide

example : traceBytes [⟨"etype0x0800", false, 0, 8, fByte⟩] (bytes frameA) (frameTrace frameA) =
    appendTag 1000 0 ++ [0x45] := by decide

end Example

end Goflow.C14Compose
