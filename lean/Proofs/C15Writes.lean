import Goflow.Generated.Writes
/-!
  C15 — what the workers share is written before they exist, or under a lock.

  The long-lived objects every worker reaches (the pipes, the producer, the mapped configuration, the template and
  sampling systems) are, after construction, written in exactly four places — the stores into the four shared maps,
  each under the map's own lock (`Proofs/C15Locks.lean lock_discipline`). Every other write to a field of these
  objects sits in `parseConfig` (called by the two pipe constructors only) or in `mapConfig` (called by
  `ProducerConfig.Compile` only, on a fresh object). `/verif/extract/writes.go` lists every assignment, index store,
  `++`/`--` and `&` whose target is a field *named* like one of theirs, whatever the base expression, in the three
  packages on the path; the theorem pins that list. A field added to one of these objects and written per datagram
  (a seeded change of round 8 kept "the receive time of the datagram being converted" on the shared producer) shows
  up in `Proofs/C12Pool.lean state_inventory` (a new field); a per-datagram write to an existing field shows up here.

  This is what the atomic-step theorems of `Proofs/C15.lean` assume of the code around the maps: configuration and
  collaborators are read-only while workers run.
-/
namespace Goflow.C15Writes
open Goflow.Generated

theorem shared_fields_written_before_workers :
    sharedFieldWrites =
      [("utils/pipe.go:flowpipe.parseConfig", "p.format", "assign"),
       ("utils/pipe.go:flowpipe.parseConfig", "p.transport", "assign"),
       ("utils/pipe.go:flowpipe.parseConfig", "p.producer", "assign"),
       ("utils/pipe.go:flowpipe.parseConfig", "p.netFlowTemplater", "assign"),
       ("utils/pipe.go:flowpipe.parseConfig", "p.netFlowTemplater", "assign"),
       ("utils/pipe.go:NetFlowPipe.DecodeFlow", "p.templates", "store"),
       ("producer/proto/config_impl.go:.mapConfig", "newCfg.IPFIX", "assign"),
       ("producer/proto/config_impl.go:.mapConfig", "newCfg.NetFlowV9", "assign"),
       ("producer/proto/config_impl.go:.mapConfig", "newCfg.SFlow", "assign"),
       ("producer/proto/config_impl.go:.mapConfig", "newCfg.Formatter", "assign"),
       ("producer/proto/producer_nf.go:basicSamplingRateSystem.AddSamplingRate", "s.sampling", "store"),
       ("producer/proto/proto.go:ProtoProducer.getSamplingRateSystem", "p.sampling", "store"),
       ("decoders/netflow/templates.go:BasicTemplateSystem.AddTemplate", "ts.templates", "store")] ∧
    sharedWriterCallers =
      [("utils/pipe.go:.NewSFlowPipe", "parseConfig"), ("utils/pipe.go:.NewNetFlowPipe", "parseConfig"),
       ("producer/proto/config_impl.go:ProducerConfig.Compile", "mapConfig")] := by
  decide +kernel

/-- the per-datagram writes among them are the four map stores -/
theorem per_datagram_writes_are_map_stores :
    (sharedFieldWrites.filter fun w => w.2.2 != "assign").map (fun w => w.2.1) =
      ["p.templates", "s.sampling", "p.sampling", "ts.templates"] := by
  decide +kernel

end Goflow.C15Writes
