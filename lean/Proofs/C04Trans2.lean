import Proofs.C04Trans2Map
/-!
  C04 (translation tie, second part) — the sFlow v5 record decoders. `DecodeCounterRecord` and `DecodeFlowRecord` of
  decoders/sflow/sflow.go are regenerated into Lean on every run (Goflow/Generated/SflowT.lean) and proved equal to the
  hand-written model (`decodeCounterRecord`, `decodeFlowRecord` of Goflow/Decoders/Sflow.lean) for EVERY record header and
  EVERY byte string, through the explicit mapping of Proofs/C04Trans2Map.lean.
-/
set_option linter.unusedSimpArgs false
set_option linter.unusedVariables false
namespace Goflow.C04Trans2
open Goflow Goflow.Producer Goflow.Generated Goflow.Go Goflow.Sflow Goflow.C05Trans Goflow.C04Trans

/-! ### the reads as conditionals -/

theorem goU32_if (b : Bytes) :
    Go.readU32 b = if 4 ≤ b.length then .ok (UInt32.ofNat (beNat (b.take 4)), b.drop 4) else .error .eof := by
  split
  · next h => exact readU32_ok h
  · next h => exact readU32_short (by omega)

theorem goU64_if (b : Bytes) :
    Go.readU64 b = if 8 ≤ b.length then .ok (UInt64.ofNat (beNat (b.take 8)), b.drop 8) else .error .eof := by
  split
  · next h =>
    have : ¬ (min 8 b.length < 8) := by omega
    simp [Go.readU64, Go.next, List.length_take, this]
  · next h =>
    have : (min 8 b.length < 8) := by omega
    simp [Go.readU64, Go.next, List.length_take, this]

theorem goBytes_if (b : Bytes) (n : Nat) (hn : 0 < n) :
    Go.readBytes b n = if n ≤ b.length then .ok (b.take n, b.drop n) else .error .eof := by
  split
  · next h => exact readBytes_ok hn h
  · next h =>
    have h0 : ¬ n = 0 := by omega
    have h1 : (min n b.length < n) := by omega
    simp [Go.readBytes, Go.next, List.length_take, h0, h1]

theorem readU_if (n : Nat) (b : Bytes) :
    readU n b = if n ≤ b.length then .ok (beNat (b.take n), b.drop n) else .error .eof := by
  split
  · next h => exact readU_ok h
  · next h => exact readU_short (by omega)

theorem ite_bind {α β : Type} (c : Prop) [Decidable c] (x : α) (e : Err) (f : α → Res β) :
    ((if c then (Except.ok x : Res α) else .error e) >>= f) = if c then f x else .error e := by
  split <;> rfl

theorem map_ite {α β : Type} (f : α → β) (c : Prop) [Decidable c] (x : Res α) (e : Err) :
    Except.map f (if c then x else .error e) = if c then Except.map f x else .error e := by
  split <;> rfl

theorem ite_eof_of {α : Type} (c : Prop) [Decidable c] (x : Res α) (hx : c → x = .error .eof) :
    (if c then x else .error .eof) = .error .eof := by
  split
  · next h => exact hx h
  · rfl

theorem u64_beNat (l : Bytes) : (UInt64.ofNat (beNat (l.take 8))).toNat = beNat (l.take 8) := by
  have := beNat_lt (l.take 8); have hl : (l.take 8).length ≤ 8 := List.length_take_le _ _
  rw [UInt64.toNat_ofNat']; apply Nat.mod_eq_of_lt
  exact Nat.lt_of_lt_of_le this (Nat.pow_le_pow_right (by decide) hl)
theorem beNat_take8_mod (l : Bytes) : beNat (l.take 8) % 18446744073709551616 = beNat (l.take 8) := by
  have := u64_beNat l; rwa [UInt64.toNat_ofNat'] at this

theorem u32_of_toNat {x : UInt32} {n : Nat} (hn : n < 4294967296) (h : x.toNat = n) : x = UInt32.ofNat n := by
  apply UInt32.toNat_inj.mp; rw [h, UInt32.toNat_ofNat']; exact (Nat.mod_eq_of_lt hn).symm
theorem u32_ne_of_toNat {x : UInt32} {n : Nat} (hn : n < 4294967296) (h : x.toNat ≠ n) : x ≠ UInt32.ofNat n := by
  intro e; apply h; rw [e, UInt32.toNat_ofNat']; exact Nat.mod_eq_of_lt hn

theorem readU64_ok {b : Bytes} (h : 8 ≤ b.length) : Go.readU64 b = .ok (UInt64.ofNat (beNat (b.take 8)), b.drop 8) := by
  rw [goU64_if, if_pos h]

/-! ### DecodeCounterRecord -/

theorem counter_if_ok (h : TS.RecordHeader) (b : Bytes) (hb : 88 ≤ b.length) (hf : h.DataFormat = 1) :
    (TS.DecodeCounterRecord h b).map (fun r => counterRecOf r.2.2) = decodeCounterRecord 1 h.Length.toNat b := by
  unfold TS.DecodeCounterRecord decodeCounterRecord
  simp (disch := (first | omega | (simp only [List.length_drop]; omega))) only [hf, decide_true, if_true, readU32_ok, readU64_ok, ok_bind,
    List.drop_drop, readFields, ifCountersW, readU_ok]
  simp [Except.map, counterRecOf, cdataOf, beNat_take4_mod, beNat_take8_mod]
  rw [hf]; rfl

/-- a chain of reads that ends in `.ok` is short of bytes somewhere: every way out is `eof` -/
theorem counter_if_short (h : TS.RecordHeader) (b : Bytes) (hb : b.length < 88) (hf : h.DataFormat = 1) :
    (TS.DecodeCounterRecord h b).map (fun r => counterRecOf r.2.2) = .error .eof := by
  unfold TS.DecodeCounterRecord
  simp only [hf, decide_true, if_true, goU32_if, goU64_if, ite_bind, List.drop_drop, List.length_drop, map_ite]
  repeat (apply ite_eof_of; intro)
  exfalso; omega

theorem counter_eth_ok (h : TS.RecordHeader) (b : Bytes) (hb : 52 ≤ b.length) (hf : h.DataFormat = 2) :
    (TS.DecodeCounterRecord h b).map (fun r => counterRecOf r.2.2) = decodeCounterRecord 2 h.Length.toNat b := by
  have n1 : h.DataFormat ≠ 1 := by rw [hf]; decide
  unfold TS.DecodeCounterRecord decodeCounterRecord
  simp (config := { decide := true }) (disch := (first | omega | (simp only [List.length_drop]; omega))) only [eq_true hf, eq_false n1,
    decide_true, decide_false, if_true, if_false, readU32_ok, ok_bind, List.drop_drop, readFields, ethCountersW, readU_ok]
  simp [Except.map, counterRecOf, cdataOf, beNat_take4_mod]
  rw [hf]; rfl

theorem counter_eth_short (h : TS.RecordHeader) (b : Bytes) (hb : b.length < 52) (hf : h.DataFormat = 2) :
    (TS.DecodeCounterRecord h b).map (fun r => counterRecOf r.2.2) = .error .eof := by
  have n1 : h.DataFormat ≠ 1 := by rw [hf]; decide
  unfold TS.DecodeCounterRecord
  simp only [eq_true hf, eq_false n1, decide_true, decide_false, if_true, if_false, Bool.false_eq_true, goU32_if, ite_bind, List.drop_drop,
    List.length_drop, map_ite]
  repeat (apply ite_eof_of; intro)
  exfalso; omega

theorem counter_other (h : TS.RecordHeader) (b : Bytes) (n1 : h.DataFormat.toNat ≠ 1) (n2 : h.DataFormat.toNat ≠ 2) :
    (TS.DecodeCounterRecord h b).map (fun r => counterRecOf r.2.2) = decodeCounterRecord h.DataFormat.toNat h.Length.toNat b := by
  have m1 : h.DataFormat ≠ 1 := u32_ne_of_toNat (by decide) n1
  have m2 : h.DataFormat ≠ 2 := u32_ne_of_toNat (by decide) n2
  unfold TS.DecodeCounterRecord decodeCounterRecord
  simp only [eq_false m1, eq_false m2, decide_false, if_false, Bool.false_eq_true, n1, n2]
  rfl

/-- sflow.DecodeCounterRecord for every record header and every byte string: the model's record (format, length, typed counters
    or the raw bytes of an unknown format) or the model's error class -/
theorem decodeCounterRecord_trans_eq (h : TS.RecordHeader) (b : Bytes) :
    (TS.DecodeCounterRecord h b).map (fun r => counterRecOf r.2.2) = decodeCounterRecord h.DataFormat.toNat h.Length.toNat b := by
  by_cases h1 : h.DataFormat.toNat = 1
  · have hf : h.DataFormat = 1 := u32_of_toNat (by decide) h1
    rw [h1]
    by_cases hb : 88 ≤ b.length
    · exact counter_if_ok h b hb hf
    · rw [counter_if_short h b (by omega) hf]
      simp only [decodeCounterRecord, if_true, readFields_err_of_lt ifCountersW b (by simp [ifCountersW, sumW]; omega)]
  · by_cases h2 : h.DataFormat.toNat = 2
    · have hf : h.DataFormat = 2 := u32_of_toNat (by decide) h2
      rw [h2]
      by_cases hb : 52 ≤ b.length
      · exact counter_eth_ok h b hb hf
      · rw [counter_eth_short h b (by omega) hf]
        simp (config := { decide := true }) only [decodeCounterRecord, if_true, if_false,
          readFields_err_of_lt ethCountersW b (by simp [ethCountersW, sumW]; omega)]
    · exact counter_other h b h1 h2

/-! ### DecodeFlowRecord -/

theorem takeN_ok {n : Nat} {b : Bytes} (h : n ≤ b.length) : takeN n b = .ok (b.take n, b.drop n) := by
  simp [takeN, h]

theorem makeBytesI_4 : Go.makeBytesI (4 : Int) = .ok (List.replicate 4 0) := rfl
theorem makeBytesI_6 : Go.makeBytesI (6 : Int) = .ok (List.replicate 6 0) := rfl
theorem makeBytesI_16 : Go.makeBytesI (16 : Int) = .ok (List.replicate 16 0) := rfl

def sumI : List Item → Nat
  | [] => 0
  | .u w :: is => w + sumI is
  | .b n :: is => n + sumI is

theorem readItems_err_of_lt (is : List Item) (b : Bytes) (h : b.length < sumI is) : readItems is b = .error .eof := by
  induction is generalizing b with
  | nil => simp [sumI] at h
  | cons i is ih =>
    cases i with
    | u w =>
      simp only [sumI] at h
      by_cases hw : w ≤ b.length
      · have h' : (b.drop w).length < sumI is := by simp; omega
        simp [readItems, readU_ok hw, ih _ h']
      · simp [readItems, readU_short (Nat.lt_of_not_le hw)]
    | b n =>
      simp only [sumI] at h
      by_cases hw : n ≤ b.length
      · have h' : (b.drop n).length < sumI is := by simp; omega
        simp [readItems, takeN_ok hw, ih _ h']
      · simp [readItems, takeN, hw]

theorem flow_raw_ok (h : TS.RecordHeader) (b : Bytes) (hb : 16 ≤ b.length) (hf : h.DataFormat = 1) :
    (TS.DecodeFlowRecord h b).map (fun r => flowRecOf r.2.2) = decodeFlowRecord 1 h.Length.toNat b := by
  unfold TS.DecodeFlowRecord decodeFlowRecord
  simp (config := { decide := true }) only [eq_true hf, decide_true, decide_false, reduceIte, Bool.false_eq_true]
  simp (config := { decide := true }) (disch := (first | omega | (simp only [List.length_drop]; omega))) only [reduceIte,
    makeBytesI_4, makeBytesI_6, makeBytesI_16, List.length_replicate, readU32_ok, readBytes_ok, ok_bind, List.drop_drop, readFields, layoutOf,
    readItems, readU_ok, takeN_ok]
  simp [Except.map, flowRecOf, dataOf, beNat_take4_mod]
  try (rw [hf]; rfl)

theorem flow_raw_short (h : TS.RecordHeader) (b : Bytes) (hb : b.length < 16) (hf : h.DataFormat = 1) :
    (TS.DecodeFlowRecord h b).map (fun r => flowRecOf r.2.2) = .error .eof := by
  unfold TS.DecodeFlowRecord
  simp (config := { decide := true }) only [eq_true hf, decide_true, decide_false, reduceIte, Bool.false_eq_true]
  simp (config := { maxSteps := 2000000 }) (disch := omega) only [
    makeBytesI_4, makeBytesI_6, makeBytesI_16, ok_bind, List.length_replicate, goU32_if, goBytes_if, ite_bind, List.drop_drop, List.length_drop, map_ite]
  repeat (apply ite_eof_of; intro)
  exfalso; omega

theorem flow_eth_ok (h : TS.RecordHeader) (b : Bytes) (hb : 20 ≤ b.length) (hf : h.DataFormat = 2) :
    (TS.DecodeFlowRecord h b).map (fun r => flowRecOf r.2.2) = decodeFlowRecord 2 h.Length.toNat b := by
  have n1 : h.DataFormat ≠ 1 := by rw [hf]; decide
  unfold TS.DecodeFlowRecord decodeFlowRecord
  simp (config := { decide := true }) only [eq_true hf, eq_false n1, decide_true, decide_false, reduceIte, Bool.false_eq_true]
  simp (config := { decide := true }) (disch := (first | omega | (simp only [List.length_drop]; omega))) only [reduceIte,
    makeBytesI_4, makeBytesI_6, makeBytesI_16, List.length_replicate, readU32_ok, readBytes_ok, ok_bind, List.drop_drop, readFields, layoutOf,
    readItems, readU_ok, takeN_ok]
  simp [Except.map, flowRecOf, dataOf, beNat_take4_mod]
  try (rw [hf]; rfl)

theorem flow_eth_short (h : TS.RecordHeader) (b : Bytes) (hb : b.length < 20) (hf : h.DataFormat = 2) :
    (TS.DecodeFlowRecord h b).map (fun r => flowRecOf r.2.2) = .error .eof := by
  have n1 : h.DataFormat ≠ 1 := by rw [hf]; decide
  unfold TS.DecodeFlowRecord
  simp (config := { decide := true }) only [eq_true hf, eq_false n1, decide_true, decide_false, reduceIte, Bool.false_eq_true]
  simp (config := { maxSteps := 2000000 }) (disch := omega) only [
    makeBytesI_4, makeBytesI_6, makeBytesI_16, ok_bind, List.length_replicate, goU32_if, goBytes_if, ite_bind, List.drop_drop, List.length_drop, map_ite]
  repeat (apply ite_eof_of; intro)
  exfalso; omega

theorem flow_ipv4_ok (h : TS.RecordHeader) (b : Bytes) (hb : 32 ≤ b.length) (hf : h.DataFormat = 3) :
    (TS.DecodeFlowRecord h b).map (fun r => flowRecOf r.2.2) = decodeFlowRecord 3 h.Length.toNat b := by
  have n1 : h.DataFormat ≠ 1 := by rw [hf]; decide
  have n2 : h.DataFormat ≠ 2 := by rw [hf]; decide
  unfold TS.DecodeFlowRecord decodeFlowRecord
  simp (config := { decide := true }) only [eq_true hf, eq_false n1, eq_false n2, decide_true, decide_false, reduceIte, Bool.false_eq_true]
  simp (config := { decide := true }) (disch := (first | omega | (simp only [List.length_drop]; omega))) only [reduceIte,
    makeBytesI_4, makeBytesI_6, makeBytesI_16, List.length_replicate, readU32_ok, readBytes_ok, ok_bind, List.drop_drop, readFields, layoutOf,
    readItems, readU_ok, takeN_ok]
  simp [Except.map, flowRecOf, dataOf, beNat_take4_mod]
  try (rw [hf]; rfl)

theorem flow_ipv4_short (h : TS.RecordHeader) (b : Bytes) (hb : b.length < 32) (hf : h.DataFormat = 3) :
    (TS.DecodeFlowRecord h b).map (fun r => flowRecOf r.2.2) = .error .eof := by
  have n1 : h.DataFormat ≠ 1 := by rw [hf]; decide
  have n2 : h.DataFormat ≠ 2 := by rw [hf]; decide
  unfold TS.DecodeFlowRecord
  simp (config := { decide := true }) only [eq_true hf, eq_false n1, eq_false n2, decide_true, decide_false, reduceIte, Bool.false_eq_true]
  simp (config := { maxSteps := 2000000 }) (disch := omega) only [
    makeBytesI_4, makeBytesI_6, makeBytesI_16, ok_bind, List.length_replicate, goU32_if, goBytes_if, ite_bind, List.drop_drop, List.length_drop, map_ite]
  repeat (apply ite_eof_of; intro)
  exfalso; omega

theorem flow_ipv6_ok (h : TS.RecordHeader) (b : Bytes) (hb : 56 ≤ b.length) (hf : h.DataFormat = 4) :
    (TS.DecodeFlowRecord h b).map (fun r => flowRecOf r.2.2) = decodeFlowRecord 4 h.Length.toNat b := by
  have n1 : h.DataFormat ≠ 1 := by rw [hf]; decide
  have n2 : h.DataFormat ≠ 2 := by rw [hf]; decide
  have n3 : h.DataFormat ≠ 3 := by rw [hf]; decide
  unfold TS.DecodeFlowRecord decodeFlowRecord
  simp (config := { decide := true }) only [eq_true hf, eq_false n1, eq_false n2, eq_false n3, decide_true, decide_false, reduceIte, Bool.false_eq_true]
  simp (config := { decide := true }) (disch := (first | omega | (simp only [List.length_drop]; omega))) only [reduceIte,
    makeBytesI_4, makeBytesI_6, makeBytesI_16, List.length_replicate, readU32_ok, readBytes_ok, ok_bind, List.drop_drop, readFields, layoutOf,
    readItems, readU_ok, takeN_ok]
  simp [Except.map, flowRecOf, dataOf, beNat_take4_mod]
  try (rw [hf]; rfl)

theorem flow_ipv6_short (h : TS.RecordHeader) (b : Bytes) (hb : b.length < 56) (hf : h.DataFormat = 4) :
    (TS.DecodeFlowRecord h b).map (fun r => flowRecOf r.2.2) = .error .eof := by
  have n1 : h.DataFormat ≠ 1 := by rw [hf]; decide
  have n2 : h.DataFormat ≠ 2 := by rw [hf]; decide
  have n3 : h.DataFormat ≠ 3 := by rw [hf]; decide
  unfold TS.DecodeFlowRecord
  simp (config := { decide := true }) only [eq_true hf, eq_false n1, eq_false n2, eq_false n3, decide_true, decide_false, reduceIte, Bool.false_eq_true]
  simp (config := { maxSteps := 2000000 }) (disch := omega) only [
    makeBytesI_4, makeBytesI_6, makeBytesI_16, ok_bind, List.length_replicate, goU32_if, goBytes_if, ite_bind, List.drop_drop, List.length_drop, map_ite]
  repeat (apply ite_eof_of; intro)
  exfalso; omega

theorem flow_switch_ok (h : TS.RecordHeader) (b : Bytes) (hb : 16 ≤ b.length) (hf : h.DataFormat = 1001) :
    (TS.DecodeFlowRecord h b).map (fun r => flowRecOf r.2.2) = decodeFlowRecord 1001 h.Length.toNat b := by
  have n1 : h.DataFormat ≠ 1 := by rw [hf]; decide
  have n2 : h.DataFormat ≠ 2 := by rw [hf]; decide
  have n3 : h.DataFormat ≠ 3 := by rw [hf]; decide
  have n4 : h.DataFormat ≠ 4 := by rw [hf]; decide
  unfold TS.DecodeFlowRecord decodeFlowRecord
  simp (config := { decide := true }) only [eq_true hf, eq_false n1, eq_false n2, eq_false n3, eq_false n4, decide_true, decide_false, reduceIte, Bool.false_eq_true]
  simp (config := { decide := true }) (disch := (first | omega | (simp only [List.length_drop]; omega))) only [reduceIte,
    makeBytesI_4, makeBytesI_6, makeBytesI_16, List.length_replicate, readU32_ok, readBytes_ok, ok_bind, List.drop_drop, readFields, layoutOf,
    readItems, readU_ok, takeN_ok]
  simp [Except.map, flowRecOf, dataOf, beNat_take4_mod]
  try (rw [hf]; rfl)

theorem flow_switch_short (h : TS.RecordHeader) (b : Bytes) (hb : b.length < 16) (hf : h.DataFormat = 1001) :
    (TS.DecodeFlowRecord h b).map (fun r => flowRecOf r.2.2) = .error .eof := by
  have n1 : h.DataFormat ≠ 1 := by rw [hf]; decide
  have n2 : h.DataFormat ≠ 2 := by rw [hf]; decide
  have n3 : h.DataFormat ≠ 3 := by rw [hf]; decide
  have n4 : h.DataFormat ≠ 4 := by rw [hf]; decide
  unfold TS.DecodeFlowRecord
  simp (config := { decide := true }) only [eq_true hf, eq_false n1, eq_false n2, eq_false n3, eq_false n4, decide_true, decide_false, reduceIte, Bool.false_eq_true]
  simp (config := { maxSteps := 2000000 }) (disch := omega) only [
    makeBytesI_4, makeBytesI_6, makeBytesI_16, ok_bind, List.length_replicate, goU32_if, goBytes_if, ite_bind, List.drop_drop, List.length_drop, map_ite]
  repeat (apply ite_eof_of; intro)
  exfalso; omega

theorem flow_queue_ok (h : TS.RecordHeader) (b : Bytes) (hb : 4 ≤ b.length) (hf : h.DataFormat = 1036) :
    (TS.DecodeFlowRecord h b).map (fun r => flowRecOf r.2.2) = decodeFlowRecord 1036 h.Length.toNat b := by
  have n1 : h.DataFormat ≠ 1 := by rw [hf]; decide
  have n2 : h.DataFormat ≠ 2 := by rw [hf]; decide
  have n3 : h.DataFormat ≠ 3 := by rw [hf]; decide
  have n4 : h.DataFormat ≠ 4 := by rw [hf]; decide
  have n1001 : h.DataFormat ≠ 1001 := by rw [hf]; decide
  have n1002 : h.DataFormat ≠ 1002 := by rw [hf]; decide
  have n1003 : h.DataFormat ≠ 1003 := by rw [hf]; decide
  unfold TS.DecodeFlowRecord decodeFlowRecord
  simp (config := { decide := true }) only [eq_true hf, eq_false n1, eq_false n2, eq_false n3, eq_false n4, eq_false n1001, eq_false n1002, eq_false n1003, decide_true, decide_false, reduceIte, Bool.false_eq_true]
  simp (config := { decide := true }) (disch := (first | omega | (simp only [List.length_drop]; omega))) only [reduceIte,
    makeBytesI_4, makeBytesI_6, makeBytesI_16, List.length_replicate, readU32_ok, readBytes_ok, ok_bind, List.drop_drop, readFields, layoutOf,
    readItems, readU_ok, takeN_ok]
  simp [Except.map, flowRecOf, dataOf, beNat_take4_mod]
  try (rw [hf]; rfl)

theorem flow_queue_short (h : TS.RecordHeader) (b : Bytes) (hb : b.length < 4) (hf : h.DataFormat = 1036) :
    (TS.DecodeFlowRecord h b).map (fun r => flowRecOf r.2.2) = .error .eof := by
  have n1 : h.DataFormat ≠ 1 := by rw [hf]; decide
  have n2 : h.DataFormat ≠ 2 := by rw [hf]; decide
  have n3 : h.DataFormat ≠ 3 := by rw [hf]; decide
  have n4 : h.DataFormat ≠ 4 := by rw [hf]; decide
  have n1001 : h.DataFormat ≠ 1001 := by rw [hf]; decide
  have n1002 : h.DataFormat ≠ 1002 := by rw [hf]; decide
  have n1003 : h.DataFormat ≠ 1003 := by rw [hf]; decide
  unfold TS.DecodeFlowRecord
  simp (config := { decide := true }) only [eq_true hf, eq_false n1, eq_false n2, eq_false n3, eq_false n4, eq_false n1001, eq_false n1002, eq_false n1003, decide_true, decide_false, reduceIte, Bool.false_eq_true]
  simp (config := { maxSteps := 2000000 }) (disch := omega) only [
    makeBytesI_4, makeBytesI_6, makeBytesI_16, ok_bind, List.length_replicate, goU32_if, goBytes_if, ite_bind, List.drop_drop, List.length_drop, map_ite]
  repeat (apply ite_eof_of; intro)
  exfalso; omega


theorem xdr_eq (b : Bytes) : Go.readXdrString b = readString b := by
  unfold Go.readXdrString readString
  by_cases h4 : 4 ≤ b.length
  · have h4' : ¬ (min 4 b.length < 4) := by omega
    rw [readU_ok h4]
    simp only [Go.next, List.length_take, h4', if_false]
    by_cases hn : beNat (b.take 4) ≤ (b.drop 4).length
    · have hn' : ¬ (min (beNat (b.take 4)) (b.drop 4).length < beNat (b.take 4)) := by omega
      simp only [hn', if_false, takeN_ok hn]
      by_cases hp : (4 - beNat (b.take 4) % 4) % 4 > 0
      · simp only [hp, if_true]
      · have : (4 - beNat (b.take 4) % 4) % 4 = 0 := by omega
        simp [this]
    · have hn' : (min (beNat (b.take 4)) (b.drop 4).length < beNat (b.take 4)) := by omega
      simp only [hn', if_true, takeN, hn, if_false]
  · have h4' : (min 4 b.length < 4) := by omega
    rw [readU_short (by omega)]
    simp only [Go.next, List.length_take, h4', if_true]

theorem flow_router (h : TS.RecordHeader) (b : Bytes) (hf : h.DataFormat = 1002) :
    (TS.DecodeFlowRecord h b).map (fun r => flowRecOf r.2.2) = decodeFlowRecord 1002 h.Length.toNat b := by
  have n1 : h.DataFormat ≠ 1 := by rw [hf]; decide
  have n2 : h.DataFormat ≠ 2 := by rw [hf]; decide
  have n3 : h.DataFormat ≠ 3 := by rw [hf]; decide
  have n4 : h.DataFormat ≠ 4 := by rw [hf]; decide
  have n1001 : h.DataFormat ≠ 1001 := by rw [hf]; decide
  have hm := decodeIP_trans_eq b
  unfold TS.DecodeFlowRecord decodeFlowRecord
  simp (config := { decide := true }) only [eq_true hf, eq_false n1, eq_false n2, eq_false n3, eq_false n4, eq_false n1001, decide_true, decide_false, reduceIte, Bool.false_eq_true]
  cases hd : TS.DecodeIP b with
  | error e => rw [hd] at hm; simp only [Except.map] at hm; rw [← hm]; rfl
  | ok r =>
    obtain ⟨p, v, ip⟩ := r
    rw [hd] at hm; simp only [Except.map] at hm; rw [← hm]
    simp only [ok_bind]
    by_cases hp : 8 ≤ p.length
    · simp (disch := (first | omega | (simp only [List.length_drop]; omega))) only [readU32_ok, ok_bind, readFields, readU_ok, List.drop_drop]
      simp [Except.map, flowRecOf, dataOf, beNat_take4_mod]
      try (rw [hf]; rfl)
    · rw [readFields_err_of_lt [4, 4] p (by simp [sumW]; omega)]
      simp only [goU32_if, ite_bind, List.drop_drop, List.length_drop, map_ite]
      repeat (apply ite_eof_of; intro)
      exfalso; omega

theorem flow_acl (h : TS.RecordHeader) (b : Bytes) (hf : h.DataFormat = 1037) :
    (TS.DecodeFlowRecord h b).map (fun r => flowRecOf r.2.2) = decodeFlowRecord 1037 h.Length.toNat b := by
  have n1 : h.DataFormat ≠ 1 := by rw [hf]; decide
  have n2 : h.DataFormat ≠ 2 := by rw [hf]; decide
  have n3 : h.DataFormat ≠ 3 := by rw [hf]; decide
  have n4 : h.DataFormat ≠ 4 := by rw [hf]; decide
  have n1001 : h.DataFormat ≠ 1001 := by rw [hf]; decide
  have n1002 : h.DataFormat ≠ 1002 := by rw [hf]; decide
  have n1003 : h.DataFormat ≠ 1003 := by rw [hf]; decide
  have n1036 : h.DataFormat ≠ 1036 := by rw [hf]; decide
  unfold TS.DecodeFlowRecord decodeFlowRecord
  simp (config := { decide := true }) only [eq_true hf, eq_false n1, eq_false n2, eq_false n3, eq_false n4, eq_false n1001, eq_false n1002, eq_false n1003, eq_false n1036, decide_true, decide_false, reduceIte, Bool.false_eq_true]
  simp only [xdr_eq]
  by_cases h4 : 4 ≤ b.length
  · simp only [readU32_ok h4, readU_ok h4, ok_bind]
    cases hs : readString (b.drop 4) with
    | error e => rfl
    | ok r =>
      obtain ⟨nm, b2⟩ := r
      simp only [ok_bind]
      by_cases h2 : 4 ≤ b2.length
      · simp only [readU32_ok h2, readU_ok h2, ok_bind]
        simp [Except.map, flowRecOf, dataOf, beNat_take4_mod]
        try (rw [hf]; rfl)
      · simp only [readU32_short (Nat.lt_of_not_le h2), readU_short (Nat.lt_of_not_le h2)]
        rfl
  · simp only [readU32_short (Nat.lt_of_not_le h4), readU_short (Nat.lt_of_not_le h4)]
    rfl

theorem flow_function (h : TS.RecordHeader) (b : Bytes) (hf : h.DataFormat = 1038) :
    (TS.DecodeFlowRecord h b).map (fun r => flowRecOf r.2.2) = decodeFlowRecord 1038 h.Length.toNat b := by
  have n1 : h.DataFormat ≠ 1 := by rw [hf]; decide
  have n2 : h.DataFormat ≠ 2 := by rw [hf]; decide
  have n3 : h.DataFormat ≠ 3 := by rw [hf]; decide
  have n4 : h.DataFormat ≠ 4 := by rw [hf]; decide
  have n1001 : h.DataFormat ≠ 1001 := by rw [hf]; decide
  have n1002 : h.DataFormat ≠ 1002 := by rw [hf]; decide
  have n1003 : h.DataFormat ≠ 1003 := by rw [hf]; decide
  have n1036 : h.DataFormat ≠ 1036 := by rw [hf]; decide
  have n1037 : h.DataFormat ≠ 1037 := by rw [hf]; decide
  unfold TS.DecodeFlowRecord decodeFlowRecord
  simp (config := { decide := true }) only [eq_true hf, eq_false n1, eq_false n2, eq_false n3, eq_false n4, eq_false n1001, eq_false n1002, eq_false n1003, eq_false n1036, eq_false n1037, decide_true, decide_false, reduceIte, Bool.false_eq_true]
  simp only [xdr_eq]
  cases hs : readString b with
  | error e => rfl
  | ok r =>
    obtain ⟨nm, b2⟩ := r
    simp [Except.map, flowRecOf, dataOf]
    try (rw [hf]; rfl)

theorem flow_other (h : TS.RecordHeader) (b : Bytes)
    (m1 : h.DataFormat.toNat ≠ 1) (m2 : h.DataFormat.toNat ≠ 2) (m3 : h.DataFormat.toNat ≠ 3) (m4 : h.DataFormat.toNat ≠ 4) (m1001 : h.DataFormat.toNat ≠ 1001) (m1002 : h.DataFormat.toNat ≠ 1002) (m1003 : h.DataFormat.toNat ≠ 1003) (m1036 : h.DataFormat.toNat ≠ 1036) (m1037 : h.DataFormat.toNat ≠ 1037) (m1038 : h.DataFormat.toNat ≠ 1038) :
    (TS.DecodeFlowRecord h b).map (fun r => flowRecOf r.2.2) = decodeFlowRecord h.DataFormat.toNat h.Length.toNat b := by
  have n1 : h.DataFormat ≠ 1 := u32_ne_of_toNat (by decide) m1
  have n2 : h.DataFormat ≠ 2 := u32_ne_of_toNat (by decide) m2
  have n3 : h.DataFormat ≠ 3 := u32_ne_of_toNat (by decide) m3
  have n4 : h.DataFormat ≠ 4 := u32_ne_of_toNat (by decide) m4
  have n1001 : h.DataFormat ≠ 1001 := u32_ne_of_toNat (by decide) m1001
  have n1002 : h.DataFormat ≠ 1002 := u32_ne_of_toNat (by decide) m1002
  have n1003 : h.DataFormat ≠ 1003 := u32_ne_of_toNat (by decide) m1003
  have n1036 : h.DataFormat ≠ 1036 := u32_ne_of_toNat (by decide) m1036
  have n1037 : h.DataFormat ≠ 1037 := u32_ne_of_toNat (by decide) m1037
  have n1038 : h.DataFormat ≠ 1038 := u32_ne_of_toNat (by decide) m1038
  unfold TS.DecodeFlowRecord decodeFlowRecord
  simp (config := { decide := true }) only [eq_false n1, eq_false n2, eq_false n3, eq_false n4, eq_false n1001, eq_false n1002, eq_false n1003, eq_false n1036, eq_false n1037, eq_false n1038, m1, m2, m3, m4, m1001, m1002, m1003, m1036, m1037, m1038, decide_false, reduceIte,
    Bool.false_eq_true, layoutOf]
  rfl

end Goflow.C04Trans2

namespace Goflow.C04Trans2.Gw
open Goflow Goflow.Producer Goflow.Generated Goflow.Generated.TS

/-! the gateway branch of the generated TS.DecodeFlowRecord, copied out as two definitions of its own (only to split the proof:
    `gateway_branch` below shows by `rfl` that the generated function IS this text on a gateway record) -/
/-- the part of the gateway branch of TS.DecodeFlowRecord after the AS path (its join point k_2), as a function of its own -/
def gwTail (header : TS.RecordHeader) (flowRecord : TS.FlowRecord) (payload : Bytes) (err : Go.Error) (extendedGateway : TS.ExtendedGateway)
    (asPath : List UInt32) : Res (TS.RecordHeader × Bytes × TS.FlowRecord) :=
  let extendedGateway : ExtendedGateway := { extendedGateway with ASPath := asPath }
  Go.readU32 payload >>= fun t_43 =>
  let extendedGateway : ExtendedGateway := { extendedGateway with CommunitiesLength := t_43.1 }
  let payload : Bytes := t_43.2
  if decide (extendedGateway.CommunitiesLength > (1000 : UInt32)) then
    Go.retSt (some Err.bad : Go.Error) (header, payload, flowRecord)
  else
    if decide ((extendedGateway.CommunitiesLength.toNat : Int) > ((payload.length : Int) - (4 : Int))) then
      Go.retSt (some Err.bad : Go.Error) (header, payload, flowRecord)
    else
      Go.makeU32s extendedGateway.CommunitiesLength.toNat >>= fun t_44 =>
      let communities : List UInt32 := t_44
      let k_3 := fun (payload : Bytes) (err : Go.Error) (communities : List UInt32) =>
        Go.readU32 payload >>= fun t_45 =>
        let extendedGateway : ExtendedGateway := { extendedGateway with LocalPref := t_45.1 }
        let payload : Bytes := t_45.2
        let extendedGateway : ExtendedGateway := { extendedGateway with Communities := communities }
        let flowRecord : FlowRecord := { flowRecord with Data := (Iface.ExtendedGateway extendedGateway) }
        .ok (header, payload, flowRecord)
      if decide ((communities.length : Int) > (0 : Int)) then
        Go.readU32s payload communities.length >>= fun t_46 =>
        let communities : List UInt32 := t_46.1
        let payload : Bytes := t_46.2
        k_3 payload err communities
      else
        k_3 payload err communities

/-- the gateway branch of TS.DecodeFlowRecord -/
def gwBody (header : TS.RecordHeader) (payload : Bytes) : Res (TS.RecordHeader × Bytes × TS.FlowRecord) :=
  let flowRecord : TS.FlowRecord := ({ Header := header } : TS.FlowRecord)
  let err : Go.Error := none
  let extendedGateway : ExtendedGateway := ({} : ExtendedGateway)
  DecodeIP payload >>= fun t_38 =>
  let payload : Bytes := t_38.1
  let extendedGateway : ExtendedGateway := { extendedGateway with NextHopIPVersion := t_38.2.1 }
  let extendedGateway : ExtendedGateway := { extendedGateway with NextHop := t_38.2.2 }
  let err : Go.Error := (none : Go.Error)
  Go.readU32 payload >>= fun t_39 =>
  let extendedGateway : ExtendedGateway := { extendedGateway with AS := t_39.1 }
  let payload : Bytes := t_39.2
  Go.readU32 payload >>= fun t_40 =>
  let extendedGateway : ExtendedGateway := { extendedGateway with SrcAS := t_40.1 }
  let payload : Bytes := t_40.2
  Go.readU32 payload >>= fun t_41 =>
  let extendedGateway : ExtendedGateway := { extendedGateway with SrcPeerAS := t_41.1 }
  let payload : Bytes := t_41.2
  Go.readU32 payload >>= fun t_42 =>
  let extendedGateway : ExtendedGateway := { extendedGateway with ASDestinations := t_42.1 }
  let payload : Bytes := t_42.2
  let asPath : List UInt32 := []
  if decide (extendedGateway.ASDestinations ≠ (0 : UInt32)) then
    Go.readU32 payload >>= fun t_47 =>
    let extendedGateway : ExtendedGateway := { extendedGateway with ASPathType := t_47.1 }
    let payload : Bytes := t_47.2
    Go.readU32 payload >>= fun t_48 =>
    let extendedGateway : ExtendedGateway := { extendedGateway with ASPathLength := t_48.1 }
    let payload : Bytes := t_48.2
    if decide (extendedGateway.ASPathLength > (1000 : UInt32)) then
      Go.retSt (some Err.bad : Go.Error) (header, payload, flowRecord)
    else
      if decide ((extendedGateway.ASPathLength.toNat : Int) > ((payload.length : Int) - (4 : Int))) then
        Go.retSt (some Err.bad : Go.Error) (header, payload, flowRecord)
      else
        Go.makeU32s extendedGateway.ASPathLength.toNat >>= fun t_49 =>
        let asPath : List UInt32 := t_49
        if decide ((asPath.length : Int) > (0 : Int)) then
          Go.readU32s payload asPath.length >>= fun t_50 =>
          let asPath : List UInt32 := t_50.1
          let payload : Bytes := t_50.2
          gwTail header flowRecord payload err extendedGateway asPath
        else
          gwTail header flowRecord payload err extendedGateway asPath
  else
    gwTail header flowRecord payload err extendedGateway asPath

end Goflow.C04Trans2.Gw

namespace Goflow.C04Trans2
open Goflow Goflow.Producer Goflow.Generated Goflow.Go Goflow.Sflow Goflow.C05Trans Goflow.C04Trans

/-- n big-endian words from the front of b -/
def wordsR : Nat → Bytes → List UInt32
  | 0, _ => []
  | n + 1, b => UInt32.ofNat (beNat (b.take 4)) :: wordsR n (b.drop 4)

theorem readWords_ok : ∀ (n : Nat) (b : Bytes), 4 * n ≤ b.length →
    readWords 4 n b = .ok ((wordsR n b).map UInt32.toNat, b.drop (4 * n))
  | 0, b, _ => by simp [readWords, wordsR]
  | n + 1, b, h => by
    have h4 : 4 ≤ b.length := by omega
    have h' : 4 * n ≤ (b.drop 4).length := by simp; omega
    simp only [readWords, readU_ok h4, readWords_ok n (b.drop 4) h', wordsR, List.map_cons, u32_beNat, List.drop_drop]
    congr 3; omega

theorem readWords_short : ∀ (n : Nat) (b : Bytes), b.length < 4 * n → readWords 4 n b = .error .eof
  | 0, b, h => by omega
  | n + 1, b, h => by
    by_cases h4 : 4 ≤ b.length
    · have h' : (b.drop 4).length < 4 * n := by simp; omega
      simp only [readWords, readU_ok h4, readWords_short n (b.drop 4) h']
    · simp only [readWords, readU_short (Nat.lt_of_not_le h4)]

theorem range_words : ∀ (n : Nat) (b : Bytes), 4 * n ≤ b.length →
    (List.range n).map (fun i => UInt32.ofNat (beNat (((b.take (4 * n)).drop (4 * i)).take 4))) = wordsR n b
  | 0, b, _ => by simp [wordsR]
  | n + 1, b, h => by
    have h' : 4 * n ≤ (b.drop 4).length := by simp; omega
    rw [List.range_succ_eq_map, List.map_cons, List.map_map, wordsR, ← range_words n (b.drop 4) h']
    congr 1
    · simp [List.take_take]
      have : min 4 (4 * (n + 1)) = 4 := by omega
      rw [this]
    · apply List.map_congr_left
      intro i _
      simp only [Function.comp]
      congr 2
      have e1 : 4 * (i + 1) = 4 + 4 * i := by omega
      have e2 : 4 * (n + 1) = 4 + 4 * n := by omega
      rw [e1, e2, ← List.drop_drop, List.drop_take]
      simp

theorem readU32s_ok {b : Bytes} {n : Nat} (hn : 0 < n) (h : 4 * n ≤ b.length) :
    Go.readU32s b n = .ok (wordsR n b, b.drop (4 * n)) := by
  have h0 : ¬ n = 0 := by omega
  have h1 : ¬ (min (4 * n) b.length < 4 * n) := by omega
  simp only [Go.readU32s, Go.next, h0, if_false, List.length_take, h1, range_words n b h]

theorem readU32s_short {b : Bytes} {n : Nat} (hn : 0 < n) (h : b.length < 4 * n) : Go.readU32s b n = .error .eof := by
  have h0 : ¬ n = 0 := by omega
  have h1 : (min (4 * n) b.length < 4 * n) := by omega
  simp only [Go.readU32s, Go.next, h0, if_false, List.length_take, h1, if_true]

theorem toNat_ofNat_lt {n : Nat} (h : n < 4294967296) : (UInt32.ofNat n).toNat = n := by
  rw [UInt32.toNat_ofNat']; exact Nat.mod_eq_of_lt h

theorem gt1000 {n : Nat} (h : n < 4294967296) : (UInt32.ofNat n > 1000) = (n > 1000) := by
  apply propext; rw [gt_iff_lt, UInt32.lt_iff_toNat_lt, toNat_ofNat_lt h]; rfl

theorem makeU32s_eq (n : Nat) : Go.makeU32s n = .ok (List.replicate n 0) := rfl

theorem gateway_branch (h : TS.RecordHeader) (b : Bytes) (hf : h.DataFormat = 1003) : TS.DecodeFlowRecord h b = Gw.gwBody h b := by
  have n1 : h.DataFormat ≠ 1 := by rw [hf]; decide
  have n2 : h.DataFormat ≠ 2 := by rw [hf]; decide
  have n3 : h.DataFormat ≠ 3 := by rw [hf]; decide
  have n4 : h.DataFormat ≠ 4 := by rw [hf]; decide
  have n1001 : h.DataFormat ≠ 1001 := by rw [hf]; decide
  have n1002 : h.DataFormat ≠ 1002 := by rw [hf]; decide
  unfold TS.DecodeFlowRecord
  simp (config := { decide := true }) only [eq_true hf, eq_false n1, eq_false n2, eq_false n3, eq_false n4, eq_false n1001, eq_false n1002, decide_true, decide_false, reduceIte, Bool.false_eq_true]
  rfl

/-- the model's gateway record after the AS path -/
def mTail (fmt len v : Nat) (ip : Bytes) (hd : List Nat) (pt pl : Nat) (path : List Nat) (b4 : Bytes) : Res Sflow.FlowRecord :=
  match readU 4 b4 with
  | .error e => .error e
  | .ok (cl, b5) =>
    match readCapped cl b5 with
    | .error e => .error e
    | .ok (comm, b6) =>
      match readU 4 b6 with
      | .error e => .error e
      | .ok (lp, _) => .ok ⟨fmt, len, .gateway v ip hd pt pl path cl comm lp⟩

theorem gw_tail_eq (h : TS.RecordHeader) (fr : TS.FlowRecord) (q : Bytes) (err : Go.Error) (gw : TS.ExtendedGateway) (path : List UInt32)
    (hfr : fr.Header = h) :
    (Gw.gwTail h fr q err gw path).map (fun r => flowRecOf r.2.2) =
      mTail h.DataFormat.toNat h.Length.toNat gw.NextHopIPVersion.toNat gw.NextHop
        [gw.AS.toNat, gw.SrcAS.toNat, gw.SrcPeerAS.toNat, gw.ASDestinations.toNat] gw.ASPathType.toNat gw.ASPathLength.toNat
        (path.map UInt32.toNat) q := by
  unfold Gw.gwTail mTail
  by_cases c4 : 4 ≤ q.length
  · simp only [readU32_ok c4, readU_ok c4, ok_bind]
    have hlt := beNat_take4_lt q
    generalize beNat (q.take 4) = cl at *
    simp only [gt1000 hlt, toNat_ofNat_lt hlt, makeU32s_eq, ok_bind, List.length_replicate, readCapped, decide_eq_true_eq]
    by_cases c1 : cl > 1000
    · simp only [c1, if_true, Go.retSt]; rfl
    · by_cases c2 : (cl : Int) > ((q.drop 4).length : Int) - 4
      · have c2' : cl + 4 > (q.drop 4).length := by omega
        simp only [c1, c2, c2', if_true, if_false, Go.retSt]; rfl
      · have c2' : ¬ cl + 4 > (q.drop 4).length := by omega
        simp only [c1, c2, c2', if_false]
        by_cases c0 : cl = 0
        · subst c0
          have z : ¬ (((0 : Nat) : Int) > 0) := by omega
          simp only [readWords, z, if_false]
          by_cases c5 : 4 ≤ (q.drop 4).length
          · simp only [readU32_ok c5, readU_ok c5, ok_bind]
            simp [Except.map, flowRecOf, dataOf, beNat_take4_mod, hfr]
          · simp only [readU32_short (Nat.lt_of_not_le c5), readU_short (Nat.lt_of_not_le c5)]; rfl
        · have c0' : (cl : Int) > 0 := by omega
          simp only [c0', if_true]
          by_cases c3 : 4 * cl ≤ (q.drop 4).length
          · simp only [readU32s_ok (Nat.pos_of_ne_zero c0) c3, readWords_ok cl _ c3, ok_bind]
            by_cases c5 : 4 ≤ ((q.drop 4).drop (4 * cl)).length
            · simp only [readU32_ok c5, readU_ok c5, ok_bind]
              simp [Except.map, flowRecOf, dataOf, beNat_take4_mod, hfr, toNat_ofNat_lt hlt]
            · simp only [readU32_short (Nat.lt_of_not_le c5), readU_short (Nat.lt_of_not_le c5)]; rfl
          · simp only [readU32s_short (Nat.pos_of_ne_zero c0) (Nat.lt_of_not_le c3), readWords_short cl _ (Nat.lt_of_not_le c3)]; rfl
  · simp only [readU32_short (Nat.lt_of_not_le c4), readU_short (Nat.lt_of_not_le c4)]; rfl

theorem decodeIP_cases (b : Bytes) :
    (∃ e, TS.DecodeIP b = .error e ∧ decodeIP b = .error e) ∨
    (∃ p v ip, TS.DecodeIP b = .ok (p, v, ip) ∧ decodeIP b = .ok (v.toNat, ip, p)) := by
  have hm := decodeIP_trans_eq b
  cases hd : TS.DecodeIP b with
  | error e => rw [hd] at hm; exact .inl ⟨e, rfl, hm.symm⟩
  | ok r => obtain ⟨p, v, ip⟩ := r; rw [hd] at hm; exact .inr ⟨p, v, ip, rfl, hm.symm⟩

/-- every case split is made BEFORE the generated body is unfolded: splitting with the unfolded body as the goal is very slow -/
theorem gw_after_ip (h : TS.RecordHeader) (b p : Bytes) (v : UInt32) (ip : Bytes)
    (h1 : TS.DecodeIP b = .ok (p, v, ip)) (h2 : decodeIP b = .ok (v.toNat, ip, p)) (hfn : h.DataFormat.toNat = 1003) :
    (Gw.gwBody h b).map (fun r => flowRecOf r.2.2) = decodeFlowRecord 1003 h.Length.toNat b := by
  have k1 : ((1003 : Nat) = 1) = False := by decide
  have k2 : ((1003 : Nat) = 1002) = False := by decide
  by_cases hp : 16 ≤ p.length
  · have l0 : 4 ≤ p.length := by omega
    have l1 : 4 ≤ (p.drop 4).length := by simp only [List.length_drop]; omega
    have l2 : 4 ≤ ((p.drop 4).drop 4).length := by simp only [List.length_drop]; omega
    have l3 : 4 ≤ (((p.drop 4).drop 4).drop 4).length := by simp only [List.length_drop]; omega
    have e0 := readU32_ok l0; have e1 := readU32_ok l1; have e2 := readU32_ok l2; have e3 := readU32_ok l3
    have m0 := readU_ok l0; have m1 := readU_ok l1; have m2 := readU_ok l2; have m3 := readU_ok l3
    have hlt := beNat_take4_lt (((p.drop 4).drop 4).drop 4)
    have hq4 : ((((p.drop 4).drop 4).drop 4).drop 4).length = p.length - 16 := by simp only [List.length_drop]; omega
    generalize hq4d : (((p.drop 4).drop 4).drop 4).drop 4 = q4 at *
    generalize beNat ((((p.drop 4).drop 4).drop 4).take 4) = w3 at *
    by_cases hz : w3 = 0
    · subst hz
      have z0 : UInt32.ofNat 0 = 0 := rfl
      unfold Gw.gwBody decodeFlowRecord
      simp only [k1, k2, reduceIte, h1, h2, ok_bind, e0, e1, e2, e3, m0, m1, m2, m3, readFields, List.getD_cons_succ, List.getD_cons_zero, z0, ne_eq, not_true_eq_false, decide_false, Bool.false_eq_true]
      rw [gw_tail_eq h _ _ _ _ _ rfl]
      simp [mTail, beNat_take4_mod, hfn, readCapped]
      try rfl
    · have hz' : UInt32.ofNat w3 ≠ 0 := by
        intro e; apply hz; have := congrArg UInt32.toNat e; rwa [toNat_ofNat_lt hlt] at this
      by_cases c8a : 4 ≤ q4.length
      · have f0 := readU32_ok c8a; have g0 := readU_ok c8a
        by_cases c8b : 4 ≤ (q4.drop 4).length
        · have f1 := readU32_ok c8b; have g1 := readU_ok c8b
          have hpl := beNat_take4_lt (q4.drop 4)
          generalize beNat ((q4.drop 4).take 4) = pl at *
          generalize hq6 : (q4.drop 4).drop 4 = q6 at *
          by_cases c1 : pl > 1000
          · unfold Gw.gwBody decodeFlowRecord
            simp only [k1, k2, reduceIte, h1, h2, ok_bind, e0, e1, e2, e3, m0, m1, m2, m3, readFields, List.getD_cons_succ, List.getD_cons_zero, hz, hz', ne_eq, not_false_eq_true, decide_true, f0, f1, g0, g1,
              gt1000 hpl, c1, readCapped, Go.retSt]
            rfl
          · by_cases c2 : (pl : Int) > (q6.length : Int) - 4
            · have c2' : pl + 4 > q6.length := by omega
              unfold Gw.gwBody decodeFlowRecord
              simp only [k1, k2, reduceIte, h1, h2, ok_bind, e0, e1, e2, e3, m0, m1, m2, m3, readFields, List.getD_cons_succ, List.getD_cons_zero, hz, hz', ne_eq, not_false_eq_true, decide_true, f0, f1, g0, g1,
                gt1000 hpl, toNat_ofNat_lt hpl, c1, c2, c2', decide_false, Bool.false_eq_true, readCapped, Go.retSt]
              rfl
            · have c2' : ¬ pl + 4 > q6.length := by omega
              by_cases c0 : pl = 0
              · subst c0
                have z : ¬ (((0 : Nat) : Int) > 0) := by omega
                unfold Gw.gwBody decodeFlowRecord
                simp only [k1, k2, reduceIte, h1, h2, ok_bind, e0, e1, e2, e3, m0, m1, m2, m3, readFields, List.getD_cons_succ, List.getD_cons_zero, hz, hz', ne_eq, not_false_eq_true, decide_true, f0, f1, g0, g1,
                  gt1000 hpl, toNat_ofNat_lt hpl, c1, c2, c2', decide_false, Bool.false_eq_true, readCapped, makeU32s_eq, List.length_replicate,
                  z, readWords]
                rw [gw_tail_eq h _ _ _ _ _ rfl]
                simp [mTail, beNat_take4_mod, hfn, readCapped, Nat.mod_eq_of_lt hlt]
                try rfl
              · have c0' : (pl : Int) > 0 := by omega
                by_cases c3 : 4 * pl ≤ q6.length
                · have r1 := readU32s_ok (Nat.pos_of_ne_zero c0) c3
                  have r2 := readWords_ok pl _ c3
                  unfold Gw.gwBody decodeFlowRecord
                  simp only [k1, k2, reduceIte, h1, h2, ok_bind, e0, e1, e2, e3, m0, m1, m2, m3, readFields, List.getD_cons_succ, List.getD_cons_zero, hz, hz', ne_eq, not_false_eq_true, decide_true, f0, f1, g0, g1,
                    gt1000 hpl, toNat_ofNat_lt hpl, c1, c2, c2', decide_false, Bool.false_eq_true, readCapped, makeU32s_eq, List.length_replicate,
                    c0', r1, r2]
                  rw [gw_tail_eq h _ _ _ _ _ rfl]
                  simp [mTail, beNat_take4_mod, toNat_ofNat_lt hpl, toNat_ofNat_lt hlt, hfn, readCapped, Nat.mod_eq_of_lt hlt, Nat.mod_eq_of_lt hpl]
                  try rfl
                · have r1 := readU32s_short (Nat.pos_of_ne_zero c0) (Nat.lt_of_not_le c3)
                  have r2 := readWords_short pl _ (Nat.lt_of_not_le c3)
                  unfold Gw.gwBody decodeFlowRecord
                  simp only [k1, k2, reduceIte, h1, h2, ok_bind, e0, e1, e2, e3, m0, m1, m2, m3, readFields, List.getD_cons_succ, List.getD_cons_zero, hz, hz', ne_eq, not_false_eq_true, decide_true, f0, f1, g0, g1,
                    gt1000 hpl, toNat_ofNat_lt hpl, c1, c2, c2', decide_false, Bool.false_eq_true, readCapped, makeU32s_eq, List.length_replicate,
                    c0', r1, r2, err_bind]
                  rfl
        · have f1 := readU32_short (Nat.lt_of_not_le c8b); have g1 := readU_short (Nat.lt_of_not_le c8b)
          unfold Gw.gwBody decodeFlowRecord
          simp only [k1, k2, reduceIte, h1, h2, ok_bind, e0, e1, e2, e3, m0, m1, m2, m3, readFields, List.getD_cons_succ, List.getD_cons_zero, hz, hz', ne_eq, not_false_eq_true, decide_true, f0, f1, g0, g1, err_bind]
          rfl
      · have f0 := readU32_short (Nat.lt_of_not_le c8a); have g0 := readU_short (Nat.lt_of_not_le c8a)
        unfold Gw.gwBody decodeFlowRecord
        simp only [k1, k2, reduceIte, h1, h2, ok_bind, e0, e1, e2, e3, m0, m1, m2, m3, readFields, List.getD_cons_succ, List.getD_cons_zero, hz, hz', ne_eq, not_false_eq_true, decide_true, f0, g0, err_bind]
        rfl
  · have m := readFields_err_of_lt [4, 4, 4, 4] p (by simp [sumW]; omega)
    unfold Gw.gwBody decodeFlowRecord
    simp only [k1, k2, reduceIte, h1, h2, ok_bind, m]
    simp only [goU32_if, ite_bind, List.drop_drop, List.length_drop, map_ite]
    repeat (apply ite_eof_of; intro)
    exfalso; omega

theorem flow_gateway (h : TS.RecordHeader) (b : Bytes) (hf : h.DataFormat = 1003) :
    (TS.DecodeFlowRecord h b).map (fun r => flowRecOf r.2.2) = decodeFlowRecord 1003 h.Length.toNat b := by
  rw [gateway_branch h b hf]
  have k1 : ((1003 : Nat) = 1) = False := by decide
  have k2 : ((1003 : Nat) = 1002) = False := by decide
  rcases decodeIP_cases b with ⟨e, h1, h2⟩ | ⟨p, v, ip, h1, h2⟩
  · unfold Gw.gwBody decodeFlowRecord
    simp only [k1, k2, reduceIte, h1, h2, err_bind]
    rfl
  · exact gw_after_ip h b p v ip h1 h2 (by rw [hf]; rfl)

/-- sflow.DecodeFlowRecord for every record header and every byte string: the model's record (format, length, and the typed
    record: raw header, ethernet, IPv4 / IPv6, extended switch / router / gateway with the capped AS path and communities, egress
    queue, ACL, function, or the raw bytes of an unknown format) or the model's error class -/
theorem decodeFlowRecord_trans_eq (h : TS.RecordHeader) (b : Bytes) :
    (TS.DecodeFlowRecord h b).map (fun r => flowRecOf r.2.2) = decodeFlowRecord h.DataFormat.toNat h.Length.toNat b := by
  by_cases h1 : h.DataFormat.toNat = 1
  · have hf : h.DataFormat = 1 := u32_of_toNat (by decide) h1
    rw [h1]
    by_cases hb : 16 ≤ b.length
    · exact flow_raw_ok h b hb hf
    · rw [flow_raw_short h b (by omega) hf]
      simp only [decodeFlowRecord, if_true, readFields_err_of_lt [4, 4, 4, 4] b (by simp [sumW]; omega)]
  · skip
    by_cases h2 : h.DataFormat.toNat = 2
    · have hf : h.DataFormat = 2 := u32_of_toNat (by decide) h2
      rw [h2]
      by_cases hb : 20 ≤ b.length
      · exact flow_eth_ok h b hb hf
      · rw [flow_eth_short h b (by omega) hf]
        simp (config := { decide := true }) only [decodeFlowRecord, layoutOf, reduceIte]
        rw [readItems_err_of_lt _ b (by simp [sumI]; omega)]
    · skip
      by_cases h3 : h.DataFormat.toNat = 3
      · have hf : h.DataFormat = 3 := u32_of_toNat (by decide) h3
        rw [h3]
        by_cases hb : 32 ≤ b.length
        · exact flow_ipv4_ok h b hb hf
        · rw [flow_ipv4_short h b (by omega) hf]
          simp (config := { decide := true }) only [decodeFlowRecord, layoutOf, reduceIte]
          rw [readItems_err_of_lt _ b (by simp [sumI]; omega)]
      · skip
        by_cases h4 : h.DataFormat.toNat = 4
        · have hf : h.DataFormat = 4 := u32_of_toNat (by decide) h4
          rw [h4]
          by_cases hb : 56 ≤ b.length
          · exact flow_ipv6_ok h b hb hf
          · rw [flow_ipv6_short h b (by omega) hf]
            simp (config := { decide := true }) only [decodeFlowRecord, layoutOf, reduceIte]
            rw [readItems_err_of_lt _ b (by simp [sumI]; omega)]
        · skip
          by_cases h1001 : h.DataFormat.toNat = 1001
          · have hf : h.DataFormat = 1001 := u32_of_toNat (by decide) h1001
            rw [h1001]
            by_cases hb : 16 ≤ b.length
            · exact flow_switch_ok h b hb hf
            · rw [flow_switch_short h b (by omega) hf]
              simp (config := { decide := true }) only [decodeFlowRecord, layoutOf, reduceIte]
              rw [readItems_err_of_lt _ b (by simp [sumI]; omega)]
          · skip
            by_cases h1002 : h.DataFormat.toNat = 1002
            · have hf : h.DataFormat = 1002 := u32_of_toNat (by decide) h1002
              rw [h1002]
              exact flow_router h b hf
            · skip
              by_cases h1003 : h.DataFormat.toNat = 1003
              · have hf : h.DataFormat = 1003 := u32_of_toNat (by decide) h1003
                rw [h1003]
                exact flow_gateway h b hf
              · skip
                by_cases h1036 : h.DataFormat.toNat = 1036
                · have hf : h.DataFormat = 1036 := u32_of_toNat (by decide) h1036
                  rw [h1036]
                  by_cases hb : 4 ≤ b.length
                  · exact flow_queue_ok h b hb hf
                  · rw [flow_queue_short h b (by omega) hf]
                    simp (config := { decide := true }) only [decodeFlowRecord, layoutOf, reduceIte]
                    rw [readItems_err_of_lt _ b (by simp [sumI]; omega)]
                · skip
                  by_cases h1037 : h.DataFormat.toNat = 1037
                  · have hf : h.DataFormat = 1037 := u32_of_toNat (by decide) h1037
                    rw [h1037]
                    exact flow_acl h b hf
                  · skip
                    by_cases h1038 : h.DataFormat.toNat = 1038
                    · have hf : h.DataFormat = 1038 := u32_of_toNat (by decide) h1038
                      rw [h1038]
                      exact flow_function h b hf
                    · skip
                      exact flow_other h b h1 h2 h3 h4 h1001 h1002 h1003 h1036 h1037 h1038

/-! ## the sample level: DecodeSample, DecodeMessage, DecodeMessageVersion -/
set_option linter.unusedVariables false
/-! ### slots: indexed assignment into a `make`d slice against the model's `padTo` -/

/-- the records `rs` stored one after the other from slot `i` on -/
def fill {α : Type} : List α → Nat → List α → List α
  | l, _, [] => l
  | l, i, r :: rs => fill (l.set i r) (i + 1) rs

theorem fill_eq {α : Type} (rs : List α) : ∀ (l : List α) (i : Nat), i + rs.length ≤ l.length →
    fill l i rs = l.take i ++ rs ++ l.drop (i + rs.length) := by
  induction rs with
  | nil => intro l i _; simp [fill]
  | cons r rs ih =>
    intro l i h
    simp only [List.length_cons] at h
    rw [fill, ih _ _ (by simp; omega)]
    have e1 : i + 1 + rs.length = i + (rs.length + 1) := by omega
    rw [take_set_succ _ _ _ (by omega), List.drop_set_of_lt (by omega), e1]
    simp

theorem fill_replicate {α : Type} (n : Nat) (z : α) (rs : List α) (h : rs.length ≤ n) :
    fill (List.replicate n z) 0 rs = padTo n z rs := by
  rw [fill_eq _ _ _ (by simpa using h)]
  simp [padTo]

theorem recordLoop_length {α} (dec : Nat → Nat → Bytes → Res α) : ∀ (n : Nat) (b : Bytes) (rs : List α),
    recordLoop dec n b = .ok rs → rs.length ≤ n := by
  intro n
  induction n with
  | zero => intro b rs h; simp [recordLoop] at h; subst h; simp
  | succ n ih =>
    intro b rs h
    rw [recordLoop] at h
    split at h
    · split at h
      · cases h
      · split at h
        · split at h
          · cases h; simp
          · split at h
            · cases h
            · split at h
              · cases h
              · rename_i rs' hr
                cases h
                have := ih _ _ hr
                simp; omega
        · cases h
    · cases h; simp

theorem u32_eq_iff (a b : UInt32) : a = b ↔ a.toNat = b.toNat := UInt32.toNat_inj.symm

theorem and_16777215 (x : UInt32) : (x &&& (16777215 : UInt32)).toNat = x.toNat % 2 ^ 24 := by
  rw [UInt32.toNat_and]
  exact Nat.and_two_pow_sub_one_eq_mod x.toNat 24

theorem readFields44 {b : Bytes} (h : 8 ≤ b.length) :
    readFields [4, 4] b = .ok ([beNat (b.take 4), beNat ((b.drop 4).take 4)], b.drop 8) := by
  simp (disch := (first | omega | (simp only [List.length_drop]; omega))) only [readFields, readU_ok, List.drop_drop]

/-- what DecodeSample makes of the outcome of its record loop -/
def fin (hdr : TS.SampleHeader)
    (r : Res (Go.Ctl (Bytes × TS.SM.Iface × TS.FlowSample × TS.CounterSample × TS.ExpandedFlowSample × TS.DropSample × Nat)
      (TS.SampleHeader × Bytes × TS.SM.Iface))) : Res Sample :=
  (r >>= fun t_13 => Go.Ctl.elim t_13 (fun x => .ok x) fun t_14 => .ok (hdr, t_14.1, t_14.2.1)).map (fun r => sampleOf r.2.2)

theorem map_err {α β : Type} {r : Res α} {f : α → β} {g : Res β} {e : Err} (h : r.map f = g) (hr : r = .error e) : g = .error e := by
  subst hr; exact h.symm
theorem map_ok {α β : Type} {r : Res α} {f : α → β} {g : Res β} {a : α} (h : r.map f = g) (hr : r = .ok a) : g = .ok (f a) := by
  subst hr; exact h.symm

/-- the record loop, format 1 -/
theorem loop_flow (hdr : TS.SampleHeader) (seq rc : UInt32) (cs : TS.CounterSample) (es : TS.ExpandedFlowSample) (ds : TS.DropSample) :
    ∀ (fuel : Nat) (b : Bytes) (fs : TS.FlowSample) (i : Nat),
    fs.Records.length = rc.toNat → i ≤ rc.toNat → b.length < fuel →
    fin hdr (TS.SM.DecodeSample_loop1 hdr 1 seq rc fuel b (.FlowSample fs) fs cs es ds i) =
      (recordLoop decodeFlowRecord (rc.toNat - i) b).map (fun rs =>
        Sample.flow (hdrOf fs.Header) [fs.SamplingRate.toNat, fs.SamplePool.toNat, fs.Drops.toNat, fs.Input.toNat, fs.Output.toNat,
          fs.FlowRecordsCount.toNat] (fill (fs.Records.map flowRecOf) i rs)) := by
  intro fuel
  induction fuel with
  | zero => intro b fs i _ _ h; omega
  | succ fuel ih =>
    intro b fs i hlen hi hf
    rw [TS.SM.DecodeSample_loop1, TS.SM.DecodeSample_loop1_body]
    by_cases hc : i < rc.toNat ∧ 8 ≤ b.length
    · obtain ⟨hc1, hc2⟩ := hc
      have hcb : (decide (i < rc.toNat) && decide (b.length ≥ 8)) = true := by simp [hc1, hc2]
      obtain ⟨k, hk⟩ : ∃ k, rc.toNat - i = k + 1 := ⟨rc.toNat - i - 1, by omega⟩
      have hk' : rc.toNat - (i + 1) = k := by omega
      rw [hk, recordLoop, if_pos hc2, readFields44 hc2]
      simp (disch := (first | omega | (simp only [List.length_drop]; omega))) only [hcb, if_true, readU32_ok, ok_bind, List.drop_drop,
        u32_beNat, Go.next, List.length_drop, Nat.reduceAdd, gt_iff_lt]
      by_cases hl : b.length - 8 < beNat ((b.drop 4).take 4)
      · simp [hl, fin, Go.Ctl.elim, Except.map, sampleOf, fill]
      · simp only [hl, decide_false, if_false, Bool.false_eq_true, decide_true, if_true]
        have hst := decodeFlowRecord_trans_eq
          { DataFormat := UInt32.ofNat (beNat (b.take 4)), Length := UInt32.ofNat (beNat ((b.drop 4).take 4)) }
          ((b.drop 8).take (beNat ((b.drop 4).take 4)))
        simp only [u32_beNat] at hst
        cases hd : TS.DecodeFlowRecord
          { DataFormat := UInt32.ofNat (beNat (b.take 4)), Length := UInt32.ofNat (beNat ((b.drop 4).take 4)) }
          ((b.drop 8).take (beNat ((b.drop 4).take 4))) with
        | error e =>
          rw [map_err hst hd]
          simp [fin, Except.map]
        | ok t =>
          rw [map_ok hst hd]
          have hset : i < fs.Records.length := by omega
          simp only [ok_bind, Go.setIdxL, hset, if_true]
          have := ih (b.drop (8 + beNat ((b.drop 4).take 4))) { fs with Records := fs.Records.set i t.2.2 } (i + 1)
            (by simp [hlen]) (by omega) (by simp only [List.length_drop]; omega)
          simp only [hk'] at this
          rw [this]
          cases recordLoop decodeFlowRecord k (b.drop (8 + beNat ((b.drop 4).take 4))) with
          | error e => rfl
          | ok rs => simp [Except.map, fill, List.map_set]
    · have hcb : (decide (i < rc.toNat) && decide (b.length ≥ 8)) = false := by
        simp only [Bool.and_eq_false_iff, decide_eq_false_iff_not]; omega
      simp only [hcb, Bool.false_eq_true, if_false, ok_bind]
      cases hk : rc.toNat - i with
      | zero => simp [recordLoop, fin, Go.Ctl.elim, Except.map, sampleOf, fill]
      | succ k =>
        have : ¬ 8 ≤ b.length := by omega
        simp [recordLoop, this, fin, Go.Ctl.elim, Except.map, sampleOf, fill]

/-- the record loop, formats 2 and 4 -/
theorem loop_counter (hdr : TS.SampleHeader) (seq rc : UInt32) (fmt : UInt32) (h1 : fmt ≠ 1) (h24 : (decide (fmt = 2) || decide (fmt = 4)) = true) (fs : TS.FlowSample) (es : TS.ExpandedFlowSample) (ds : TS.DropSample) :
    ∀ (fuel : Nat) (b : Bytes) (cs : TS.CounterSample) (i : Nat),
    cs.Records.length = rc.toNat → i ≤ rc.toNat → b.length < fuel →
    fin hdr (TS.SM.DecodeSample_loop1 hdr fmt seq rc fuel b (.CounterSample cs) fs cs es ds i) =
      (recordLoop decodeCounterRecord (rc.toNat - i) b).map (fun rs =>
        Sample.counter (hdrOf cs.Header) cs.CounterRecordsCount.toNat (fill (cs.Records.map counterRecOf) i rs)) := by
  intro fuel
  induction fuel with
  | zero => intro b cs i _ _ h; omega
  | succ fuel ih =>
    intro b cs i hlen hi hf
    rw [TS.SM.DecodeSample_loop1, TS.SM.DecodeSample_loop1_body]
    by_cases hc : i < rc.toNat ∧ 8 ≤ b.length
    · obtain ⟨hc1, hc2⟩ := hc
      have hcb : (decide (i < rc.toNat) && decide (b.length ≥ 8)) = true := by simp [hc1, hc2]
      obtain ⟨k, hk⟩ : ∃ k, rc.toNat - i = k + 1 := ⟨rc.toNat - i - 1, by omega⟩
      have hk' : rc.toNat - (i + 1) = k := by omega
      rw [hk, recordLoop, if_pos hc2, readFields44 hc2]
      simp (disch := (first | omega | (simp only [List.length_drop]; omega))) only [h1, h24, decide_false, Bool.false_eq_true, hcb, if_true, readU32_ok, ok_bind, List.drop_drop,
        u32_beNat, Go.next, List.length_drop, Nat.reduceAdd, gt_iff_lt]
      by_cases hl : b.length - 8 < beNat ((b.drop 4).take 4)
      · simp [hl, fin, Go.Ctl.elim, Except.map, sampleOf, fill]
      · simp only [hl, decide_false, if_false, Bool.false_eq_true, decide_true, if_true]
        have hst := decodeCounterRecord_trans_eq
          { DataFormat := UInt32.ofNat (beNat (b.take 4)), Length := UInt32.ofNat (beNat ((b.drop 4).take 4)) }
          ((b.drop 8).take (beNat ((b.drop 4).take 4)))
        simp only [u32_beNat] at hst
        cases hd : TS.DecodeCounterRecord
          { DataFormat := UInt32.ofNat (beNat (b.take 4)), Length := UInt32.ofNat (beNat ((b.drop 4).take 4)) }
          ((b.drop 8).take (beNat ((b.drop 4).take 4))) with
        | error e =>
          rw [map_err hst hd]
          simp [fin, Except.map]
        | ok t =>
          rw [map_ok hst hd]
          have hset : i < cs.Records.length := by omega
          simp only [ok_bind, Go.setIdxL, hset, if_true]
          have := ih (b.drop (8 + beNat ((b.drop 4).take 4))) { cs with Records := cs.Records.set i t.2.2 } (i + 1)
            (by simp [hlen]) (by omega) (by simp only [List.length_drop]; omega)
          simp only [hk'] at this
          rw [this]
          cases recordLoop decodeCounterRecord k (b.drop (8 + beNat ((b.drop 4).take 4))) with
          | error e => rfl
          | ok rs => simp [Except.map, fill, List.map_set, counterRecOf]
    · have hcb : (decide (i < rc.toNat) && decide (b.length ≥ 8)) = false := by
        simp only [Bool.and_eq_false_iff, decide_eq_false_iff_not]; omega
      simp only [hcb, Bool.false_eq_true, if_false, ok_bind]
      cases hk : rc.toNat - i with
      | zero => simp [recordLoop, fin, Go.Ctl.elim, Except.map, sampleOf, fill]
      | succ k =>
        have : ¬ 8 ≤ b.length := by omega
        simp [recordLoop, this, fin, Go.Ctl.elim, Except.map, sampleOf, fill]

/-- the record loop, format 3 -/
theorem loop_exp (hdr : TS.SampleHeader) (seq rc : UInt32) (fs : TS.FlowSample) (cs : TS.CounterSample) (ds : TS.DropSample) :
    ∀ (fuel : Nat) (b : Bytes) (es : TS.ExpandedFlowSample) (i : Nat),
    es.Records.length = rc.toNat → i ≤ rc.toNat → b.length < fuel →
    fin hdr (TS.SM.DecodeSample_loop1 hdr 3 seq rc fuel b (.ExpandedFlowSample es) fs cs es ds i) =
      (recordLoop decodeFlowRecord (rc.toNat - i) b).map (fun rs =>
        Sample.expFlow (hdrOf es.Header) [es.SamplingRate.toNat, es.SamplePool.toNat, es.Drops.toNat, es.InputIfFormat.toNat,
          es.InputIfValue.toNat, es.OutputIfFormat.toNat, es.OutputIfValue.toNat, es.FlowRecordsCount.toNat] (fill (es.Records.map flowRecOf) i rs)) := by
  intro fuel
  induction fuel with
  | zero => intro b es i _ _ h; omega
  | succ fuel ih =>
    intro b es i hlen hi hf
    rw [TS.SM.DecodeSample_loop1, TS.SM.DecodeSample_loop1_body]
    by_cases hc : i < rc.toNat ∧ 8 ≤ b.length
    · obtain ⟨hc1, hc2⟩ := hc
      have hcb : (decide (i < rc.toNat) && decide (b.length ≥ 8)) = true := by simp [hc1, hc2]
      obtain ⟨k, hk⟩ : ∃ k, rc.toNat - i = k + 1 := ⟨rc.toNat - i - 1, by omega⟩
      have hk' : rc.toNat - (i + 1) = k := by omega
      rw [hk, recordLoop, if_pos hc2, readFields44 hc2]
      simp (disch := (first | omega | (simp only [List.length_drop]; omega))) only [(by decide : ¬ (3 : UInt32) = 1), (by decide : ¬ (3 : UInt32) = 2), (by decide : ¬ (3 : UInt32) = 4), decide_false, Bool.false_eq_true, Bool.or_self, hcb, if_true, readU32_ok, ok_bind, List.drop_drop,
        u32_beNat, Go.next, List.length_drop, Nat.reduceAdd, gt_iff_lt]
      by_cases hl : b.length - 8 < beNat ((b.drop 4).take 4)
      · simp [hl, fin, Go.Ctl.elim, Except.map, sampleOf, fill]
      · simp only [hl, decide_false, if_false, Bool.false_eq_true, decide_true, if_true]
        have hst := decodeFlowRecord_trans_eq
          { DataFormat := UInt32.ofNat (beNat (b.take 4)), Length := UInt32.ofNat (beNat ((b.drop 4).take 4)) }
          ((b.drop 8).take (beNat ((b.drop 4).take 4)))
        simp only [u32_beNat] at hst
        cases hd : TS.DecodeFlowRecord
          { DataFormat := UInt32.ofNat (beNat (b.take 4)), Length := UInt32.ofNat (beNat ((b.drop 4).take 4)) }
          ((b.drop 8).take (beNat ((b.drop 4).take 4))) with
        | error e =>
          rw [map_err hst hd]
          simp [fin, Except.map]
        | ok t =>
          rw [map_ok hst hd]
          have hset : i < es.Records.length := by omega
          simp only [ok_bind, Go.setIdxL, hset, if_true]
          have := ih (b.drop (8 + beNat ((b.drop 4).take 4))) { es with Records := es.Records.set i t.2.2 } (i + 1)
            (by simp [hlen]) (by omega) (by simp only [List.length_drop]; omega)
          simp only [hk'] at this
          rw [this]
          cases recordLoop decodeFlowRecord k (b.drop (8 + beNat ((b.drop 4).take 4))) with
          | error e => rfl
          | ok rs => simp [Except.map, fill, List.map_set, flowRecOf]
    · have hcb : (decide (i < rc.toNat) && decide (b.length ≥ 8)) = false := by
        simp only [Bool.and_eq_false_iff, decide_eq_false_iff_not]; omega
      simp only [hcb, Bool.false_eq_true, if_false, ok_bind]
      cases hk : rc.toNat - i with
      | zero => simp [recordLoop, fin, Go.Ctl.elim, Except.map, sampleOf, fill]
      | succ k =>
        have : ¬ 8 ≤ b.length := by omega
        simp [recordLoop, this, fin, Go.Ctl.elim, Except.map, sampleOf, fill]

/-- the record loop, format 5 -/
theorem loop_drop (hdr : TS.SampleHeader) (seq rc : UInt32) (fs : TS.FlowSample) (cs : TS.CounterSample) (es : TS.ExpandedFlowSample) :
    ∀ (fuel : Nat) (b : Bytes) (ds : TS.DropSample) (i : Nat),
    ds.Records.length = rc.toNat → i ≤ rc.toNat → b.length < fuel →
    fin hdr (TS.SM.DecodeSample_loop1 hdr 5 seq rc fuel b (.DropSample ds) fs cs es ds i) =
      (recordLoop decodeFlowRecord (rc.toNat - i) b).map (fun rs =>
        Sample.drop (hdrOf ds.Header) [ds.Drops.toNat, ds.Input.toNat, ds.Output.toNat, ds.Reason.toNat, ds.FlowRecordsCount.toNat]
          (fill (ds.Records.map flowRecOf) i rs)) := by
  intro fuel
  induction fuel with
  | zero => intro b ds i _ _ h; omega
  | succ fuel ih =>
    intro b ds i hlen hi hf
    rw [TS.SM.DecodeSample_loop1, TS.SM.DecodeSample_loop1_body]
    by_cases hc : i < rc.toNat ∧ 8 ≤ b.length
    · obtain ⟨hc1, hc2⟩ := hc
      have hcb : (decide (i < rc.toNat) && decide (b.length ≥ 8)) = true := by simp [hc1, hc2]
      obtain ⟨k, hk⟩ : ∃ k, rc.toNat - i = k + 1 := ⟨rc.toNat - i - 1, by omega⟩
      have hk' : rc.toNat - (i + 1) = k := by omega
      rw [hk, recordLoop, if_pos hc2, readFields44 hc2]
      simp (disch := (first | omega | (simp only [List.length_drop]; omega))) only [(by decide : ¬ (5 : UInt32) = 1), (by decide : ¬ (5 : UInt32) = 2), (by decide : ¬ (5 : UInt32) = 4), (by decide : ¬ (5 : UInt32) = 3), decide_false, Bool.false_eq_true, Bool.or_self, hcb, if_true, readU32_ok, ok_bind, List.drop_drop,
        u32_beNat, Go.next, List.length_drop, Nat.reduceAdd, gt_iff_lt]
      by_cases hl : b.length - 8 < beNat ((b.drop 4).take 4)
      · simp [hl, fin, Go.Ctl.elim, Except.map, sampleOf, fill]
      · simp only [hl, decide_false, if_false, Bool.false_eq_true, decide_true, if_true]
        have hst := decodeFlowRecord_trans_eq
          { DataFormat := UInt32.ofNat (beNat (b.take 4)), Length := UInt32.ofNat (beNat ((b.drop 4).take 4)) }
          ((b.drop 8).take (beNat ((b.drop 4).take 4)))
        simp only [u32_beNat] at hst
        cases hd : TS.DecodeFlowRecord
          { DataFormat := UInt32.ofNat (beNat (b.take 4)), Length := UInt32.ofNat (beNat ((b.drop 4).take 4)) }
          ((b.drop 8).take (beNat ((b.drop 4).take 4))) with
        | error e =>
          rw [map_err hst hd]
          simp [fin, Except.map]
        | ok t =>
          rw [map_ok hst hd]
          have hset : i < ds.Records.length := by omega
          simp only [ok_bind, Go.setIdxL, hset, if_true]
          have := ih (b.drop (8 + beNat ((b.drop 4).take 4))) { ds with Records := ds.Records.set i t.2.2 } (i + 1)
            (by simp [hlen]) (by omega) (by simp only [List.length_drop]; omega)
          simp only [hk'] at this
          rw [this]
          cases recordLoop decodeFlowRecord k (b.drop (8 + beNat ((b.drop 4).take 4))) with
          | error e => rfl
          | ok rs => simp [Except.map, fill, List.map_set, flowRecOf]
    · have hcb : (decide (i < rc.toNat) && decide (b.length ≥ 8)) = false := by
        simp only [Bool.and_eq_false_iff, decide_eq_false_iff_not]; omega
      simp only [hcb, Bool.false_eq_true, if_false, ok_bind]
      cases hk : rc.toNat - i with
      | zero => simp [recordLoop, fin, Go.Ctl.elim, Except.map, sampleOf, fill]
      | succ k =>
        have : ¬ 8 ≤ b.length := by omega
        simp [recordLoop, this, fin, Go.Ctl.elim, Except.map, sampleOf, fill]


theorem zeroF : flowRecOf {} = zeroFlowRecord := rfl
theorem zeroC : counterRecOf {} = zeroCounterRecord := rfl

theorem cap_iff (l : Bytes) : (UInt32.ofNat (beNat (l.take 4)) > 1000) ↔ beNat (l.take 4) > 1000 := by
  rw [gt_iff_lt, UInt32.lt_iff_toNat_lt, u32_beNat]; rfl

theorem sample_f1 (len s0 t0 v0 : UInt32) (b : Bytes) :
    (TS.SM.DecodeSample ⟨1, len, s0, t0, v0⟩ b).map (fun r => sampleOf r.2.2) = decodeSample 1 len.toNat b := by
  unfold TS.SM.DecodeSample decodeSample
  by_cases q0 : 4 ≤ b.length
  · have e0 := readU32_ok q0
    simp only [e0, ok_bind, List.drop_drop, Nat.reduceAdd, decide_true, decide_false, Bool.true_or, Bool.or_true, Bool.false_or, Bool.or_false, Bool.or_self, if_true, if_false, Bool.false_eq_true, true_or, or_true, false_or, or_false, or_self, (by decide : ¬ (1 : UInt32) = 2), (by decide : ¬ (1 : Nat) = 2), (by decide : ¬ (1 : UInt32) = 3), (by decide : ¬ (1 : Nat) = 3), (by decide : ¬ (1 : UInt32) = 4), (by decide : ¬ (1 : Nat) = 4), (by decide : ¬ (1 : UInt32) = 5), (by decide : ¬ (1 : Nat) = 5)]
    by_cases q1 : 4 ≤ (b.drop 4).length
    · have e1 := readU32_ok q1
      simp only [e1, ok_bind, List.drop_drop, Nat.reduceAdd, decide_true, decide_false, Bool.true_or, Bool.or_true, Bool.false_or, Bool.or_false, Bool.or_self, if_true, if_false, Bool.false_eq_true, true_or, or_true, false_or, or_false, or_self, (by decide : ¬ (1 : UInt32) = 2), (by decide : ¬ (1 : Nat) = 2), (by decide : ¬ (1 : UInt32) = 3), (by decide : ¬ (1 : Nat) = 3), (by decide : ¬ (1 : UInt32) = 4), (by decide : ¬ (1 : Nat) = 4), (by decide : ¬ (1 : UInt32) = 5), (by decide : ¬ (1 : Nat) = 5)]
      by_cases q2 : 4 ≤ (b.drop 8).length
      · have e2 := readU32_ok q2
        simp only [e2, ok_bind, List.drop_drop, Nat.reduceAdd, decide_true, decide_false, Bool.true_or, Bool.or_true, Bool.false_or, Bool.or_false, Bool.or_self, if_true, if_false, Bool.false_eq_true, true_or, or_true, false_or, or_false, or_self, (by decide : ¬ (1 : UInt32) = 2), (by decide : ¬ (1 : Nat) = 2), (by decide : ¬ (1 : UInt32) = 3), (by decide : ¬ (1 : Nat) = 3), (by decide : ¬ (1 : UInt32) = 4), (by decide : ¬ (1 : Nat) = 4), (by decide : ¬ (1 : UInt32) = 5), (by decide : ¬ (1 : Nat) = 5)]
        by_cases q3 : 4 ≤ (b.drop 12).length
        · have e3 := readU32_ok q3
          simp only [e3, ok_bind, List.drop_drop, Nat.reduceAdd, decide_true, decide_false, Bool.true_or, Bool.or_true, Bool.false_or, Bool.or_false, Bool.or_self, if_true, if_false, Bool.false_eq_true, true_or, or_true, false_or, or_false, or_self, (by decide : ¬ (1 : UInt32) = 2), (by decide : ¬ (1 : Nat) = 2), (by decide : ¬ (1 : UInt32) = 3), (by decide : ¬ (1 : Nat) = 3), (by decide : ¬ (1 : UInt32) = 4), (by decide : ¬ (1 : Nat) = 4), (by decide : ¬ (1 : UInt32) = 5), (by decide : ¬ (1 : Nat) = 5)]
          by_cases q4 : 4 ≤ (b.drop 16).length
          · have e4 := readU32_ok q4
            simp only [e4, ok_bind, List.drop_drop, Nat.reduceAdd, decide_true, decide_false, Bool.true_or, Bool.or_true, Bool.false_or, Bool.or_false, Bool.or_self, if_true, if_false, Bool.false_eq_true, true_or, or_true, false_or, or_false, or_self, (by decide : ¬ (1 : UInt32) = 2), (by decide : ¬ (1 : Nat) = 2), (by decide : ¬ (1 : UInt32) = 3), (by decide : ¬ (1 : Nat) = 3), (by decide : ¬ (1 : UInt32) = 4), (by decide : ¬ (1 : Nat) = 4), (by decide : ¬ (1 : UInt32) = 5), (by decide : ¬ (1 : Nat) = 5)]
            by_cases q5 : 4 ≤ (b.drop 20).length
            · have e5 := readU32_ok q5
              simp only [e5, ok_bind, List.drop_drop, Nat.reduceAdd, decide_true, decide_false, Bool.true_or, Bool.or_true, Bool.false_or, Bool.or_false, Bool.or_self, if_true, if_false, Bool.false_eq_true, true_or, or_true, false_or, or_false, or_self, (by decide : ¬ (1 : UInt32) = 2), (by decide : ¬ (1 : Nat) = 2), (by decide : ¬ (1 : UInt32) = 3), (by decide : ¬ (1 : Nat) = 3), (by decide : ¬ (1 : UInt32) = 4), (by decide : ¬ (1 : Nat) = 4), (by decide : ¬ (1 : UInt32) = 5), (by decide : ¬ (1 : Nat) = 5)]
              by_cases q6 : 4 ≤ (b.drop 24).length
              · have e6 := readU32_ok q6
                simp only [e6, ok_bind, List.drop_drop, Nat.reduceAdd, decide_true, decide_false, Bool.true_or, Bool.or_true, Bool.false_or, Bool.or_false, Bool.or_self, if_true, if_false, Bool.false_eq_true, true_or, or_true, false_or, or_false, or_self, (by decide : ¬ (1 : UInt32) = 2), (by decide : ¬ (1 : Nat) = 2), (by decide : ¬ (1 : UInt32) = 3), (by decide : ¬ (1 : Nat) = 3), (by decide : ¬ (1 : UInt32) = 4), (by decide : ¬ (1 : Nat) = 4), (by decide : ¬ (1 : UInt32) = 5), (by decide : ¬ (1 : Nat) = 5)]
                by_cases q7 : 4 ≤ (b.drop 28).length
                · have e7 := readU32_ok q7
                  simp only [e7, ok_bind, List.drop_drop, Nat.reduceAdd, decide_true, decide_false, Bool.true_or, Bool.or_true, Bool.false_or, Bool.or_false, Bool.or_self, if_true, if_false, Bool.false_eq_true, true_or, or_true, false_or, or_false, or_self, (by decide : ¬ (1 : UInt32) = 2), (by decide : ¬ (1 : Nat) = 2), (by decide : ¬ (1 : UInt32) = 3), (by decide : ¬ (1 : Nat) = 3), (by decide : ¬ (1 : UInt32) = 4), (by decide : ¬ (1 : Nat) = 4), (by decide : ¬ (1 : UInt32) = 5), (by decide : ¬ (1 : Nat) = 5)]
                  simp only [List.length_drop] at *
                  simp (disch := (first | omega | (simp only [List.length_drop]; omega))) only [readU_ok, readFields, List.drop_drop, Nat.reduceAdd, List.getD_cons_succ, List.getD_cons_zero, decide_true, decide_false, Bool.true_or, Bool.or_true, Bool.false_or, Bool.or_false, Bool.or_self, if_true, if_false, Bool.false_eq_true, true_or, or_true, false_or, or_false, or_self, (by decide : ¬ (1 : UInt32) = 2), (by decide : ¬ (1 : Nat) = 2), (by decide : ¬ (1 : UInt32) = 3), (by decide : ¬ (1 : Nat) = 3), (by decide : ¬ (1 : UInt32) = 4), (by decide : ¬ (1 : Nat) = 4), (by decide : ¬ (1 : UInt32) = 5), (by decide : ¬ (1 : Nat) = 5)]
                  by_cases hcap : beNat ((b.drop 28).take 4) > 1000
                  · have hcap' := (cap_iff (b.drop 28)).2 hcap
                    simp [hcap, hcap', Go.retSt, Except.map]
                  · have hcap' := mt (cap_iff (b.drop 28)).1 hcap
                    simp only [hcap, hcap', decide_false, if_false, Bool.false_eq_true, Go.makeL, ok_bind]
                    refine (loop_flow _ _ _ _ _ _ _ _ _ _ ?_ ?_ ?_).trans ?_
                    · simp
                    · exact Nat.zero_le _
                    · simp [Go.loopFuel]
                    · simp only [Nat.sub_zero, u32_beNat, List.map_replicate, zeroF, hdrOf, shr32_toNat, and_16777215]
                      cases hr : recordLoop decodeFlowRecord (beNat ((b.drop 28).take 4)) (b.drop 32) with
                      | error e => rfl
                      | ok rs =>
                        simp only [Except.map, fill_replicate _ _ _ (recordLoop_length _ _ _ _ hr)]
                        rfl
                · have e7 := readU32_short (Nat.lt_of_not_le q7)
                  simp only [List.length_drop] at *
                  simp (disch := (first | omega | (simp only [List.length_drop]; omega))) only [e7, err_bind, readU_ok, readU_short, readFields, List.drop_drop, Nat.reduceAdd, Except.map, decide_true, decide_false, Bool.true_or, Bool.or_true, Bool.false_or, Bool.or_false, Bool.or_self, if_true, if_false, Bool.false_eq_true, true_or, or_true, false_or, or_false, or_self, (by decide : ¬ (1 : UInt32) = 2), (by decide : ¬ (1 : Nat) = 2), (by decide : ¬ (1 : UInt32) = 3), (by decide : ¬ (1 : Nat) = 3), (by decide : ¬ (1 : UInt32) = 4), (by decide : ¬ (1 : Nat) = 4), (by decide : ¬ (1 : UInt32) = 5), (by decide : ¬ (1 : Nat) = 5)]
              · have e6 := readU32_short (Nat.lt_of_not_le q6)
                simp only [List.length_drop] at *
                simp (disch := (first | omega | (simp only [List.length_drop]; omega))) only [e6, err_bind, readU_ok, readU_short, readFields, List.drop_drop, Nat.reduceAdd, Except.map, decide_true, decide_false, Bool.true_or, Bool.or_true, Bool.false_or, Bool.or_false, Bool.or_self, if_true, if_false, Bool.false_eq_true, true_or, or_true, false_or, or_false, or_self, (by decide : ¬ (1 : UInt32) = 2), (by decide : ¬ (1 : Nat) = 2), (by decide : ¬ (1 : UInt32) = 3), (by decide : ¬ (1 : Nat) = 3), (by decide : ¬ (1 : UInt32) = 4), (by decide : ¬ (1 : Nat) = 4), (by decide : ¬ (1 : UInt32) = 5), (by decide : ¬ (1 : Nat) = 5)]
            · have e5 := readU32_short (Nat.lt_of_not_le q5)
              simp only [List.length_drop] at *
              simp (disch := (first | omega | (simp only [List.length_drop]; omega))) only [e5, err_bind, readU_ok, readU_short, readFields, List.drop_drop, Nat.reduceAdd, Except.map, decide_true, decide_false, Bool.true_or, Bool.or_true, Bool.false_or, Bool.or_false, Bool.or_self, if_true, if_false, Bool.false_eq_true, true_or, or_true, false_or, or_false, or_self, (by decide : ¬ (1 : UInt32) = 2), (by decide : ¬ (1 : Nat) = 2), (by decide : ¬ (1 : UInt32) = 3), (by decide : ¬ (1 : Nat) = 3), (by decide : ¬ (1 : UInt32) = 4), (by decide : ¬ (1 : Nat) = 4), (by decide : ¬ (1 : UInt32) = 5), (by decide : ¬ (1 : Nat) = 5)]
          · have e4 := readU32_short (Nat.lt_of_not_le q4)
            simp only [List.length_drop] at *
            simp (disch := (first | omega | (simp only [List.length_drop]; omega))) only [e4, err_bind, readU_ok, readU_short, readFields, List.drop_drop, Nat.reduceAdd, Except.map, decide_true, decide_false, Bool.true_or, Bool.or_true, Bool.false_or, Bool.or_false, Bool.or_self, if_true, if_false, Bool.false_eq_true, true_or, or_true, false_or, or_false, or_self, (by decide : ¬ (1 : UInt32) = 2), (by decide : ¬ (1 : Nat) = 2), (by decide : ¬ (1 : UInt32) = 3), (by decide : ¬ (1 : Nat) = 3), (by decide : ¬ (1 : UInt32) = 4), (by decide : ¬ (1 : Nat) = 4), (by decide : ¬ (1 : UInt32) = 5), (by decide : ¬ (1 : Nat) = 5)]
        · have e3 := readU32_short (Nat.lt_of_not_le q3)
          simp only [List.length_drop] at *
          simp (disch := (first | omega | (simp only [List.length_drop]; omega))) only [e3, err_bind, readU_ok, readU_short, readFields, List.drop_drop, Nat.reduceAdd, Except.map, decide_true, decide_false, Bool.true_or, Bool.or_true, Bool.false_or, Bool.or_false, Bool.or_self, if_true, if_false, Bool.false_eq_true, true_or, or_true, false_or, or_false, or_self, (by decide : ¬ (1 : UInt32) = 2), (by decide : ¬ (1 : Nat) = 2), (by decide : ¬ (1 : UInt32) = 3), (by decide : ¬ (1 : Nat) = 3), (by decide : ¬ (1 : UInt32) = 4), (by decide : ¬ (1 : Nat) = 4), (by decide : ¬ (1 : UInt32) = 5), (by decide : ¬ (1 : Nat) = 5)]
      · have e2 := readU32_short (Nat.lt_of_not_le q2)
        simp only [List.length_drop] at *
        simp (disch := (first | omega | (simp only [List.length_drop]; omega))) only [e2, err_bind, readU_ok, readU_short, readFields, List.drop_drop, Nat.reduceAdd, Except.map, decide_true, decide_false, Bool.true_or, Bool.or_true, Bool.false_or, Bool.or_false, Bool.or_self, if_true, if_false, Bool.false_eq_true, true_or, or_true, false_or, or_false, or_self, (by decide : ¬ (1 : UInt32) = 2), (by decide : ¬ (1 : Nat) = 2), (by decide : ¬ (1 : UInt32) = 3), (by decide : ¬ (1 : Nat) = 3), (by decide : ¬ (1 : UInt32) = 4), (by decide : ¬ (1 : Nat) = 4), (by decide : ¬ (1 : UInt32) = 5), (by decide : ¬ (1 : Nat) = 5)]
    · have e1 := readU32_short (Nat.lt_of_not_le q1)
      simp only [List.length_drop] at *
      simp (disch := (first | omega | (simp only [List.length_drop]; omega))) only [e1, err_bind, readU_ok, readU_short, readFields, List.drop_drop, Nat.reduceAdd, Except.map, decide_true, decide_false, Bool.true_or, Bool.or_true, Bool.false_or, Bool.or_false, Bool.or_self, if_true, if_false, Bool.false_eq_true, true_or, or_true, false_or, or_false, or_self, (by decide : ¬ (1 : UInt32) = 2), (by decide : ¬ (1 : Nat) = 2), (by decide : ¬ (1 : UInt32) = 3), (by decide : ¬ (1 : Nat) = 3), (by decide : ¬ (1 : UInt32) = 4), (by decide : ¬ (1 : Nat) = 4), (by decide : ¬ (1 : UInt32) = 5), (by decide : ¬ (1 : Nat) = 5)]
  · have e0 := readU32_short (Nat.lt_of_not_le q0)
    simp only [List.length_drop] at *
    simp (disch := (first | omega | (simp only [List.length_drop]; omega))) only [e0, err_bind, readU_ok, readU_short, readFields, List.drop_drop, Nat.reduceAdd, Except.map, decide_true, decide_false, Bool.true_or, Bool.or_true, Bool.false_or, Bool.or_false, Bool.or_self, if_true, if_false, Bool.false_eq_true, true_or, or_true, false_or, or_false, or_self, (by decide : ¬ (1 : UInt32) = 2), (by decide : ¬ (1 : Nat) = 2), (by decide : ¬ (1 : UInt32) = 3), (by decide : ¬ (1 : Nat) = 3), (by decide : ¬ (1 : UInt32) = 4), (by decide : ¬ (1 : Nat) = 4), (by decide : ¬ (1 : UInt32) = 5), (by decide : ¬ (1 : Nat) = 5)]

theorem sample_f2 (len s0 t0 v0 : UInt32) (b : Bytes) :
    (TS.SM.DecodeSample ⟨2, len, s0, t0, v0⟩ b).map (fun r => sampleOf r.2.2) = decodeSample 2 len.toNat b := by
  unfold TS.SM.DecodeSample decodeSample
  by_cases q0 : 4 ≤ b.length
  · have e0 := readU32_ok q0
    simp only [e0, ok_bind, List.drop_drop, Nat.reduceAdd, decide_true, decide_false, Bool.true_or, Bool.or_true, Bool.false_or, Bool.or_false, Bool.or_self, if_true, if_false, Bool.false_eq_true, true_or, or_true, false_or, or_false, or_self, (by decide : ¬ (2 : UInt32) = 1), (by decide : ¬ (2 : Nat) = 1), (by decide : ¬ (2 : UInt32) = 3), (by decide : ¬ (2 : Nat) = 3), (by decide : ¬ (2 : UInt32) = 4), (by decide : ¬ (2 : Nat) = 4), (by decide : ¬ (2 : UInt32) = 5), (by decide : ¬ (2 : Nat) = 5)]
    by_cases q1 : 4 ≤ (b.drop 4).length
    · have e1 := readU32_ok q1
      simp only [e1, ok_bind, List.drop_drop, Nat.reduceAdd, decide_true, decide_false, Bool.true_or, Bool.or_true, Bool.false_or, Bool.or_false, Bool.or_self, if_true, if_false, Bool.false_eq_true, true_or, or_true, false_or, or_false, or_self, (by decide : ¬ (2 : UInt32) = 1), (by decide : ¬ (2 : Nat) = 1), (by decide : ¬ (2 : UInt32) = 3), (by decide : ¬ (2 : Nat) = 3), (by decide : ¬ (2 : UInt32) = 4), (by decide : ¬ (2 : Nat) = 4), (by decide : ¬ (2 : UInt32) = 5), (by decide : ¬ (2 : Nat) = 5)]
      by_cases q2 : 4 ≤ (b.drop 8).length
      · have e2 := readU32_ok q2
        simp only [e2, ok_bind, List.drop_drop, Nat.reduceAdd, decide_true, decide_false, Bool.true_or, Bool.or_true, Bool.false_or, Bool.or_false, Bool.or_self, if_true, if_false, Bool.false_eq_true, true_or, or_true, false_or, or_false, or_self, (by decide : ¬ (2 : UInt32) = 1), (by decide : ¬ (2 : Nat) = 1), (by decide : ¬ (2 : UInt32) = 3), (by decide : ¬ (2 : Nat) = 3), (by decide : ¬ (2 : UInt32) = 4), (by decide : ¬ (2 : Nat) = 4), (by decide : ¬ (2 : UInt32) = 5), (by decide : ¬ (2 : Nat) = 5)]
        simp only [List.length_drop] at *
        simp (disch := (first | omega | (simp only [List.length_drop]; omega))) only [readU_ok, readFields, List.drop_drop, Nat.reduceAdd, List.getD_cons_succ, List.getD_cons_zero, decide_true, decide_false, Bool.true_or, Bool.or_true, Bool.false_or, Bool.or_false, Bool.or_self, if_true, if_false, Bool.false_eq_true, true_or, or_true, false_or, or_false, or_self, (by decide : ¬ (2 : UInt32) = 1), (by decide : ¬ (2 : Nat) = 1), (by decide : ¬ (2 : UInt32) = 3), (by decide : ¬ (2 : Nat) = 3), (by decide : ¬ (2 : UInt32) = 4), (by decide : ¬ (2 : Nat) = 4), (by decide : ¬ (2 : UInt32) = 5), (by decide : ¬ (2 : Nat) = 5)]
        by_cases hcap : beNat ((b.drop 8).take 4) > 1000
        · have hcap' := (cap_iff (b.drop 8)).2 hcap
          simp [hcap, hcap', Go.retSt, Except.map]
        · have hcap' := mt (cap_iff (b.drop 8)).1 hcap
          simp only [hcap, hcap', decide_false, if_false, Bool.false_eq_true, Go.makeL, ok_bind]
          refine (loop_counter _ _ _ 2 (by decide) (by decide) _ _ _ _ _ _ _ ?_ ?_ ?_).trans ?_
          · simp
          · exact Nat.zero_le _
          · simp [Go.loopFuel]
          · simp only [Nat.sub_zero, u32_beNat, List.map_replicate, zeroC, hdrOf, shr32_toNat, and_16777215]
            cases hr : recordLoop decodeCounterRecord (beNat ((b.drop 8).take 4)) (b.drop 12) with
            | error e => rfl
            | ok rs =>
              simp only [Except.map, fill_replicate _ _ _ (recordLoop_length _ _ _ _ hr)]
              rfl
      · have e2 := readU32_short (Nat.lt_of_not_le q2)
        simp only [List.length_drop] at *
        simp (disch := (first | omega | (simp only [List.length_drop]; omega))) only [e2, err_bind, readU_ok, readU_short, readFields, List.drop_drop, Nat.reduceAdd, Except.map, decide_true, decide_false, Bool.true_or, Bool.or_true, Bool.false_or, Bool.or_false, Bool.or_self, if_true, if_false, Bool.false_eq_true, true_or, or_true, false_or, or_false, or_self, (by decide : ¬ (2 : UInt32) = 1), (by decide : ¬ (2 : Nat) = 1), (by decide : ¬ (2 : UInt32) = 3), (by decide : ¬ (2 : Nat) = 3), (by decide : ¬ (2 : UInt32) = 4), (by decide : ¬ (2 : Nat) = 4), (by decide : ¬ (2 : UInt32) = 5), (by decide : ¬ (2 : Nat) = 5)]
    · have e1 := readU32_short (Nat.lt_of_not_le q1)
      simp only [List.length_drop] at *
      simp (disch := (first | omega | (simp only [List.length_drop]; omega))) only [e1, err_bind, readU_ok, readU_short, readFields, List.drop_drop, Nat.reduceAdd, Except.map, decide_true, decide_false, Bool.true_or, Bool.or_true, Bool.false_or, Bool.or_false, Bool.or_self, if_true, if_false, Bool.false_eq_true, true_or, or_true, false_or, or_false, or_self, (by decide : ¬ (2 : UInt32) = 1), (by decide : ¬ (2 : Nat) = 1), (by decide : ¬ (2 : UInt32) = 3), (by decide : ¬ (2 : Nat) = 3), (by decide : ¬ (2 : UInt32) = 4), (by decide : ¬ (2 : Nat) = 4), (by decide : ¬ (2 : UInt32) = 5), (by decide : ¬ (2 : Nat) = 5)]
  · have e0 := readU32_short (Nat.lt_of_not_le q0)
    simp only [List.length_drop] at *
    simp (disch := (first | omega | (simp only [List.length_drop]; omega))) only [e0, err_bind, readU_ok, readU_short, readFields, List.drop_drop, Nat.reduceAdd, Except.map, decide_true, decide_false, Bool.true_or, Bool.or_true, Bool.false_or, Bool.or_false, Bool.or_self, if_true, if_false, Bool.false_eq_true, true_or, or_true, false_or, or_false, or_self, (by decide : ¬ (2 : UInt32) = 1), (by decide : ¬ (2 : Nat) = 1), (by decide : ¬ (2 : UInt32) = 3), (by decide : ¬ (2 : Nat) = 3), (by decide : ¬ (2 : UInt32) = 4), (by decide : ¬ (2 : Nat) = 4), (by decide : ¬ (2 : UInt32) = 5), (by decide : ¬ (2 : Nat) = 5)]

theorem sample_f3 (len s0 t0 v0 : UInt32) (b : Bytes) :
    (TS.SM.DecodeSample ⟨3, len, s0, t0, v0⟩ b).map (fun r => sampleOf r.2.2) = decodeSample 3 len.toNat b := by
  unfold TS.SM.DecodeSample decodeSample
  by_cases q0 : 4 ≤ b.length
  · have e0 := readU32_ok q0
    simp only [e0, ok_bind, List.drop_drop, Nat.reduceAdd, decide_true, decide_false, Bool.true_or, Bool.or_true, Bool.false_or, Bool.or_false, Bool.or_self, if_true, if_false, Bool.false_eq_true, true_or, or_true, false_or, or_false, or_self, (by decide : ¬ (3 : UInt32) = 1), (by decide : ¬ (3 : Nat) = 1), (by decide : ¬ (3 : UInt32) = 2), (by decide : ¬ (3 : Nat) = 2), (by decide : ¬ (3 : UInt32) = 4), (by decide : ¬ (3 : Nat) = 4), (by decide : ¬ (3 : UInt32) = 5), (by decide : ¬ (3 : Nat) = 5)]
    by_cases q1 : 4 ≤ (b.drop 4).length
    · have e1 := readU32_ok q1
      simp only [e1, ok_bind, List.drop_drop, Nat.reduceAdd, decide_true, decide_false, Bool.true_or, Bool.or_true, Bool.false_or, Bool.or_false, Bool.or_self, if_true, if_false, Bool.false_eq_true, true_or, or_true, false_or, or_false, or_self, (by decide : ¬ (3 : UInt32) = 1), (by decide : ¬ (3 : Nat) = 1), (by decide : ¬ (3 : UInt32) = 2), (by decide : ¬ (3 : Nat) = 2), (by decide : ¬ (3 : UInt32) = 4), (by decide : ¬ (3 : Nat) = 4), (by decide : ¬ (3 : UInt32) = 5), (by decide : ¬ (3 : Nat) = 5)]
      by_cases q2 : 4 ≤ (b.drop 8).length
      · have e2 := readU32_ok q2
        simp only [e2, ok_bind, List.drop_drop, Nat.reduceAdd, decide_true, decide_false, Bool.true_or, Bool.or_true, Bool.false_or, Bool.or_false, Bool.or_self, if_true, if_false, Bool.false_eq_true, true_or, or_true, false_or, or_false, or_self, (by decide : ¬ (3 : UInt32) = 1), (by decide : ¬ (3 : Nat) = 1), (by decide : ¬ (3 : UInt32) = 2), (by decide : ¬ (3 : Nat) = 2), (by decide : ¬ (3 : UInt32) = 4), (by decide : ¬ (3 : Nat) = 4), (by decide : ¬ (3 : UInt32) = 5), (by decide : ¬ (3 : Nat) = 5)]
        by_cases q3 : 4 ≤ (b.drop 12).length
        · have e3 := readU32_ok q3
          simp only [e3, ok_bind, List.drop_drop, Nat.reduceAdd, decide_true, decide_false, Bool.true_or, Bool.or_true, Bool.false_or, Bool.or_false, Bool.or_self, if_true, if_false, Bool.false_eq_true, true_or, or_true, false_or, or_false, or_self, (by decide : ¬ (3 : UInt32) = 1), (by decide : ¬ (3 : Nat) = 1), (by decide : ¬ (3 : UInt32) = 2), (by decide : ¬ (3 : Nat) = 2), (by decide : ¬ (3 : UInt32) = 4), (by decide : ¬ (3 : Nat) = 4), (by decide : ¬ (3 : UInt32) = 5), (by decide : ¬ (3 : Nat) = 5)]
          by_cases q4 : 4 ≤ (b.drop 16).length
          · have e4 := readU32_ok q4
            simp only [e4, ok_bind, List.drop_drop, Nat.reduceAdd, decide_true, decide_false, Bool.true_or, Bool.or_true, Bool.false_or, Bool.or_false, Bool.or_self, if_true, if_false, Bool.false_eq_true, true_or, or_true, false_or, or_false, or_self, (by decide : ¬ (3 : UInt32) = 1), (by decide : ¬ (3 : Nat) = 1), (by decide : ¬ (3 : UInt32) = 2), (by decide : ¬ (3 : Nat) = 2), (by decide : ¬ (3 : UInt32) = 4), (by decide : ¬ (3 : Nat) = 4), (by decide : ¬ (3 : UInt32) = 5), (by decide : ¬ (3 : Nat) = 5)]
            by_cases q5 : 4 ≤ (b.drop 20).length
            · have e5 := readU32_ok q5
              simp only [e5, ok_bind, List.drop_drop, Nat.reduceAdd, decide_true, decide_false, Bool.true_or, Bool.or_true, Bool.false_or, Bool.or_false, Bool.or_self, if_true, if_false, Bool.false_eq_true, true_or, or_true, false_or, or_false, or_self, (by decide : ¬ (3 : UInt32) = 1), (by decide : ¬ (3 : Nat) = 1), (by decide : ¬ (3 : UInt32) = 2), (by decide : ¬ (3 : Nat) = 2), (by decide : ¬ (3 : UInt32) = 4), (by decide : ¬ (3 : Nat) = 4), (by decide : ¬ (3 : UInt32) = 5), (by decide : ¬ (3 : Nat) = 5)]
              by_cases q6 : 4 ≤ (b.drop 24).length
              · have e6 := readU32_ok q6
                simp only [e6, ok_bind, List.drop_drop, Nat.reduceAdd, decide_true, decide_false, Bool.true_or, Bool.or_true, Bool.false_or, Bool.or_false, Bool.or_self, if_true, if_false, Bool.false_eq_true, true_or, or_true, false_or, or_false, or_self, (by decide : ¬ (3 : UInt32) = 1), (by decide : ¬ (3 : Nat) = 1), (by decide : ¬ (3 : UInt32) = 2), (by decide : ¬ (3 : Nat) = 2), (by decide : ¬ (3 : UInt32) = 4), (by decide : ¬ (3 : Nat) = 4), (by decide : ¬ (3 : UInt32) = 5), (by decide : ¬ (3 : Nat) = 5)]
                by_cases q7 : 4 ≤ (b.drop 28).length
                · have e7 := readU32_ok q7
                  simp only [e7, ok_bind, List.drop_drop, Nat.reduceAdd, decide_true, decide_false, Bool.true_or, Bool.or_true, Bool.false_or, Bool.or_false, Bool.or_self, if_true, if_false, Bool.false_eq_true, true_or, or_true, false_or, or_false, or_self, (by decide : ¬ (3 : UInt32) = 1), (by decide : ¬ (3 : Nat) = 1), (by decide : ¬ (3 : UInt32) = 2), (by decide : ¬ (3 : Nat) = 2), (by decide : ¬ (3 : UInt32) = 4), (by decide : ¬ (3 : Nat) = 4), (by decide : ¬ (3 : UInt32) = 5), (by decide : ¬ (3 : Nat) = 5)]
                  by_cases q8 : 4 ≤ (b.drop 32).length
                  · have e8 := readU32_ok q8
                    simp only [e8, ok_bind, List.drop_drop, Nat.reduceAdd, decide_true, decide_false, Bool.true_or, Bool.or_true, Bool.false_or, Bool.or_false, Bool.or_self, if_true, if_false, Bool.false_eq_true, true_or, or_true, false_or, or_false, or_self, (by decide : ¬ (3 : UInt32) = 1), (by decide : ¬ (3 : Nat) = 1), (by decide : ¬ (3 : UInt32) = 2), (by decide : ¬ (3 : Nat) = 2), (by decide : ¬ (3 : UInt32) = 4), (by decide : ¬ (3 : Nat) = 4), (by decide : ¬ (3 : UInt32) = 5), (by decide : ¬ (3 : Nat) = 5)]
                    by_cases q9 : 4 ≤ (b.drop 36).length
                    · have e9 := readU32_ok q9
                      simp only [e9, ok_bind, List.drop_drop, Nat.reduceAdd, decide_true, decide_false, Bool.true_or, Bool.or_true, Bool.false_or, Bool.or_false, Bool.or_self, if_true, if_false, Bool.false_eq_true, true_or, or_true, false_or, or_false, or_self, (by decide : ¬ (3 : UInt32) = 1), (by decide : ¬ (3 : Nat) = 1), (by decide : ¬ (3 : UInt32) = 2), (by decide : ¬ (3 : Nat) = 2), (by decide : ¬ (3 : UInt32) = 4), (by decide : ¬ (3 : Nat) = 4), (by decide : ¬ (3 : UInt32) = 5), (by decide : ¬ (3 : Nat) = 5)]
                      by_cases q10 : 4 ≤ (b.drop 40).length
                      · have e10 := readU32_ok q10
                        simp only [e10, ok_bind, List.drop_drop, Nat.reduceAdd, decide_true, decide_false, Bool.true_or, Bool.or_true, Bool.false_or, Bool.or_false, Bool.or_self, if_true, if_false, Bool.false_eq_true, true_or, or_true, false_or, or_false, or_self, (by decide : ¬ (3 : UInt32) = 1), (by decide : ¬ (3 : Nat) = 1), (by decide : ¬ (3 : UInt32) = 2), (by decide : ¬ (3 : Nat) = 2), (by decide : ¬ (3 : UInt32) = 4), (by decide : ¬ (3 : Nat) = 4), (by decide : ¬ (3 : UInt32) = 5), (by decide : ¬ (3 : Nat) = 5)]
                        simp only [List.length_drop] at *
                        simp (disch := (first | omega | (simp only [List.length_drop]; omega))) only [readU_ok, readFields, List.drop_drop, Nat.reduceAdd, List.getD_cons_succ, List.getD_cons_zero, decide_true, decide_false, Bool.true_or, Bool.or_true, Bool.false_or, Bool.or_false, Bool.or_self, if_true, if_false, Bool.false_eq_true, true_or, or_true, false_or, or_false, or_self, (by decide : ¬ (3 : UInt32) = 1), (by decide : ¬ (3 : Nat) = 1), (by decide : ¬ (3 : UInt32) = 2), (by decide : ¬ (3 : Nat) = 2), (by decide : ¬ (3 : UInt32) = 4), (by decide : ¬ (3 : Nat) = 4), (by decide : ¬ (3 : UInt32) = 5), (by decide : ¬ (3 : Nat) = 5)]
                        by_cases hcap : beNat ((b.drop 40).take 4) > 1000
                        · have hcap' := (cap_iff (b.drop 40)).2 hcap
                          simp [hcap, hcap', Go.retSt, Except.map]
                        · have hcap' := mt (cap_iff (b.drop 40)).1 hcap
                          simp only [hcap, hcap', decide_false, if_false, Bool.false_eq_true, Go.makeL, ok_bind]
                          refine (loop_exp _ _ _ _ _ _ _ _ _ _ ?_ ?_ ?_).trans ?_
                          · simp
                          · exact Nat.zero_le _
                          · simp [Go.loopFuel]
                          · simp only [Nat.sub_zero, u32_beNat, List.map_replicate, zeroF, hdrOf, shr32_toNat, and_16777215]
                            cases hr : recordLoop decodeFlowRecord (beNat ((b.drop 40).take 4)) (b.drop 44) with
                            | error e => rfl
                            | ok rs =>
                              simp only [Except.map, fill_replicate _ _ _ (recordLoop_length _ _ _ _ hr)]
                              rfl
                      · have e10 := readU32_short (Nat.lt_of_not_le q10)
                        simp only [List.length_drop] at *
                        simp (disch := (first | omega | (simp only [List.length_drop]; omega))) only [e10, err_bind, readU_ok, readU_short, readFields, List.drop_drop, Nat.reduceAdd, Except.map, decide_true, decide_false, Bool.true_or, Bool.or_true, Bool.false_or, Bool.or_false, Bool.or_self, if_true, if_false, Bool.false_eq_true, true_or, or_true, false_or, or_false, or_self, (by decide : ¬ (3 : UInt32) = 1), (by decide : ¬ (3 : Nat) = 1), (by decide : ¬ (3 : UInt32) = 2), (by decide : ¬ (3 : Nat) = 2), (by decide : ¬ (3 : UInt32) = 4), (by decide : ¬ (3 : Nat) = 4), (by decide : ¬ (3 : UInt32) = 5), (by decide : ¬ (3 : Nat) = 5)]
                    · have e9 := readU32_short (Nat.lt_of_not_le q9)
                      simp only [List.length_drop] at *
                      simp (disch := (first | omega | (simp only [List.length_drop]; omega))) only [e9, err_bind, readU_ok, readU_short, readFields, List.drop_drop, Nat.reduceAdd, Except.map, decide_true, decide_false, Bool.true_or, Bool.or_true, Bool.false_or, Bool.or_false, Bool.or_self, if_true, if_false, Bool.false_eq_true, true_or, or_true, false_or, or_false, or_self, (by decide : ¬ (3 : UInt32) = 1), (by decide : ¬ (3 : Nat) = 1), (by decide : ¬ (3 : UInt32) = 2), (by decide : ¬ (3 : Nat) = 2), (by decide : ¬ (3 : UInt32) = 4), (by decide : ¬ (3 : Nat) = 4), (by decide : ¬ (3 : UInt32) = 5), (by decide : ¬ (3 : Nat) = 5)]
                  · have e8 := readU32_short (Nat.lt_of_not_le q8)
                    simp only [List.length_drop] at *
                    simp (disch := (first | omega | (simp only [List.length_drop]; omega))) only [e8, err_bind, readU_ok, readU_short, readFields, List.drop_drop, Nat.reduceAdd, Except.map, decide_true, decide_false, Bool.true_or, Bool.or_true, Bool.false_or, Bool.or_false, Bool.or_self, if_true, if_false, Bool.false_eq_true, true_or, or_true, false_or, or_false, or_self, (by decide : ¬ (3 : UInt32) = 1), (by decide : ¬ (3 : Nat) = 1), (by decide : ¬ (3 : UInt32) = 2), (by decide : ¬ (3 : Nat) = 2), (by decide : ¬ (3 : UInt32) = 4), (by decide : ¬ (3 : Nat) = 4), (by decide : ¬ (3 : UInt32) = 5), (by decide : ¬ (3 : Nat) = 5)]
                · have e7 := readU32_short (Nat.lt_of_not_le q7)
                  simp only [List.length_drop] at *
                  simp (disch := (first | omega | (simp only [List.length_drop]; omega))) only [e7, err_bind, readU_ok, readU_short, readFields, List.drop_drop, Nat.reduceAdd, Except.map, decide_true, decide_false, Bool.true_or, Bool.or_true, Bool.false_or, Bool.or_false, Bool.or_self, if_true, if_false, Bool.false_eq_true, true_or, or_true, false_or, or_false, or_self, (by decide : ¬ (3 : UInt32) = 1), (by decide : ¬ (3 : Nat) = 1), (by decide : ¬ (3 : UInt32) = 2), (by decide : ¬ (3 : Nat) = 2), (by decide : ¬ (3 : UInt32) = 4), (by decide : ¬ (3 : Nat) = 4), (by decide : ¬ (3 : UInt32) = 5), (by decide : ¬ (3 : Nat) = 5)]
              · have e6 := readU32_short (Nat.lt_of_not_le q6)
                simp only [List.length_drop] at *
                simp (disch := (first | omega | (simp only [List.length_drop]; omega))) only [e6, err_bind, readU_ok, readU_short, readFields, List.drop_drop, Nat.reduceAdd, Except.map, decide_true, decide_false, Bool.true_or, Bool.or_true, Bool.false_or, Bool.or_false, Bool.or_self, if_true, if_false, Bool.false_eq_true, true_or, or_true, false_or, or_false, or_self, (by decide : ¬ (3 : UInt32) = 1), (by decide : ¬ (3 : Nat) = 1), (by decide : ¬ (3 : UInt32) = 2), (by decide : ¬ (3 : Nat) = 2), (by decide : ¬ (3 : UInt32) = 4), (by decide : ¬ (3 : Nat) = 4), (by decide : ¬ (3 : UInt32) = 5), (by decide : ¬ (3 : Nat) = 5)]
            · have e5 := readU32_short (Nat.lt_of_not_le q5)
              simp only [List.length_drop] at *
              simp (disch := (first | omega | (simp only [List.length_drop]; omega))) only [e5, err_bind, readU_ok, readU_short, readFields, List.drop_drop, Nat.reduceAdd, Except.map, decide_true, decide_false, Bool.true_or, Bool.or_true, Bool.false_or, Bool.or_false, Bool.or_self, if_true, if_false, Bool.false_eq_true, true_or, or_true, false_or, or_false, or_self, (by decide : ¬ (3 : UInt32) = 1), (by decide : ¬ (3 : Nat) = 1), (by decide : ¬ (3 : UInt32) = 2), (by decide : ¬ (3 : Nat) = 2), (by decide : ¬ (3 : UInt32) = 4), (by decide : ¬ (3 : Nat) = 4), (by decide : ¬ (3 : UInt32) = 5), (by decide : ¬ (3 : Nat) = 5)]
          · have e4 := readU32_short (Nat.lt_of_not_le q4)
            simp only [List.length_drop] at *
            simp (disch := (first | omega | (simp only [List.length_drop]; omega))) only [e4, err_bind, readU_ok, readU_short, readFields, List.drop_drop, Nat.reduceAdd, Except.map, decide_true, decide_false, Bool.true_or, Bool.or_true, Bool.false_or, Bool.or_false, Bool.or_self, if_true, if_false, Bool.false_eq_true, true_or, or_true, false_or, or_false, or_self, (by decide : ¬ (3 : UInt32) = 1), (by decide : ¬ (3 : Nat) = 1), (by decide : ¬ (3 : UInt32) = 2), (by decide : ¬ (3 : Nat) = 2), (by decide : ¬ (3 : UInt32) = 4), (by decide : ¬ (3 : Nat) = 4), (by decide : ¬ (3 : UInt32) = 5), (by decide : ¬ (3 : Nat) = 5)]
        · have e3 := readU32_short (Nat.lt_of_not_le q3)
          simp only [List.length_drop] at *
          simp (disch := (first | omega | (simp only [List.length_drop]; omega))) only [e3, err_bind, readU_ok, readU_short, readFields, List.drop_drop, Nat.reduceAdd, Except.map, decide_true, decide_false, Bool.true_or, Bool.or_true, Bool.false_or, Bool.or_false, Bool.or_self, if_true, if_false, Bool.false_eq_true, true_or, or_true, false_or, or_false, or_self, (by decide : ¬ (3 : UInt32) = 1), (by decide : ¬ (3 : Nat) = 1), (by decide : ¬ (3 : UInt32) = 2), (by decide : ¬ (3 : Nat) = 2), (by decide : ¬ (3 : UInt32) = 4), (by decide : ¬ (3 : Nat) = 4), (by decide : ¬ (3 : UInt32) = 5), (by decide : ¬ (3 : Nat) = 5)]
      · have e2 := readU32_short (Nat.lt_of_not_le q2)
        simp only [List.length_drop] at *
        simp (disch := (first | omega | (simp only [List.length_drop]; omega))) only [e2, err_bind, readU_ok, readU_short, readFields, List.drop_drop, Nat.reduceAdd, Except.map, decide_true, decide_false, Bool.true_or, Bool.or_true, Bool.false_or, Bool.or_false, Bool.or_self, if_true, if_false, Bool.false_eq_true, true_or, or_true, false_or, or_false, or_self, (by decide : ¬ (3 : UInt32) = 1), (by decide : ¬ (3 : Nat) = 1), (by decide : ¬ (3 : UInt32) = 2), (by decide : ¬ (3 : Nat) = 2), (by decide : ¬ (3 : UInt32) = 4), (by decide : ¬ (3 : Nat) = 4), (by decide : ¬ (3 : UInt32) = 5), (by decide : ¬ (3 : Nat) = 5)]
    · have e1 := readU32_short (Nat.lt_of_not_le q1)
      simp only [List.length_drop] at *
      simp (disch := (first | omega | (simp only [List.length_drop]; omega))) only [e1, err_bind, readU_ok, readU_short, readFields, List.drop_drop, Nat.reduceAdd, Except.map, decide_true, decide_false, Bool.true_or, Bool.or_true, Bool.false_or, Bool.or_false, Bool.or_self, if_true, if_false, Bool.false_eq_true, true_or, or_true, false_or, or_false, or_self, (by decide : ¬ (3 : UInt32) = 1), (by decide : ¬ (3 : Nat) = 1), (by decide : ¬ (3 : UInt32) = 2), (by decide : ¬ (3 : Nat) = 2), (by decide : ¬ (3 : UInt32) = 4), (by decide : ¬ (3 : Nat) = 4), (by decide : ¬ (3 : UInt32) = 5), (by decide : ¬ (3 : Nat) = 5)]
  · have e0 := readU32_short (Nat.lt_of_not_le q0)
    simp only [List.length_drop] at *
    simp (disch := (first | omega | (simp only [List.length_drop]; omega))) only [e0, err_bind, readU_ok, readU_short, readFields, List.drop_drop, Nat.reduceAdd, Except.map, decide_true, decide_false, Bool.true_or, Bool.or_true, Bool.false_or, Bool.or_false, Bool.or_self, if_true, if_false, Bool.false_eq_true, true_or, or_true, false_or, or_false, or_self, (by decide : ¬ (3 : UInt32) = 1), (by decide : ¬ (3 : Nat) = 1), (by decide : ¬ (3 : UInt32) = 2), (by decide : ¬ (3 : Nat) = 2), (by decide : ¬ (3 : UInt32) = 4), (by decide : ¬ (3 : Nat) = 4), (by decide : ¬ (3 : UInt32) = 5), (by decide : ¬ (3 : Nat) = 5)]

theorem sample_f4 (len s0 t0 v0 : UInt32) (b : Bytes) :
    (TS.SM.DecodeSample ⟨4, len, s0, t0, v0⟩ b).map (fun r => sampleOf r.2.2) = decodeSample 4 len.toNat b := by
  unfold TS.SM.DecodeSample decodeSample
  by_cases q0 : 4 ≤ b.length
  · have e0 := readU32_ok q0
    simp only [e0, ok_bind, List.drop_drop, Nat.reduceAdd, decide_true, decide_false, Bool.true_or, Bool.or_true, Bool.false_or, Bool.or_false, Bool.or_self, if_true, if_false, Bool.false_eq_true, true_or, or_true, false_or, or_false, or_self, (by decide : ¬ (4 : UInt32) = 1), (by decide : ¬ (4 : Nat) = 1), (by decide : ¬ (4 : UInt32) = 2), (by decide : ¬ (4 : Nat) = 2), (by decide : ¬ (4 : UInt32) = 3), (by decide : ¬ (4 : Nat) = 3), (by decide : ¬ (4 : UInt32) = 5), (by decide : ¬ (4 : Nat) = 5)]
    by_cases q1 : 4 ≤ (b.drop 4).length
    · have e1 := readU32_ok q1
      simp only [e1, ok_bind, List.drop_drop, Nat.reduceAdd, decide_true, decide_false, Bool.true_or, Bool.or_true, Bool.false_or, Bool.or_false, Bool.or_self, if_true, if_false, Bool.false_eq_true, true_or, or_true, false_or, or_false, or_self, (by decide : ¬ (4 : UInt32) = 1), (by decide : ¬ (4 : Nat) = 1), (by decide : ¬ (4 : UInt32) = 2), (by decide : ¬ (4 : Nat) = 2), (by decide : ¬ (4 : UInt32) = 3), (by decide : ¬ (4 : Nat) = 3), (by decide : ¬ (4 : UInt32) = 5), (by decide : ¬ (4 : Nat) = 5)]
      by_cases q2 : 4 ≤ (b.drop 8).length
      · have e2 := readU32_ok q2
        simp only [e2, ok_bind, List.drop_drop, Nat.reduceAdd, decide_true, decide_false, Bool.true_or, Bool.or_true, Bool.false_or, Bool.or_false, Bool.or_self, if_true, if_false, Bool.false_eq_true, true_or, or_true, false_or, or_false, or_self, (by decide : ¬ (4 : UInt32) = 1), (by decide : ¬ (4 : Nat) = 1), (by decide : ¬ (4 : UInt32) = 2), (by decide : ¬ (4 : Nat) = 2), (by decide : ¬ (4 : UInt32) = 3), (by decide : ¬ (4 : Nat) = 3), (by decide : ¬ (4 : UInt32) = 5), (by decide : ¬ (4 : Nat) = 5)]
        by_cases q3 : 4 ≤ (b.drop 12).length
        · have e3 := readU32_ok q3
          simp only [e3, ok_bind, List.drop_drop, Nat.reduceAdd, decide_true, decide_false, Bool.true_or, Bool.or_true, Bool.false_or, Bool.or_false, Bool.or_self, if_true, if_false, Bool.false_eq_true, true_or, or_true, false_or, or_false, or_self, (by decide : ¬ (4 : UInt32) = 1), (by decide : ¬ (4 : Nat) = 1), (by decide : ¬ (4 : UInt32) = 2), (by decide : ¬ (4 : Nat) = 2), (by decide : ¬ (4 : UInt32) = 3), (by decide : ¬ (4 : Nat) = 3), (by decide : ¬ (4 : UInt32) = 5), (by decide : ¬ (4 : Nat) = 5)]
          simp only [List.length_drop] at *
          simp (disch := (first | omega | (simp only [List.length_drop]; omega))) only [readU_ok, readFields, List.drop_drop, Nat.reduceAdd, List.getD_cons_succ, List.getD_cons_zero, decide_true, decide_false, Bool.true_or, Bool.or_true, Bool.false_or, Bool.or_false, Bool.or_self, if_true, if_false, Bool.false_eq_true, true_or, or_true, false_or, or_false, or_self, (by decide : ¬ (4 : UInt32) = 1), (by decide : ¬ (4 : Nat) = 1), (by decide : ¬ (4 : UInt32) = 2), (by decide : ¬ (4 : Nat) = 2), (by decide : ¬ (4 : UInt32) = 3), (by decide : ¬ (4 : Nat) = 3), (by decide : ¬ (4 : UInt32) = 5), (by decide : ¬ (4 : Nat) = 5)]
          by_cases hcap : beNat ((b.drop 12).take 4) > 1000
          · have hcap' := (cap_iff (b.drop 12)).2 hcap
            simp [hcap, hcap', Go.retSt, Except.map]
          · have hcap' := mt (cap_iff (b.drop 12)).1 hcap
            simp only [hcap, hcap', decide_false, if_false, Bool.false_eq_true, Go.makeL, ok_bind]
            refine (loop_counter _ _ _ 4 (by decide) (by decide) _ _ _ _ _ _ _ ?_ ?_ ?_).trans ?_
            · simp
            · exact Nat.zero_le _
            · simp [Go.loopFuel]
            · simp only [Nat.sub_zero, u32_beNat, List.map_replicate, zeroC, hdrOf, shr32_toNat, and_16777215]
              cases hr : recordLoop decodeCounterRecord (beNat ((b.drop 12).take 4)) (b.drop 16) with
              | error e => rfl
              | ok rs =>
                simp only [Except.map, fill_replicate _ _ _ (recordLoop_length _ _ _ _ hr)]
                rfl
        · have e3 := readU32_short (Nat.lt_of_not_le q3)
          simp only [List.length_drop] at *
          simp (disch := (first | omega | (simp only [List.length_drop]; omega))) only [e3, err_bind, readU_ok, readU_short, readFields, List.drop_drop, Nat.reduceAdd, Except.map, decide_true, decide_false, Bool.true_or, Bool.or_true, Bool.false_or, Bool.or_false, Bool.or_self, if_true, if_false, Bool.false_eq_true, true_or, or_true, false_or, or_false, or_self, (by decide : ¬ (4 : UInt32) = 1), (by decide : ¬ (4 : Nat) = 1), (by decide : ¬ (4 : UInt32) = 2), (by decide : ¬ (4 : Nat) = 2), (by decide : ¬ (4 : UInt32) = 3), (by decide : ¬ (4 : Nat) = 3), (by decide : ¬ (4 : UInt32) = 5), (by decide : ¬ (4 : Nat) = 5)]
      · have e2 := readU32_short (Nat.lt_of_not_le q2)
        simp only [List.length_drop] at *
        simp (disch := (first | omega | (simp only [List.length_drop]; omega))) only [e2, err_bind, readU_ok, readU_short, readFields, List.drop_drop, Nat.reduceAdd, Except.map, decide_true, decide_false, Bool.true_or, Bool.or_true, Bool.false_or, Bool.or_false, Bool.or_self, if_true, if_false, Bool.false_eq_true, true_or, or_true, false_or, or_false, or_self, (by decide : ¬ (4 : UInt32) = 1), (by decide : ¬ (4 : Nat) = 1), (by decide : ¬ (4 : UInt32) = 2), (by decide : ¬ (4 : Nat) = 2), (by decide : ¬ (4 : UInt32) = 3), (by decide : ¬ (4 : Nat) = 3), (by decide : ¬ (4 : UInt32) = 5), (by decide : ¬ (4 : Nat) = 5)]
    · have e1 := readU32_short (Nat.lt_of_not_le q1)
      simp only [List.length_drop] at *
      simp (disch := (first | omega | (simp only [List.length_drop]; omega))) only [e1, err_bind, readU_ok, readU_short, readFields, List.drop_drop, Nat.reduceAdd, Except.map, decide_true, decide_false, Bool.true_or, Bool.or_true, Bool.false_or, Bool.or_false, Bool.or_self, if_true, if_false, Bool.false_eq_true, true_or, or_true, false_or, or_false, or_self, (by decide : ¬ (4 : UInt32) = 1), (by decide : ¬ (4 : Nat) = 1), (by decide : ¬ (4 : UInt32) = 2), (by decide : ¬ (4 : Nat) = 2), (by decide : ¬ (4 : UInt32) = 3), (by decide : ¬ (4 : Nat) = 3), (by decide : ¬ (4 : UInt32) = 5), (by decide : ¬ (4 : Nat) = 5)]
  · have e0 := readU32_short (Nat.lt_of_not_le q0)
    simp only [List.length_drop] at *
    simp (disch := (first | omega | (simp only [List.length_drop]; omega))) only [e0, err_bind, readU_ok, readU_short, readFields, List.drop_drop, Nat.reduceAdd, Except.map, decide_true, decide_false, Bool.true_or, Bool.or_true, Bool.false_or, Bool.or_false, Bool.or_self, if_true, if_false, Bool.false_eq_true, true_or, or_true, false_or, or_false, or_self, (by decide : ¬ (4 : UInt32) = 1), (by decide : ¬ (4 : Nat) = 1), (by decide : ¬ (4 : UInt32) = 2), (by decide : ¬ (4 : Nat) = 2), (by decide : ¬ (4 : UInt32) = 3), (by decide : ¬ (4 : Nat) = 3), (by decide : ¬ (4 : UInt32) = 5), (by decide : ¬ (4 : Nat) = 5)]

theorem sample_f5 (len s0 t0 v0 : UInt32) (b : Bytes) :
    (TS.SM.DecodeSample ⟨5, len, s0, t0, v0⟩ b).map (fun r => sampleOf r.2.2) = decodeSample 5 len.toNat b := by
  unfold TS.SM.DecodeSample decodeSample
  by_cases q0 : 4 ≤ b.length
  · have e0 := readU32_ok q0
    simp only [e0, ok_bind, List.drop_drop, Nat.reduceAdd, decide_true, decide_false, Bool.true_or, Bool.or_true, Bool.false_or, Bool.or_false, Bool.or_self, if_true, if_false, Bool.false_eq_true, true_or, or_true, false_or, or_false, or_self, (by decide : ¬ (5 : UInt32) = 1), (by decide : ¬ (5 : Nat) = 1), (by decide : ¬ (5 : UInt32) = 2), (by decide : ¬ (5 : Nat) = 2), (by decide : ¬ (5 : UInt32) = 3), (by decide : ¬ (5 : Nat) = 3), (by decide : ¬ (5 : UInt32) = 4), (by decide : ¬ (5 : Nat) = 4)]
    by_cases q1 : 4 ≤ (b.drop 4).length
    · have e1 := readU32_ok q1
      simp only [e1, ok_bind, List.drop_drop, Nat.reduceAdd, decide_true, decide_false, Bool.true_or, Bool.or_true, Bool.false_or, Bool.or_false, Bool.or_self, if_true, if_false, Bool.false_eq_true, true_or, or_true, false_or, or_false, or_self, (by decide : ¬ (5 : UInt32) = 1), (by decide : ¬ (5 : Nat) = 1), (by decide : ¬ (5 : UInt32) = 2), (by decide : ¬ (5 : Nat) = 2), (by decide : ¬ (5 : UInt32) = 3), (by decide : ¬ (5 : Nat) = 3), (by decide : ¬ (5 : UInt32) = 4), (by decide : ¬ (5 : Nat) = 4)]
      by_cases q2 : 4 ≤ (b.drop 8).length
      · have e2 := readU32_ok q2
        simp only [e2, ok_bind, List.drop_drop, Nat.reduceAdd, decide_true, decide_false, Bool.true_or, Bool.or_true, Bool.false_or, Bool.or_false, Bool.or_self, if_true, if_false, Bool.false_eq_true, true_or, or_true, false_or, or_false, or_self, (by decide : ¬ (5 : UInt32) = 1), (by decide : ¬ (5 : Nat) = 1), (by decide : ¬ (5 : UInt32) = 2), (by decide : ¬ (5 : Nat) = 2), (by decide : ¬ (5 : UInt32) = 3), (by decide : ¬ (5 : Nat) = 3), (by decide : ¬ (5 : UInt32) = 4), (by decide : ¬ (5 : Nat) = 4)]
        by_cases q3 : 4 ≤ (b.drop 12).length
        · have e3 := readU32_ok q3
          simp only [e3, ok_bind, List.drop_drop, Nat.reduceAdd, decide_true, decide_false, Bool.true_or, Bool.or_true, Bool.false_or, Bool.or_false, Bool.or_self, if_true, if_false, Bool.false_eq_true, true_or, or_true, false_or, or_false, or_self, (by decide : ¬ (5 : UInt32) = 1), (by decide : ¬ (5 : Nat) = 1), (by decide : ¬ (5 : UInt32) = 2), (by decide : ¬ (5 : Nat) = 2), (by decide : ¬ (5 : UInt32) = 3), (by decide : ¬ (5 : Nat) = 3), (by decide : ¬ (5 : UInt32) = 4), (by decide : ¬ (5 : Nat) = 4)]
          by_cases q4 : 4 ≤ (b.drop 16).length
          · have e4 := readU32_ok q4
            simp only [e4, ok_bind, List.drop_drop, Nat.reduceAdd, decide_true, decide_false, Bool.true_or, Bool.or_true, Bool.false_or, Bool.or_false, Bool.or_self, if_true, if_false, Bool.false_eq_true, true_or, or_true, false_or, or_false, or_self, (by decide : ¬ (5 : UInt32) = 1), (by decide : ¬ (5 : Nat) = 1), (by decide : ¬ (5 : UInt32) = 2), (by decide : ¬ (5 : Nat) = 2), (by decide : ¬ (5 : UInt32) = 3), (by decide : ¬ (5 : Nat) = 3), (by decide : ¬ (5 : UInt32) = 4), (by decide : ¬ (5 : Nat) = 4)]
            by_cases q5 : 4 ≤ (b.drop 20).length
            · have e5 := readU32_ok q5
              simp only [e5, ok_bind, List.drop_drop, Nat.reduceAdd, decide_true, decide_false, Bool.true_or, Bool.or_true, Bool.false_or, Bool.or_false, Bool.or_self, if_true, if_false, Bool.false_eq_true, true_or, or_true, false_or, or_false, or_self, (by decide : ¬ (5 : UInt32) = 1), (by decide : ¬ (5 : Nat) = 1), (by decide : ¬ (5 : UInt32) = 2), (by decide : ¬ (5 : Nat) = 2), (by decide : ¬ (5 : UInt32) = 3), (by decide : ¬ (5 : Nat) = 3), (by decide : ¬ (5 : UInt32) = 4), (by decide : ¬ (5 : Nat) = 4)]
              by_cases q6 : 4 ≤ (b.drop 24).length
              · have e6 := readU32_ok q6
                simp only [e6, ok_bind, List.drop_drop, Nat.reduceAdd, decide_true, decide_false, Bool.true_or, Bool.or_true, Bool.false_or, Bool.or_false, Bool.or_self, if_true, if_false, Bool.false_eq_true, true_or, or_true, false_or, or_false, or_self, (by decide : ¬ (5 : UInt32) = 1), (by decide : ¬ (5 : Nat) = 1), (by decide : ¬ (5 : UInt32) = 2), (by decide : ¬ (5 : Nat) = 2), (by decide : ¬ (5 : UInt32) = 3), (by decide : ¬ (5 : Nat) = 3), (by decide : ¬ (5 : UInt32) = 4), (by decide : ¬ (5 : Nat) = 4)]
                by_cases q7 : 4 ≤ (b.drop 28).length
                · have e7 := readU32_ok q7
                  simp only [e7, ok_bind, List.drop_drop, Nat.reduceAdd, decide_true, decide_false, Bool.true_or, Bool.or_true, Bool.false_or, Bool.or_false, Bool.or_self, if_true, if_false, Bool.false_eq_true, true_or, or_true, false_or, or_false, or_self, (by decide : ¬ (5 : UInt32) = 1), (by decide : ¬ (5 : Nat) = 1), (by decide : ¬ (5 : UInt32) = 2), (by decide : ¬ (5 : Nat) = 2), (by decide : ¬ (5 : UInt32) = 3), (by decide : ¬ (5 : Nat) = 3), (by decide : ¬ (5 : UInt32) = 4), (by decide : ¬ (5 : Nat) = 4)]
                  simp only [List.length_drop] at *
                  simp (disch := (first | omega | (simp only [List.length_drop]; omega))) only [readU_ok, readFields, List.drop_drop, Nat.reduceAdd, List.getD_cons_succ, List.getD_cons_zero, decide_true, decide_false, Bool.true_or, Bool.or_true, Bool.false_or, Bool.or_false, Bool.or_self, if_true, if_false, Bool.false_eq_true, true_or, or_true, false_or, or_false, or_self, (by decide : ¬ (5 : UInt32) = 1), (by decide : ¬ (5 : Nat) = 1), (by decide : ¬ (5 : UInt32) = 2), (by decide : ¬ (5 : Nat) = 2), (by decide : ¬ (5 : UInt32) = 3), (by decide : ¬ (5 : Nat) = 3), (by decide : ¬ (5 : UInt32) = 4), (by decide : ¬ (5 : Nat) = 4)]
                  by_cases hcap : beNat ((b.drop 28).take 4) > 1000
                  · have hcap' := (cap_iff (b.drop 28)).2 hcap
                    simp [hcap, hcap', Go.retSt, Except.map]
                  · have hcap' := mt (cap_iff (b.drop 28)).1 hcap
                    simp only [hcap, hcap', decide_false, if_false, Bool.false_eq_true, Go.makeL, ok_bind]
                    refine (loop_drop _ _ _ _ _ _ _ _ _ _ ?_ ?_ ?_).trans ?_
                    · simp
                    · exact Nat.zero_le _
                    · simp [Go.loopFuel]
                    · simp only [Nat.sub_zero, u32_beNat, List.map_replicate, zeroF, hdrOf, shr32_toNat, and_16777215]
                      cases hr : recordLoop decodeFlowRecord (beNat ((b.drop 28).take 4)) (b.drop 32) with
                      | error e => rfl
                      | ok rs =>
                        simp only [Except.map, fill_replicate _ _ _ (recordLoop_length _ _ _ _ hr)]
                        rfl
                · have e7 := readU32_short (Nat.lt_of_not_le q7)
                  simp only [List.length_drop] at *
                  simp (disch := (first | omega | (simp only [List.length_drop]; omega))) only [e7, err_bind, readU_ok, readU_short, readFields, List.drop_drop, Nat.reduceAdd, Except.map, decide_true, decide_false, Bool.true_or, Bool.or_true, Bool.false_or, Bool.or_false, Bool.or_self, if_true, if_false, Bool.false_eq_true, true_or, or_true, false_or, or_false, or_self, (by decide : ¬ (5 : UInt32) = 1), (by decide : ¬ (5 : Nat) = 1), (by decide : ¬ (5 : UInt32) = 2), (by decide : ¬ (5 : Nat) = 2), (by decide : ¬ (5 : UInt32) = 3), (by decide : ¬ (5 : Nat) = 3), (by decide : ¬ (5 : UInt32) = 4), (by decide : ¬ (5 : Nat) = 4)]
              · have e6 := readU32_short (Nat.lt_of_not_le q6)
                simp only [List.length_drop] at *
                simp (disch := (first | omega | (simp only [List.length_drop]; omega))) only [e6, err_bind, readU_ok, readU_short, readFields, List.drop_drop, Nat.reduceAdd, Except.map, decide_true, decide_false, Bool.true_or, Bool.or_true, Bool.false_or, Bool.or_false, Bool.or_self, if_true, if_false, Bool.false_eq_true, true_or, or_true, false_or, or_false, or_self, (by decide : ¬ (5 : UInt32) = 1), (by decide : ¬ (5 : Nat) = 1), (by decide : ¬ (5 : UInt32) = 2), (by decide : ¬ (5 : Nat) = 2), (by decide : ¬ (5 : UInt32) = 3), (by decide : ¬ (5 : Nat) = 3), (by decide : ¬ (5 : UInt32) = 4), (by decide : ¬ (5 : Nat) = 4)]
            · have e5 := readU32_short (Nat.lt_of_not_le q5)
              simp only [List.length_drop] at *
              simp (disch := (first | omega | (simp only [List.length_drop]; omega))) only [e5, err_bind, readU_ok, readU_short, readFields, List.drop_drop, Nat.reduceAdd, Except.map, decide_true, decide_false, Bool.true_or, Bool.or_true, Bool.false_or, Bool.or_false, Bool.or_self, if_true, if_false, Bool.false_eq_true, true_or, or_true, false_or, or_false, or_self, (by decide : ¬ (5 : UInt32) = 1), (by decide : ¬ (5 : Nat) = 1), (by decide : ¬ (5 : UInt32) = 2), (by decide : ¬ (5 : Nat) = 2), (by decide : ¬ (5 : UInt32) = 3), (by decide : ¬ (5 : Nat) = 3), (by decide : ¬ (5 : UInt32) = 4), (by decide : ¬ (5 : Nat) = 4)]
          · have e4 := readU32_short (Nat.lt_of_not_le q4)
            simp only [List.length_drop] at *
            simp (disch := (first | omega | (simp only [List.length_drop]; omega))) only [e4, err_bind, readU_ok, readU_short, readFields, List.drop_drop, Nat.reduceAdd, Except.map, decide_true, decide_false, Bool.true_or, Bool.or_true, Bool.false_or, Bool.or_false, Bool.or_self, if_true, if_false, Bool.false_eq_true, true_or, or_true, false_or, or_false, or_self, (by decide : ¬ (5 : UInt32) = 1), (by decide : ¬ (5 : Nat) = 1), (by decide : ¬ (5 : UInt32) = 2), (by decide : ¬ (5 : Nat) = 2), (by decide : ¬ (5 : UInt32) = 3), (by decide : ¬ (5 : Nat) = 3), (by decide : ¬ (5 : UInt32) = 4), (by decide : ¬ (5 : Nat) = 4)]
        · have e3 := readU32_short (Nat.lt_of_not_le q3)
          simp only [List.length_drop] at *
          simp (disch := (first | omega | (simp only [List.length_drop]; omega))) only [e3, err_bind, readU_ok, readU_short, readFields, List.drop_drop, Nat.reduceAdd, Except.map, decide_true, decide_false, Bool.true_or, Bool.or_true, Bool.false_or, Bool.or_false, Bool.or_self, if_true, if_false, Bool.false_eq_true, true_or, or_true, false_or, or_false, or_self, (by decide : ¬ (5 : UInt32) = 1), (by decide : ¬ (5 : Nat) = 1), (by decide : ¬ (5 : UInt32) = 2), (by decide : ¬ (5 : Nat) = 2), (by decide : ¬ (5 : UInt32) = 3), (by decide : ¬ (5 : Nat) = 3), (by decide : ¬ (5 : UInt32) = 4), (by decide : ¬ (5 : Nat) = 4)]
      · have e2 := readU32_short (Nat.lt_of_not_le q2)
        simp only [List.length_drop] at *
        simp (disch := (first | omega | (simp only [List.length_drop]; omega))) only [e2, err_bind, readU_ok, readU_short, readFields, List.drop_drop, Nat.reduceAdd, Except.map, decide_true, decide_false, Bool.true_or, Bool.or_true, Bool.false_or, Bool.or_false, Bool.or_self, if_true, if_false, Bool.false_eq_true, true_or, or_true, false_or, or_false, or_self, (by decide : ¬ (5 : UInt32) = 1), (by decide : ¬ (5 : Nat) = 1), (by decide : ¬ (5 : UInt32) = 2), (by decide : ¬ (5 : Nat) = 2), (by decide : ¬ (5 : UInt32) = 3), (by decide : ¬ (5 : Nat) = 3), (by decide : ¬ (5 : UInt32) = 4), (by decide : ¬ (5 : Nat) = 4)]
    · have e1 := readU32_short (Nat.lt_of_not_le q1)
      simp only [List.length_drop] at *
      simp (disch := (first | omega | (simp only [List.length_drop]; omega))) only [e1, err_bind, readU_ok, readU_short, readFields, List.drop_drop, Nat.reduceAdd, Except.map, decide_true, decide_false, Bool.true_or, Bool.or_true, Bool.false_or, Bool.or_false, Bool.or_self, if_true, if_false, Bool.false_eq_true, true_or, or_true, false_or, or_false, or_self, (by decide : ¬ (5 : UInt32) = 1), (by decide : ¬ (5 : Nat) = 1), (by decide : ¬ (5 : UInt32) = 2), (by decide : ¬ (5 : Nat) = 2), (by decide : ¬ (5 : UInt32) = 3), (by decide : ¬ (5 : Nat) = 3), (by decide : ¬ (5 : UInt32) = 4), (by decide : ¬ (5 : Nat) = 4)]
  · have e0 := readU32_short (Nat.lt_of_not_le q0)
    simp only [List.length_drop] at *
    simp (disch := (first | omega | (simp only [List.length_drop]; omega))) only [e0, err_bind, readU_ok, readU_short, readFields, List.drop_drop, Nat.reduceAdd, Except.map, decide_true, decide_false, Bool.true_or, Bool.or_true, Bool.false_or, Bool.or_false, Bool.or_self, if_true, if_false, Bool.false_eq_true, true_or, or_true, false_or, or_false, or_self, (by decide : ¬ (5 : UInt32) = 1), (by decide : ¬ (5 : Nat) = 1), (by decide : ¬ (5 : UInt32) = 2), (by decide : ¬ (5 : Nat) = 2), (by decide : ¬ (5 : UInt32) = 3), (by decide : ¬ (5 : Nat) = 3), (by decide : ¬ (5 : UInt32) = 4), (by decide : ¬ (5 : Nat) = 4)]

theorem sample_other (fmt len s0 t0 v0 : UInt32) (b : Bytes) (h1 : ¬ fmt = 1) (h2 : ¬ fmt = 2) (h3 : ¬ fmt = 3) (h4 : ¬ fmt = 4)
    (h5 : ¬ fmt = 5) :
    (TS.SM.DecodeSample ⟨fmt, len, s0, t0, v0⟩ b).map (fun r => sampleOf r.2.2) = decodeSample fmt.toNat len.toNat b := by
  have n1 : ¬ fmt.toNat = 1 := fun h => h1 (UInt32.toNat_inj.1 h)
  have n2 : ¬ fmt.toNat = 2 := fun h => h2 (UInt32.toNat_inj.1 h)
  have n3 : ¬ fmt.toNat = 3 := fun h => h3 (UInt32.toNat_inj.1 h)
  have n4 : ¬ fmt.toNat = 4 := fun h => h4 (UInt32.toNat_inj.1 h)
  have n5 : ¬ fmt.toNat = 5 := fun h => h5 (UInt32.toNat_inj.1 h)
  unfold TS.SM.DecodeSample decodeSample
  by_cases q0 : 4 ≤ b.length
  · have e0 := readU32_ok q0
    simp only [e0, ok_bind, readU_ok q0, h1, h2, h3, h4, h5, n1, n2, n3, n4, n5, decide_true, decide_false, Bool.true_or, Bool.or_true, Bool.false_or, Bool.or_false, Bool.or_self, if_true, if_false, Bool.false_eq_true, true_or, or_true, false_or, or_false, or_self, Go.retSt, Except.map]
  · have e0 := readU32_short (Nat.lt_of_not_le q0)
    simp only [e0, err_bind, readU_short (Nat.lt_of_not_le q0), Except.map]

/-- sflow.DecodeSample for every sample header and every byte string: the same sample (header, counters, records with the
    never-filled slots zero) or the same error class as the model -/
theorem decodeSample_trans_eq (h : TS.SampleHeader) (b : Bytes) :
    (TS.SM.DecodeSample h b).map (fun r => sampleOf r.2.2) = decodeSample h.Format.toNat h.Length.toNat b := by
  obtain ⟨fmt, len, s0, t0, v0⟩ := h
  by_cases h1 : fmt = 1
  · subst h1; exact sample_f1 _ _ _ _ _
  by_cases h2 : fmt = 2
  · subst h2; exact sample_f2 _ _ _ _ _
  by_cases h3 : fmt = 3
  · subst h3; exact sample_f3 _ _ _ _ _
  by_cases h4 : fmt = 4
  · subst h4; exact sample_f4 _ _ _ _ _
  by_cases h5 : fmt = 5
  · subst h5; exact sample_f5 _ _ _ _ _
  exact sample_other _ _ _ _ _ _ h1 h2 h3 h4 h5

/-! ### DecodeMessage -/

theorem sampleLoop_length : ∀ (n : Nat) (b : Bytes) (rs : List Sample), sampleLoop n b = .ok rs → rs.length ≤ n := by
  intro n
  induction n with
  | zero => intro b rs h; simp [sampleLoop] at h; subst h; simp
  | succ n ih =>
    intro b rs h
    rw [sampleLoop] at h
    split at h
    · split at h
      · cases h
      · split at h
        · split at h
          · cases h; simp
          · split at h
            · cases h
            · split at h
              · cases h
              · rename_i rs' hr
                cases h
                have := ih _ _ hr
                simp; omega
        · cases h
    · cases h; simp

/-- what DecodeMessage makes of the outcome of its sample loop -/
def finM (r : Res (Go.Ctl (Bytes × TS.SM.Packet × Nat) (Bytes × TS.SM.Packet))) : Res Sflow.Packet :=
  (r >>= fun t_12 => Go.Ctl.elim t_12 (fun x => .ok x) fun t_13 => .ok (t_13.1, t_13.2.1)).map (fun r => packetOf r.2)

theorem loop_msg : ∀ (fuel : Nat) (b : Bytes) (pk : TS.SM.Packet) (i : Nat),
    pk.Samples.length = pk.SamplesCount.toNat → i ≤ pk.SamplesCount.toNat → b.length < fuel →
    finM (TS.SM.DecodeMessage_loop1 fuel b pk i) =
      (sampleLoop (pk.SamplesCount.toNat - i) b).map (fun ss =>
        (⟨pk.Version.toNat, pk.IPVersion.toNat, pk.AgentIP, [pk.SubAgentId.toNat, pk.SequenceNumber.toNat, pk.Uptime.toNat,
          pk.SamplesCount.toNat], fill (pk.Samples.map sampleOf) i ss⟩ : Sflow.Packet)) := by
  intro fuel
  induction fuel with
  | zero => intro b pk i _ _ h; omega
  | succ fuel ih =>
    intro b pk i hlen hi hf
    rw [TS.SM.DecodeMessage_loop1, TS.SM.DecodeMessage_loop1_body]
    by_cases hc : i < pk.SamplesCount.toNat ∧ 8 ≤ b.length
    · obtain ⟨hc1, hc2⟩ := hc
      have hcb : (decide (i < pk.SamplesCount.toNat) && decide (b.length ≥ 8)) = true := by simp [hc1, hc2]
      obtain ⟨k, hk⟩ : ∃ k, pk.SamplesCount.toNat - i = k + 1 := ⟨pk.SamplesCount.toNat - i - 1, by omega⟩
      have hk' : pk.SamplesCount.toNat - (i + 1) = k := by omega
      rw [hk, sampleLoop, if_pos hc2, readFields44 hc2]
      simp (disch := (first | omega | (simp only [List.length_drop]; omega))) only [hcb, if_true, readU32_ok, ok_bind, List.drop_drop,
        u32_beNat, Go.next, List.length_drop, Nat.reduceAdd, gt_iff_lt]
      by_cases hl : b.length - 8 < beNat ((b.drop 4).take 4)
      · simp [hl, finM, Go.Ctl.elim, Except.map, packetOf, fill]
      · simp only [hl, decide_false, if_false, Bool.false_eq_true, decide_true, if_true]
        have hst := decodeSample_trans_eq
          { Format := UInt32.ofNat (beNat (b.take 4)), Length := UInt32.ofNat (beNat ((b.drop 4).take 4)) }
          ((b.drop 8).take (beNat ((b.drop 4).take 4)))
        simp only [u32_beNat] at hst
        cases hd : TS.SM.DecodeSample
          { Format := UInt32.ofNat (beNat (b.take 4)), Length := UInt32.ofNat (beNat ((b.drop 4).take 4)) }
          ((b.drop 8).take (beNat ((b.drop 4).take 4))) with
        | error e =>
          rw [map_err hst hd]
          simp [finM, Except.map]
        | ok t =>
          rw [map_ok hst hd]
          have hset : i < pk.Samples.length := by omega
          simp only [ok_bind, Go.setIdxL, hset, if_true]
          have := ih (b.drop (8 + beNat ((b.drop 4).take 4))) { pk with Samples := pk.Samples.set i t.2.2 } (i + 1)
            (by simp [hlen]) (by show i + 1 ≤ pk.SamplesCount.toNat; omega) (by simp only [List.length_drop]; omega)
          simp only [hk'] at this
          rw [this]
          cases sampleLoop k (b.drop (8 + beNat ((b.drop 4).take 4))) with
          | error e => rfl
          | ok rs => simp [Except.map, fill, List.map_set]
    · have hcb : (decide (i < pk.SamplesCount.toNat) && decide (b.length ≥ 8)) = false := by
        simp only [Bool.and_eq_false_iff, decide_eq_false_iff_not]; omega
      simp only [hcb, Bool.false_eq_true, if_false, ok_bind]
      cases hk : pk.SamplesCount.toNat - i with
      | zero => simp [sampleLoop, finM, Go.Ctl.elim, Except.map, packetOf, fill]
      | succ k =>
        have : ¬ 8 ≤ b.length := by omega
        simp [sampleLoop, this, finM, Go.Ctl.elim, Except.map, packetOf, fill]

theorem readBytes_short {b : Bytes} {n : Nat} (hn : 0 < n) (h : b.length < n) : Go.readBytes b n = .error .eof := by
  have h0 : ¬ n = 0 := by omega
  have h1 : (min n b.length < n) := by omega
  simp [Go.readBytes, Go.next, List.length_take, h0, h1]

theorem zeroS : sampleOf .nil = Sample.none := rfl

/-- sflow.DecodeMessage (the version word consumed, `Version` what the packet held) for every byte string -/
theorem decodeMessage_version (b : Bytes) (p : Sflow.Packet) (h : decodeMessage b = .ok p) : p.version = 5 := by
  unfold decodeMessage at h
  repeat' (first | (cases h; done) | (cases h; rfl) | split at h | dsimp only at h)

theorem decodeMessage_trans_eq (b : Bytes) (pk : TS.SM.Packet) :
    (TS.SM.DecodeMessage b pk).map (fun r => packetOf r.2) =
      (decodeMessage b).map (fun p => { p with version := pk.Version.toNat }) := by
  unfold TS.SM.DecodeMessage decodeMessage
  by_cases q : 4 ≤ b.length
  · have e := readU32_ok q
    simp only [e, ok_bind, readU_ok q]
    by_cases iv : beNat (b.take 4) = 1
    · have iv' : UInt32.ofNat 1 = 1 := rfl
      simp only [iv, iv', Go.makeBytes, ok_bind, List.length_replicate, decide_true, decide_false, Bool.true_or, Bool.or_true, Bool.false_or, Bool.or_false, Bool.or_self, if_true, if_false, Bool.false_eq_true, true_or, or_true, false_or, or_false, or_self, (by decide : ¬ (2 : UInt32) = 1), (by decide : ¬ (2 : Nat) = 1), (by decide : ¬ (4 : Nat) = 0), (by decide : ¬ (16 : Nat) = 0)]
      by_cases qa : 4 ≤ (b.drop 4).length
      · have ea := readBytes_ok (by decide : 0 < 4) qa
        have ta : takeN 4 (b.drop 4) = .ok ((b.drop 4).take 4, (b.drop 4).drop 4) := by simp only [takeN, qa, if_true]
        simp only [ea, ta, ok_bind, List.drop_drop, Nat.reduceAdd]
        by_cases q0 : 4 ≤ (b.drop 8).length
        · have e0 := readU32_ok q0
          simp only [e0, ok_bind, List.drop_drop, Nat.reduceAdd]
          by_cases q1 : 4 ≤ (b.drop 12).length
          · have e1 := readU32_ok q1
            simp only [e1, ok_bind, List.drop_drop, Nat.reduceAdd]
            by_cases q2 : 4 ≤ (b.drop 16).length
            · have e2 := readU32_ok q2
              simp only [e2, ok_bind, List.drop_drop, Nat.reduceAdd]
              by_cases q3 : 4 ≤ (b.drop 20).length
              · have e3 := readU32_ok q3
                simp only [e3, ok_bind, List.drop_drop, Nat.reduceAdd]
                simp only [List.length_drop] at *
                simp (disch := (first | omega | (simp only [List.length_drop]; omega))) only [readU_ok, readFields, List.drop_drop, Nat.reduceAdd, List.getD_cons_succ, List.getD_cons_zero]
                by_cases hcap : beNat ((b.drop 20).take 4) > 1000
                · have hcap' := (cap_iff (b.drop 20)).2 hcap
                  simp [hcap, hcap', Go.retSt, Except.map]
                · have hcap' := mt (cap_iff (b.drop 20)).1 hcap
                  simp only [hcap, hcap', decide_false, if_false, Bool.false_eq_true, Go.makeL, ok_bind]
                  refine (loop_msg _ _ _ _ ?_ ?_ ?_).trans ?_
                  · simp
                  · exact Nat.zero_le _
                  · simp [Go.loopFuel]
                  · simp only [Nat.sub_zero, u32_beNat, List.map_replicate, zeroS]
                    cases hr : sampleLoop (beNat ((b.drop 20).take 4)) (b.drop 24) with
                    | error e => rfl
                    | ok rs =>
                      simp only [Except.map, fill_replicate _ _ _ (sampleLoop_length _ _ _ hr)]
                      rfl
              · have e3 := readU32_short (Nat.lt_of_not_le q3)
                simp only [List.length_drop] at *
                simp (disch := (first | omega | (simp only [List.length_drop]; omega))) only [e3, err_bind, readU_ok, readU_short, readFields, List.drop_drop, Nat.reduceAdd, Except.map]
            · have e2 := readU32_short (Nat.lt_of_not_le q2)
              simp only [List.length_drop] at *
              simp (disch := (first | omega | (simp only [List.length_drop]; omega))) only [e2, err_bind, readU_ok, readU_short, readFields, List.drop_drop, Nat.reduceAdd, Except.map]
          · have e1 := readU32_short (Nat.lt_of_not_le q1)
            simp only [List.length_drop] at *
            simp (disch := (first | omega | (simp only [List.length_drop]; omega))) only [e1, err_bind, readU_ok, readU_short, readFields, List.drop_drop, Nat.reduceAdd, Except.map]
        · have e0 := readU32_short (Nat.lt_of_not_le q0)
          simp only [List.length_drop] at *
          simp (disch := (first | omega | (simp only [List.length_drop]; omega))) only [e0, err_bind, readU_ok, readU_short, readFields, List.drop_drop, Nat.reduceAdd, Except.map]
      · have ea := readBytes_short (by decide : 0 < 4) (Nat.lt_of_not_le qa)
        have ta : takeN 4 (b.drop 4) = .error .eof := by simp only [takeN, qa, if_false]
        simp only [ea, ta, err_bind, Except.map]
    by_cases iv : beNat (b.take 4) = 2
    · have iv' : UInt32.ofNat 2 = 2 := rfl
      simp only [iv, iv', Go.makeBytes, ok_bind, List.length_replicate, decide_true, decide_false, Bool.true_or, Bool.or_true, Bool.false_or, Bool.or_false, Bool.or_self, if_true, if_false, Bool.false_eq_true, true_or, or_true, false_or, or_false, or_self, (by decide : ¬ (2 : UInt32) = 1), (by decide : ¬ (2 : Nat) = 1), (by decide : ¬ (4 : Nat) = 0), (by decide : ¬ (16 : Nat) = 0)]
      by_cases qa : 16 ≤ (b.drop 4).length
      · have ea := readBytes_ok (by decide : 0 < 16) qa
        have ta : takeN 16 (b.drop 4) = .ok ((b.drop 4).take 16, (b.drop 4).drop 16) := by simp only [takeN, qa, if_true]
        simp only [ea, ta, ok_bind, List.drop_drop, Nat.reduceAdd]
        by_cases q0 : 4 ≤ (b.drop 20).length
        · have e0 := readU32_ok q0
          simp only [e0, ok_bind, List.drop_drop, Nat.reduceAdd]
          by_cases q1 : 4 ≤ (b.drop 24).length
          · have e1 := readU32_ok q1
            simp only [e1, ok_bind, List.drop_drop, Nat.reduceAdd]
            by_cases q2 : 4 ≤ (b.drop 28).length
            · have e2 := readU32_ok q2
              simp only [e2, ok_bind, List.drop_drop, Nat.reduceAdd]
              by_cases q3 : 4 ≤ (b.drop 32).length
              · have e3 := readU32_ok q3
                simp only [e3, ok_bind, List.drop_drop, Nat.reduceAdd]
                simp only [List.length_drop] at *
                simp (disch := (first | omega | (simp only [List.length_drop]; omega))) only [readU_ok, readFields, List.drop_drop, Nat.reduceAdd, List.getD_cons_succ, List.getD_cons_zero]
                by_cases hcap : beNat ((b.drop 32).take 4) > 1000
                · have hcap' := (cap_iff (b.drop 32)).2 hcap
                  simp [hcap, hcap', Go.retSt, Except.map]
                · have hcap' := mt (cap_iff (b.drop 32)).1 hcap
                  simp only [hcap, hcap', decide_false, if_false, Bool.false_eq_true, Go.makeL, ok_bind]
                  refine (loop_msg _ _ _ _ ?_ ?_ ?_).trans ?_
                  · simp
                  · exact Nat.zero_le _
                  · simp [Go.loopFuel]
                  · simp only [Nat.sub_zero, u32_beNat, List.map_replicate, zeroS]
                    cases hr : sampleLoop (beNat ((b.drop 32).take 4)) (b.drop 36) with
                    | error e => rfl
                    | ok rs =>
                      simp only [Except.map, fill_replicate _ _ _ (sampleLoop_length _ _ _ hr)]
                      rfl
              · have e3 := readU32_short (Nat.lt_of_not_le q3)
                simp only [List.length_drop] at *
                simp (disch := (first | omega | (simp only [List.length_drop]; omega))) only [e3, err_bind, readU_ok, readU_short, readFields, List.drop_drop, Nat.reduceAdd, Except.map]
            · have e2 := readU32_short (Nat.lt_of_not_le q2)
              simp only [List.length_drop] at *
              simp (disch := (first | omega | (simp only [List.length_drop]; omega))) only [e2, err_bind, readU_ok, readU_short, readFields, List.drop_drop, Nat.reduceAdd, Except.map]
          · have e1 := readU32_short (Nat.lt_of_not_le q1)
            simp only [List.length_drop] at *
            simp (disch := (first | omega | (simp only [List.length_drop]; omega))) only [e1, err_bind, readU_ok, readU_short, readFields, List.drop_drop, Nat.reduceAdd, Except.map]
        · have e0 := readU32_short (Nat.lt_of_not_le q0)
          simp only [List.length_drop] at *
          simp (disch := (first | omega | (simp only [List.length_drop]; omega))) only [e0, err_bind, readU_ok, readU_short, readFields, List.drop_drop, Nat.reduceAdd, Except.map]
      · have ea := readBytes_short (by decide : 0 < 16) (Nat.lt_of_not_le qa)
        have ta : takeN 16 (b.drop 4) = .error .eof := by simp only [takeN, qa, if_false]
        simp only [ea, ta, err_bind, Except.map]
    rename_i iv1
    have hv : (UInt32.ofNat (beNat (b.take 4))).toNat = beNat (b.take 4) := u32_beNat b
    have w1 : ¬ UInt32.ofNat (beNat (b.take 4)) = 1 := fun h => iv1 (by rw [← hv, h]; rfl)
    have w2 : ¬ UInt32.ofNat (beNat (b.take 4)) = 2 := fun h => iv (by rw [← hv, h]; rfl)
    simp only [iv1, iv, w1, w2, decide_true, decide_false, Bool.true_or, Bool.or_true, Bool.false_or, Bool.or_false, Bool.or_self, if_true, if_false, Bool.false_eq_true, true_or, or_true, false_or, or_false, or_self, Go.retSt, Except.map]
  · have e := readU32_short (Nat.lt_of_not_le q)
    simp only [e, err_bind, readU_short (Nat.lt_of_not_le q), Except.map]

/-- sflow.DecodeMessageVersion for every byte string and whatever the packet held before -/
theorem decodeMessageVersion_trans_eq (b : Bytes) (pk : TS.SM.Packet) :
    (TS.SM.DecodeMessageVersion b pk).map (fun r => packetOf r.2) = decodeMessageVersion b := by
  unfold TS.SM.DecodeMessageVersion decodeMessageVersion
  by_cases h4 : 4 ≤ b.length
  · rw [readU32_ok h4, readU_ok h4]
    simp only [ok_bind]
    have hv : (UInt32.ofNat (beNat (b.take 4))).toNat = beNat (b.take 4) := u32_beNat b
    by_cases h5 : beNat (b.take 4) = 5
    · have h5' : UInt32.ofNat (beNat (b.take 4)) = 5 := by rw [h5]; rfl
      simp only [h5, (show UInt32.ofNat 5 = (5 : UInt32) from rfl), ne_eq, not_true_eq_false, decide_false, if_false, Bool.false_eq_true]
      rw [decodeMessage_trans_eq]
      cases hdm : decodeMessage (b.drop 4) with
      | error e => rfl
      | ok p => simp only [Except.map]; have := decodeMessage_version _ _ hdm; cases p; simp only at this; subst this; rfl
    · have h5' : UInt32.ofNat (beNat (b.take 4)) ≠ 5 := fun h => h5 (by rw [← hv, h]; rfl)
      simp [h5', h5, Go.retSt, Except.map]
  · have h4' : b.length < 4 := by omega
    rw [readU32_short h4', readU_short h4']
    rfl

#print axioms decodeCounterRecord_trans_eq
#print axioms decodeFlowRecord_trans_eq
#print axioms decodeSample_trans_eq
#print axioms decodeMessage_trans_eq
#print axioms decodeMessageVersion_trans_eq

end Goflow.C04Trans2
